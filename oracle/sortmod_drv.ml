(* line-protocol driver around the extracted sort / breakdown model (coq/Emu/SortDefs.v).
   Same protocol as harness/sort_h.c, plus two spec-decider commands:
     R old new n a0 .. a(n-1)          -> "ok b0 .." | "die" | "oob"
     J old new n a0 .. a(n-1)          -> same, for sort_replace_nojump
     M n seg|seg|..                    -> per propagate "o0 .. o(n-1) ; k1 k2 .." joined by " | "
     W body unknown prog seg|seg|..    -> per propagate "tr tri values0 sel0 sel1 out0" joined by " | "
     S r0 r1 .. ; p0 p1 ..             -> "1" | "0"   (Spec: rows sorted and same multiset as the per-CPU values)
     B body unknown prog tt ss idle    -> bd_value as an int64 (null = 0)
     O body unknown prog seg|seg|..    -> per batch "<batch_ok> <sval = bd_of>" (model only) joined by " | "
   W and O run the model of the repaired connect_cpu (fx = true: mux_add_reselect on the task type);
   w and o are the same for the code before /repo commit bca364a (fx = false), used only to say
   which of the two a disagreeing tree behaves like. *)
open Sortmod_x

(* ---- conversions (int64 <-> extracted Z, int <-> extracted nat) *)
let rec pos_of_int64 (n : int64) : positive =
  (* n > 0, treated as unsigned 64 bit *)
  if Int64.equal n 1L then XH
  else
    let half = Int64.shift_right_logical n 1 in
    if Int64.equal (Int64.logand n 1L) 0L then XO (pos_of_int64 half) else XI (pos_of_int64 half)

let z_of_int64 (n : int64) : z =
  if Int64.equal n 0L then Z0
  else if Int64.compare n 0L > 0 then Zpos (pos_of_int64 n)
  else Zneg (pos_of_int64 (Int64.neg n))      (* neg min_int = min_int = 2^63 as unsigned: right *)

let rec int64_of_pos = function
  | XH -> 1L
  | XO p -> Int64.shift_left (int64_of_pos p) 1
  | XI p -> Int64.logor (Int64.shift_left (int64_of_pos p) 1) 1L

let int64_of_z = function
  | Z0 -> 0L
  | Zpos p -> int64_of_pos p
  | Zneg p -> Int64.neg (int64_of_pos p)

let zs s = z_of_int64 (Int64.of_string s)
let sz z = Int64.to_string (int64_of_z z)

let rec nat_of_int n = if n <= 0 then O else S (nat_of_int (n - 1))
let rec int_of_nat = function O -> 0 | S k -> 1 + int_of_nat k

let value_of_string s =
  if s = "N" then VNull
  else if String.length s > 0 && s.[0] = 'D' then VDouble (zs (String.sub s 1 (String.length s - 1)))
  else VInt (zs s)

let string_of_value = function
  | VNull -> "N"
  | VInt i -> sz i
  | VDouble b -> "D" ^ sz b

let words s = List.filter (fun w -> w <> "") (String.split_on_char ' ' s)

let sr_string = function
  | SR_ok l -> String.concat " " ("ok" :: List.map sz l)
  | SR_die -> "die"
  | SR_oob -> "oob"

(* "i=v,i=v" -> list of (key, value) *)
let parse_sets seg =
  if seg = "-" || seg = "" then []
  else
    List.map (fun w ->
        match String.index_opt w '=' with
        | Some k -> (String.sub w 0 k, value_of_string (String.sub w (k + 1) (String.length w - k - 1)))
        | None -> failwith "bad set") (String.split_on_char ',' seg)

(* a channel written several times before the propagation keeps its place in the
   dirty list (first write) and holds the last value *)
let dedupe (sets : (string * value) list) : (string * value) list =
  let order = List.fold_left (fun acc (k, _) -> if List.mem k acc then acc else acc @ [k]) [] sets in
  List.map (fun k -> (k, List.assoc k (List.rev sets))) order

let do_module n script =
  let segs = String.split_on_char '|' script in
  let st = ref (sm_init (nat_of_int n)) in
  let failed = ref false in
  let outs = List.map (fun seg ->
      if !failed then None
      else begin
        let sets = dedupe (parse_sets (String.trim seg)) in
        let written = ref [] in
        List.iter (fun (k, v) ->
            if not !failed then
              match input_changed !st (nat_of_int (int_of_string k)) v with
              | M_ok (st', ws) ->
                st := st';
                List.iter (fun (row, _) -> let r = int_of_nat row in
                            if not (List.mem r !written) then written := r :: !written) ws
              | M_err -> failed := true) sets;
        if !failed then Some "error"
        else
          Some (String.concat " " (List.map string_of_value !st.m_outputs) ^ " ;" ^
                String.concat "" (List.map (fun r -> " " ^ string_of_int r) (List.sort compare !written)))
      end) segs in
  String.concat " | " (List.filter_map (fun x -> x) outs)

let cin_of_key k =
  match k with
  | "S" -> CSS
  | "T" -> CTT
  | "I" -> CIDLE
  | _ -> failwith "bad wire"

let sel_string = function None -> "-1" | Some false -> "0" | Some true -> "1"

let do_wiring fx body unknown prog script verdicts =
  let segs = String.split_on_char '|' script in
  let st = ref w_init in
  let sm = ref (sm_init (nat_of_int 1)) in
  let failed = ref false in
  let outs = List.map (fun seg ->
      if !failed then None
      else begin
        (* no dedupe here: the model's apply_writes keeps first-write order and last value itself *)
        let b = List.map (fun (k, v) -> (cin_of_key k, v)) (parse_sets (String.trim seg)) in
        let ok = batch_ok fx body !st b in
        match cpu_event fx body unknown prog !st b with
        | None -> failed := true; Some "error"
        | Some st' ->
          st := st';
          (match input_changed !sm O (VInt st'.w_sval) with
           | M_ok (sm', _) -> sm := sm'
           | M_err -> failed := true);
          if verdicts then
            Some ((if ok then "1" else "0") ^ " " ^
                  (if int64_of_z st'.w_sval = int64_of_z (bd_of body unknown prog st') then "1" else "0"))
          else
            Some (String.concat " " [string_of_value st'.w_tr; string_of_value st'.w_tri; sz st'.w_sval;
                                     sel_string st'.w_sel0; sel_string st'.w_sel1;
                                     (match !sm.m_outputs with v :: _ -> string_of_value v | [] -> "?")])
      end) segs in
  String.concat " | " (List.filter_map (fun x -> x) outs)

let split_first_n n s =
  (* first n space-separated words and the rest of the line *)
  let rec go k pos acc =
    if k = 0 then (List.rev acc, String.sub s pos (String.length s - pos))
    else
      match String.index_from_opt s pos ' ' with
      | Some e -> go (k - 1) (e + 1) (String.sub s pos (e - pos) :: acc)
      | None -> (List.rev (String.sub s pos (String.length s - pos) :: acc), "")
  in
  go n 0 []

let () =
  try
    while true do
      let line = input_line stdin in
      let ans =
        try
          if String.length line < 2 then "?"
          else
            let rest = String.sub line 2 (String.length line - 2) in
            match line.[0] with
            | 'R' | 'J' ->
              (match words rest with
               | o :: nw :: _n :: arr ->
                 let f = if line.[0] = 'R' then sort_replace else sort_replace_nojump in
                 sr_string (f (List.map zs arr) (zs o) (zs nw))
               | _ -> "?")
            | 'M' ->
              let (hd, script) = split_first_n 1 rest in
              (match hd with [n] -> do_module (int_of_string n) script | _ -> "?")
            | 'W' | 'O' | 'w' | 'o' ->
              let (hd, script) = split_first_n 3 rest in
              (match hd with
               | [b; u; p] ->
                 do_wiring (line.[0] = 'W' || line.[0] = 'O') (zs b) (zs u) (zs p) script (line.[0] = 'O' || line.[0] = 'o')
               | _ -> "?")
            | 'S' ->
              (match String.split_on_char ';' rest with
               | [r; p] -> if rows_ok (List.map zs (words r)) (List.map zs (words p)) then "1" else "0"
               | _ -> "?")
            | 'B' ->
              (match words rest with
               | [b; u; p; tt; ss; idle] ->
                 sz (to_i64 (bd_value (zs b) (zs u) (zs p) (value_of_string tt) (value_of_string ss) (value_of_string idle)))
               | _ -> "?")
            | _ -> "?"
        with Failure m -> "error " ^ m | Not_found -> "error notfound"
      in
      print_endline ans
    done
  with End_of_file -> ()
