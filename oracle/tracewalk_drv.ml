(* line-protocol driver around the extracted GENERATED trace.c:trace_load (C03, unit traceload:
   Gen/TraceLoad_gen.v over Emu/TraceLoadPre.v)

   W <trace directory as given to trace_load, hex> <visited path hex>:<F|D>;... [X]  ('-' = nftw visits nothing)
        the environment: opendir (unless X is given) and closedir succeed, nftw visits the listed paths in the listed order
        (F = regular file, D = anything else), every stream_load succeeds
        answer:  fail | ok n=<nstreams> <relpath hex>,...   ('-' for none, '.' for an empty relpath) *)
open Tracewalk_x

let rec pos_of_int n = if n = 1 then XH else if n land 1 = 0 then XO (pos_of_int (n lsr 1)) else XI (pos_of_int (n lsr 1))
let z_of_int n = if n = 0 then Z0 else if n > 0 then Zpos (pos_of_int n) else Zneg (pos_of_int (-n))
let rec int_of_pos = function XH -> 1 | XO p -> 2 * int_of_pos p | XI p -> 2 * int_of_pos p + 1
let int_of_z = function Z0 -> 0 | Zpos p -> int_of_pos p | Zneg p -> - (int_of_pos p)

let bytes_of_hex s =
  let n = String.length s / 2 in
  List.init n (fun i -> z_of_int (int_of_string ("0x" ^ String.sub s (2*i) 2)))
let hex_of_bytes l = if l = [] then "." else String.concat "" (List.map (fun z -> Printf.sprintf "%02x" (int_of_z z)) l)

let () =
  try
    while true do
      let line = input_line stdin in
      (match String.split_on_char ' ' line with
      | "W" :: d :: w :: rest ->
        let entry e = match String.split_on_char ':' e with
          | [p; "F"] -> (bytes_of_hex p, c_FTW_F)
          | [p; _] -> (bytes_of_hex p, z_of_int (int_of_z c_FTW_F + 1))
          | _ -> failwith "entry" in
        let walk = if w = "-" then [] else List.map entry (String.split_on_char ';' w) in
        let env = { x_open = (fun _ -> rest <> ["X"]); x_close = true; x_walk = (fun _ -> Some walk);
                    x_stream = (fun _ _ -> Some { s_off = Z0; s_evs = [] }) } in
        let st0 = { t_dir = [z_of_int 1]; t_streams = []; t_n = z_of_int 7; t_cur = None } in
        (match trace_load (Some ()) (bytes_of_hex d) env st0 with
         | Err _ -> print_endline "fail"
         | Ok (_, st) ->
           let rels = List.map (fun x -> hex_of_bytes (fst x)) st.t_streams in
           print_endline (Printf.sprintf "ok n=%d %s" (int_of_z st.t_n) (if rels = [] then "-" else String.concat "," rels)))
      | _ -> print_endline "?")
    done
  with End_of_file -> ()
