(* line-protocol driver around the extracted loader model (stream.c, emu_ev.c, metadata gates)

   S <new|old> <unsorted:0|1> <hex>    load + walk a stream.obs          -> verdict line
   T <sorted:0|1> <hex>                format specification (decider)     -> valid <events> | invalid
   Z <hex>                             ovni_ev_size / ovni_payload_size of the event at offset 0 (junk = 0)
   E <new|old> <hex>;<hex>;...         emu_ev over a sequence of events, same struct reused
   M <13 tokens>                       metadata gates
   U <new|old> <enabled ids ,> <hex>   emulate one stream with the jumbo-checking handler
   verdict line: loaderr <why> | end <evs> | err <why> <evs> | oob <pos> <evs> | overflow <evs>
                 | noprogress <off> <evs> | fuel <evs>       evs = off:size:clock,... or -          *)
open Loader_x

let rec pos_of_int n = if n = 1 then XH else if n land 1 = 0 then XO (pos_of_int (n lsr 1)) else XI (pos_of_int (n lsr 1))
let z_of_int n = if n = 0 then Z0 else if n > 0 then Zpos (pos_of_int n) else Zneg (pos_of_int (-n))
let rec i64_of_pos = function
  | XH -> 1L | XO p -> Int64.mul 2L (i64_of_pos p) | XI p -> Int64.add (Int64.mul 2L (i64_of_pos p)) 1L
let i64_of_z = function Z0 -> 0L | Zpos p -> i64_of_pos p | Zneg p -> Int64.neg (i64_of_pos p)
let zs z = Int64.to_string (i64_of_z z)

let bytes_of_hex s =
  if s = "-" then [] else
  let n = String.length s / 2 in
  List.init n (fun i -> z_of_int (int_of_string ("0x" ^ String.sub s (2*i) 2)))

let junk = fun _ -> Z0

let evs_str evs =
  if evs = [] then "-" else
  String.concat "," (List.map (fun ((o, s), c) -> zs o ^ ":" ^ zs s ^ ":" ^ zs c) evs)

let load_err_str = function
  | LEmpty -> "empty" | LShortHeader -> "short"
  | LBadHeader (m, v) -> "header" ^ (if m then "+magic" else "") ^ (if v then "+version" else "")
  | LImpossible -> "impossible"

let step_err_str = function
  | EInactive -> "inactive" | EExceeds -> "exceeds" | EIncomplete -> "incomplete" | EClockBackwards -> "clock"

let run_str = function
  | RunLoadErr e -> "loaderr " ^ load_err_str e
  | Run (v, evs) ->
    (match v with
     | VEnd -> "end " ^ evs_str evs
     | VErr e -> "err " ^ step_err_str e ^ " " ^ evs_str evs
     | VOob p -> "oob " ^ zs p ^ " " ^ evs_str evs
     | VSOverflow -> "overflow " ^ evs_str evs
     | VNoProgress p -> "noprogress " ^ zs p ^ " " ^ evs_str evs
     | VFuel -> "fuel " ^ evs_str evs)

let b2s b = if b then "1" else "0"

let emu_str e =
  Printf.sprintf "%s.%s.%s:%s:%s:%s:%s" (zs e.e_m) (zs e.e_c) (zs e.e_v) (b2s e.e_has_payload)
    (Printf.sprintf "%Lu" (i64_of_z e.e_payload_size)) (b2s e.e_is_jumbo) (b2s e.e_payload_null)

let jval_of s =
  if s = "-" then JMissing
  else if s = "o" then JObj
  else if s = "x" then JOther
  else if s.[0] = 'n' then JNum (z_of_int (int_of_string (String.sub s 1 (String.length s - 1))))
  else if s.[0] = 's' then JStr (bytes_of_hex (if String.length s = 1 then "-" else String.sub s 1 (String.length s - 1)))
  else failwith "bad jval"

let meta_err_str = function
  | MUnparsable -> "unparsable" | MNotObject -> "notobject" | MNoVersion -> "noversion" | MVersionMismatch -> "version"
  | MNoPart -> "nopart" | MNoLoom -> "noloom" | MBadLoomName -> "badloom" | MNoPid -> "nopid" | MBadAppId -> "badappid"
  | MNoTid -> "notid" | MNotFinished -> "notfinished" | MNoLibVersion -> "nolibversion" | MNoLibCommit -> "nolibcommit"
  | MNoAppId -> "noappid" | MNoRequire -> "norequire"

let () =
  try
    while true do
      let line = input_line stdin in
      (try
        match String.split_on_char ' ' line with
        | ["S"; which; u; hex] ->
          let bs = bytes_of_hex hex in
          let r = if which = "old" then run_old bs junk (u = "1") else run bs junk (u = "1") in
          print_endline (run_str r)
        | ["T"; sorted; hex] ->
          (match tiles (bytes_of_hex hex) (sorted = "1") with
           | None -> print_endline "invalid"
           | Some evs -> print_endline ("valid " ^ evs_str evs))
        | ["Z"; hex] ->
          let ev = { ebuf = bytes_of_hex hex; eoff = Z0; ejunk = junk } in
          print_endline (zs (ovni_ev_size ev) ^ " " ^ zs (ovni_payload_size ev))
        | ["E"; which; evs] ->
          let dec = if which = "old" then emu_ev_old else emu_ev in
          let _, out = List.fold_left (fun (prev, acc) hex ->
              let e = dec prev { ebuf = bytes_of_hex hex; eoff = Z0; ejunk = junk } in
              (e, emu_str e :: acc)) (emu_ev_zero, []) (String.split_on_char ';' evs) in
          print_endline (String.concat " " (List.rev out))
        | ["M"; parses; isobj; version; part; loom; pid; tid; appid; finished; require; libv; libc; procapp] ->
          let m = { m_parses = (parses = "1"); m_is_object = (isobj = "1"); m_version = jval_of version;
                    m_part = jval_of part; m_loom = jval_of loom; m_pid = jval_of pid; m_tid = jval_of tid;
                    m_app_id = jval_of appid; m_finished = jval_of finished; m_require = jval_of require;
                    m_lib_version = jval_of libv; m_lib_commit = jval_of libc } in
          (match meta_check m (procapp = "1") with
           | MetaOk -> print_endline "ok" | MetaIgnored -> print_endline "ignored"
           | MetaErr e -> print_endline ("err " ^ meta_err_str e))
        | ["U"; which; enabled; hex] ->
          let en = List.map (fun x -> z_of_int (int_of_string x)) (if enabled = "-" then [] else String.split_on_char ',' enabled) in
          let dec = if which = "old" then emu_ev_old else emu_ev in
          let all = List.init 256 z_of_int in
          (match emulate dec all en jumbo_checking_handler (bytes_of_hex hex) junk with
           | FinishedOk -> print_endline "ok" | FinishedWithErrors -> print_endline "errors")
        | _ -> print_endline "?"
      with Failure m -> print_endline ("? " ^ m))
    done
  with End_of_file -> ()
