(* scenario protocol driver around the extracted Paraver-writer model (coq/Emu/PvDefs.v): prints the bytes of
   thread.{prv,pcf,row} and cpu.{prv,pcf,row} the model writes for a scenario (see lib/checks/c13.py).
   Input: the scenario lines of lib/vf/emucore.py Scenario.oracle_text plus one line "Y <phyid of each CPU in
   gindex order, -1 for a virtual CPU>". *)
open Pv_x

let rec pos_of_int n = if n = 1 then XH else if n land 1 = 0 then XO (pos_of_int (n lsr 1)) else XI (pos_of_int (n lsr 1))
let z_of_int n = if n = 0 then Z0 else if n > 0 then Zpos (pos_of_int n) else Zneg (pos_of_int (-n))
let rec int_of_pos = function XH -> 1 | XO p -> 2 * int_of_pos p | XI p -> 2 * int_of_pos p + 1
let int_of_z = function Z0 -> 0 | Zpos p -> int_of_pos p | Zneg p -> - (int_of_pos p)
let rec nat_of_int n = if n <= 0 then O else S (nat_of_int (n - 1))
let rec int_of_nat = function O -> 0 | S n -> 1 + int_of_nat n

let zi s = z_of_int (int_of_string s)
let ni s = nat_of_int (int_of_string s)
let bo s = s = "1"

let bytes_of_hex s =
  if s = "-" then [] else
  let n = String.length s / 2 in
  List.init n (fun i -> z_of_int (int_of_string ("0x" ^ String.sub s (2*i) 2)))

let hexstr l =
  let b = Buffer.create 1024 in
  List.iter (fun z -> Buffer.add_string b (Printf.sprintf "%02x" (int_of_z z land 255))) l;
  if Buffer.length b = 0 then "-" else Buffer.contents b

let () =
  let threads = ref [] and cpus = ref [] and lint = ref false and enabled = ref [] and rawevs = ref []
  and mdefs = ref [] and phy = ref [] in
  let reset () = threads := []; cpus := []; lint := false; enabled := []; rawevs := []; mdefs := []; phy := [] in
  try
    while true do
      let line = input_line stdin in
      match String.split_on_char ' ' (String.trim line) with
      | ["T"; tid; pid; loom; app; rank] -> threads := { ti_tid = zi tid; ti_pid = zi pid; ti_loom = ni loom; ti_appid = zi app; ti_rank = zi rank } :: !threads
      | ["C"; virt; loom; index] -> cpus := { ci_virtual = bo virt; ci_loom = ni loom; ci_index = zi index } :: !cpus
      | "Y" :: l -> phy := List.map zi l
      | "L" :: l :: _ -> lint := bo l
      | "M" :: ids -> enabled := List.map zi ids
      | ["K"; th; ty; stack; title; labels] ->
        let ls = if labels = "-" then [] else
            List.map (fun kv -> match String.split_on_char ':' kv with
                | [v; l] -> (zi v, bytes_of_hex l) | _ -> failwith "bad label") (String.split_on_char ',' labels) in
        mdefs := (int_of_string th, { md_type = zi ty; md_title = bytes_of_hex title; md_stack = bo stack; md_labels = ls }) :: !mdefs
      | ["R"; tm; who; m; c; v; payload] ->
        rawevs := (((((zi tm, ni who), ((zi m, zi c), zi v)), bytes_of_hex payload), false), zi "0") :: !rawevs
      | ["R"; tm; who; m; c; v; payload; jumbo; aux] ->
        rawevs := (((((zi tm, ni who), ((zi m, zi c), zi v)), bytes_of_hex payload), bo jumbo), zi aux) :: !rawevs
      | "OPS" :: ops ->
        (* script of writer operations, same protocol as harness/pv_h.c *)
        let pcf = ref [] and prf = ref (prf_open O) and prv = ref (prv_open Z0) and failed = ref (-1) and opened = ref false in
        let split c s = String.split_on_char c s in
        List.iteri (fun k tok ->
            if !failed < 0 && String.length tok > 0 then begin
              let body = String.sub tok 1 (String.length tok - 1) in
              let ok = match tok.[0], split ':' body with
                | 'R', [n] -> prf := prf_open (ni n); prv := prv_open (zi n); opened := true; true
                | 'T', [id; l] -> (match pcf_add_type !pcf (zi id) (bytes_of_hex l) with Ok p -> pcf := p; true | Err _ -> false)
                | 'V', [id; v; l] -> (match pcf_add_value !pcf (zi id) (zi v) (bytes_of_hex l) with Ok p -> pcf := p; true | Err _ -> false)
                | 'A', [i; l] -> (match prf_add !prf (zi i) (bytes_of_hex l) with Ok p -> prf := p; true | Err _ -> false)
                | 'G', [row; ty; fl] -> (match prv_register !prv (zi row) (zi ty) (zi fl) with Ok p -> prv := p; true | Err _ -> false)
                | 'D', [t] -> (match prv_advance !prv (zi t) with Ok p -> prv := p; true | Err _ -> false)
                | _ -> true in
              if not ok then failed := k
            end) ops;
        if !failed >= 0 || not !opened then Printf.printf "E %d\n" !failed
        else Printf.printf "ok %s %s %s\n" (hexstr (pcf_text !pcf))
            (match prf_close !prf with Ok t -> hexstr t | Err _ -> "rowerr") (hexstr (prv_close !prv))
      | ["BD"; model; n; tvals; steps] ->
        (* breakdown trace (coq/Emu/PvBreakdownDefs.v bd_emulate): model, number of physical CPUs, task values gid:hexlabel,...
           and the steps  time;input=value,input=value|time;...  (clock relative to the first event, changes of the sort inputs) *)
        let cfg = if model = "nosv" then bd_nosv else bd_nanos6 in
        let split c s = if s = "-" || s = "" then [] else String.split_on_char c s in
        let tv = List.map (fun kv -> match String.split_on_char ':' kv with
            | [v; l] -> (zi v, bytes_of_hex l) | _ -> failwith "bad task value") (split ',' tvals) in
        let st = List.map (fun s -> match String.split_on_char ';' s with
            | [t; ch] -> (zi t, List.map (fun iv -> match String.split_on_char '=' iv with
                | [i; v] -> (ni i, VInt (zi v)) | _ -> failwith "bad change") (split ',' ch))
            | _ -> failwith "bad step") (split '|' steps) in
        (match bd_emulate cfg (ni n) tv st with
         | Err e -> Printf.printf "bd err %d\n" (int_of_nat e)
         | Ok f -> Printf.printf "bd ok %s %s %s\n" (hexstr f.f_prv) (hexstr f.f_pcf) (hexstr f.f_row))
      | ["end"] ->
        let nth = List.length !threads in
        (match merge_threads (List.init nth (fun g -> List.map snd (List.filter (fun (t, _) -> t = g) (List.rev !mdefs)))) with
         | None -> print_endline "err 13"
         | Some ms ->
           let cs = mk_chans !enabled @ mark_chans ms in
           let sx = { s_threads = List.rev !threads; s_cpus = List.rev !cpus; s_chans = cs; s_lint = !lint } in
           let lc = lint_chans (mk_chans !enabled) in
           let revs = List.rev !rawevs in
           let es = List.map (fun (((((tm, who), ((m, c), v)), p), j), aux) -> ((tm, who), decode_all !enabled cs m c v p j aux)) revs in
           let tl = tlabels_of sx revs in
           (match emulate sx !phy !enabled ms lc tl es with
            | Err e -> Printf.printf "err %d\n" (int_of_nat e)
            | Ok o ->
              print_endline "ok";
              Printf.printf "FILE thread.prv %s\n" (hexstr o.o_th.f_prv);
              Printf.printf "FILE thread.pcf %s\n" (hexstr o.o_th.f_pcf);
              Printf.printf "FILE thread.row %s\n" (hexstr o.o_th.f_row);
              Printf.printf "FILE cpu.prv %s\n" (hexstr o.o_cpu.f_prv);
              Printf.printf "FILE cpu.pcf %s\n" (hexstr o.o_cpu.f_pcf);
              Printf.printf "FILE cpu.row %s\n" (hexstr o.o_cpu.f_row)));
        print_endline "done";
        reset ()
      | _ -> ()
    done
  with End_of_file -> ()
