(* line-protocol driver around the extracted runtime-metadata model (coq/Rt/RtMetaDefs.v)

   M <libver hex> <commit hex> <model version hex> <ops: slot:op;slot:op;...>
        op ::= I<app>,<loom hex>,<pid>     ovni_proc_init
             | E                           ovni_proc_fini
             | T<tid>                      ovni_thread_init
             | X | Xe                      ovni_thread_free (Xe: the real driver emits OHx OHe + ovni_flush first)
             | C<index>,<phyid>            ovni_add_cpu
             | R<rank>,<nranks>            ovni_proc_set_rank
             | Q<model hex>,<version hex>  ovni_thread_require
             | s<key hex>,<value hex>      ovni_attr_set_str
             | d<key hex>,<int>            ovni_attr_set_double
             | b<key hex>,<0|1>            ovni_attr_set_boolean
             | j<key hex>,<text hex>,<tree> ovni_attr_set_json (text is for the real driver, tree for the model)
             | h<key hex>                  ovni_attr_has
             | gs|gd|gb|gj<key hex>        ovni_attr_get_str/double/boolean/json
             | f                           ovni_attr_flush
             | F                           ovni_flush
        hex: "z" = empty string
        tree ::= n | t | f | i<decimal>. | s<hex>. | a<count>.<tree>* | o<count>.(<key hex>.<tree>)*
     -> conf=<0|1> then one token per executed call: die | out | ok/<tid>=<tree>|-/<obs tree>|-
   N <libver hex> <commit hex> <model version hex> <ops>   the same with the mark calls of C17 (coq/Rt/MarkJsonDefs.v: mrun):
             | m<type>,<flags>,<title hex|N>      ovni_mark_type   (N = NULL)
             | l<type>,<value>,<label hex|N>      ovni_mark_label
     -> one token per executed call as for M (no conf= field: "mark")
   P <tree> <tree> ...                      -> what the emulator makes of the "ovni.mark" metadata of these threads (emulation order):
        refused | types <T;T;..|-> pcf <refused|S;S;..|->
        T ::= <type>:<0 single|1 stack>:<title hex>:<v>=<label hex>,...    S ::= <prv type>:<title hex>:<v>=<label hex>,...
   K <0|1: some stream of the process has app_id> <tree>   -> meta_check (to_loader_meta tree): MetaOk | MetaIgnored | MetaErr:<name>
   Q <tree>                                 -> thread_req: none | <model hex>=<version hex>,...
   S <tree>                                 -> stream_meta: none | loom hex;pid;tid;app|-;rank|-;nranks|-;cpus (i:p,...)|- *)
open Rtmeta_x

let rec pos_of_int n = if n = 1 then XH else if n land 1 = 0 then XO (pos_of_int (n lsr 1)) else XI (pos_of_int (n lsr 1))
let z_of_int n = if n = 0 then Z0 else if n > 0 then Zpos (pos_of_int n) else Zneg (pos_of_int (-n))
let rec int_of_pos = function XH -> 1 | XO p -> 2 * int_of_pos p | XI p -> 2 * int_of_pos p + 1
let int_of_z = function Z0 -> 0 | Zpos p -> int_of_pos p | Zneg p -> - (int_of_pos p)
let rec nat_of_int n = if n <= 0 then O else S (nat_of_int (n - 1))

let byte_tab = Array.init 256 z_of_int
let hexval c = match c with '0'..'9' -> Char.code c - 48 | 'a'..'f' -> Char.code c - 87 | 'A'..'F' -> Char.code c - 55 | _ -> failwith "hex"
let bytes_of_hex s =
  if s = "z" then [] else
  let n = String.length s / 2 in
  List.init n (fun i -> byte_tab.(hexval s.[2*i] * 16 + hexval s.[2*i+1]))
let hex_of_bytes (l : z list) =
  if l = [] then "z" else String.concat "" (List.map (fun z -> Printf.sprintf "%02x" (int_of_z z)) l)

(* integers of the protocol: any int64 (mark values), printed/parsed through Int64 *)
let rec pos_of_int64 (n : int64) =
  if n = 1L then XH
  else if Int64.logand n 1L = 0L then XO (pos_of_int64 (Int64.shift_right_logical n 1))
  else XI (pos_of_int64 (Int64.shift_right_logical n 1))
let z_of_int64 (n : int64) =
  if n = 0L then Z0 else if n > 0L then Zpos (pos_of_int64 n)
  else if n = Int64.min_int then Zneg (XO (pos_of_int64 (Int64.shift_right_logical n 1)))
  else Zneg (pos_of_int64 (Int64.neg n))
let rec int64_of_pos = function XH -> 1L | XO p -> Int64.mul 2L (int64_of_pos p) | XI p -> Int64.add (Int64.mul 2L (int64_of_pos p)) 1L
let int64_of_z = function Z0 -> 0L | Zpos p -> int64_of_pos p | Zneg p -> Int64.neg (int64_of_pos p)
let z_of_string s = z_of_int64 (Int64.of_string s)
let string_of_z z = Int64.to_string (int64_of_z z)

(* --- tree encoding *)
let rec enc (j : json) : string =
  match j with
  | Jnull -> "n"
  | Jbool true -> "t"
  | Jbool false -> "f"
  | Jnum z -> "i" ^ string_of_z z ^ "."
  | Jstr s -> "s" ^ hex_of_bytes s ^ "."
  | Jarr l -> "a" ^ string_of_int (List.length l) ^ "." ^ String.concat "" (List.map enc l)
  | Jobj fs -> "o" ^ string_of_int (List.length fs) ^ "." ^
               String.concat "" (List.map (fun (k, v) -> hex_of_bytes k ^ "." ^ enc v) fs)

let dec (s : string) : json =
  let pos = ref 0 in
  let upto_dot () =
    let i = String.index_from s !pos '.' in
    let r = String.sub s !pos (i - !pos) in
    pos := i + 1; r in
  let rec go () =
    let c = s.[!pos] in
    incr pos;
    match c with
    | 'n' -> Jnull
    | 't' -> Jbool true
    | 'f' -> Jbool false
    | 'i' -> Jnum (z_of_string (upto_dot ()))
    | 's' -> Jstr (bytes_of_hex (upto_dot ()))
    | 'a' -> let n = int_of_string (upto_dot ()) in
      let rec elems k = if k = 0 then [] else let e = go () in e :: elems (k - 1) in
      Jarr (elems n)
    | 'o' -> let n = int_of_string (upto_dot ()) in
      let rec flds k = if k = 0 then [] else
          let key = bytes_of_hex (upto_dot ()) in
          let v = go () in (key, v) :: flds (k - 1) in
      Jobj (flds n)
    | _ -> failwith "tree" in
  let j = go () in
  if !pos <> String.length s then failwith "tree: trailing";
  j

let args s = String.split_on_char ',' s

let parse_op (s : string) : op =
  let rest = String.sub s 1 (String.length s - 1) in
  match s.[0] with
  | 'I' -> (match args rest with [a; l; p] -> ProcInit (z_of_string a, bytes_of_hex l, z_of_string p) | _ -> failwith "I")
  | 'E' -> ProcFini
  | 'T' -> ThreadInit (z_of_string rest)
  | 'X' -> ThreadFree
  | 'C' -> (match args rest with [a; b] -> AddCpu (z_of_string a, z_of_string b) | _ -> failwith "C")
  | 'R' -> (match args rest with [a; b] -> ProcSetRank (z_of_string a, z_of_string b) | _ -> failwith "R")
  | 'Q' -> (match args rest with [a; b] -> Require (bytes_of_hex a, bytes_of_hex b) | _ -> failwith "Q")
  | 's' -> (match args rest with [a; b] -> AttrSetStr (bytes_of_hex a, bytes_of_hex b) | _ -> failwith "s")
  | 'd' -> (match args rest with [a; b] -> AttrSetDouble (bytes_of_hex a, z_of_string b) | _ -> failwith "d")
  | 'b' -> (match args rest with [a; b] -> AttrSetBool (bytes_of_hex a, b = "1") | _ -> failwith "b")
  | 'j' -> (match args rest with [a; _; t] -> AttrSetJson (bytes_of_hex a, dec t) | _ -> failwith "j")
  | 'h' -> AttrHas (bytes_of_hex rest)
  | 'g' -> let k = bytes_of_hex (String.sub rest 1 (String.length rest - 1)) in
    (match rest.[0] with 's' -> AttrGetStr k | 'd' -> AttrGetDouble k | 'b' -> AttrGetBool k | 'j' -> AttrGetJson k | _ -> failwith "g")
  | 'f' -> AttrFlush
  | 'F' -> Flush
  | _ -> failwith "op"

let opt_hex s = if s = "N" then None else Some (bytes_of_hex s)
let parse_mop (s : string) : mop =
  let rest = String.sub s 1 (String.length s - 1) in
  match s.[0] with
  | 'm' -> (match args rest with [a; b; c] -> MMarkType (z_of_string a, z_of_string b, opt_hex c) | _ -> failwith "m")
  | 'l' -> (match args rest with [a; b; c] -> MMarkLabel (z_of_string a, z_of_string b, opt_hex c) | _ -> failwith "l")
  | _ -> MBase (parse_op s)

let split_prog (s : string) : (int * string) list =
  if s = "-" then [] else
  List.map (fun t ->
      let i = String.index t ':' in
      (int_of_string (String.sub t 0 i), String.sub t (i + 1) (String.length t - i - 1)))
    (String.split_on_char ';' s)

let labels_txt (l : (z * z list) list) =
  String.concat "," (List.map (fun (v, s) -> string_of_z v ^ "=" ^ hex_of_bytes s) l)

let parse_prog (s : string) : prog =
  if s = "-" then [] else
  List.map (fun t ->
      let i = String.index t ':' in
      (nat_of_int (int_of_string (String.sub t 0 i)), parse_op (String.sub t (i + 1) (String.length t - i - 1))))
    (String.split_on_char ';' s)

let err_name = function
  | MUnparsable -> "MUnparsable" | MNotObject -> "MNotObject" | MNoVersion -> "MNoVersion"
  | MVersionMismatch -> "MVersionMismatch" | MNoPart -> "MNoPart" | MNoLoom -> "MNoLoom"
  | MBadLoomName -> "MBadLoomName" | MNoPid -> "MNoPid" | MBadAppId -> "MBadAppId" | MNoTid -> "MNoTid"
  | MNotFinished -> "MNotFinished" | MNoLibVersion -> "MNoLibVersion" | MNoLibCommit -> "MNoLibCommit"
  | MNoAppId -> "MNoAppId" | MNoRequire -> "MNoRequire"

let optz = function None -> "-" | Some z -> string_of_z z

let () =
  try
    while true do
      let line = input_line stdin in
      (try
        match String.split_on_char ' ' line with
        | ["M"; lv; lc; mv; ops] ->
          let c = { c_lib_version = bytes_of_hex lv; c_lib_commit = bytes_of_hex lc; c_model_version = bytes_of_hex mv } in
          let p = parse_prog ops in
          let (evs, _) = rtm_run c p in
          let tok = function
            | EvDie -> "die"
            | EvOut -> "out"
            | EvOk (w, o) ->
              "ok/" ^ (match w with None -> "-" | Some (tid, j) -> string_of_z tid ^ "=" ^ enc j) ^ "/" ^
              (match o with None -> "-" | Some j -> enc j) in
          Printf.printf "conf=%d %s\n" (if meta_conformant p then 1 else 0) (String.concat " " (List.map tok evs))
        | ["N"; lv; lc; mv; ops] ->
          let c = { c_lib_version = bytes_of_hex lv; c_lib_commit = bytes_of_hex lc; c_model_version = bytes_of_hex mv } in
          let p = List.map (fun (sl, o) -> (nat_of_int sl, parse_mop o)) (split_prog ops) in
          let (evs, _) = mrun c p in
          let tok = function
            | EvDie -> "die"
            | EvOut -> "out"
            | EvOk (w, o) ->
              "ok/" ^ (match w with None -> "-" | Some (tid, j) -> string_of_z tid ^ "=" ^ enc j) ^ "/" ^
              (match o with None -> "-" | Some j -> enc j) in
          Printf.printf "mark %s\n" (String.concat " " (List.map tok evs))
        | "P" :: trees ->
          let ts = List.map dec (List.filter (fun x -> x <> "") trees) in
          (match emu_types_of_trees ts with
           | None -> print_endline "refused"
           | Some ms ->
             let tt = String.concat ";" (List.map (fun m ->
                 Printf.sprintf "%s:%d:%s:%s" (string_of_z m.mt_type) (if m.mt_stack then 1 else 0) (hex_of_bytes m.mt_title) (labels_txt m.mt_labels)) ms) in
             let pp = match emu_pcf_of_trees ts with
               | None -> "refused"
               | Some secs ->
                 let x = String.concat ";" (List.map (fun ((ty, ti), vs) ->
                     Printf.sprintf "%s:%s:%s" (string_of_z ty) (hex_of_bytes ti) (labels_txt vs)) secs) in
                 if x = "" then "-" else x in
             Printf.printf "types %s pcf %s\n" (if tt = "" then "-" else tt) pp)
        | ["K"; has; t] ->
          (match meta_check (to_loader_meta (dec t)) (has = "1") with
           | MetaOk -> print_endline "MetaOk"
           | MetaIgnored -> print_endline "MetaIgnored"
           | MetaErr e -> print_endline ("MetaErr:" ^ err_name e))
        | ["Q"; t] ->
          (match to_thread_req (dec t) with
           | None -> print_endline "none"
           | Some l -> print_endline ("req " ^ String.concat "," (List.map (fun (k, v) -> hex_of_bytes k ^ "=" ^ hex_of_bytes v) l)))
        | "B" :: ts ->
          (* the emulator's metadata merge (Emu/MetaDefs.build, C15) on the per-stream records read from the given trees *)
          let ms = List.map (fun t -> to_stream_meta (dec t)) ts in
          if List.exists (fun m -> m = None) ms then print_endline "nometa"
          else
            (match rtm_build (List.map (function Some m -> m | None -> failwith "none") ms) with
             | Err -> print_endline "err"
             | Crash -> print_endline "crash"
             | Ok sys ->
               let t = List.map (fun (_, (((_, _), t), a)) -> "TH " ^ string_of_z a ^ "." ^ string_of_z t) (rtm_thread_rows sys) in
               let c = List.map (fun (_, ((g, _), c)) ->
                   match c with
                   | Some (_, p) -> " CPU " ^ string_of_z g ^ "." ^ string_of_z p
                   | None -> "vCPU " ^ string_of_z g ^ ".*") (rtm_cpu_rows sys) in
               print_endline ("ok|" ^ String.concat ";" t ^ "|" ^ String.concat ";" c))
        | ["X"; lv; lc; mv; ops] ->
          (* expected_metas of a program = the records its final trees read back as (C02_metadata_stream_metas) *)
          let c = { c_lib_version = bytes_of_hex lv; c_lib_commit = bytes_of_hex lc; c_model_version = bytes_of_hex mv } in
          let p = parse_prog ops in
          let (evs, _) = rtm_run c p in
          print_endline (if final_metas p evs = Some (expected_metas p) then "same" else "differ")
        | ["S"; t] ->
          (match to_stream_meta (dec t) with
           | None -> print_endline "none"
           | Some m ->
             Printf.printf "%s;%s;%s;%s;%s;%s;%s\n" (hex_of_bytes m.s_loom) (string_of_z m.s_pid) (string_of_z m.s_tid)
               (optz m.s_app) (optz m.s_rank) (optz m.s_nranks)
               (match m.s_cpus with None -> "-" | Some l -> "[" ^ String.concat "," (List.map (fun (i, p) -> string_of_z i ^ ":" ^ string_of_z p) l) ^ "]"))
        | _ -> print_endline "?"
      with Failure m -> print_endline ("? " ^ m) | Not_found -> print_endline "? syntax" | Invalid_argument m -> print_endline ("? " ^ m));
      flush stdout
    done
  with End_of_file -> ()
