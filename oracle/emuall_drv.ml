(* whole-trace protocol driver around the extracted composition EmuAllDefs.ovniemu_model (see lib/vf/emuall.py):
   TRACE <lint> <all> / CLK <hex|-> / GID <labelhex> <gid> / per stream: S <pathhex> <obshex>, m <12 jval tokens>,
   s <loomhex> <pid> <tid> <app|-> <rank|-> <nranks|-> <cpus>, q <require>, j <json tokens> / END
   answer: "refused <tag>" or "ok" + six FILE lines, then "done". *)
open Emuall_x

let rec pos_of_int n = if n = 1 then XH else if n land 1 = 0 then XO (pos_of_int (n lsr 1)) else XI (pos_of_int (n lsr 1))
let z_of_int n = if n = 0 then Z0 else if n > 0 then Zpos (pos_of_int n) else Zneg (pos_of_int (-n))
let rec int_of_pos = function XH -> 1 | XO p -> 2 * int_of_pos p | XI p -> 2 * int_of_pos p + 1
let int_of_z = function Z0 -> 0 | Zpos p -> int_of_pos p | Zneg p -> - (int_of_pos p)
let rec int_of_nat = function O -> 0 | S n -> 1 + int_of_nat n
let zi s = z_of_int (int_of_string s)
let bo s = s = "1"
let bytes_of_hex s =
  if s = "-" || s = "" then [] else
  let n = String.length s / 2 in
  List.init n (fun i -> z_of_int (int_of_string ("0x" ^ String.sub s (2*i) 2)))
let hexstr l =
  let b = Buffer.create 1024 in
  List.iter (fun z -> Buffer.add_string b (Printf.sprintf "%02x" (int_of_z z land 255))) l;
  if Buffer.length b = 0 then "-" else Buffer.contents b
let tail1 s = String.sub s 1 (String.length s - 1)
let optz s = if s = "-" then None else Some (zi s)

let jval_of tok =
  if tok = "-" then JMissing else
  match tok.[0] with
  | 'n' -> JNum (zi (tail1 tok))
  | 's' -> JStr (bytes_of_hex (tail1 tok))
  | 'o' -> JObj
  | _ -> JOther

(* prefix-coded JSON tree *)
let rec parse_json toks =
  match toks with
  | [] -> failwith "json: empty"
  | t :: r ->
    (match t.[0] with
     | 'N' -> (Jnull, r)
     | 'T' -> (Jbool true, r)
     | 'F' -> (Jbool false, r)
     | 'I' -> (Jnum (zi (tail1 t)), r)
     | 'S' -> (Jstr (bytes_of_hex (tail1 t)), r)
     | 'A' ->
       let n = int_of_string (tail1 t) in
       let rec go k r acc = if k = 0 then (List.rev acc, r) else let (v, r') = parse_json r in go (k - 1) r' (v :: acc) in
       let (l, r') = go n r [] in (Jarr l, r')
     | 'O' ->
       let n = int_of_string (tail1 t) in
       let rec go k r acc =
         if k = 0 then (List.rev acc, r) else
         match r with
         | key :: r1 -> let (v, r2) = parse_json r1 in go (k - 1) r2 ((bytes_of_hex (tail1 key), v) :: acc)
         | [] -> failwith "json: object" in
       let (l, r') = go n r [] in (Jobj l, r')
     | _ -> failwith ("json: token " ^ t))

let reason_tag = function
  | RMeta _ -> "meta" | RStream _ -> "stream" | RMerge -> "merge" | RModels -> "models" | RMarks -> "marks"
  | RClock -> "clock" | RPlayer -> "player" | RInternal -> "internal" | REmu e -> Printf.sprintf "emu:%d" (int_of_nat e)

let dummy_meta = { m_parses = false; m_is_object = false; m_version = JMissing; m_part = JMissing; m_loom = JMissing; m_pid = JMissing;
                   m_tid = JMissing; m_app_id = JMissing; m_finished = JMissing; m_require = JMissing; m_lib_version = JMissing; m_lib_commit = JMissing }

let () =
  let lint = ref false and all = ref false and clk = ref None and gids = ref [] and streams = ref [] in
  let cur_path = ref [] and cur_obs = ref [] and cur_meta = ref dummy_meta and cur_smeta = ref None and cur_req = ref None and cur_json = ref Jnull
  and have = ref false in
  let flush () =
    if !have then begin
      (match !cur_smeta with
       | Some sm -> streams := { si_path = !cur_path; si_obs = !cur_obs; si_meta = !cur_meta; si_smeta = sm; si_req = !cur_req; si_json = !cur_json } :: !streams
       | None -> ());
      have := false
    end in
  try
    while true do
      let line = input_line stdin in
      match String.split_on_char ' ' (String.trim line) with
      | ["TRACE"; l; a] -> lint := bo l; all := bo a; clk := None; gids := []; streams := []; have := false
      | ["CLK"; h] -> clk := (if h = "-" then None else Some (bytes_of_hex h))
      | ["GID"; l; g] -> gids := (bytes_of_hex l, zi g) :: !gids
      | ["S"; p; o] -> flush (); have := true; cur_path := bytes_of_hex p; cur_obs := bytes_of_hex o; cur_meta := dummy_meta; cur_smeta := None; cur_req := None; cur_json := Jnull
      | ["m"; pa; io; ve; part; loom; pid; tid; app; fin; req; lv; lc] ->
        cur_meta := { m_parses = bo pa; m_is_object = bo io; m_version = jval_of ve; m_part = jval_of part; m_loom = jval_of loom; m_pid = jval_of pid;
                      m_tid = jval_of tid; m_app_id = jval_of app; m_finished = jval_of fin; m_require = jval_of req; m_lib_version = jval_of lv; m_lib_commit = jval_of lc }
      | ["s"; loom; pid; tid; app; rank; nranks; cpus] ->
        let cl = if cpus = "-" then None else if cpus = "e" then Some [] else
            Some (List.map (fun ip -> match String.split_on_char ':' ip with [i; p] -> (zi i, zi p) | _ -> failwith "cpu") (String.split_on_char ',' cpus)) in
        cur_smeta := Some { s_loom = bytes_of_hex loom; s_pid = zi pid; s_tid = zi tid; s_app = optz app; s_rank = optz rank; s_nranks = optz nranks; s_cpus0 = cl }
      | ["q"; r] ->
        cur_req := (if r = "-" then None else if r = "e" then Some [] else
                      Some (List.map (fun kv -> match String.split_on_char '=' kv with [k; v] -> (bytes_of_hex k, bytes_of_hex v) | _ -> failwith "req")
                              (String.split_on_char ',' r)))
      | "j" :: toks -> cur_json := fst (parse_json toks)
      | ["END"] ->
        flush ();
        let inp = { in_streams = List.rev !streams; in_clkoff = !clk; in_lint = !lint; in_all = !all; in_gids = !gids } in
        (match ovniemu_model inp with
         | Refused w -> Printf.printf "refused %s\n" (reason_tag w)
         | Files o ->
           print_endline "ok";
           Printf.printf "FILE thread.prv %s\n" (hexstr o.o_th.f_prv);
           Printf.printf "FILE thread.pcf %s\n" (hexstr o.o_th.f_pcf);
           Printf.printf "FILE thread.row %s\n" (hexstr o.o_th.f_row);
           Printf.printf "FILE cpu.prv %s\n" (hexstr o.o_cpu.f_prv);
           Printf.printf "FILE cpu.pcf %s\n" (hexstr o.o_cpu.f_pcf);
           Printf.printf "FILE cpu.row %s\n" (hexstr o.o_cpu.f_row));
        print_endline "done"
      | _ -> ()
    done
  with End_of_file -> ()
