(* line-protocol driver around the extracted event-buffer model (coq/Rt/RtBufDefs.v)

   R <fx:0|1> <cap|D> <clocks: c,c,...|-> <ops: op;op;...|->
        op ::= E<mmccvv>:<hex>,<hex>,...   emit, one ovni_payload_add per chunk (may be none; z = empty chunk)
             | J<mmccvv>:h<hex>            jumbo emit, literal data ("h" alone: empty)
             | J<mmccvv>:b<seed>.<len>     jumbo emit, data byte i = (seed + i mod 251) land 255
             | F                           ovni_flush
             | P<type>,<value> | O<type>,<value> | S<type>,<value>     mark push / pop / set
             | X                           ovni_thread_free
     -> ok disk=<len>:<md5>:<hex|-> buf=<len>:<md5> log=<clock,clock,...|->
        abort | noclock | nofuel
   V h<hex> | V @<file>   -> valid | invalid        (Spec decider valid_stream on given bytes)
   D h<hex> | D @<file>   -> POk n | PBad | PNoFuel (parse_stream)
   A <cap|D> <op>         -> <api_okb> <op_wfb>                                         *)
open Rtbuf_x

let rec pos_of_int n = if n = 1 then XH else if n land 1 = 0 then XO (pos_of_int (n lsr 1)) else XI (pos_of_int (n lsr 1))
let z_of_int n = if n = 0 then Z0 else if n > 0 then Zpos (pos_of_int n) else Zneg (pos_of_int (-n))
let rec int_of_pos = function XH -> 1 | XO p -> 2 * int_of_pos p | XI p -> 2 * int_of_pos p + 1
let int_of_z = function Z0 -> 0 | Zpos p -> int_of_pos p | Zneg p -> - (int_of_pos p)

let z10 = z_of_int 10
(* arbitrary-size decimal *)
let z_of_string s =
  let neg = String.length s > 0 && s.[0] = '-' in
  let start = if neg then 1 else 0 in
  if String.length s - start <= 17 then z_of_int (int_of_string s)
  else begin
    let acc = ref Z0 in
    for i = start to String.length s - 1 do
      acc := Z.add (Z.mul !acc z10) (z_of_int (Char.code s.[i] - 48))
    done;
    if neg then (match !acc with Zpos p -> Zneg p | x -> x) else !acc
  end

let rec string_of_pos p =
  (* decimal via repeated doubling on a digit array *)
  let digits = ref [0] in
  let double_add carry0 =
    let carry = ref carry0 in
    digits := List.map (fun d -> let v = 2 * d + !carry in carry := v / 10; v mod 10) !digits;
    if !carry > 0 then digits := !digits @ [!carry] in
  let rec bits p acc = match p with XH -> 1 :: acc | XO q -> bits q (0 :: acc) | XI q -> bits q (1 :: acc) in
  List.iter (fun b -> double_add b) (bits p []);
  String.concat "" (List.rev_map string_of_int !digits)
and string_of_z = function Z0 -> "0" | Zpos p -> string_of_pos p | Zneg p -> "-" ^ string_of_pos p

let byte_tab = Array.init 256 z_of_int

let hexval c = match c with '0'..'9' -> Char.code c - 48 | 'a'..'f' -> Char.code c - 87 | 'A'..'F' -> Char.code c - 55 | _ -> failwith "hex"
let bytes_of_hex s =
  if s = "z" then [] else
  let n = String.length s / 2 in
  List.init n (fun i -> byte_tab.(hexval s.[2*i] * 16 + hexval s.[2*i+1]))

let blob seed len = List.init len (fun i -> byte_tab.((seed + i mod 251) land 255))

let to_buffer (l : z list) =
  let b = Buffer.create 65536 in
  List.iter (fun z -> Buffer.add_char b (Char.chr (int_of_z z))) l;
  Buffer.contents b

let hex_of_string s =
  let b = Buffer.create (2 * String.length s) in
  String.iter (fun c -> Buffer.add_string b (Printf.sprintf "%02x" (Char.code c))) s;
  Buffer.contents b

let split c s = if s = "" || s = "-" then [] else String.split_on_char c s

let mcv s = (z_of_int (hexval s.[0] * 16 + hexval s.[1]), z_of_int (hexval s.[2] * 16 + hexval s.[3]), z_of_int (hexval s.[4] * 16 + hexval s.[5]))

let two s = match String.split_on_char ',' s with [a; b] -> (z_of_string a, z_of_string b) | _ -> failwith "mark args"

let parse_op (s : string) : op =
  let rest = String.sub s 1 (String.length s - 1) in
  match s.[0] with
  | 'E' ->
    let i = String.index rest ':' in
    let (m, c, v) = mcv (String.sub rest 0 i) in
    let chunks = String.sub rest (i + 1) (String.length rest - i - 1) in
    Emit (m, c, v, List.map bytes_of_hex (if chunks = "" then [] else String.split_on_char ',' chunks))
  | 'J' ->
    let i = String.index rest ':' in
    let (m, c, v) = mcv (String.sub rest 0 i) in
    let d = String.sub rest (i + 1) (String.length rest - i - 1) in
    let body = String.sub d 1 (String.length d - 1) in
    if d.[0] = 'h' then JumboEmit (m, c, v, bytes_of_hex body)
    else (match String.split_on_char '.' body with
        | [seed; len] -> JumboEmit (m, c, v, blob (int_of_string seed) (int_of_string len))
        | _ -> failwith "blob")
  | 'F' -> Flush
  | 'P' -> let (t, v) = two rest in MarkPush (t, v)
  | 'O' -> let (t, v) = two rest in MarkPop (t, v)
  | 'S' -> let (t, v) = two rest in MarkSet (t, v)
  | 'X' -> Free
  | _ -> failwith "op"

let cap_of s = if s = "D" then c_OVNI_MAX_EV_BUF else z_of_string s

let read_file path =
  let ic = open_in_bin path in
  let n = in_channel_length ic in
  let s = really_input_string ic n in
  close_in ic; s

let bytes_arg a =
  if a.[0] = '@' then (let s = read_file (String.sub a 1 (String.length a - 1)) in
                       List.init (String.length s) (fun i -> byte_tab.(Char.code s.[i])))
  else bytes_of_hex (String.sub a 1 (String.length a - 1))

let () =
  try
    while true do
      let line = input_line stdin in
      (try
        match String.split_on_char ' ' line with
        | ["R"; fx; cap; clocks; ops] ->
          let clk = List.map z_of_string (split ',' clocks) in
          let ops = List.map parse_op (List.filter (fun o -> o <> "" && o.[0] <> 'T') (split ';' ops)) in
          (match run (fx = "1") (cap_of cap) ops clk with
           | ROk (s, log) ->
             let d = to_buffer (disk_bytes s) in
             let b = to_buffer (buf_bytes s) in
             Printf.printf "ok disk=%d:%s:%s buf=%d:%s log=%s\n" (String.length d) (Digest.to_hex (Digest.string d))
               (if String.length d <= 65536 then (if d = "" then "-" else hex_of_string d) else "-")
               (String.length b) (Digest.to_hex (Digest.string b))
               (if log = [] then "-" else String.concat "," (List.map (fun e -> string_of_z e.u_clock) log))
           | RAbort -> print_endline "abort"
           | RNoClock -> print_endline "noclock"
           | RNoFuel -> print_endline "nofuel")
        | ["V"; a] -> print_endline (if valid_stream (bytes_arg a) then "valid" else "invalid")
        | ["D"; a] -> (match parse_stream (bytes_arg a) with
            | POk es -> Printf.printf "POk %d\n" (List.length es)
            | PBad -> print_endline "PBad"
            | PNoFuel -> print_endline "PNoFuel")
        | ["A"; cap; o] -> let o = parse_op o in
          Printf.printf "%b %b\n" (api_okb (cap_of cap) o) (op_wfb o)
        | _ -> print_endline "?"
      with Failure m -> print_endline ("? " ^ m) | Not_found -> print_endline "? syntax");
      flush stdout
    done
  with End_of_file -> ()
