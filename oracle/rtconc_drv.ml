(* line-protocol driver around the extracted rtconc model (coq/Rt/RtConcDefs.v)
   R <mv> <progs> <sched>   run the schedule, then round-robin to completion
   S <mv> <prog>            the program alone, every st operation succeeding (seq_result)
   X <mv>                   per call kind: the st operations / process-field accesses of its expansion
   progs: threads separated by '|', calls by ','; '-' = empty.  sched: thread indices separated by ',' *)
open Rtconc_x

let rec pos_of_int n = if n = 1 then XH else if n land 1 = 0 then XO (pos_of_int (n lsr 1)) else XI (pos_of_int (n lsr 1))
let z_of_int n = if n = 0 then Z0 else if n > 0 then Zpos (pos_of_int n) else Zneg (pos_of_int (-n))
let rec int_of_pos = function XH -> 1 | XO p -> 2 * int_of_pos p | XI p -> 2 * int_of_pos p + 1
let int_of_z = function Z0 -> 0 | Zpos p -> int_of_pos p | Zneg p -> - (int_of_pos p)
let rec nat_of_int n = if n <= 0 then O else S (nat_of_int (n - 1))
let rec int_of_nat = function O -> 0 | S n -> 1 + int_of_nat n
let zs s = z_of_int (int_of_string s)
let zi z = string_of_int (int_of_z z)

let split c s = if s = "" || s = "-" then [] else String.split_on_char c s
let pair s = match String.split_on_char ':' s with [a; b] -> (zs a, zs b) | _ -> failwith ("bad pair " ^ s)
let rest s = String.sub s 1 (String.length s - 1)

let call_of s =
  match s.[0] with
  | 'P' -> ProcInit | 'Q' -> ProcFini
  | 'I' -> ThreadInit (zs (rest s))
  | 'R' -> let (a, b) = pair (rest s) in Require (a, b)
  | 'C' -> let (a, b) = pair (rest s) in AddCpu (a, b)
  | 'K' -> let (a, b) = pair (rest s) in SetRank (a, b)
  | 'E' -> Emit (zs (rest s))
  | 'F' -> Flush
  | 'A' -> let (a, b) = pair (rest s) in AttrSet (a, b)
  | 'G' -> AttrFlush | 'Z' -> ThreadFree | 'N' -> ClockNow
  | _ -> failwith ("bad call " ^ s)

let prog_of s = List.map call_of (split ',' s)

let item = function IHeader -> "H" | IEv e -> "E" ^ zi e | IFlushB -> "B" | IFlushE -> "D"
let mitem = function
  | MReq (m, v) -> "q" ^ zi m ^ ":" ^ zi v | MAttr (k, v) -> "a" ^ zi k ^ ":" ^ zi v
  | MCpu (i, p) -> "c" ^ zi i ^ ":" ^ zi p | MRank (r, n) -> "r" ^ zi r ^ ":" ^ zi n | MFinished -> "f"
let lst f l = if l = [] then "-" else String.concat "," (List.map f l)

let show_thr t fl =
  let out = String.concat "" (List.rev_map (fun b -> if b then "o" else "d") t.t_out) in
  Printf.sprintf "out=%s dead=%d done=%d tid=%s %s"
    (if out = "" then "-" else out) (if t.t_dead then 1 else 0) (if thr_done t then 1 else 0) (zi t.t_tid)
    (match fl with
     | None -> "obs=none meta=none"
     | Some f -> Printf.sprintf "obs=%s meta=%s" (lst item f.f_obs)
                   (match f.f_meta with None -> "none" | Some m -> "[" ^ lst mitem m ^ "]"))

let st_name = function UNINIT -> "UNINIT" | INIT -> "INIT" | READY -> "READY" | GONE -> "GONE"
let field_name = function
  | Floom -> "loom" | Fpid -> "pid" | Fapp -> "app" | Fclockid -> "clockid" | Floomdir -> "loomdir"
  | Ftmpdir -> "tmpdir" | Fmove -> "move_to_final" | Fprocdir -> "procdir" | Fprocdir_final -> "procdir_final"
let call_name = function
  | ProcInit -> "ProcInit" | ProcFini -> "ProcFini" | ThreadInit _ -> "ThreadInit" | Require _ -> "Require"
  | AddCpu _ -> "AddCpu" | SetRank _ -> "SetRank" | Emit _ -> "Emit" | Flush -> "Flush" | AttrSet _ -> "AttrSet"
  | AttrFlush -> "AttrFlush" | ThreadFree -> "ThreadFree" | ClockNow -> "ClockNow"
let action_name = function
  | ACasInit -> Some "cas:ST_INIT" | AStoreReady -> Some "store:ST_READY" | ACasFini -> Some "cas:ST_GONE"
  | ALoadReady -> Some "load:ST_READY" | AWrite f -> Some ("W:" ^ field_name f) | ARead f -> Some ("R:" ^ field_name f)
  | ALocal _ | AFs _ -> None

let () =
  try
    while true do
      let line = input_line stdin in
      (try
        match String.split_on_char ' ' line with
        | ["R"; mv; progs; sched] ->
          let mv = (mv = "1") in
          let ps = List.map prog_of (String.split_on_char '|' progs) in
          let sc = List.map (fun s -> nat_of_int (int_of_string s)) (split ',' sched) in
          let c = run_complete mv ps sc in
          let n p = int_of_nat (count_ev p c.c_trace) in
          let ths = List.map (fun t -> show_thr t (fs_get t.t_tid c.c_fs)) c.c_thr in
          print_endline (Printf.sprintf "wi=%d wf=%d ci=%d cf=%d st=%s # %s"
            (n is_init_ok) (n is_fini_ok) (n is_init_ev) (n is_fini_ev) (st_name c.c_st) (String.concat " # " ths))
        | ["S"; mv; prog] ->
          let (t, fl) = seq_result (mv = "1") (prog_of prog) in
          print_endline (show_thr t fl)
        | ["X"; mv] ->
          let mv = (mv = "1") in
          print_endline (String.concat " " (List.map (fun c ->
            call_name c ^ "=" ^ lst (fun x -> x) (List.filter_map action_name (expand mv c))) call_kinds))
        | _ -> print_endline "?"
      with Failure m -> print_endline ("error " ^ m))
    done
  with End_of_file -> ()
