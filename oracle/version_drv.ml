(* line-protocol driver around the extracted version model *)
open Version_x

let rec pos_of_int n = if n = 1 then XH else if n land 1 = 0 then XO (pos_of_int (n lsr 1)) else XI (pos_of_int (n lsr 1))
let z_of_int n = if n = 0 then Z0 else if n > 0 then Zpos (pos_of_int n) else Zneg (pos_of_int (-n))
let rec int_of_pos = function XH -> 1 | XO p -> 2 * int_of_pos p | XI p -> 2 * int_of_pos p + 1
let int_of_z = function Z0 -> 0 | Zpos p -> int_of_pos p | Zneg p -> - (int_of_pos p)

let bytes_of_hex s =
  let n = String.length s / 2 in
  List.init n (fun i -> z_of_int (int_of_string ("0x" ^ String.sub s (2*i) 2)))

let cstr s = if s = "NULL" then None else if s = "-" then Some [] else Some (bytes_of_hex s)
let hexs s = if s = "-" then [] else bytes_of_hex s

let split c s = if s = "" then [] else String.split_on_char c s

let () =
  try
    while true do
      let line = input_line stdin in
      match String.split_on_char ' ' line with
      | ["P"; s] ->
        (match version_parse (cstr s) with
         | None -> print_endline "none"
         | Some l -> print_endline (String.concat " " (List.map (fun z -> string_of_int (int_of_z z)) l)))
      | ["C"; s] ->
        (match ovni_version_check_str (cstr s) with Ret _ -> print_endline "ret" | Die -> print_endline "die")
      | ["K"; a; b; c; d; e; f] ->
        let l x y z = [z_of_int (int_of_string x); z_of_int (int_of_string y); z_of_int (int_of_string z)] in
        print_endline (string_of_int (int_of_z (version_is_compatible (l a b c) (l d e f))))
      | ["M"; all; models; threads; always] ->
        let alw = List.map (fun x -> int_of_string x) (split ',' (if always = "-" then "" else always)) in
        let ms = List.map (fun m -> match String.split_on_char ':' m with
            | [id; n; v] -> ((z_of_int (int_of_string id), hexs n), hexs v)
            | _ -> failwith "bad model") (split ',' models) in
        let ts = List.map (fun t ->
            if t = "none" then None
            else Some (List.map (fun kv -> match String.split_on_char ':' kv with
                | [k; v] -> (hexs k, hexs v) | _ -> failwith "bad req") (split ',' (if t = "empty" then "" else t))))
            (split ';' threads) in
        (match model_probe version_is_compatible (fun id -> List.mem (int_of_z id) alw) ms ts (all = "1") with
         | None -> print_endline "none"
         | Some en -> print_endline ("en " ^ String.concat " " (List.map (fun z -> string_of_int (int_of_z z)) en)))
      | _ -> print_endline "?"
    done
  with End_of_file -> ()
