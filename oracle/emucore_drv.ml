(* scenario protocol driver around the extracted emulator-core model (see lib/vf/emucore.py) *)
open Emucore_x

let rec pos_of_int n = if n = 1 then XH else if n land 1 = 0 then XO (pos_of_int (n lsr 1)) else XI (pos_of_int (n lsr 1))
let z_of_int n = if n = 0 then Z0 else if n > 0 then Zpos (pos_of_int n) else Zneg (pos_of_int (-n))
let rec int_of_pos = function XH -> 1 | XO p -> 2 * int_of_pos p | XI p -> 2 * int_of_pos p + 1
let int_of_z = function Z0 -> 0 | Zpos p -> int_of_pos p | Zneg p -> - (int_of_pos p)
let rec nat_of_int n = if n <= 0 then O else S (nat_of_int (n - 1))
let rec int_of_nat = function O -> 0 | S n -> 1 + int_of_nat n

let zi s = z_of_int (int_of_string s)
let ni s = nat_of_int (int_of_string s)
let vopt s = if s = "-" then None else Some (zi s)
let bo s = s = "1"

let action_of = function "PUSH" -> PUSH | "POP" -> POP | "SET" -> SET | _ -> IGN

let bytes_of_hex s =
  if s = "-" then [] else
  let n = String.length s / 2 in
  List.init n (fun i -> z_of_int (int_of_string ("0x" ^ String.sub s (2*i) 2)))

let () =
  let threads = ref [] and cpus = ref [] and chans = ref [] and lint = ref false
  and lintchans = ref [] and evs = ref [] and enabled = ref [] and rawevs = ref [] and useraw = ref false
  and mdefs = ref [] in
  let reset () = threads := []; cpus := []; chans := []; lint := false; lintchans := []; evs := [];
    enabled := []; rawevs := []; useraw := false; mdefs := [] in
  let hexstr l = String.concat "" (List.map (fun z -> Printf.sprintf "%02x" (int_of_z z)) l) in
  try
    while true do
      let line = input_line stdin in
      match String.split_on_char ' ' (String.trim line) with
      | ["T"; tid; pid; loom] -> threads := { ti_tid = zi tid; ti_pid = zi pid; ti_loom = ni loom; ti_appid = zi "1"; ti_rank = zi "-1" } :: !threads
      | ["T"; tid; pid; loom; app; rank] -> threads := { ti_tid = zi tid; ti_pid = zi pid; ti_loom = ni loom; ti_appid = zi app; ti_rank = zi rank } :: !threads
      | ["C"; virt; loom; index] -> cpus := { ci_virtual = bo virt; ci_loom = ni loom; ci_index = zi index } :: !cpus
      | ["S"; m; i; stack; dup; tht; cput; ty; fl; ini; def] ->
        chans := { cs_model = zi m; cs_index = zi i; cs_stack = bo stack; cs_dup = bo dup; cs_thtrack = zi tht;
                   cs_cputrack = zi cput; cs_type = zi ty; cs_flags = zi fl; cs_init = vopt ini; cs_cpudef = vopt def } :: !chans
      | "L" :: l :: rest -> lint := bo l; lintchans := List.map ni rest
      | "M" :: ids -> enabled := List.map zi ids; useraw := true
      | ["K"; th; ty; stack; title; labels] ->
        (* mark definition of thread gindex th (lines come in gindex order, definitions in file order) *)
        let ls = if labels = "-" then [] else
            List.map (fun kv -> match String.split_on_char ':' kv with
                | [v; l] -> (zi v, bytes_of_hex l) | _ -> failwith "bad label") (String.split_on_char ',' labels) in
        mdefs := (int_of_string th, { md_type = zi ty; md_title = bytes_of_hex title; md_stack = bo stack; md_labels = ls }) :: !mdefs
      | ["R"; tm; who; m; c; v; payload] ->
        rawevs := (zi tm, ni who, zi m, zi c, zi v, bytes_of_hex payload, false, zi "0") :: !rawevs
      | ["R"; tm; who; m; c; v; payload; jumbo; aux] ->
        rawevs := (zi tm, ni who, zi m, zi c, zi v, bytes_of_hex payload, bo jumbo, zi aux) :: !rawevs
      | "E" :: tm :: who :: kind :: args ->
        let ev = match kind, args with
          | "X", [i] -> EvOvni (Execute (zi i))
          | "e", [] -> EvOvni End_
          | "p", [] -> EvOvni Pause
          | "r", [] -> EvOvni Resume
          | "c", [] -> EvOvni Cool
          | "w", [] -> EvOvni Warm
          | "As", [i] -> EvOvni (AffSet (zi i))
          | "Ar", [i; t] -> EvOvni (AffRemote (zi i, zi t))
          | "CH", [k; a; v; need] -> EvChan (ni k, action_of a, vopt v, zi need)
          | "OOC", [k; o; v] -> EvOoc (ni k, bo o, zi v)
          | "NOP", [] -> EvNop
          | "BAD", [w] -> EvBad (ni w)
          | _ -> EvBad (ni "99") in
        evs := ((zi tm, ni who), ev) :: !evs
      | ["end"] ->
        let nth = List.length !threads in
        let defs_by_thread = List.init nth (fun g -> List.rev_map snd (List.filter (fun (t, _) -> t = g) !mdefs) |> List.rev |> List.rev) in
        let defs_by_thread = List.map (fun l -> l) (List.init nth (fun g ->
            List.map snd (List.filter (fun (t, _) -> t = g) (List.rev !mdefs)))) in
        ignore defs_by_thread;
        (match merge_threads (List.init nth (fun g -> List.map snd (List.filter (fun (t, _) -> t = g) (List.rev !mdefs)))) with
         | None -> print_endline "err 13"
         | Some ms ->
        let cs = if !useraw then mk_chans !enabled @ mark_chans ms else List.rev !chans in
        let sx = { s_threads = List.rev !threads; s_cpus = List.rev !cpus; s_chans = cs; s_lint = !lint } in
        let lc = if !useraw then lint_chans (mk_chans !enabled) else !lintchans in
        let es = if !useraw then
            List.rev_map (fun (tm, who, m, c, v, p, j, aux) -> ((tm, who), decode_all !enabled cs m c v p j aux)) !rawevs
          else List.rev !evs in
        (match run sx lc es with
         | Err e -> Printf.printf "err %d\n" (int_of_nat e)
         | Ok ls ->
           print_endline "ok";
           List.iter (fun m ->
               Printf.printf "MT %d %d %s\n" (int_of_z m.mt_type) (if m.mt_stack then 1 else 0) (hexstr m.mt_title);
               List.iter (fun (v, l) -> Printf.printf "ML %d %d %s\n" (int_of_z m.mt_type) (int_of_z v) (hexstr l)) m.mt_labels) ms;
           List.iter (fun (tm, l) ->
               Printf.printf "P %d %d %d %d %d\n" (if l.l_cpu then 1 else 0) (int_of_nat l.l_row)
                 (int_of_z l.l_type) (int_of_z tm) (int_of_z l.l_val)) ls));
        print_endline "done";
        reset ()
      | _ -> ()
    done
  with End_of_file -> ()
