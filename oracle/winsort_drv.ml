(* line-protocol driver around the extracted ovnisort model (coq/Tools/WinsortDefs.v)

   input  : A <n> <ev>;<ev>;...      ev = <clock hex>,<model>,<category>,<value>,<size>   (id = position, 0-based)
            "A <n> -" = stream without events
   answer : pre=<0|1> sort=<none|ids> file=<ok|fail>:<ids> check_in=<0|1> again=<skip|none|same|ids>
            check_out=<skip|0|1> loader=<skip|0|1> ssort=<ids>
            ids = comma separated positions in the input ("-" when empty) *)
open Winsort_x

(* positive from a list of bits, least significant first, last bit = 1 *)
let rec pos_lsb = function
  | [] -> failwith "zero"
  | [true] -> XH
  | b :: r -> if b then XI (pos_lsb r) else XO (pos_lsb r)

let z_of_hex (s : string) : z =
  (* bits least significant first *)
  let bits = ref [] in
  String.iter (fun ch ->
      let v = int_of_string ("0x" ^ String.make 1 ch) in
      (* bits accumulates most significant first *)
      bits := !bits @ [v land 8 <> 0; v land 4 <> 0; v land 2 <> 0; v land 1 <> 0]) s;
  let rec strip = function false :: r -> strip r | l -> l in
  match strip !bits with
  | [] -> Z0
  | msb -> Zpos (pos_lsb (List.rev msb))

let z_of_int n = z_of_hex (Printf.sprintf "%x" n)

let rec int_of_pos = function XH -> 1 | XO p -> 2 * int_of_pos p | XI p -> 2 * int_of_pos p + 1
let int_of_z = function Z0 -> 0 | Zpos p -> int_of_pos p | Zneg p -> - (int_of_pos p)

let rec nat_of_int n = let rec go acc k = if k <= 0 then acc else go (S acc) (k - 1) in go O n

let parse_evs s =
  if s = "-" then []
  else
    List.mapi (fun i f ->
        match String.split_on_char ',' f with
        | [c; m; k; v; sz] ->
          { clock = z_of_hex c; emodel = z_of_int (int_of_string m); ecat = z_of_int (int_of_string k);
            evalue = z_of_int (int_of_string v); eid = z_of_int i; esize = z_of_int (int_of_string sz) }
        | _ -> failwith "bad event") (String.split_on_char ';' s)

let ids l = if l = [] then "-" else String.concat "," (List.map (fun e -> string_of_int (int_of_z e.eid)) l)
let b01 b = if b then "1" else "0"

let () =
  try
    while true do
      let line = input_line stdin in
      match String.split_on_char ' ' line with
      | ["A"; n; evs] ->
        let n = nat_of_int (int_of_string n) in
        let l = parse_evs evs in
        let p = preb n l in
        let r = winsort n l in
        let (okf, filel) = winsort_file n l in
        let again, cko, ldr =
          match r with
          | None -> "skip", "skip", "skip"
          | Some out ->
            (match winsort n out with
             | None -> "none"
             | Some o2 -> if ids o2 = ids out then "same" else ids o2),
            b01 (check_mode out), b01 (loader_accepts out) in
        Printf.printf "pre=%s sort=%s file=%s:%s check_in=%s again=%s check_out=%s loader=%s ssort=%s\n"
          (b01 p) (match r with None -> "none" | Some o -> ids o)
          (if okf then "ok" else "fail") (ids filel) (b01 (check_mode l)) again cko ldr (ids (ssort l))
      | _ -> print_endline "?"
    done
  with End_of_file -> ()
