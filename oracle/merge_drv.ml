(* line-protocol driver around the extracted heap / player model (C03)

   H <op>,<op>,...        op = i<key>.<id> | p
        answer: one item per op separated by ' ':  <popped id or ->/<ids at positions 1..size joined by '.', or ->/<inv 0|1>
   R <E|D> <stream>;<stream>;...   streams in enumeration order, stream = <relpath hex>:<offset>:<clock>.<payload>,...  (events may be empty: "-")
        answer: <verdict> <relpath hex>@<rclock>@<payload>@<sclock>@<dclock>,...   ('-' when no event is delivered)
   G <n>                  answer: position reached by the heap_get walk for n, and the moves (L/R) *)
open Merge_x

let rec pos_of_int n = if n = 1 then XH else if n land 1 = 0 then XO (pos_of_int (n lsr 1)) else XI (pos_of_int (n lsr 1))
let z_of_int n = if n = 0 then Z0 else if n > 0 then Zpos (pos_of_int n) else Zneg (pos_of_int (-n))
let rec int_of_pos = function XH -> 1 | XO p -> 2 * int_of_pos p | XI p -> 2 * int_of_pos p + 1
let int_of_z = function Z0 -> 0 | Zpos p -> int_of_pos p | Zneg p -> - (int_of_pos p)
let rec nat_of_int n = if n <= 0 then O else S (nat_of_int (n - 1))
let rec int_of_nat = function O -> 0 | S n -> 1 + int_of_nat n

let bytes_of_hex s =
  let n = String.length s / 2 in
  List.init n (fun i -> z_of_int (int_of_string ("0x" ^ String.sub s (2*i) 2)))
let hex_of_bytes l = String.concat "" (List.map (fun z -> Printf.sprintf "%02x" (int_of_z z)) l)

let split c s = if s = "" || s = "-" then [] else String.split_on_char c s

let ids h = if h = [] then "-" else String.concat "." (List.map (fun (_, id) -> string_of_int (int_of_nat id)) h)

let verdict_str = function
  | VOk -> "ok" | VBackStream _ -> "err-stream" | VBackPlayer -> "err-player" | VGate -> "err-gate"
  | VFuel -> "model-fuel" | VInternal -> "model-internal"

let () =
  try
    while true do
      let line = input_line stdin in
      match String.split_on_char ' ' line with
      | ["H"; ops] ->
        let h = ref [] in
        let out = List.map (fun op ->
            if op = "p" then begin
              match pop_max stream_cmp !h with
              | None -> "-/" ^ ids !h ^ "/1"
              | Some ((_, id), h') ->
                h := h';
                string_of_int (int_of_nat id) ^ "/" ^ ids h' ^ "/" ^ (if heap_inv_b stream_cmp h' then "1" else "0")
            end else begin
              let body = String.sub op 1 (String.length op - 1) in
              match String.split_on_char '.' body with
              | [k; id] ->
                h := insert stream_cmp !h (z_of_int (int_of_string k), nat_of_int (int_of_string id));
                "-/" ^ ids !h ^ "/" ^ (if heap_inv_b stream_cmp !h then "1" else "0")
              | _ -> "?"
            end) (split ',' ops) in
        print_endline (String.concat " " out)
      | ["R"; mode; streams] ->
        let enum = List.map (fun s ->
            match String.split_on_char ':' s with
            | [rp; off; evs] ->
              (bytes_of_hex rp,
               { s_off = z_of_int (int_of_string off);
                 s_evs = List.map (fun e -> match String.split_on_char '.' e with
                     | [c; p] -> (z_of_int (int_of_string c), z_of_int (int_of_string p))
                     | _ -> failwith "bad event") (split ',' evs) })
            | _ -> failwith "bad stream") (split ';' streams) in
        let (out, v) = if mode = "E" then run_emu enum else run_dump enum in
        let sorted = Array.of_list (List.map fst (sort_streams enum)) in
        let item o =
          Printf.sprintf "%s@%d@%d@%d@%d" (hex_of_bytes sorted.(int_of_nat o.o_id))
            (int_of_z o.o_rclock) (int_of_z o.o_pay) (int_of_z o.o_sclock) (int_of_z o.o_dclock) in
        print_endline (verdict_str v ^ " " ^ (if out = [] then "-" else String.concat "," (List.map item out)))
      | ["G"; n] ->
        let n = int_of_string n in
        let p = get_path (nat_of_int 64) (z_of_int n) in
        print_endline (string_of_int (int_of_z (walk (z_of_int 1) p)) ^ " " ^
                       (if p = [] then "-" else String.concat "" (List.map (fun b -> if b then "R" else "L") p)))
      | _ -> print_endline "?"
    done
  with End_of_file -> ()
