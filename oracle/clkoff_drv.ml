(* line-protocol driver around the extracted clock-offset table model (C03, Emu/ClkoffDefs.v)

   T <table file hex | '-' (empty file) | 'N' (no file)> <loom name hex>,...  ('-' = none)
        answer:  load-fail:<code>
                 n=<k> <index>:<name hex>:<median | '?'>;... | <apply>
        <apply> = offs=<o1>,<o2>,...   offset of every loom/stream of the line (trace_offsets)
                | apply-fail:<code>    ovniemu refuses (unknown host ...)
                | unspec               a median outside the modelled numeric domain
        with 'N' the answer is  none | offs=0,0,...
   S <loom name hex>,...   answer: host names (hex) *)
open Clkoff_x

let rec pos_of_int n = if n = 1 then XH else if n land 1 = 0 then XO (pos_of_int (n lsr 1)) else XI (pos_of_int (n lsr 1))
let z_of_int n = if n = 0 then Z0 else if n > 0 then Zpos (pos_of_int n) else Zneg (pos_of_int (-n))
let rec i64_of_pos = function
  | XH -> 1L
  | XO p -> Int64.mul 2L (i64_of_pos p)
  | XI p -> Int64.add (Int64.mul 2L (i64_of_pos p)) 1L
let i64_of_z = function Z0 -> 0L | Zpos p -> i64_of_pos p | Zneg p -> Int64.neg (i64_of_pos p)
let zs z = Int64.to_string (i64_of_z z)
let int_of_z z = Int64.to_int (i64_of_z z)
let rec int_of_nat = function O -> 0 | S n -> 1 + int_of_nat n

let bytes_of_hex s =
  let n = String.length s / 2 in
  List.init n (fun i -> z_of_int (int_of_string ("0x" ^ String.sub s (2*i) 2)))
let hex_of_bytes l = String.concat "" (List.map (fun z -> Printf.sprintf "%02x" (int_of_z z)) l)
let split c s = if s = "" || s = "-" then [] else String.split_on_char c s

let code = function
  | EMissingHeader -> "missing-header" | EFields n -> "fields-" ^ string_of_int (int_of_nat n)
  | EDuplicate -> "duplicate" | ENoEntries -> "no-entries" | EUnknownHost -> "unknown-host" | EAlready -> "already"

let apply_str tbl looms =
  match trace_offsets tbl looms with
  | OOk offs -> "offs=" ^ String.concat "," (List.map zs offs)
  | OErr e -> "apply-fail:" ^ code e
  | OUnspec -> "unspec"

let () =
  try
    while true do
      let line = input_line stdin in
      (match String.split_on_char ' ' line with
      | ["T"; "N"; lm] ->
        let looms = List.map bytes_of_hex (split ',' lm) in
        print_endline ("none | " ^ apply_str None looms)
      | ["T"; tab; lm] ->
        let file = if tab = "-" then [] else bytes_of_hex tab in
        let looms = List.map bytes_of_hex (split ',' lm) in
        (match load_table file with
         | Inl e -> print_endline ("load-fail:" ^ code e)
         | Inr es ->
           let item e = Printf.sprintf "%s:%s:%s" (zs e.e_index) (hex_of_bytes e.e_name)
               (match e.e_median with FInt z -> zs z | FOut -> "?") in
           print_endline (Printf.sprintf "n=%d %s | %s" (List.length es) (String.concat ";" (List.map item es))
                            (apply_str (Some file) looms)))
      | ["S"; lm] ->
        print_endline (String.concat "," (List.map (fun l -> hex_of_bytes (hostname (bytes_of_hex l))) (split ',' lm)))
      | _ -> print_endline "?")
    done
  with End_of_file -> ()
