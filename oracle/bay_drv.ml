(* line-protocol driver around the extracted bay layer (coq/Emu/BayDefs.v).  Same protocol and same
   output as harness/bay_h.c:
     B T C K | spec;spec;.. | batch ; batch ; ..
       spec  = "stack dup mode flags init cpudef"
       batch = "-" or writes  a<t>=v i<t>=v s<t>=v  c<c>.<w>=v  r<t>.<k>=v r<t>.<k>+v r<t>.<k>-v
     answer: segments joined by " | ": "err" or
       "ch v/last/dirty/n ... mx sel:e0e1.. ... th row:type:val ... cpu row:type:val ..." *)
open Bay_x

let rec pos_of_int64 (n : int64) : positive =
  if Int64.equal n 1L then XH
  else
    let half = Int64.shift_right_logical n 1 in
    if Int64.equal (Int64.logand n 1L) 0L then XO (pos_of_int64 half) else XI (pos_of_int64 half)

let z_of_int64 (n : int64) : z =
  if Int64.equal n 0L then Z0
  else if Int64.compare n 0L > 0 then Zpos (pos_of_int64 n)
  else Zneg (pos_of_int64 (Int64.neg n))

let rec int64_of_pos = function
  | XH -> 1L
  | XO p -> Int64.shift_left (int64_of_pos p) 1
  | XI p -> Int64.logor (Int64.shift_left (int64_of_pos p) 1) 1L

let int64_of_z = function
  | Z0 -> 0L
  | Zpos p -> int64_of_pos p
  | Zneg p -> Int64.neg (int64_of_pos p)

let zs s = z_of_int64 (Int64.of_string s)
let zi i = z_of_int64 (Int64.of_int i)
let sz z = Int64.to_string (int64_of_z z)

let rec nat_of_int n = if n <= 0 then O else S (nat_of_int (n - 1))
let rec int_of_nat = function O -> 0 | S k -> 1 + int_of_nat k

let value_of_string s : value = if s = "N" then None else Some (zs s)
let string_of_value (v : value) = match v with None -> "N" | Some z -> sz z

let words s = List.filter (fun w -> w <> "") (String.split_on_char ' ' s)

let rec nth l i = match l with [] -> failwith "nth" | x :: r -> if i = 0 then x else nth r (i - 1)

let mk_static t c specs =
  let threads = List.init t (fun i -> { ti_tid = zi (100 + i); ti_pid = zi 1; ti_loom = O; ti_appid = zi 1; ti_rank = zi (-1) }) in
  let cpus = List.init c (fun i -> { ci_virtual = false; ci_loom = O; ci_index = zi i }) in
  let chans = List.mapi (fun k (stack, dup, mode, flags, ini, def) ->
      { cs_model = Z0; cs_index = zi k; cs_stack = stack; cs_dup = dup; cs_thtrack = zi mode; cs_cputrack = zi 1;
        cs_type = zi (100 + k); cs_flags = flags; cs_init = ini; cs_cpudef = def }) specs in
  { s_threads = threads; s_cpus = cpus; s_chans = chans; s_lint = false }

let dump sx t c k (b : bay) (ls : line list) =
  let buf = Buffer.create 1024 in
  let chans = Array.of_list b.b_chans in
  let pc id =
    let ch = chans.(int_of_nat id) in
    Buffer.add_string buf (Printf.sprintf " %s/%s/%d/%d" (string_of_value (chan_read ch)) (string_of_value ch.c_last)
                             (if ch.c_dirty then 1 else 0) (if ch.c_stack then List.length ch.c_stk else 0)) in
  Buffer.add_string buf "ch";
  for ti = 0 to t - 1 do
    let tn = nat_of_int ti in
    for w = 0 to 2 do pc (ch_th sx tn (nat_of_int w)) done;
    for ki = 0 to k - 1 do pc (ch_raw sx tn (nat_of_int ki)) done;
    for ki = 0 to k - 1 do pc (ch_trk sx tn (nat_of_int ki)) done
  done;
  for ci = 0 to c - 1 do
    let cn = nat_of_int ci in
    for w = 0 to 4 do pc (ch_cpu sx cn (nat_of_int w)) done;
    for ki = 0 to k - 1 do pc (ch_ctrk sx cn (nat_of_int ki)) done
  done;
  Buffer.add_string buf " mx";
  let muxes = Array.of_list b.b_muxes in
  let pm id =
    let m = muxes.(int_of_nat id) in
    if m.mx_init then begin
      Buffer.add_string buf (Printf.sprintf " %d:" (match m.mx_selected with None -> -1 | Some i -> int_of_nat i));
      List.iter (fun e -> Buffer.add_char buf (if e then '1' else '0')) m.mx_en
    end in
  for ti = 0 to t - 1 do for ki = 0 to k - 1 do pm (mx_th sx (nat_of_int ti) (nat_of_int ki)) done done;
  for ci = 0 to c - 1 do for ki = 0 to k - 1 do pm (mx_cpu sx (nat_of_int ci) (nat_of_int ki)) done done;
  let pl cpu tag =
    Buffer.add_string buf (" " ^ tag);
    List.iter (fun l -> if l.l_cpu = cpu then
                  Buffer.add_string buf (Printf.sprintf " %d:%s:%s" (int_of_nat l.l_row) (sz l.l_type) (sz l.l_val))) ls in
  pl false "th"; pl true "cpu";
  Buffer.contents buf

let parse_write sx tok : wop =
  let kind = tok.[0] in
  let n = String.length tok in
  let rec find_op i = if i >= n then failwith "op" else match tok.[i] with '=' | '+' -> i | '-' when i > 1 -> i | _ -> find_op (i + 1) in
  let oi = find_op 1 in
  let addr = String.sub tok 1 (oi - 1) in
  let v = value_of_string (String.sub tok (oi + 1) (n - oi - 1)) in
  let a, b = match String.index_opt addr '.' with
    | Some d -> int_of_string (String.sub addr 0 d), int_of_string (String.sub addr (d + 1) (String.length addr - d - 1))
    | None -> int_of_string addr, 0 in
  let c = match kind with
    | 'a' -> ch_th sx (nat_of_int a) (nat_of_int 0)
    | 'i' -> ch_th sx (nat_of_int a) (nat_of_int 1)
    | 's' -> ch_th sx (nat_of_int a) (nat_of_int 2)
    | 'c' -> ch_cpu sx (nat_of_int a) (nat_of_int b)
    | 'r' -> ch_raw sx (nat_of_int a) (nat_of_int b)
    | _ -> failwith "kind" in
  match tok.[oi] with
  | '=' -> WSet (c, v)
  | '+' -> WPush (c, v)
  | _ -> WPop (c, v)

let run_script line =
  match String.split_on_char '|' line with
  | [hd; specs; batches] ->
    let t, c, k = match words hd with
      | ["B"; t; c; k] -> int_of_string t, int_of_string c, int_of_string k
      | _ -> failwith "head" in
    let specs = List.filter (fun s -> words s <> []) (String.split_on_char ';' specs) in
    let specs = List.map (fun s -> match words s with
        | [st; dup; mode; flags; ini; def] ->
          (st <> "0", dup <> "0", int_of_string mode, zs flags, value_of_string ini, value_of_string def)
        | _ -> failwith "spec") specs in
    if List.length specs <> k then failwith "nspecs";
    let sx = mk_static t c specs in
    let out = Buffer.create 4096 in
    (match wire_init sx with
     | Err _ -> Buffer.add_string out "err"
     | Ok ((b, last), ls) ->
       Buffer.add_string out (dump sx t c k b ls);
       let rec go b last = function
         | [] -> ()
         | batch :: rest ->
           let ws = List.filter (fun w -> w <> "-") (words batch) in
           let ws = List.map (parse_write sx) ws in
           Buffer.add_string out " | ";
           (match apply_writes b ws with
            | Err _ -> Buffer.add_string out "err"
            | Ok b1 ->
              match propagate b1 last with
              | Err _ -> Buffer.add_string out "err"
              | Ok ((b2, last2), ls) ->
                Buffer.add_string out (dump sx t c k b2 ls);
                go b2 last2 rest) in
       let batches = List.filter (fun s -> words s <> []) (String.split_on_char ';' batches) in
       go b last batches);
    Buffer.contents out
  | _ -> "bad"

let () =
  try
    while true do
      let line = input_line stdin in
      (try print_string (run_script line) with Failure m -> print_string ("bad " ^ m) | Not_found -> print_string "bad nf"
                                                  | Invalid_argument m -> print_string ("bad " ^ m));
      print_newline ()
    done
  with End_of_file -> ()
