(* line-protocol driver around the extracted ev_spec model (coq/Tools/EvSpecDefs.v)
   R <sighex|-> <deschex|-> <payloadhex|->      ->  ok <texthex|-> | err | unsupported | nocompile
        payload "-" = the event has no payload
   S <sighex|-> <deschex|-> <vals|->            ->  spec <fits 0|1> <texthex|-> <payloadhex|-> | outside
        vals = comma separated: i<decimal> (integer) or s<hex> (string bytes, may be empty) *)
open Evspec_x

let rec pos_of_int n = if n = 1 then XH else if n land 1 = 0 then XO (pos_of_int (n lsr 1)) else XI (pos_of_int (n lsr 1))
let z_of_int n = if n = 0 then Z0 else if n > 0 then Zpos (pos_of_int n) else Zneg (pos_of_int (-n))
let rec int_of_pos = function XH -> 1 | XO p -> 2 * int_of_pos p | XI p -> 2 * int_of_pos p + 1
let int_of_z = function Z0 -> 0 | Zpos p -> int_of_pos p | Zneg p -> - (int_of_pos p)

let bytes_of_hex s =
  if s = "-" then [] else
  let n = String.length s / 2 in
  List.init n (fun i -> z_of_int (int_of_string ("0x" ^ String.sub s (2*i) 2)))

let hex_of_bytes l =
  if l = [] then "-" else String.concat "" (List.map (fun z -> Printf.sprintf "%02x" (int_of_z z)) l)

(* arbitrary size decimal -> Z using the extracted arithmetic *)
let z_of_dec s =
  let neg = String.length s > 0 && s.[0] = '-' in
  let d = if neg then String.sub s 1 (String.length s - 1) else s in
  let ten = z_of_int 10 in
  let v = ref Z0 in
  String.iter (fun c -> v := Z.add (Z.mul !v ten) (z_of_int (Char.code c - 48))) d;
  if neg then Z.opp !v else !v

let value_of s =
  if String.length s = 0 then failwith "bad value"
  else if s.[0] = 'i' then VInt (z_of_dec (String.sub s 1 (String.length s - 1)))
  else if s.[0] = 's' then
    (let h = String.sub s 1 (String.length s - 1) in VStr (if h = "" then [] else bytes_of_hex h))
  else failwith "bad value"

let () =
  try
    while true do
      let line = input_line stdin in
      (match String.split_on_char ' ' line with
       | ["R"; sg; ds; pl] ->
         let p = if pl = "-" then None else Some (bytes_of_hex pl) in
         (match dump (bytes_of_hex sg) (bytes_of_hex ds) p with
          | DText t -> print_endline ("ok " ^ hex_of_bytes t)
          | DUnknown -> print_endline "err"
          | DNoCompile -> print_endline "nocompile"
          | DUnsupported -> print_endline "unsupported")
       | ["S"; sg; ds; vs] ->
         let vals = if vs = "-" then [] else List.map value_of (String.split_on_char ',' vs) in
         (match spec_dump (bytes_of_hex sg) (bytes_of_hex ds) vals with
          | None -> print_endline "outside"
          | Some ((f, t), p) ->
            print_endline ("spec " ^ (if f then "1" else "0") ^ " " ^ hex_of_bytes t ^ " " ^
                           (match p with None -> "-" | Some b -> hex_of_bytes b)))
       | _ -> print_endline "?")
    done
  with End_of_file -> ()
