(* line-protocol driver around the extracted metadata-merge model (C15)
   input :  <B|U> <stream>;<stream>;...      B = repaired model, U = model of the unrepaired load_cpus
   stream:  <loomhex>,<pid>,<tid>,<app|->,<rank|->,<nranks|->,<cpus>
   cpus  :  -  (absent) | e (empty array) | <index>:<phyid>/<index>:<phyid>/...
   output:  err | crash | ok T <row>,<loomhex>,<pid>,<tid>,<appid>;... C <row>,<loom gindex>,<loomhex>,<index>,<phyid>|<row>,<g>,<loomhex>,v;... *)
open Meta_x

let rec pos_of_int n = if n = 1 then XH else if n land 1 = 0 then XO (pos_of_int (n lsr 1)) else XI (pos_of_int (n lsr 1))
let z_of_int n = if n = 0 then Z0 else if n > 0 then Zpos (pos_of_int n) else Zneg (pos_of_int (-n))
let rec int_of_pos = function XH -> 1 | XO p -> 2 * int_of_pos p | XI p -> 2 * int_of_pos p + 1
let int_of_z = function Z0 -> 0 | Zpos p -> int_of_pos p | Zneg p -> - (int_of_pos p)
let zs s = z_of_int (int_of_string s)
let si z = string_of_int (int_of_z z)

let bytes_of_hex s =
  if s = "-" then [] else
  let n = String.length s / 2 in
  List.init n (fun i -> z_of_int (int_of_string ("0x" ^ String.sub s (2*i) 2)))
let hex_of_bytes l =
  if l = [] then "-" else String.concat "" (List.map (fun z -> Printf.sprintf "%02x" (int_of_z z)) l)

let opt s = if s = "-" then None else Some (zs s)

let parse_stream s =
  match String.split_on_char ',' s with
  | [loom; pid; tid; app; rank; nranks; cpus] ->
    let cl =
      if cpus = "-" then None
      else if cpus = "e" then Some []
      else Some (List.map (fun e -> match String.split_on_char ':' e with
          | [i; p] -> (zs i, zs p) | _ -> failwith "bad cpu") (String.split_on_char '/' cpus)) in
    { s_loom = bytes_of_hex loom; s_pid = zs pid; s_tid = zs tid; s_app = opt app; s_rank = opt rank;
      s_nranks = opt nranks; s_cpus = cl }
  | _ -> failwith "bad stream"

let show = function
  | Err -> "err"
  | Crash -> "crash"
  | Ok sys ->
    let t = List.map (fun (row, (((l, p), t), a)) ->
        Printf.sprintf "%s,%s,%s,%s,%s" (si row) (hex_of_bytes l) (si p) (si t) (si a)) (thread_rows sys) in
    let c = List.map (fun (row, ((g, l), c)) ->
        match c with
        | Some (i, p) -> Printf.sprintf "%s,%s,%s,%s,%s" (si row) (si g) (hex_of_bytes l) (si i) (si p)
        | None -> Printf.sprintf "%s,%s,%s,v" (si row) (si g) (hex_of_bytes l)) (cpu_rows sys) in
    "ok T " ^ String.concat ";" t ^ " C " ^ String.concat ";" c

let () =
  try
    while true do
      let line = input_line stdin in
      (try
         match String.split_on_char ' ' line with
         | [cmd; ms] ->
           let m = if ms = "" then [] else List.map parse_stream (String.split_on_char ';' ms) in
           if cmd = "B" then print_endline (show (build m))
           else if cmd = "U" then print_endline (show (Unfixed.build m))
           else print_endline "?"
         | _ -> print_endline "?"
       with Failure e -> print_endline ("? " ^ e))
    done
  with End_of_file -> ()
