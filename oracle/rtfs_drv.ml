(* line-protocol driver around the extracted rtfs model (coq/Rt/RtFsDefs.v)
   T <new|old> <direct|tmp> <bufsz> <order> <threads>            -> predicted calls "kind path size res;..."
   K <new|old> <direct|tmp> <bufsz> <order> <threads> <k>        -> tree after the first k calls | emu_ok(fin) emu_ok(tmp) | s1(fin) s1(tmp) s2
   F <new|old> <direct|tmp> <bufsz> <order> <threads> <i> <err|short:c> -> outcome | orphan_delete | tree | number of calls made
   order   = per pass a string over d(.) D(..) j(stream.json) o(stream.obs), passes separated by ','
   threads = tid/meta0size/meta1size/chunkhex,chunkhex,... separated by ';' ("-" = no chunk / empty chunk) *)
open Rtfs_x

let rec pos_of_int n = if n = 1 then XH else if n land 1 = 0 then XO (pos_of_int (n lsr 1)) else XI (pos_of_int (n lsr 1))
let z_of_int n = if n = 0 then Z0 else if n > 0 then Zpos (pos_of_int n) else Zneg (pos_of_int (-n))
let rec int_of_pos = function XH -> 1 | XO p -> 2 * int_of_pos p | XI p -> 2 * int_of_pos p + 1
let int_of_z = function Z0 -> 0 | Zpos p -> int_of_pos p | Zneg p -> - (int_of_pos p)
let nat_of_int n = let rec go k acc = if k = 0 then acc else go (k - 1) (S acc) in go n O
let rec int_of_nat = function O -> 0 | S n -> 1 + int_of_nat n
let int_of_nat n = let rec go n acc = match n with O -> acc | S m -> go m (acc + 1) in go n 0

let bytes_of_hex s =
  if s = "-" then [] else
  List.init (String.length s / 2) (fun i -> z_of_int (int_of_string ("0x" ^ String.sub s (2*i) 2)))
let string_of_bytes l = let b = Buffer.create 64 in List.iter (fun z -> Buffer.add_char b (Char.chr (int_of_z z land 255))) l; Buffer.contents b
let llen l = List.length l

let loc_s = function Fin -> "rtfs_fin" | Tmp -> "rtfs_tmp"
let fname_s = function Obs -> "stream.obs" | Json -> "stream.json"
let rec path_s = function
  | PRoot l -> loc_s l
  | PLoom l -> loc_s l ^ "/loom.L"
  | PProc l -> loc_s l ^ "/loom.L/proc.77"
  | PThread (l, t) -> path_s (PProc l) ^ "/thread." ^ string_of_int (int_of_z t)
  | PFile (l, t, f) -> path_s (PThread (l, t)) ^ "/" ^ fname_s f
let entry_s = function EDot -> "." | EDotDot -> ".." | EFile f -> fname_s f

let parse_variant s = if s = "old" then Old else New
let parse_mode s = if s = "tmp" then TmpMode else Direct
let parse_order s =
  let passes = List.map (fun p ->
      List.map (fun c -> match c with 'd' -> EDot | 'D' -> EDotDot | 'j' -> EFile Json | _ -> EFile Obs)
        (List.init (String.length p) (String.get p))) (String.split_on_char ',' s) in
  let n = List.length passes in
  fun (_ : z) (p : nat) -> let i = int_of_nat p in List.nth passes (if i < n then i else n - 1)
let parse_threads s =
  List.map (fun t -> match String.split_on_char '/' t with
      | [tid; m0; m1; ch] ->
        let chunks = if ch = "-" then [] else List.map bytes_of_hex (String.split_on_char ',' ch) in
        (* meta_text fin n has n + 2 (+1 if fin) bytes *)
        { th_tid = z_of_int (int_of_string tid); th_chunks = chunks;
          th_meta0 = nat_of_int (max 0 (int_of_string m0 - 2)); th_meta1 = nat_of_int (max 0 (int_of_string m1 - 3)) }
      | _ -> failwith "bad thread") (String.split_on_char ';' s)

let all_paths p =
  List.concat_map (fun l ->
      [PRoot l; PLoom l; PProc l] @
      List.concat_map (fun th -> [PThread (l, th.th_tid); PFile (l, th.th_tid, Obs); PFile (l, th.th_tid, Json)]) p)
    [Fin; Tmp]

let tree_s (s : fsys) p =
  let items = List.filter_map (fun pa ->
      match pa with
      | PFile (_, _, f) ->
        (match s.files pa with
         | None -> None
         | Some d ->
           let n = llen d in
           if f = Json then
             Some (Printf.sprintf "J %s %d %s" (path_s pa) n
                     (if n = 0 then "empty" else if json_finished d then "fin" else if json_ok d then "unfin" else "bad"))
           else Some (Printf.sprintf "F %s %d %s" (path_s pa) n (Digest.to_hex (Digest.string (string_of_bytes d)))))
      | _ -> if s.dirs pa then Some ("D " ^ path_s pa) else None) (all_paths p) in
  String.concat ";" (List.sort compare items)

let b2s b = if b then "1" else "0"

(* predicted log line of a healthy call made in state s *)
let call_s bufsz (s : fsys) o =
  match o with
  | Mkdir p -> Printf.sprintf "mkdir %s 0 %d" (path_s p) (if s.dirs p then -1 else 0)
  | Open p -> Printf.sprintf "open %s 0 0" (path_s p)
  | Write (p, bs) -> Printf.sprintf "write %s %d %d" (path_s p) (llen bs) (llen bs)
  | Close p -> Printf.sprintf "close %s 0 0" (path_s p)
  | FopenW p -> Printf.sprintf "fopen_w %s 0 0" (path_s p)
  | FopenR p -> Printf.sprintf "fopen_r %s 0 0" (path_s p)
  | Fputs (p, bs) -> Printf.sprintf "fputs %s %d 0" (path_s p) (llen bs)
  | Fread (p, bs) -> Printf.sprintf "fread %s 1024 %d" (path_s p) (llen bs)
  | Fwrite (p, bs) -> Printf.sprintf "fwrite %s %d %d" (path_s p) (llen bs) (llen bs)
  | Fclose p -> Printf.sprintf "fclose %s 0 0" (path_s p)
  | Opendir p -> Printf.sprintf "opendir %s 0 0" (path_s p)
  | Readdir (p, Some e) -> Printf.sprintf "readdir %s/%s 0 0" (path_s p) (entry_s e)
  | Readdir (p, None) -> Printf.sprintf "readdir %s/<end> 0 -1" (path_s p)
  | Closedir p -> Printf.sprintf "closedir %s 0 0" (path_s p)
  | Remove p -> Printf.sprintf "remove %s 0 0" (path_s p)
  | Rmdir (p, ch) -> Printf.sprintf "rmdir %s 0 %d" (path_s p) (if List.for_all (fun c -> absent s c) ch then 0 else -1)

let rec firstn k l = if k = 0 then [] else match l with [] -> [] | x :: r -> x :: firstn (k - 1) r

let () =
  try
    while true do
      let line = input_line stdin in
      (try
         match String.split_on_char ' ' line with
         | "T" :: v :: m :: bufsz :: ord :: ths :: [] ->
           let p = parse_threads ths in
           let ops = trace_of_program_v (parse_variant v) (parse_mode m) p (parse_order ord) in
           let bz = nat_of_int (int_of_string bufsz) in
           let s = ref fs0 in
           let out = List.map (fun o -> let l = call_s bz !s o in s := exec_ok bz o !s; l) ops in
           print_endline (String.concat ";" out)
         | "K" :: v :: m :: bufsz :: ord :: ths :: k :: [] ->
           let p = parse_threads ths in
           let ops = trace_of_program_v (parse_variant v) (parse_mode m) p (parse_order ord) in
           let bz = nat_of_int (int_of_string bufsz) in
           let k = int_of_string k in
           let s = apply_prefix bz (nat_of_int k) ops in
           let pre = firstn k ops in
           let fl t = flushed_of pre t in
           let ts = tids p in
           print_endline (Printf.sprintf "%s | %s %s | %s %s %s" (tree_s s p)
                            (b2s (emu_ok s Fin ts)) (b2s (emu_ok s Tmp ts))
                            (b2s (c09_s1_ok s Fin ts fl)) (b2s (c09_s1_ok s Tmp ts fl)) (b2s (c09_s2_ok s p fl)))
         | "F" :: v :: m :: bufsz :: ord :: ths :: i :: fk :: [] ->
           let p = parse_threads ths in
           let ins = itrace (parse_variant v) (parse_mode m) p (parse_order ord) in
           let bz = nat_of_int (int_of_string bufsz) in
           let fk = if fk = "err" then FErr else
               (match String.split_on_char ':' fk with
                | ["short"; c] -> FShort (nat_of_int (int_of_string c)) | _ -> failwith "bad fault") in
           let s = apply_with_fault bz (nat_of_int (int_of_string i - 1)) fk ins in
           let oc = match outcome_of p s with
             | AbortWithDiagnostic -> "abort-diag" | AbortSilently -> "abort-silent"
             | CompleteValidTrace -> "complete" | ReturnedIncomplete -> "incomplete" in
           print_endline (Printf.sprintf "%s | %s | %s | %d" oc (b2s (orphan_delete s p)) (tree_s s.m_fs p) (llen s.m_log))
         | _ -> print_endline "?"
       with e -> print_endline ("error " ^ Printexc.to_string e))
    done
  with End_of_file -> ()
