(* C02, clause "the metadata is complete": model of the METADATA side of the tracing runtime
   (src/rt/ovni.c: everything that touches rthread.meta and stream.json) on top of a small model of
   the parson object API the runtime uses (src/parson.c: json_object_set_value, json_object_dotset_value,
   json_object_dotget_value).  Definitions only; proofs in Proofs/RtMetaProofs.v.

   What is modelled, statement by statement:
     ovni_proc_init, ovni_proc_fini, ovni_thread_init (thread_metadata_init -> populate -> store, then
     the implicit ovni_thread_require("ovni", OVNI_MODEL_VERSION) which is NOT stored), ovni_add_cpu,
     ovni_proc_set_rank (thread-local!), ovni_thread_require, ovni_attr_set_{str,double,boolean,json},
     ovni_attr_has, ovni_attr_get_{str,double,boolean,json}, ovni_attr_flush, ovni_flush (touches no
     metadata), ovni_thread_free (rank, cpus, finished, store).
   A call either makes the process abort (die() -> abort(): ODie), or yields the new state, at most one
   FILE WRITE (tid, tree) = the content of <procdir>/thread.<tid>/stream.json from then on, and for
   the read-only attribute calls the value returned.  The file on disk after any prefix of a program
   is the last write for that tid.

   Not modelled (trusted / other properties): the serialisation to text and the file system
   (json_serialize_to_file_pretty; C09/C10 cover ordering and faults), OVNI_TMPDIR relocation, NULL
   pointers, strings that are not 7-bit ASCII (parson validates UTF-8 and escapes), numbers that are not
   integers of magnitude <= 2^53 (JSON numbers are doubles), the mark API (C17).  A call outside this
   domain yields OOut, never a made-up answer.

   Threads: libovni keeps the thread state in TLS; a program is a list of (thread slot, call) executed
   in that order; one process (rproc is a process global). *)
From OV Require Import Base.CInt Emu.LoaderMetaDefs Emu.VersionDefs.
From OV Require Emu.MetaDefs.
Local Open Scope Z_scope.

Definition str := list Z.                       (* bytes of a C string, no NUL *)
Definition str_dec : forall a b : str, {a = b} + {a <> b} := list_eq_dec Z.eq_dec.

Inductive json :=
| jnull
| jbool (b : bool)
| jnum (z : Z)
| jstr (s : str)
| jarr (l : list json)
| jobj (fs : list (str * json)).                 (* names[] / values[] of a JSON_Object, in array order *)

Definition fields := list (str * json).

(* ------------------------------------------------------------------ parson objects *)
(* json_object_getn_value: first entry with that name *)
Fixpoint fget (fs : fields) (k : str) : option json :=
  match fs with
  | [] => None
  | (k', v) :: r => if str_dec k' k then Some v else fget r k
  end.

(* the overwrite branch of json_object_set_value: the first entry named k keeps its place *)
Fixpoint freplace (fs : fields) (k : str) (v : json) : fields :=
  match fs with
  | [] => []
  | (k', v') :: r => if str_dec k' k then (k', v) :: r else (k', v') :: freplace r k v
  end.

(* json_object_set_value: overwrite in place, otherwise json_object_add appends *)
Definition fset (fs : fields) (k : str) (v : json) : fields :=
  match fget fs k with
  | Some _ => freplace fs k v
  | None => fs ++ [(k, v)]
  end.

Definition DOTC : Z := 46.

(* a dotted name as parson walks it: strchr(name, '.') splits off the first component, recursively; every
   component may be empty ("a..b", "", "a." are legal names for parson) *)
Fixpoint split_dots_ne (s : str) : str * list str :=
  match s with
  | [] => ([], [])
  | c :: r => let (h, t) := split_dots_ne r in if c =? DOTC then ([], h :: t) else (c :: h, t)
  end.
Definition split_dots (s : str) : list str := let (h, t) := split_dots_ne s in h :: t.

(* json_object_dotget_value on a component path; [] never arises from split_dots *)
Fixpoint pget (fs : fields) (p : list str) : option json :=
  match p with
  | [] => None
  | c :: rest =>
    match rest with
    | [] => fget fs c
    | _ :: _ => match fget fs c with Some (jobj fs') => pget fs' rest | _ => None end
    end
  end.

(* json_object_dotset_value: None = JSONFailure.
     last component             -> json_object_set_value
     prefix names a non-object  -> failure ("Don't overwrite existing non-object")
     prefix names an object     -> recurse into it
     prefix missing             -> new object, recurse, json_object_addn (append) *)
Fixpoint pset (fs : fields) (p : list str) (v : json) : option fields :=
  match p with
  | [] => None
  | c :: rest =>
    match rest with
    | [] => Some (fset fs c v)
    | _ :: _ =>
      match fget fs c with
      | Some (jobj fs') =>
        match pset fs' rest v with
        | Some fs'' => Some (freplace fs c (jobj fs''))
        | None => None
        end
      | Some _ => None
      | None =>
        match pset [] rest v with
        | Some n => Some (fs ++ [(c, jobj n)])
        | None => None
        end
      end
    end
  end.

Definition dotget (fs : fields) (key : str) : option json := pget fs (split_dots key).
Definition dotset (fs : fields) (key : str) (v : json) : option fields := pset fs (split_dots key) v.

Fixpoint psets (fs : fields) (l : list (list str * json)) : option fields :=
  match l with
  | [] => Some fs
  | (p, v) :: r => match pset fs p v with Some fs' => psets fs' r | None => None end
  end.

(* ------------------------------------------------------------------ the attribute API on a tree *)
Definition attr_set (fs : fields) (key : str) (v : json) : option fields := dotset fs key v.
Definition attr_get (fs : fields) (key : str) : option json := dotget fs key.
Definition attr_has (fs : fields) (key : str) : bool := match dotget fs key with Some _ => true | None => false end.

(* ------------------------------------------------------------------ key names *)
Definition k_version : str := [118; 101; 114; 115; 105; 111; 110].  (* "version" *)
Definition k_ovni : str := [111; 118; 110; 105].  (* "ovni" *)
Definition k_lib : str := [108; 105; 98].  (* "lib" *)
Definition k_commit : str := [99; 111; 109; 109; 105; 116].  (* "commit" *)
Definition k_part : str := [112; 97; 114; 116].  (* "part" *)
Definition k_thread : str := [116; 104; 114; 101; 97; 100].  (* "thread" *)
Definition k_tid : str := [116; 105; 100].  (* "tid" *)
Definition k_pid : str := [112; 105; 100].  (* "pid" *)
Definition k_loom : str := [108; 111; 111; 109].  (* "loom" *)
Definition k_app_id : str := [97; 112; 112; 95; 105; 100].  (* "app_id" *)
Definition k_require : str := [114; 101; 113; 117; 105; 114; 101].  (* "require" *)
Definition k_rank : str := [114; 97; 110; 107].  (* "rank" *)
Definition k_nranks : str := [110; 114; 97; 110; 107; 115].  (* "nranks" *)
Definition k_loom_cpus : str := [108; 111; 111; 109; 95; 99; 112; 117; 115].  (* "loom_cpus" *)
Definition k_finished : str := [102; 105; 110; 105; 115; 104; 101; 100].  (* "finished" *)
Definition k_index : str := [105; 110; 100; 101; 120].  (* "index" *)
Definition k_phyid : str := [112; 104; 121; 105; 100].  (* "phyid" *)

(* ------------------------------------------------------------------ the runtime *)
(* constants of the build: OVNI_LIB_VERSION, OVNI_GIT_COMMIT, OVNI_MODEL_VERSION *)
Record cfg := mkCfg { c_lib_version : str; c_lib_commit : str; c_model_version : str }.

Inductive op :=
| ProcInit (app : Z) (loom : str) (pid : Z)
| ProcSetRank (rank nranks : Z)
| ThreadInit (tid : Z)
| AddCpu (index phyid : Z)
| Require (model version : str)
| AttrSetStr (key v : str)
| AttrSetDouble (key : str) (v : Z)
| AttrSetBool (key : str) (b : bool)
| AttrSetJson (key : str) (v : json)          (* the text handed over is a serialisation of v *)
| AttrHas (key : str)
| AttrGetStr (key : str)
| AttrGetDouble (key : str)
| AttrGetBool (key : str)
| AttrGetJson (key : str)
| AttrFlush
| Flush
| ThreadFree
| ProcFini.

Inductive pst := PUninit | PReady | PGone.      (* rproc.st; ST_INIT is transient *)

Record thread := mkT {
  t_ready : bool; t_finished : bool; t_tid : Z;
  t_cpus : list (Z * Z);                        (* rthread.cpus, DL_APPEND order *)
  t_rank : option (Z * Z);                      (* rank_set, rank, nranks *)
  t_meta : fields                               (* rthread.meta (always an object) *)
}.
Definition thread0 : thread := mkT false false 0 [] None [].

Record state := mkSt {
  st_proc : pst; st_app : Z; st_loom : str; st_pid : Z;
  st_threads : list (nat * thread)              (* TLS of each thread slot; first entry wins *)
}.
Definition st0 : state := mkSt PUninit 0 [] 0 [].

Fixpoint tget (ts : list (nat * thread)) (n : nat) : thread :=
  match ts with
  | [] => thread0
  | (m, t) :: r => if Nat.eqb m n then t else tget r n
  end.
Definition tset (s : state) (n : nat) (t : thread) : state :=
  mkSt (st_proc s) (st_app s) (st_loom s) (st_pid s) ((n, t) :: st_threads s).

Definition proc_ready (s : state) : bool := match st_proc s with PReady => true | _ => false end.

Inductive outcome :=
| ODie                                          (* die(): the process aborts *)
| OOut                                          (* call outside the modelled domain *)
| ODone (s : state) (w : option (Z * json)) (obs : option json).

Definition OVNI_MAX_HOSTNAME : Z := 512.

(* thread_metadata_populate, from the empty object *)
Definition populate (c : cfg) (s : state) (tid : Z) : option fields :=
  psets [] [([k_version], jnum METADATA_VERSION);
            ([k_ovni; k_lib; k_version], jstr (c_lib_version c));
            ([k_ovni; k_lib; k_commit], jstr (c_lib_commit c));
            ([k_ovni; k_part], jstr k_thread);
            ([k_ovni; k_tid], jnum tid);
            ([k_ovni; k_pid], jnum (st_pid s));
            ([k_ovni; k_loom], jstr (st_loom s));
            ([k_ovni; k_app_id], jnum (st_app s))].

(* ovni_thread_require after the ready check: None = die *)
Definition require_tree (fs : fields) (model version : str) : option fields :=
  if existsb (fun ch => (ch =? 32) || (ch =? DOTC)) model then None          (* strpbrk(model, " .") *)
  else if (length model <=? 1)%nat then None                                 (* strlen(model) <= 1 *)
  else match version_parse (Some version) with
       | None => None
       | Some _ =>
         if 128 <=? 13 + Z.of_nat (length model) then None                   (* snprintf(dotpath, 128, "ovni.require.%s") *)
         else pset fs [k_ovni; k_require; model] (jstr version)
       end.

Definition cpu_json (ip : Z * Z) : json := jobj [(k_index, jnum (fst ip)); (k_phyid, jnum (snd ip))].

(* ovni_thread_free up to the store: set_thread_rank, set_thread_cpus, ovni.finished *)
Definition free_tree (t : thread) : option fields :=
  match (match t_rank t with
         | Some (r, n) => psets (t_meta t) [([k_ovni; k_rank], jnum r); ([k_ovni; k_nranks], jnum n)]
         | None => Some (t_meta t)
         end) with
  | None => None
  | Some fs1 =>
    match (match t_cpus t with
           | [] => Some fs1
           | _ :: _ => pset fs1 [k_ovni; k_loom_cpus] (jarr (map cpu_json (t_cpus t)))
           end) with
    | None => None
    | Some fs2 => pset fs2 [k_ovni; k_finished] (jnum 1)
    end
  end.

(* --- the modelled domain *)
Definition ascii (s : str) : bool := forallb (fun ch => (1 <=? ch) && (ch <=? 127)) s.
Definition i32 (z : Z) : bool := (- 2 ^ 31 <=? z) && (z <? 2 ^ 31).
Definition num_dom (z : Z) : bool := (- 2 ^ 53 <=? z) && (z <=? 2 ^ 53).
Fixpoint json_dom (j : json) : bool :=
  match j with
  | jnull | jbool _ => true
  | jnum z => num_dom z
  | jstr s => ascii s
  | jarr l => forallb json_dom l
  | jobj fs => forallb (fun kv => ascii (fst kv) && json_dom (snd kv)) fs
  end.
Definition in_dom (o : op) : bool :=
  match o with
  | ProcInit app loom pid =>
    (* "loom.<name>" must be a file name the file system can hold (NAME_MAX 255), unless the library refuses it first *)
    i32 app && i32 pid && ascii loom && negb (existsb (Z.eqb SLASH) loom)
    && ((Z.of_nat (length loom) <=? 250) || (OVNI_MAX_HOSTNAME <=? Z.of_nat (length loom)))
  | ProcSetRank r n => i32 r && i32 n
  | ThreadInit tid => i32 tid
  | AddCpu i p => i32 i && i32 p
  | Require m v => ascii m && ascii v
  | AttrSetStr k v => ascii k && ascii v
  | AttrSetDouble k v => ascii k && num_dom v
  | AttrSetBool k _ => ascii k
  | AttrSetJson k v => ascii k && json_dom v
  | AttrHas k | AttrGetStr k | AttrGetDouble k | AttrGetBool k | AttrGetJson k => ascii k
  | AttrFlush | Flush | ThreadFree | ProcFini => true
  end.

(* json_parse_string refuses an object with a repeated name (json_object_add fails) *)
Fixpoint nodup_keys (l : list str) : bool :=
  match l with
  | [] => true
  | k :: r => negb (existsb (fun k' => if str_dec k k' then true else false) r) && nodup_keys r
  end.
Fixpoint json_parses (j : json) : bool :=
  match j with
  | jarr l => forallb json_parses l
  | jobj fs => nodup_keys (map fst fs) && forallb (fun kv => json_parses (snd kv)) fs
  | _ => true
  end.

(* get_thread_metadata: finished -> die; not ready -> die *)
Definition attr_gate (t : thread) : bool := negb (t_finished t) && t_ready t.

Definition with_meta (t : thread) (fs : fields) : thread :=
  mkT (t_ready t) (t_finished t) (t_tid t) (t_cpus t) (t_rank t) fs.

Definition attr_store (s : state) (th : nat) (key : str) (v : json) : outcome :=
  let t := tget (st_threads s) th in
  if negb (attr_gate t) then ODie else
  match attr_set (t_meta t) key v with
  | None => ODie                                            (* json_object_dotset_* failed *)
  | Some fs => ODone (tset s th (with_meta t fs)) None None
  end.

Definition attr_read (s : state) (th : nat) (key : str) (sel : json -> option json) : outcome :=
  let t := tget (st_threads s) th in
  if negb (attr_gate t) then ODie else
  match attr_get (t_meta t) key with
  | None => ODie                                            (* key not found *)
  | Some v => match sel v with None => ODie | Some r => ODone s None (Some r) end
  end.

Definition step (c : cfg) (s : state) (th : nat) (o : op) : outcome :=
  if negb (in_dom o) then OOut else
  let t := tget (st_threads s) th in
  match o with
  | ProcInit app loom pid =>
    match st_proc s with
    | PUninit =>
      if OVNI_MAX_HOSTNAME <=? Z.of_nat (length loom) then ODie
      else ODone (mkSt PReady app loom pid (st_threads s)) None None
    | _ => ODie
    end
  | ProcFini =>
    if proc_ready s then ODone (mkSt PGone (st_app s) (st_loom s) (st_pid s) (st_threads s)) None None else ODie
  | ThreadInit tid =>
    if t_ready t then ODone s None None                      (* "already initialized, ignored" *)
    else if t_finished t then ODie
    else if tid =? 0 then ODie
    else if negb (proc_ready s) then ODie
    else match populate c s tid with
         | None => ODie
         | Some fs =>
           (* the store comes before the implicit require *)
           match require_tree fs k_ovni (c_model_version c) with
           | None => ODie
           | Some fs' => ODone (tset s th (mkT true false tid [] None fs')) (Some (tid, jobj fs)) None
           end
         end
  | AddCpu i p =>
    if i <? 0 then ODie else if p <? 0 then ODie
    else if negb (proc_ready s) then ODie
    else if negb (t_ready t) then ODie
    else ODone (tset s th (mkT (t_ready t) (t_finished t) (t_tid t) (t_cpus t ++ [(i, p)]) (t_rank t) (t_meta t))) None None
  | ProcSetRank r n =>
    if negb (proc_ready s) then ODie
    else if negb (t_ready t) then ODie
    else ODone (tset s th (mkT (t_ready t) (t_finished t) (t_tid t) (t_cpus t) (Some (r, n)) (t_meta t))) None None
  | Require m v =>
    if negb (t_ready t) then ODie
    else match require_tree (t_meta t) m v with
         | None => ODie
         | Some fs => ODone (tset s th (with_meta t fs)) None None
         end
  | AttrSetStr k v => attr_store s th k (jstr v)
  | AttrSetDouble k v => attr_store s th k (jnum v)
  | AttrSetBool k b => attr_store s th k (jbool b)
  | AttrSetJson k v =>
    if negb (attr_gate t) then ODie
    else if negb (json_parses v) then ODie                   (* "cannot parse json" *)
    else attr_store s th k v
  | AttrHas k =>
    if negb (attr_gate t) then ODie else ODone s None (Some (jbool (attr_has (t_meta t) k)))
  | AttrGetStr k => attr_read s th k (fun v => match v with jstr _ => Some v | _ => None end)
  | AttrGetDouble k => attr_read s th k (fun v => match v with jnum _ => Some v | _ => None end)
  | AttrGetBool k => attr_read s th k (fun v => match v with jbool _ => Some v | _ => None end)
  | AttrGetJson k => attr_read s th k (fun v => Some v)
  | AttrFlush =>
    if t_finished t then ODie else if negb (t_ready t) then ODie
    else ODone s (Some (t_tid t, jobj (t_meta t))) None
  | Flush =>
    if negb (t_ready t) then ODie else if negb (proc_ready s) then ODie else ODone s None None
  | ThreadFree =>
    if t_finished t then ODie else if negb (t_ready t) then ODie
    else match free_tree t with
         | None => ODie
         | Some fs => ODone (tset s th (mkT false true (t_tid t) (t_cpus t) (t_rank t) fs)) (Some (t_tid t, jobj fs)) None
         end
  end.

(* --- running a program: one event per executed call; the run stops at the first abort *)
Inductive ev := EvDie | EvOut | EvOk (w : option (Z * json)) (obs : option json).

Definition prog := list (nat * op).

Fixpoint run_from (c : cfg) (s : state) (p : prog) : list ev * state :=
  match p with
  | [] => ([], s)
  | (th, o) :: r =>
    match step c s th o with
    | ODie => ([EvDie], s)
    | OOut => ([EvOut], s)
    | ODone s' w obs => let (l, sf) := run_from c s' r in (EvOk w obs :: l, sf)
    end
  end.
Definition run (c : cfg) (p : prog) : list ev * state := run_from c st0 p.

Definition ev_ok (e : ev) : bool := match e with EvOk _ _ => true | _ => false end.
Definition completed (evs : list ev) : bool := forallb ev_ok evs.

(* the writes with the call that made each *)
Fixpoint tagged (p : prog) (evs : list ev) : list (op * (Z * json)) :=
  match p, evs with
  | (_, o) :: p', EvOk (Some w) _ :: e' => (o, w) :: tagged p' e'
  | _ :: p', _ :: e' => tagged p' e'
  | _, _ => []
  end.
Definition writes (p : prog) (evs : list ev) : list (Z * json) := map snd (tagged p evs).
Definition writes_for (ws : list (Z * json)) (tid : Z) : list json :=
  map snd (filter (fun w => fst w =? tid) ws).
(* content of thread.<tid>/stream.json *)
Definition disk (ws : list (Z * json)) (tid : Z) : option json := last (map Some (writes_for ws tid)) None.

(* ------------------------------------------------------------------ what the emulator's look-ups see *)
Definition jv (o : option json) : jval :=
  match o with
  | None => JMissing
  | Some (jnum z) => JNum z
  | Some (jstr s) => JStr s
  | Some (jobj _) => JObj
  | Some _ => JOther
  end.

(* the file was written by json_serialize_to_file_pretty, so it parses (trusted: serialise/parse round trip) *)
Definition to_loader_meta (j : json) : meta :=
  match j with
  | jobj fs =>
    mk_meta true true
      (jv (pget fs [k_version])) (jv (pget fs [k_ovni; k_part])) (jv (pget fs [k_ovni; k_loom]))
      (jv (pget fs [k_ovni; k_pid])) (jv (pget fs [k_ovni; k_tid])) (jv (pget fs [k_ovni; k_app_id]))
      (jv (pget fs [k_ovni; k_finished])) (jv (pget fs [k_ovni; k_require]))
      (jv (pget fs [k_ovni; k_lib; k_version])) (jv (pget fs [k_ovni; k_lib; k_commit]))
  | _ => mk_meta true false JMissing JMissing JMissing JMissing JMissing JMissing JMissing JMissing JMissing JMissing
  end.

Definition finished_mark (j : json) : jval := m_finished (to_loader_meta j).

(* model.c: the string-valued entries of the "ovni.require" object (Emu/VersionDefs.thread_req) *)
Definition to_thread_req (j : json) : thread_req :=
  match j with
  | jobj fs =>
    match pget fs [k_ovni; k_require] with
    | Some (jobj r) => Some (flat_map (fun kv => match snd kv with jstr v => [(fst kv, v)] | _ => [] end) r)
    | _ => None
    end
  | _ => None
  end.

(* system.c / loom.c / proc.c / thread.c: the per-stream record the merge (Emu/MetaDefs.v, C15) works on *)
Definition num_of (o : option json) : option Z := match o with Some (jnum z) => Some z | _ => None end.
Definition cpu_of_json (j : json) : option (Z * Z) :=
  match j with
  | jobj fs => match fget fs k_index, fget fs k_phyid with
               | Some (jnum i), Some (jnum p) => Some (i, p)
               | _, _ => None
               end
  | _ => None
  end.
Fixpoint all_some {A} (l : list (option A)) : option (list A) :=
  match l with
  | [] => Some []
  | Some a :: r => match all_some r with Some r' => Some (a :: r') | None => None end
  | None :: _ => None
  end.
Definition to_stream_meta (j : json) : option MetaDefs.stream_meta :=
  match j with
  | jobj fs =>
    match pget fs [k_ovni; k_loom], pget fs [k_ovni; k_pid], pget fs [k_ovni; k_tid] with
    | Some (jstr l), Some (jnum pid), Some (jnum tid) =>
      match (match pget fs [k_ovni; k_loom_cpus] with
             | None => Some None
             | Some (jarr cs) => match all_some (map cpu_of_json cs) with Some l => Some (Some l) | None => None end
             | Some _ => None
             end) with
      | None => None
      | Some cpus =>
        Some (MetaDefs.mkS l pid tid (num_of (pget fs [k_ovni; k_app_id])) (num_of (pget fs [k_ovni; k_rank]))
                           (num_of (pget fs [k_ovni; k_nranks])) cpus)
      end
    | _, _, _ => None
    end
  | _ => None
  end.

(* ------------------------------------------------------------------ the documented protocol, metadata side *)
(* doc/user/runtime/index.md: ovni_proc_init once, before the threads; app > 0; pid from getpid(); every
   thread: ovni_thread_init(gettid()) first, then metadata set-up (require, CPUs, rank) and attributes,
   ovni_flush, ovni_thread_free; ovni_proc_fini by the last thread.  User attributes live outside the
   "ovni" and "version" names ("Other attributes can be used for other models", trace_spec.md). *)
Definition user_key (key : str) : bool :=
  match split_dots key with
  | c :: _ => negb (if str_dec c k_ovni then true else false) && negb (if str_dec c k_version then true else false)
  | [] => false
  end.

Definition loom_ok (l : str) : bool :=
  ascii l && negb (existsb (Z.eqb SLASH) l) && (Z.of_nat (length l) <=? 250).

(* calls a live thread may make between its init and its free *)
Definition live_op_ok (o : op) : bool :=
  in_dom o &&
  match o with
  | AddCpu i p => (0 <=? i) && (0 <=? p)
  | ProcSetRank r n => (0 <=? r) && (r <? n)
  | Require m v =>
    negb (existsb (fun ch => (ch =? 32) || (ch =? DOTC)) m) && (1 <? length m)%nat && (Z.of_nat (length m) <? 115)
    && (match version_parse (Some v) with Some _ => true | None => false end)
  | AttrSetStr k _ | AttrSetDouble k _ | AttrSetBool k _ | AttrSetJson k _ => user_key k
  | AttrHas _ | AttrGetStr _ | AttrGetDouble _ | AttrGetBool _ | AttrGetJson _ => true
  | AttrFlush | Flush => true
  | _ => false
  end.

(* protocol state: slot -> (tid, freed) *)
Definition pstate := list (nat * (Z * bool)).
Fixpoint plook (ps : pstate) (th : nat) : option (Z * bool) :=
  match ps with
  | [] => None
  | (n, x) :: r => if Nat.eqb n th then Some x else plook r th
  end.

Definition conf_step (ps : pstate) (th : nat) (o : op) : option pstate :=
  match o, plook ps th with
  | ThreadInit tid, None =>
    if i32 tid && (0 <? tid) && negb (existsb (fun e => fst (snd e) =? tid) ps) then Some ((th, (tid, false)) :: ps) else None
  | ThreadFree, Some (tid, false) => Some ((th, (tid, true)) :: ps)
  | _, Some (_, false) => if live_op_ok o then Some ps else None
  | _, _ => None
  end.

Fixpoint conf_body (ps : pstate) (p : prog) : option pstate :=
  match p with
  | [] => Some ps
  | (th, o) :: r => match conf_step ps th o with Some ps' => conf_body ps' r | None => None end
  end.

Definition all_freed (ps : pstate) : bool :=
  forallb (fun e => match plook ps (fst e) with Some (_, true) => true | _ => false end) ps.

Definition is_proc_fini (o : op) : bool := match o with ProcFini => true | _ => false end.

(* proc init . body . proc fini, every started thread freed before the fini *)
Definition meta_conformant (p : prog) : bool :=
  match p with
  | (_, ProcInit app loom pid) :: rest =>
    i32 app && i32 pid && (0 <? app) && (0 <? pid) && loom_ok loom &&
    match rev rest with
    | (_, ProcFini) :: rbody =>
      match conf_body [] (rev rbody) with
      | Some ps => all_freed ps
      | None => false
      end
    | _ => false
    end
  | _ => false
  end.

(* the threads of a program: (slot, tid) of every ovni_thread_init *)
Definition inits (p : prog) : list (nat * Z) :=
  flat_map (fun e => match snd e with ThreadInit tid => [(fst e, tid)] | _ => [] end) p.
Definition cpus_added (p : prog) (th : nat) : list (Z * Z) :=
  flat_map (fun e => match snd e with AddCpu i ph => if Nat.eqb (fst e) th then [(i, ph)] else [] | _ => [] end) p.
Definition is_attr_op (o : op) : bool :=
  match o with
  | AttrSetStr _ _ | AttrSetDouble _ _ | AttrSetBool _ _ | AttrSetJson _ _
  | AttrHas _ | AttrGetStr _ | AttrGetDouble _ | AttrGetBool _ | AttrGetJson _ => true
  | _ => false
  end.

(* ------------------------------------------------------------------ what a program says its streams are *)
(* ovni_proc_set_rank is thread-local: the last call of the slot counts *)
Definition rank_step (acc : option (Z * Z)) (e : nat * op) (th : nat) : option (Z * Z) :=
  match snd e with
  | ProcSetRank r n => if Nat.eqb (fst e) th then Some (r, n) else acc
  | _ => acc
  end.
Definition rank_from (acc : option (Z * Z)) (p : prog) (th : nat) : option (Z * Z) :=
  fold_left (fun a e => rank_step a e th) p acc.
Definition rank_set (p : prog) (th : nat) : option (Z * Z) := rank_from None p th.

(* the per-stream record of Emu/MetaDefs.v a thread is expected to leave: identity, app id (every thread carries
   it), the rank THIS thread set, the CPUs THIS thread registered in call order (no member when it registered none) *)
Definition smeta (loom : str) (pid tid app : Z) (rank : option (Z * Z)) (cpus : list (Z * Z)) : MetaDefs.stream_meta :=
  MetaDefs.mkS loom pid tid (Some app)
    (match rank with Some (r, _) => Some r | None => None end)
    (match rank with Some (_, n) => Some n | None => None end)
    (match cpus with [] => None | _ :: _ => Some cpus end).

Definition expected_metas (p : prog) : list MetaDefs.stream_meta :=
  match p with
  | (_, ProcInit app loom pid) :: _ =>
    map (fun e => smeta loom pid (snd e) app (rank_set p (fst e)) (cpus_added p (fst e))) (inits p)
  | _ => []
  end.

(* the final stream.json of every thread of the program, in the order of the ovni_thread_init calls *)
Definition finals (p : prog) (evs : list ev) : list (option json) :=
  map (fun e => disk (writes p evs) (snd e)) (inits p).
Definition final_metas (p : prog) (evs : list ev) : option (list MetaDefs.stream_meta) :=
  all_some (map (fun o => match o with Some j => to_stream_meta j | None => None end) (finals p evs)).

(* ------------------------------------------------------------------ a whole trace: one program per process *)
Definition trace := list prog.
Definition trace_metas (tr : trace) : list MetaDefs.stream_meta := flat_map expected_metas tr.
Definition proc_id (p : prog) : option (str * Z * Z) :=
  match p with (_, ProcInit app loom pid) :: _ => Some (loom, pid, app) | _ => None end.

(* What the documented protocol asks ACROSS threads and processes (doc/user/runtime/index.md, trace_spec.md), stated on the
   records the call lists determine (trace_metas: identity, rank_set, cpus_added of every ovni_thread_init):
   - a process is named by loom and pid; no two threads of the trace share loom, pid and tid;
   - "Set the rank ... Only once per process": the threads of a process that set a rank set the same one, and in a loom
     either every process sets it or none ("MPI or not");
   - "Emit loom CPUs ... from a single thread or multiple threads, in the latter the list of CPUs is merged": over all threads
     of a loom, whichever registers what, the indices are exactly 0 .. n-1 (n > 0), one phyid per index and one index per
     phyid.  A thread that registers no CPU is fine; a loom in which no thread registers any is not. *)
Record trace_ok (tr : trace) : Prop := {
  to_proc : forall p q l pid a b, In p tr -> In q tr -> proc_id p = Some (l, pid, a) -> proc_id q = Some (l, pid, b) -> a = b;
  to_keys : NoDup (MetaDefs.keys (trace_metas tr));
  to_rank_uniq : forall k x y, In (k, x) (MetaDefs.rank_claims (trace_metas tr)) -> In (k, y) (MetaDefs.rank_claims (trace_metas tr)) -> x = y;
  to_rank_loom : forall l p q x, MetaDefs.proc_in (trace_metas tr) (l, p) -> MetaDefs.proc_in (trace_metas tr) (l, q) ->
                 In ((l, p), x) (MetaDefs.rank_claims (trace_metas tr)) -> exists y, In ((l, q), y) (MetaDefs.rank_claims (trace_metas tr));
  to_cpu_range : forall l, MetaDefs.loom_in (trace_metas tr) l ->
                 exists n, 0 < n /\ (forall i, 0 <= i < n -> exists ph, In (l, Some (i, ph)) (MetaDefs.cpu_claims (trace_metas tr))) /\
                           (forall i ph, In (l, Some (i, ph)) (MetaDefs.cpu_claims (trace_metas tr)) -> 0 <= i < n);
  to_cpu_idx : forall l i ph q, In (l, Some (i, ph)) (MetaDefs.cpu_claims (trace_metas tr)) ->
               In (l, Some (i, q)) (MetaDefs.cpu_claims (trace_metas tr)) -> ph = q;
  to_cpu_phy : forall l i j ph, In (l, Some (i, ph)) (MetaDefs.cpu_claims (trace_metas tr)) ->
               In (l, Some (j, ph)) (MetaDefs.cpu_claims (trace_metas tr)) -> i = j
}.

(* aliases with names that stay unique in a flat extraction next to Emu/MetaDefs.v (which has its own run / state) *)
Definition rtm_run (c : cfg) (p : prog) : list ev * state := run c p.
Definition rtm_build := MetaDefs.build.
Definition rtm_thread_rows := MetaDefs.thread_rows.
Definition rtm_cpu_rows := MetaDefs.cpu_rows.
