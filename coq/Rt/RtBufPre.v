(* Prelude of the generated file Gen/RtBuf_gen.v (translate/units/rtbuf.py): the world of the event buffer
   functions of src/rt/ovni.c (flush_evbuf, ovni_clock_now, ovni_ev_set_clock/get_clock/set_mcv, ovni_payload_add,
   add_flush_events, ovni_ev_add, ovni_ev_add_jumbo, ovni_flush, ovni_ev_emit, ovni_ev_jumbo_emit, ovni_mark_push/pop/set).

   The generated file renders those functions statement by statement in the reader + state + error monad below.
   Definitions only; proofs in Proofs/RtBufGenProofs.v.

   State (what the functions touch):
     g_ready   rthread.ready (an int)
     g_evlen   rthread.evlen
     g_evbuf   the bytes of rthread.evbuf[0 .. high-water mark): a flat list.  Bytes at and above g_evlen are STALE
               (flush_evbuf only resets evlen); bytes above the high-water mark are uninitialised malloc memory and are
               not represented: a store that would leave a hole below it, or reach beyond the capacity, is E_TRAP
     g_wr      the data of every completed write_evbuf() on rthread.streamfd, latest first
     g_clk     the values the next clock reads will return (the clock is an input, as in Rt/RtBufDefs.v)
     g_evs     the `struct ovni_ev` objects that exist (the caller's events and the locals `pre`, `post`, `ev` of the
               translated functions); a `struct ovni_ev *` is an index into this list.  Locals are never freed (the
               list only grows); reads through an index that does not exist give the zero event (the theorems name
               only indices that exist), stores through one are E_TRAP
   Environment: e_cap = OVNI_MAX_EV_BUF (the unit translates the macro to its NAME), e_proc_st = what
   atomic_load(&rproc.st) returns.

   Hand-written here, standing for C that is NOT translated:
     write_evbuf        "write all `size` bytes or die": the do/while loop around write(2) always completes (short
                        writes and errors: C10); one call = one element of g_wr
     memcpy             on the byte locations below; the object representation of `struct ovni_ev` as a memcpy source
                        is CodecDefs.struct_bytes (packed struct, 28 bytes, little-endian clock: the layout is checked
                        by Codec_gen's c_sizeof_struct_ovni_ev = 28 and c_sizeof_struct_ovni_ev_header = 12; the byte
                        order is the assumption "x86-64 is little endian" already made by Rt/CodecPre.v); reading more
                        than 28 bytes of an event, more bytes than a data block has, or writing outside the 16 payload
                        bytes / the capacity is E_TRAP
     clock_monotonic_now   clock_gettime() + tv_sec * 1e9 + tv_nsec: the next element of g_clk (E_NOCLOCK when the
                        input is exhausted: the input does not describe a complete run)
     vdie               E_DIE
     new_ovni_ev        `struct ovni_ev x = {0};`
     bytes_of_<int type> x   `(uint8_t * ) &x`: a read-only block holding the little-endian representation of x
     ovni_payload_size, ovni_ev_size   = Gen/Codec_gen.v (c2gallina translation of the same C functions) on the stored event *)
From Coq Require Import ZArith List Bool.
From OV Require Import Base.CInt Rt.CodecPre Gen.Codec_gen Rt.CodecDefs.
Import ListNotations.
Local Open Scope Z_scope.

Record renv := { e_cap : Z; e_proc_st : Z }.

Record rstate := {
  g_ready : Z;
  g_evlen : Z;
  g_evbuf : list Z;
  g_wr : list (list Z);
  g_clk : list Z;
  g_evs : list ovni_ev
}.

Inductive rr (A : Type) : Type := Ok (a : A) | Err (e : nat).
Arguments Ok {A} a.
Arguments Err {A} e.

Definition E_DIE := 1%nat.        (* die(): abort() *)
Definition E_NOCLOCK := 2%nat.    (* clock input exhausted *)
Definition E_NOFUEL := 3%nat.     (* recursion fuel exhausted *)
Definition E_TRAP := 99%nat.      (* invalid memory access *)

Definition M (A : Type) : Type := renv -> rstate -> rr (A * rstate).
Definition ret {A} (a : A) : M A := fun _ st => Ok (a, st).
Definition fail {A} (e : nat) : M A := fun _ _ => Err e.
Definition bind {A B} (m : M A) (f : A -> M B) : M B :=
  fun sx st => match m sx st with Ok (a, st') => f a sx st' | Err e => Err e end.
Definition bind_ {A B} (m : M A) (k : M B) : M B := bind m (fun _ => k).
Definition eval {A} (f : renv -> rstate -> A) : M A := fun sx st => Ok (f sx st, st).
Definition ite {A} (c : renv -> rstate -> bool) (a b : M A) : M A :=
  fun sx st => if c sx st then a sx st else b sx st.
Definition need {A} (safe : renv -> rstate -> bool) (k : M A) : M A :=
  fun sx st => if safe sx st then k sx st else Err E_TRAP.

(* ---------------------------------------------------------------- pointers *)
Definition ptr_ovni_ev := nat.
Definition ptr_ovni_rthread := unit.
Definition ptr_ovni_rproc := unit.
Definition rthread : ptr_ovni_rthread := tt.
Definition rproc : ptr_ovni_rproc := tt.
Definition cstr := list Z.                        (* const char *: the characters, terminating 0 included *)

(* uint8_t * / const uint8_t * *)
Inductive bptr : Type :=
| P_evbuf (off : Z)                               (* rthread.evbuf + off *)
| P_payload (ev : ptr_ovni_ev) (off : Z)          (* &ev->payload.u8[off] *)
| P_data (bs : list Z).                           (* a read-only block of bytes (the caller's buffer, an integer's bytes) *)

Inductive ptr_void : Type := V_bytes (b : bptr) | V_ev (p : ptr_ovni_ev).
Definition void_of_bptr (b : bptr) : ptr_void := V_bytes b.
Definition void_of_ptr_ovni_ev (p : ptr_ovni_ev) : ptr_void := V_ev p.

Definition bytes_of_uint32 (v : Z) : bptr := P_data (le_bytes 4 v).
Definition bytes_of_int32 (v : Z) : bptr := P_data (le_bytes 4 v).
Definition bytes_of_int64 (v : Z) : bptr := P_data (le_bytes 8 v).
Definition bytes_of_uint64 (v : Z) : bptr := P_data (le_bytes 8 v).

(* ---------------------------------------------------------------- state updates *)
Definition with_evlen (st : rstate) (n : Z) : rstate :=
  {| g_ready := g_ready st; g_evlen := n; g_evbuf := g_evbuf st; g_wr := g_wr st; g_clk := g_clk st; g_evs := g_evs st |}.
Definition with_evbuf (st : rstate) (b : list Z) : rstate :=
  {| g_ready := g_ready st; g_evlen := g_evlen st; g_evbuf := b; g_wr := g_wr st; g_clk := g_clk st; g_evs := g_evs st |}.
Definition with_wr (st : rstate) (w : list (list Z)) : rstate :=
  {| g_ready := g_ready st; g_evlen := g_evlen st; g_evbuf := g_evbuf st; g_wr := w; g_clk := g_clk st; g_evs := g_evs st |}.
Definition with_clk (st : rstate) (c : list Z) : rstate :=
  {| g_ready := g_ready st; g_evlen := g_evlen st; g_evbuf := g_evbuf st; g_wr := g_wr st; g_clk := c; g_evs := g_evs st |}.
Definition with_evs (st : rstate) (l : list ovni_ev) : rstate :=
  {| g_ready := g_ready st; g_evlen := g_evlen st; g_evbuf := g_evbuf st; g_wr := g_wr st; g_clk := g_clk st; g_evs := l |}.

Fixpoint upd_nth {A} (l : list A) (n : nat) (x : A) : list A :=
  match l, n with
  | [], _ => []
  | _ :: r, O => x :: r
  | a :: r, S k => a :: upd_nth r k x
  end.

(* the event a pointer designates *)
Definition ld (st : rstate) (p : ptr_ovni_ev) : ovni_ev := nth p (g_evs st) ev_zero.

Definition upd_ev (p : ptr_ovni_ev) (f : ovni_ev -> ovni_ev) : M unit :=
  fun sx st => if Nat.ltb p (length (g_evs st))
               then Ok (tt, with_evs st (upd_nth (g_evs st) p (f (ld st p))))
               else Err E_TRAP.

(* ---------------------------------------------------------------- getters *)
Definition get_ovni_rthread_ready (sx : renv) (st : rstate) (t : ptr_ovni_rthread) : Z := g_ready st.
Definition get_ovni_rthread_evlen (sx : renv) (st : rstate) (t : ptr_ovni_rthread) : Z := g_evlen st.
Definition get_ovni_rthread_evbuf (sx : renv) (st : rstate) (t : ptr_ovni_rthread) : bptr := P_evbuf 0.
Definition get_ovni_rproc_st (sx : renv) (st : rstate) (p : ptr_ovni_rproc) : Z := e_proc_st sx.
Definition get_ovni_ev_header_flags (sx : renv) (st : rstate) (p : ptr_ovni_ev) : Z := h_flags (ld st p).
Definition get_ovni_ev_header_model (sx : renv) (st : rstate) (p : ptr_ovni_ev) : Z := h_model (ld st p).
Definition get_ovni_ev_header_category (sx : renv) (st : rstate) (p : ptr_ovni_ev) : Z := h_category (ld st p).
Definition get_ovni_ev_header_value (sx : renv) (st : rstate) (p : ptr_ovni_ev) : Z := h_value (ld st p).
Definition get_ovni_ev_header_clock (sx : renv) (st : rstate) (p : ptr_ovni_ev) : Z := h_clock (ld st p).

(* the c2gallina translations of ovni_payload_size / ovni_ev_size (Gen/Codec_gen.v) on the stored event *)
Definition ovni_payload_size (sx : renv) (st : rstate) (p : ptr_ovni_ev) : Z := Codec_gen.ovni_payload_size (ld st p).
Definition ovni_ev_size (sx : renv) (st : rstate) (p : ptr_ovni_ev) : Z := Codec_gen.ovni_ev_size (ld st p).

(* ---------------------------------------------------------------- addresses *)
Definition addr_ovni_rthread_evbuf_at (t : ptr_ovni_rthread) (i : Z) : bptr := P_evbuf i.
Definition addr_ovni_ev_payload_u8_at (p : ptr_ovni_ev) (i : Z) : bptr := P_payload p i.

(* ---------------------------------------------------------------- setters *)
Definition set_ovni_rthread_evlen (t : ptr_ovni_rthread) (v : renv -> rstate -> Z) : M unit :=
  fun sx st => Ok (tt, with_evlen st (v sx st)).
Definition set_ovni_ev_header_flags (p : ptr_ovni_ev) (v : renv -> rstate -> Z) : M unit :=
  fun sx st => upd_ev p (fun e => set_flags e (v sx st)) sx st.
Definition set_ovni_ev_header_clock (p : ptr_ovni_ev) (v : renv -> rstate -> Z) : M unit :=
  fun sx st => upd_ev p (fun e => CodecDefs.ovni_ev_set_clock e (v sx st)) sx st.
Definition set_ovni_ev_header_model (p : ptr_ovni_ev) (v : renv -> rstate -> Z) : M unit :=
  fun sx st => upd_ev p (fun e => mkEv (h_flags e) (v sx st) (h_category e) (h_value e) (h_clock e) (ev_payload e)) sx st.
Definition set_ovni_ev_header_category (p : ptr_ovni_ev) (v : renv -> rstate -> Z) : M unit :=
  fun sx st => upd_ev p (fun e => mkEv (h_flags e) (h_model e) (v sx st) (h_value e) (h_clock e) (ev_payload e)) sx st.
Definition set_ovni_ev_header_value (p : ptr_ovni_ev) (v : renv -> rstate -> Z) : M unit :=
  fun sx st => upd_ev p (fun e => mkEv (h_flags e) (h_model e) (h_category e) (v sx st) (h_clock e) (ev_payload e)) sx st.

(* ---------------------------------------------------------------- primitives *)
(* struct ovni_ev x = {0}; *)
Definition new_ovni_ev : M ptr_ovni_ev :=
  fun sx st => Ok (length (g_evs st), with_evs st (g_evs st ++ [ev_zero])).

(* clock_monotonic_now() *)
Definition clock_monotonic_now : M Z :=
  fun sx st => match g_clk st with
               | [] => Err E_NOCLOCK
               | t :: r => Ok (t, with_clk st r)
               end.

(* what memcpy(_, src, n) reads *)
Definition src_bytes (st : rstate) (src : ptr_void) (n : Z) : option (list Z) :=
  match src with
  | V_ev p => if Nat.ltb p (length (g_evs st)) && (0 <=? n) && (n <=? c_sizeof_struct_ovni_ev)
              then Some (ev_image (ld st p) n) else None
  | V_bytes (P_data bs) => if (0 <=? n) && (n <=? zlength bs) then Some (firstn (Z.to_nat n) bs) else None
  | V_bytes _ => None
  end.

Definition memcpy (dst src : ptr_void) (n : Z) : M unit :=
  fun sx st =>
    match src_bytes st src n with
    | None => Err E_TRAP
    | Some bs =>
      match dst with
      | V_bytes (P_evbuf off) =>
        if (0 <=? off) && (off <=? zlength (g_evbuf st)) && (off + n <=? e_cap sx)
        then Ok (tt, with_evbuf st (splice (g_evbuf st) off bs))
        else Err E_TRAP
      | V_bytes (P_payload p off) =>
        if (0 <=? off) && (off + n <=? c_sizeof_union_ovni_ev_payload)
        then upd_ev p (fun e => set_payload e (splice (ev_payload e) off bs)) sx st
        else Err E_TRAP
      | _ => Err E_TRAP
      end
    end.

(* write_evbuf(buf, size): all `size` bytes reach the file (or the process dies: not modelled here, see C10) *)
Definition write_evbuf (buf : bptr) (size : Z) : M unit :=
  fun sx st =>
    match buf with
    | P_evbuf off =>
      if (0 <=? off) && (0 <=? size) && (off + size <=? zlength (g_evbuf st))
      then Ok (tt, with_wr st (firstn (Z.to_nat size) (skipn (Z.to_nat off) (g_evbuf st)) :: g_wr st))
      else Err E_TRAP
    | _ => Err E_TRAP
    end.
