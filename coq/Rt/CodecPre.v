(* Representation of `struct ovni_ev` (include/ovni.h.in, packed, 28 bytes) that the
   generated file Gen/Codec_gen.v (translation of get_jumbo_payload_size,
   ovni_payload_size, ovni_ev_size from src/rt/ovni.c) is stated over.

   Bytes are Z in 0..255.  The 16 bytes of `union ovni_ev_payload` are kept as
   a list; `payload.jumbo.size` is the little-endian uint32 at offset 0 of the
   union (the target is little endian: x86-64, see trace_spec.md "on a little
   endian machine"). *)
From OV Require Import Base.CInt.
Local Open Scope Z_scope.

(* n little-endian bytes of z (two's complement for negative z, truncating) *)
Fixpoint le_bytes (n : nat) (z : Z) : list Z :=
  match n with
  | O => []
  | S k => (z mod 256) :: le_bytes k (z / 256)
  end.

Fixpoint le_val (bs : list Z) : Z :=
  match bs with
  | [] => 0
  | b :: r => b + 256 * le_val r
  end.

(* length as a Z without building a unary number (the oracle handles 2 MiB payloads) *)
Definition zlength {A : Type} (l : list A) : Z := fold_left (fun n _ => n + 1) l 0.

Record ovni_ev : Type := mkEv {
  h_flags : Z;            (* header.flags    uint8_t *)
  h_model : Z;            (* header.model    uint8_t *)
  h_category : Z;         (* header.category uint8_t *)
  h_value : Z;            (* header.value    uint8_t *)
  h_clock : Z;            (* header.clock    uint64_t *)
  ev_payload : list Z     (* payload: 16 bytes of the union *)
}.

(* accessors used by the generated code *)
Definition get_header_flags (ev : ovni_ev) : Z := h_flags ev.
Definition get_payload_jumbo_size (ev : ovni_ev) : Z := le_val (firstn 4 (ev_payload ev)).
