(* Event codec of libovni: definitions only.
   Part 1 mirrors the C helpers of src/rt/ovni.c that build a `struct ovni_ev`
   (ovni_ev_set_clock, ovni_ev_set_mcv, ovni_payload_add) and the memory image
   that ovni_ev_add copies into the event buffer.  ovni_payload_size and
   ovni_ev_size are the generated translation (Gen/Codec_gen.v).
   Part 2 is the *specification* of the binary stream format as documented in
   doc/user/runtime/trace_spec.md: abstract events, their encoding, a strict
   parser (with fuel and an explicit out-of-fuel answer). *)
From OV Require Import Base.CInt Rt.CodecPre Gen.Codec_gen.
Local Open Scope Z_scope.

(* ------------------------------------------------------------------ part 1: the C side *)

Definition byteb (b : Z) : bool := (0 <=? b) && (b <? 256).
Definition byte (b : Z) : Prop := 0 <= b < 256.

(* struct ovni_ev ev = {0} *)
Definition ev_zero : ovni_ev := mkEv 0 0 0 0 0 (repeat 0 16).

Definition ovni_ev_set_clock (ev : ovni_ev) (clock : Z) : ovni_ev :=
  mkEv (h_flags ev) (h_model ev) (h_category ev) (h_value ev) clock (ev_payload ev).

Definition ovni_ev_set_mcv (ev : ovni_ev) (m c v : Z) : ovni_ev :=
  mkEv (h_flags ev) m c v (h_clock ev) (ev_payload ev).

Definition set_flags (ev : ovni_ev) (f : Z) : ovni_ev :=
  mkEv f (h_model ev) (h_category ev) (h_value ev) (h_clock ev) (ev_payload ev).

Definition set_payload (ev : ovni_ev) (p : list Z) : ovni_ev :=
  mkEv (h_flags ev) (h_model ev) (h_category ev) (h_value ev) (h_clock ev) p.

(* memcpy(&dst[off], src, |src|) on a list *)
Definition splice (dst : list Z) (off : Z) (src : list Z) : list Z :=
  firstn (Z.to_nat off) dst ++ src ++ skipn (Z.to_nat off + length src) dst.

(* ovni_payload_add(ev, buf, size) with size = |buf| :
     if (flags & OVNI_EV_JUMBO) die; if (size < 2) die;
     payload_size = (size_t) ovni_payload_size(ev);
     if (payload_size + size > sizeof(ev->payload)) die;
     memcpy(&ev->payload.u8[payload_size], buf, size); payload_size += size;
     flags = (uint8_t) ((flags & 0xf0) | ((payload_size - 1) & 0x0f));          *)
Definition ovni_payload_add (ev : ovni_ev) (buf : list Z) : res ovni_ev :=
  let size := zlength buf in
  if negb (Z.land (h_flags ev) c_OVNI_EV_JUMBO =? 0) then Die
  else if size <? 2 then Die
  else
    let payload_size := cast_uint64 (ovni_payload_size ev) in
    if payload_size + size >? c_sizeof_union_ovni_ev_payload then Die
    else
      let p := splice (ev_payload ev) payload_size buf in
      let payload_size' := payload_size + size in
      Ret (set_flags (set_payload ev p)
             (cast_uint8 (Z.lor (Z.land (h_flags ev) 240) (Z.land (payload_size' - 1) 15)))).

(* the 28 bytes of the packed struct in memory (little endian) *)
Definition struct_bytes (ev : ovni_ev) : list Z :=
  [h_flags ev; h_model ev; h_category ev; h_value ev] ++ le_bytes 8 (h_clock ev) ++ ev_payload ev.

(* what memcpy(dst, ev, size) reads *)
Definition ev_image (ev : ovni_ev) (size : Z) : list Z := firstn (Z.to_nat size) (struct_bytes ev).

(* ------------------------------------------------------------------ part 2: the documented format *)

Definition JUMBO_FLAG : Z := 16.                 (* trace_spec.md: bit 4 of flags *)
Definition HEADER_SIZE : Z := 12.
Definition STREAM_HEADER : list Z := [111; 118; 110; 105] ++ le_bytes 4 1.     (* "ovni", version 1 *)

(* an event as the user/the reader sees it *)
Record uev : Type := mkU {
  u_jumbo : bool;
  u_m : Z; u_c : Z; u_v : Z;
  u_clock : Z;
  u_data : list Z         (* normal: payload (0 or 2..16 bytes) ; jumbo: the jumbo data *)
}.

Definition nibble (n : Z) : Z := if n =? 0 then 0 else n - 1.

Definition encode (e : uev) : list Z :=
  if u_jumbo e then
    [JUMBO_FLAG + 3; u_m e; u_c e; u_v e] ++ le_bytes 8 (u_clock e) ++ le_bytes 4 (zlength (u_data e)) ++ u_data e
  else
    [nibble (zlength (u_data e)); u_m e; u_c e; u_v e] ++ le_bytes 8 (u_clock e) ++ u_data e.

Definition esize (e : uev) : Z :=
  if u_jumbo e then HEADER_SIZE + 4 + zlength (u_data e) else HEADER_SIZE + zlength (u_data e).

Definition wf_uevb (e : uev) : bool :=
  byteb (u_m e) && byteb (u_c e) && byteb (u_v e) &&
  (0 <=? u_clock e) && (u_clock e <? 2 ^ 64) &&
  forallb byteb (u_data e) &&
  (if u_jumbo e then zlength (u_data e) <? 2 ^ 32
   else (zlength (u_data e) =? 0) || ((2 <=? zlength (u_data e)) && (zlength (u_data e) <=? 16))).

Definition wf_uev (e : uev) : Prop := wf_uevb e = true.

Inductive pres : Type := POk (es : list uev) | PBad | PNoFuel.

Definition pcons (e : uev) (r : pres) : pres :=
  match r with POk es => POk (e :: es) | x => x end.

(* split off exactly n elements (None: the list is too short) *)
Fixpoint take (n : nat) (l : list Z) : option (list Z * list Z) :=
  match n with
  | O => Some ([], l)
  | S k =>
    match l with
    | [] => None
    | x :: r => match take k r with Some (a, b) => Some (x :: a, b) | None => None end
    end
  end.

(* the same with the count in Z (no unary number is built: a garbage jumbo size field of 4e9 must
   not cost 4e9 steps); structural on the list; n <= 0 takes nothing *)
Fixpoint takez (l : list Z) (n : Z) {struct l} : option (list Z * list Z) :=
  if n <=? 0 then Some ([], l)
  else
    match l with
    | [] => None
    | x :: r => match takez r (n - 1) with Some (a, b) => Some (x :: a, b) | None => None end
    end.

(* Strict parser of a succession of events: reserved flag bits must be zero and a
   jumbo event carries the size nibble 3 (a 4-byte size field).  Every step
   consumes at least 12 bytes, so fuel = S (length bs) is always enough
   (CodecProofs.parse_all_never_out_of_fuel). *)
Fixpoint parse (fuel : nat) (bs : list Z) : pres :=
  match bs with
  | [] => POk []
  | _ =>
    match fuel with
    | O => PNoFuel
    | S f =>
      match bs with
      | fl :: m :: c :: v :: rest =>
        match take 8 rest with
        | None => PBad
        | Some (cb, rest2) =>
          let clk := le_val cb in
          if fl =? JUMBO_FLAG + 3 then
            match take 4 rest2 with
            | None => PBad
            | Some (sb, rest3) =>
              match takez rest3 (le_val sb) with
              | None => PBad
              | Some (d, rest4) => pcons (mkU true m c v clk d) (parse f rest4)
              end
            end
          else if (0 <=? fl) && (fl <=? 15) then
            match take (Z.to_nat (if fl =? 0 then 0 else fl + 1)) rest2 with
            | None => PBad
            | Some (d, rest3) => pcons (mkU false m c v clk d) (parse f rest3)
            end
          else PBad
        end
      | _ => PBad
      end
    end
  end.

Definition parse_all (bs : list Z) : pres := parse (S (length bs)) bs.

(* the whole stream.obs file *)
Fixpoint zlist_eqb (a b : list Z) : bool :=
  match a, b with
  | [], [] => true
  | x :: a', y :: b' => (x =? y) && zlist_eqb a' b'
  | _, _ => false
  end.

Definition parse_stream (bs : list Z) : pres :=
  if zlist_eqb (firstn 8 bs) STREAM_HEADER then parse_all (skipn 8 bs) else PBad.
