(* Prelude of the generated file Gen/RtFs_gen.v (translate/units/rtfs.py): the relocation code of src/rt/ovni.c as
   syntax trees, and the interpreter that gives them their meaning.

   The generated file holds one `fn` per C function: its parameters and its body as a `stmt`, statement by statement
   in C order, with the loops, break / continue, assignments inside conditions, the comma operator and && / || as they
   are written.  This file is the (hand-written, trusted) meaning of that C subset:
     - locals and parameters live in a store; `errno` is a cell of the world;
     - every libc call is a primitive that APPENDS the RtFsDefs.op of that call to the log (most recent first, as
       RtFsDefs.m_log) and takes its result from the world: one injected fault (the (n+1)-th call made from here on
       returns its error value: NULL / EOF / -1 / 0 items, errno set; a short fwrite / write returns fewer items),
       the contents of the source files (fread, in 1024-byte chunks from a read offset per FILE) and the order in which
       readdir returns the entries of a directory on its k-th traversal;
     - err() / warn() set the diagnostic flag, die() stops everything (w_dead), as RtFsDefs.m_diag / m_dead.
   Hand-modelled: C strings as Coq strings, paths as RtFsDefs.path (snprintf(buf, PATH_MAX, "%s/%s", dir, name) is the
   child path, never too long), FILE * and DIR * as the path they were opened on, the copy buffer as one cell holding
   the bytes of the last fread, pointer arithmetic only on the byte buffer of write_evbuf.
   Definitions only; proofs in Proofs/RtFsGenProofs.v. *)
From Coq Require Import ZArith List Bool String Arith.
From OV Require Import Rt.RtFsDefs.
Import ListNotations.
Local Open Scope Z_scope.

(* ---- syntax *)
Inductive binop := OEq | ONe | OLt | OLe | OGt | OGe | OAdd | OSub.
Inductive expr :=
| ELit (z : Z) | ENull | EStr (s : string) | EVar (x : string)
| EAssign (x : string) (e : expr)
| EBin (o : binop) (a b : expr)
| EAnd (a b : expr) | EOr (a b : expr) | ENot (a : expr) | EComma (a b : expr)
| EPrim (f : string) (args : list expr)       (* libc / string function *)
| ECall (f : string) (args : list expr).      (* function of the translated file *)
Inductive stmt :=
| SSkip | SSeq (a b : stmt) | SExpr (e : expr) | SDecl (x : string) (init : option expr)
| SIf (c : expr) (a b : stmt) | SWhile (c : expr) (body : stmt) | SDoWhile (body : stmt) (c : expr)
| SRet (e : option expr) | SBreak | SContinue
| SErr      (* err(...) / warn(...) : a diagnostic *)
| SDie.     (* die(...) *)
Record fn := { f_params : list string; f_body : stmt }.

(* ---- values, store, world *)
Inductive val := VZ (z : Z) | VNull | VPath (p : path) | VStr (s : string) | VEnt (e : entry) | VBuf (bs : list Z) | VUndef.
Definition store := list (string * val).
Fixpoint sget (s : store) (x : string) : val :=
  match s with [] => VUndef | (y, v) :: r => if String.eqb x y then v else sget r x end.
(* assignment replaces the cell in place (a new cell goes to the end): the shape of the store of a function never
   changes, because all its locals are created when it is entered (no local is declared twice with different meanings) *)
Fixpoint sset (s : store) (x : string) (v : val) : store :=
  match s with
  | [] => [(x, v)]
  | (y, u) :: r => if String.eqb x y then (y, v) :: r else (y, u) :: sset r x v
  end.

Record env := { e_data : path -> list Z; e_rho : path -> nat -> list entry }.
Record world := mkw {
  w_log : list op; w_fault : option (nat * fkind); w_diag : bool; w_dead : bool; w_errno : Z;
  w_rpos : path -> nat; w_ferr : path -> bool; w_dpass : path -> nat; w_dpos : path -> nat; w_buf : list Z }.
Definition w0 (fi : option (nat * fkind)) : world :=
  mkw [] fi false false 0 (fun _ => 0%nat) (fun _ => false) (fun _ => 0%nat) (fun _ => 0%nat) [].

Definition updp {A} (f : path -> A) (p : path) (v : A) : path -> A := fun q => if path_eqb q p then v else f q.

(* the call o is made: log it and tell whether it is the faulty one *)
Definition made (o : op) (w : world) : option fkind * world :=
  let w1 := mkw (o :: w_log w) (w_fault w) (w_diag w) (w_dead w) (w_errno w) (w_rpos w) (w_ferr w) (w_dpass w) (w_dpos w) (w_buf w) in
  match w_fault w with
  | Some (O, fk) => (Some fk, mkw (w_log w1) None (w_diag w1) (w_dead w1) (w_errno w1) (w_rpos w1) (w_ferr w1) (w_dpass w1) (w_dpos w1) (w_buf w1))
  | Some (S n, fk) => (None, mkw (w_log w1) (Some (n, fk)) (w_diag w1) (w_dead w1) (w_errno w1) (w_rpos w1) (w_ferr w1) (w_dpass w1) (w_dpos w1) (w_buf w1))
  | None => (None, w1)
  end.
Definition set_errno (w : world) (z : Z) : world :=
  mkw (w_log w) (w_fault w) (w_diag w) (w_dead w) z (w_rpos w) (w_ferr w) (w_dpass w) (w_dpos w) (w_buf w).
Definition set_diag (w : world) : world :=
  mkw (w_log w) (w_fault w) true (w_dead w) (w_errno w) (w_rpos w) (w_ferr w) (w_dpass w) (w_dpos w) (w_buf w).
Definition set_dead (w : world) : world :=
  mkw (w_log w) (w_fault w) true true (w_errno w) (w_rpos w) (w_ferr w) (w_dpass w) (w_dpos w) (w_buf w).

(* ---- strings and paths *)
Definition entry_name (e : entry) : string :=
  match e with EDot => "."%string | EDotDot => ".."%string | EFile Obs => "stream.obs"%string | EFile Json => "stream.json"%string end.
Fixpoint str_firstn (n : nat) (s : string) : string :=
  match n, s with S k, String c r => String c (str_firstn k r) | _, _ => EmptyString end.
Definition child (p : path) (name : string) : option path :=
  match p with
  | PThread l t => if String.eqb name "stream.obs"%string then Some (PFile l t Obs)
                   else if String.eqb name "stream.json"%string then Some (PFile l t Json) else None
  | _ => None
  end.
Definition children (p : path) : list path :=
  match p with PThread l t => [PFile l t Obs; PFile l t Json] | _ => [] end.
Definition EIO : Z := 5.
(* errno of an injected fault: a failing fopen / opendir / remove reports ENOENT (the worst case for code that treats ENOENT
   as harmless), every other failing call EIO *)
Definition ENOENT : Z := 2.
(* Z.to_nat, as a function of our own (the proofs evaluate it) *)
Definition z2n (z : Z) : nat := match z with Zpos p => Pos.iter_op Nat.add p 1%nat | _ => 0%nat end.

(* ---- primitives: name, argument values -> result value and new world (None: ill-typed call, the evaluation is stuck) *)
Definition prim (E : env) (f : string) (args : list val) (w : world) : option (val * world) :=
  if String.eqb f "fopen"%string then
    match args with
    | [VPath p; VStr m] =>
      let o := if String.eqb m "r"%string then FopenR p else FopenW p in
      let '(fk, w1) := made o w in
      match fk with
      | Some _ => Some (VNull, set_errno w1 ENOENT)
      | None => Some (VPath p, mkw (w_log w1) (w_fault w1) (w_diag w1) (w_dead w1) (w_errno w1) (updp (w_rpos w1) p 0%nat) (updp (w_ferr w1) p false)
                                    (w_dpass w1) (w_dpos w1) (w_buf w1))
      end
    | _ => None
    end
  else if String.eqb f "fread"%string then
    match args with
    | [_; VZ 1; VZ n; VPath p] =>
      let c := firstn (Z.to_nat n) (skipn (w_rpos w p) (e_data E p)) in
      let '(fk, w1) := made (Fread p c) w in
      match fk with
      | Some _ => Some (VZ 0, mkw (w_log w1) (w_fault w1) (w_diag w1) (w_dead w1) EIO (w_rpos w1) (updp (w_ferr w1) p true) (w_dpass w1) (w_dpos w1) (w_buf w1))
      | None => Some (VZ (Z.of_nat (List.length c)),
                      mkw (w_log w1) (w_fault w1) (w_diag w1) (w_dead w1) (w_errno w1) (updp (w_rpos w1) p (w_rpos w1 p + List.length c)%nat) (w_ferr w1)
                          (w_dpass w1) (w_dpos w1) c)
      end
    | _ => None
    end
  else if String.eqb f "fwrite"%string then
    match args with
    | [_; VZ 1; VZ n; VPath p] =>
      let c := firstn (Z.to_nat n) (w_buf w) in
      let '(fk, w1) := made (Fwrite p c) w in
      match fk with
      | Some FErr => Some (VZ 0, set_errno w1 EIO)
      | Some (FShort k) => Some (VZ (Z.of_nat (Nat.min k (List.length c))), set_errno w1 EIO)
      | None => Some (VZ (Z.of_nat (List.length c)), w1)
      end
    | _ => None
    end
  else if String.eqb f "fclose"%string then
    match args with
    | [VPath p] => let '(fk, w1) := made (Fclose p) w in
                   match fk with Some _ => Some (VZ (-1), set_errno w1 EIO) | None => Some (VZ 0, w1) end
    | _ => None
    end
  else if String.eqb f "ferror"%string then
    match args with [VPath p] => Some (VZ (if w_ferr w p then 1 else 0), w) | _ => None end
  else if String.eqb f "opendir"%string then
    match args with
    | [VPath p] => let '(fk, w1) := made (Opendir p) w in
                   match fk with
                   | Some _ => Some (VNull, set_errno w1 ENOENT)
                   | None => Some (VPath p, mkw (w_log w1) (w_fault w1) (w_diag w1) (w_dead w1) (w_errno w1) (w_rpos w1) (w_ferr w1) (w_dpass w1)
                                                (updp (w_dpos w1) p 0%nat) (w_buf w1))
                   end
    | _ => None
    end
  else if String.eqb f "readdir"%string then
    match args with
    | [VPath p] =>
      let nxt := nth_error (e_rho E p (w_dpass w p)) (w_dpos w p) in
      let '(fk, w1) := made (Readdir p nxt) w in
      match fk with
      | Some _ => Some (VNull, set_errno w1 EIO)
      | None => match nxt with
                | Some e => Some (VEnt e, mkw (w_log w1) (w_fault w1) (w_diag w1) (w_dead w1) (w_errno w1) (w_rpos w1) (w_ferr w1) (w_dpass w1)
                                              (updp (w_dpos w1) p (S (w_dpos w1 p))) (w_buf w1))
                | None => Some (VNull, w1)
                end
      end
    | _ => None
    end
  else if String.eqb f "closedir"%string then
    match args with
    | [VPath p] => let '(fk, w1) := made (Closedir p) w in
                   let w2 := mkw (w_log w1) (w_fault w1) (w_diag w1) (w_dead w1) (w_errno w1) (w_rpos w1) (w_ferr w1)
                                 (updp (w_dpass w1) p (S (w_dpass w1 p))) (w_dpos w1) (w_buf w1) in
                   Some (VZ (match fk with Some _ => -1 | None => 0 end), w2)
    | _ => None
    end
  else if String.eqb f "remove"%string then
    match args with
    | [VPath p] => let '(fk, w1) := made (Remove p) w in
                   match fk with Some _ => Some (VZ (-1), set_errno w1 ENOENT) | None => Some (VZ 0, w1) end
    | _ => None
    end
  else if String.eqb f "rmdir"%string then
    match args with
    | [VPath p] => let '(fk, w1) := made (Rmdir p (children p)) w in
                   match fk with Some _ => Some (VZ (-1), set_errno w1 EIO) | None => Some (VZ 0, w1) end
    | _ => None
    end
  else if String.eqb f "write"%string then
    match args with
    | [VPath p; VBuf bs; VZ n] =>
      let c := firstn (Z.to_nat n) bs in
      match w_fault w with
      | Some (O, FShort k) => let '(_, w1) := made (Write p (firstn k c)) w in Some (VZ (Z.of_nat (Nat.min k (List.length c))), w1)
      | _ => let '(fk, w1) := made (Write p c) w in
             match fk with Some _ => Some (VZ (-1), set_errno w1 EIO) | None => Some (VZ (Z.of_nat (List.length c)), w1) end
      end
    | _ => None
    end
  else if String.eqb f "d_name"%string then
    match args with [VEnt e] => Some (VStr (entry_name e), w) | _ => None end
  else if String.eqb f "strlen"%string then
    match args with [VStr s] => Some (VZ (Z.of_nat (String.length s)), w) | _ => None end
  else if String.eqb f "strcmp"%string then
    match args with [VStr a; VStr b] => Some (VZ (if String.eqb a b then 0 else 1), w) | _ => None end
  else if String.eqb f "strncmp"%string then
    match args with
    | [VStr a; VStr b; VZ n] => Some (VZ (if String.eqb (str_firstn (z2n n) a) (str_firstn (z2n n) b) then 0 else 1), w)
    | _ => None
    end
  else None.

(* ---- the interpreter *)
Inductive out := ONormal | OBreak | OContinue | OReturn (v : val).
Inductive res (A : Type) := ROk (a : A) | RDie (w : world) | RStuck | RNoFuel.
Arguments ROk {A}. Arguments RDie {A}. Arguments RStuck {A}. Arguments RNoFuel {A}.

Definition truth (v : val) : option bool :=
  match v with VZ z => Some (negb (z =? 0)) | VNull => Some false | VPath _ | VEnt _ | VStr _ | VBuf _ => Some true | VUndef => None end.
Definition b2v (b : bool) : val := VZ (if b then 1 else 0).
Definition binop_val (o : binop) (a b : val) : option val :=
  match o, a, b with
  | OEq, VZ x, VZ y => Some (b2v (x =? y)) | ONe, VZ x, VZ y => Some (b2v (negb (x =? y)))
  | OLt, VZ x, VZ y => Some (b2v (x <? y)) | OLe, VZ x, VZ y => Some (b2v (x <=? y))
  | OGt, VZ x, VZ y => Some (b2v (x >? y)) | OGe, VZ x, VZ y => Some (b2v (x >=? y))
  | OAdd, VZ x, VZ y => Some (VZ (x + y)) | OSub, VZ x, VZ y => Some (VZ (x - y))
  | OAdd, VBuf bs, VZ y => Some (VBuf (skipn (Z.to_nat y) bs))
  | OEq, VNull, VNull => Some (b2v true) | ONe, VNull, VNull => Some (b2v false)
  | OEq, (VPath _ | VEnt _), VNull | OEq, VNull, (VPath _ | VEnt _) => Some (b2v false)
  | ONe, (VPath _ | VEnt _), VNull | ONe, VNull, (VPath _ | VEnt _) => Some (b2v true)
  | _, _, _ => None
  end.

Fixpoint bind_params (ps : list string) (vs : list val) : option store :=
  match ps, vs with
  | [], [] => Some []
  | p :: ps', v :: vs' => match bind_params ps' vs' with Some s => Some ((p, v) :: s) | None => None end
  | _, _ => None
  end.
(* the locals a function declares, in order of appearance *)
Fixpoint decls (c : stmt) : list string :=
  match c with
  | SSeq a b => decls a ++ decls b
  | SDecl x _ => [x]
  | SIf _ a b => decls a ++ decls b
  | SWhile _ b => decls b
  | SDoWhile b _ => decls b
  | _ => []
  end.
Definition frame (d : fn) (vs : list val) : option store :=
  match bind_params (f_params d) vs with
  | Some s => Some (s ++ map (fun x => (x, VUndef)) (decls (f_body d)))
  | None => None
  end.
Fixpoint find_fn (fns : list (string * fn)) (f : string) : option fn :=
  match fns with [] => None | (g, d) :: r => if String.eqb f g then Some d else find_fn r f end.

Section Interp.
Variables (E : env) (fns : list (string * fn)).

Fixpoint eval (n : nat) (e : expr) (s : store) (w : world) {struct n} : res (val * store * world) :=
  match n with
  | O => RNoFuel
  | S n' =>
    let evals := fix evals (l : list expr) (s : store) (w : world) {struct l} : res (list val * store * world) :=
      match l with
      | [] => ROk ([], s, w)
      | a :: r => match eval n' a s w with
                  | ROk (v, s1, w1) => match evals r s1 w1 with
                                       | ROk (vs, s2, w2) => ROk (v :: vs, s2, w2)
                                       | RDie x => RDie x | RStuck => RStuck | RNoFuel => RNoFuel
                                       end
                  | RDie x => RDie x | RStuck => RStuck | RNoFuel => RNoFuel
                  end
      end in
    match e with
    | ELit z => ROk (VZ z, s, w)
    | ENull => ROk (VNull, s, w)
    | EStr x => ROk (VStr x, s, w)
    | EVar x => if String.eqb x "errno"%string then ROk (VZ (w_errno w), s, w) else ROk (sget s x, s, w)
    | EAssign x a =>
      match eval n' a s w with
      | ROk (v, s1, w1) =>
        if String.eqb x "errno"%string then match v with VZ z => ROk (v, s1, set_errno w1 z) | _ => RStuck end
        else ROk (v, sset s1 x v, w1)
      | r => r
      end
    | EBin o a b =>
      match eval n' a s w with
      | ROk (va, s1, w1) =>
        match eval n' b s1 w1 with
        | ROk (vb, s2, w2) => match binop_val o va vb with Some v => ROk (v, s2, w2) | None => RStuck end
        | r => r
        end
      | r => r
      end
    | EAnd a b =>
      match eval n' a s w with
      | ROk (va, s1, w1) =>
        match truth va with
        | Some true => match eval n' b s1 w1 with
                       | ROk (vb, s2, w2) => match truth vb with Some t => ROk (b2v t, s2, w2) | None => RStuck end
                       | r => r
                       end
        | Some false => ROk (b2v false, s1, w1)
        | None => RStuck
        end
      | r => r
      end
    | EOr a b =>
      match eval n' a s w with
      | ROk (va, s1, w1) =>
        match truth va with
        | Some true => ROk (b2v true, s1, w1)
        | Some false => match eval n' b s1 w1 with
                        | ROk (vb, s2, w2) => match truth vb with Some t => ROk (b2v t, s2, w2) | None => RStuck end
                        | r => r
                        end
        | None => RStuck
        end
      | r => r
      end
    | ENot a =>
      match eval n' a s w with
      | ROk (va, s1, w1) => match truth va with Some t => ROk (b2v (negb t), s1, w1) | None => RStuck end
      | r => r
      end
    | EComma a b => match eval n' a s w with ROk (_, s1, w1) => eval n' b s1 w1 | r => r end
    | EPrim f args =>
      if String.eqb f "snprintf"%string then
        (* snprintf(buf, PATH_MAX, "%s/%s"%string, dir, name): buf := the child path; the result is below PATH_MAX *)
        match args with
        | [EVar x; ELit _; EStr "%s/%s"%string; d; nm] =>
          match evals [d; nm] s w with
          | ROk ([VPath p; VStr name], s1, w1) =>
            match child p name with Some c => ROk (VZ 0, sset s1 x (VPath c), w1) | None => RStuck end
          | ROk _ => RStuck
          | RDie x0 => RDie x0 | RStuck => RStuck | RNoFuel => RNoFuel
          end
        | _ => RStuck
        end
      else
        match evals args s w with
        | ROk (vs, s1, w1) => match prim E f vs w1 with Some (v, w2) => ROk (v, s1, w2) | None => RStuck end
        | RDie x => RDie x | RStuck => RStuck | RNoFuel => RNoFuel
        end
    | ECall f args =>
      match evals args s w with
      | ROk (vs, s1, w1) =>
        match find_fn fns f with
        | Some d =>
          match frame d vs with
          | Some s0 =>
            match exec n' (f_body d) s0 w1 with
            | ROk (OReturn v, _, w2) => ROk (v, s1, w2)
            | ROk (_, _, w2) => ROk (VUndef, s1, w2)
            | RDie x => RDie x | RStuck => RStuck | RNoFuel => RNoFuel
            end
          | None => RStuck
          end
        | None => RStuck
        end
      | RDie x => RDie x | RStuck => RStuck | RNoFuel => RNoFuel
      end
    end
  end
with exec (n : nat) (c : stmt) (s : store) (w : world) {struct n} : res (out * store * world) :=
  match n with
  | O => RNoFuel
  | S n' =>
    match c with
    | SSkip => ROk (ONormal, s, w)
    | SSeq a b => match exec n' a s w with
                  | ROk (ONormal, s1, w1) => exec n' b s1 w1
                  | r => r
                  end
    | SExpr e => match eval n' e s w with
                 | ROk (_, s1, w1) => ROk (ONormal, s1, w1)
                 | RDie x => RDie x | RStuck => RStuck | RNoFuel => RNoFuel
                 end
    | SDecl x None => ROk (ONormal, sset s x VUndef, w)
    | SDecl x (Some e) => match eval n' e s w with
                          | ROk (v, s1, w1) => ROk (ONormal, sset s1 x v, w1)
                          | RDie x0 => RDie x0 | RStuck => RStuck | RNoFuel => RNoFuel
                          end
    | SIf e a b => match eval n' e s w with
                   | ROk (v, s1, w1) => match truth v with
                                        | Some true => exec n' a s1 w1
                                        | Some false => exec n' b s1 w1
                                        | None => RStuck
                                        end
                   | RDie x => RDie x | RStuck => RStuck | RNoFuel => RNoFuel
                   end
    | SWhile e body =>
      match eval n' e s w with
      | ROk (v, s1, w1) =>
        match truth v with
        | Some true => match exec n' body s1 w1 with
                       | ROk (ONormal, s2, w2) | ROk (OContinue, s2, w2) => exec n' (SWhile e body) s2 w2
                       | ROk (OBreak, s2, w2) => ROk (ONormal, s2, w2)
                       | r => r
                       end
        | Some false => ROk (ONormal, s1, w1)
        | None => RStuck
        end
      | RDie x => RDie x | RStuck => RStuck | RNoFuel => RNoFuel
      end
    | SDoWhile body e =>
      match exec n' body s w with
      | ROk (ONormal, s1, w1) | ROk (OContinue, s1, w1) =>
        match eval n' e s1 w1 with
        | ROk (v, s2, w2) => match truth v with
                             | Some true => exec n' (SDoWhile body e) s2 w2
                             | Some false => ROk (ONormal, s2, w2)
                             | None => RStuck
                             end
        | RDie x => RDie x | RStuck => RStuck | RNoFuel => RNoFuel
        end
      | ROk (OBreak, s1, w1) => ROk (ONormal, s1, w1)
      | r => r
      end
    | SRet None => ROk (OReturn VUndef, s, w)
    | SRet (Some e) => match eval n' e s w with
                       | ROk (v, s1, w1) => ROk (OReturn v, s1, w1)
                       | RDie x => RDie x | RStuck => RStuck | RNoFuel => RNoFuel
                       end
    | SBreak => ROk (OBreak, s, w)
    | SContinue => ROk (OContinue, s, w)
    | SErr => ROk (ONormal, s, set_diag w)
    | SDie => RDie (set_dead w)
    end
  end.

(* a call of function f with the given argument values *)
Definition call (n : nat) (f : string) (vs : list val) (w : world) : res (val * world) :=
  match find_fn fns f with
  | Some d =>
    match frame d vs with
    | Some s0 => match exec n (f_body d) s0 w with
                 | ROk (OReturn v, _, w2) => ROk (v, w2)
                 | ROk (_, _, w2) => ROk (VUndef, w2)
                 | RDie x => RDie x | RStuck => RStuck | RNoFuel => RNoFuel
                 end
    | None => RStuck
    end
  | None => RStuck
  end.
End Interp.
