(* The API calls of Rt/RtBufDefs.v (`op`) as programs over the GENERATED buffer functions (Gen/RtBuf_gen.v), and the
   representation relation between the generated code's state (Rt/RtBufPre.v) and the hand model's state `rt`.
   Definitions only; proofs in Proofs/RtBufGenProofs.v.

   `api_call o` is what a caller (harness/rtbuf_drv.c) does for one `op`:
     Emit m c v chunks     struct ovni_ev ev = {0}; ovni_ev_set_mcv(&ev, mcv); ovni_payload_add(&ev, chunk, |chunk|) per chunk;
                           ovni_ev_set_clock(&ev, ovni_clock_now()); ovni_ev_emit(&ev);
     JumboEmit m c v data  struct ovni_ev ev = {0}; ovni_ev_set_mcv; ovni_ev_set_clock(&ev, ovni_clock_now());
                           ovni_ev_jumbo_emit(&ev, data, |data|);
     Flush                 ovni_flush();          MarkPush/Pop/Set ty va    ovni_mark_push/pop/set(ty, va);
     Free                  ovni_thread_free(): NOT translated (parson, close(2), rename(2)); the hand-written stand-in
                           below does to the buffer state what the C does: die unless ready, free(evbuf), ready = 0.
   The initial state `g_init` is what ovni_thread_init leaves (NOT translated): the 8 header bytes written, still
   lying stale in the buffer, evlen = 0. *)
From Coq Require Import ZArith List Bool.
From OV Require Import Base.CInt Rt.RtBufPre Rt.CodecPre Gen.Codec_gen Rt.CodecDefs Rt.RtBufDefs.
From OV Require Gen.RtBuf_gen.
Import ListNotations.
Local Open Scope Z_scope.

Module G := RtBuf_gen.

Definition mcv_str (m c v : Z) : cstr := [m; c; v; 0].

Fixpoint payload_adds (ev : ptr_ovni_ev) (chunks : list (list Z)) : M unit :=
  match chunks with
  | [] => ret tt
  | ch :: r => bind_ (G.ovni_payload_add ev (P_data ch) (zlength ch)) (payload_adds ev r)
  end.

Definition thread_free_prim : M unit :=
  fun sx st =>
    if g_ready st =? 0 then Err E_DIE
    else Ok (tt, {| g_ready := 0; g_evlen := g_evlen st; g_evbuf := []; g_wr := g_wr st; g_clk := g_clk st; g_evs := g_evs st |}).

Definition api_call (o : op) : M unit :=
  match o with
  | Emit m c v chunks =>
    bind new_ovni_ev (fun ev =>
    bind_ (G.ovni_ev_set_mcv ev (mcv_str m c v))
    (bind_ (payload_adds ev chunks)
    (bind G.ovni_clock_now (fun t =>
    bind_ (G.ovni_ev_set_clock ev t)
    (G.ovni_ev_emit FUEL ev)))))
  | JumboEmit m c v data =>
    bind new_ovni_ev (fun ev =>
    bind_ (G.ovni_ev_set_mcv ev (mcv_str m c v))
    (bind G.ovni_clock_now (fun t =>
    bind_ (G.ovni_ev_set_clock ev t)
    (G.ovni_ev_jumbo_emit FUEL ev (P_data data) (zlength data)))))
  | Flush => G.ovni_flush FUEL
  | MarkPush ty va => G.ovni_mark_push FUEL ty va
  | MarkPop ty va => G.ovni_mark_pop FUEL ty va
  | MarkSet ty va => G.ovni_mark_set FUEL ty va
  | Free => thread_free_prim
  end.

Fixpoint api_run (ops : list op) : M unit :=
  match ops with
  | [] => ret tt
  | o :: r => bind_ (api_call o) (api_run r)
  end.

(* after ovni_thread_init *)
Definition g_init (clock : list Z) : rstate :=
  {| g_ready := 1; g_evlen := 0; g_evbuf := stream_header_image; g_wr := [stream_header_image]; g_clk := clock; g_evs := [] |}.

(* the environment of a run: capacity `cap`, process ready (C11 covers the process state) *)
Definition env_of (cap : Z) : renv := {| e_cap := cap; e_proc_st := G.c_ST_READY |}.

(* the arguments are expressible in C: op_wfb, and every chunk length fits the `int size` of ovni_payload_add *)
Definition op_cb (o : op) : bool :=
  op_wfb o &&
  match o with
  | Emit _ _ _ chunks => forallb (fun ch => zlength ch <? 2 ^ 31) chunks
  | _ => true
  end.

(* what the two states have in common *)
Definition g_buf_bytes (g : rstate) : list Z := firstn (Z.to_nat (g_evlen g)) (g_evbuf g).
Definition g_disk_bytes (g : rstate) : list Z := concat (rev (g_wr g)).

(* representation: same ready flag, same write() calls, same remaining clock input; while the thread is ready also
   the same evlen and the same bytes in evbuf[0..evlen) (the model keeps them as chunks), evlen being the number of
   those bytes and below the capacity *)
Definition Rep (cap : Z) (g : rstate) (s : rt) : Prop :=
  (g_ready g =? 0) = negb (ready s) /\
  g_wr g = wr s /\
  g_clk g = clk s /\
  (ready s = true ->
     g_evlen g = evlen s /\ 0 <= evlen s < cap /\ zlength (buf_bytes s) = evlen s /\
     g_buf_bytes g = buf_bytes s).

(* same outcome: both complete in related states, or both die, or both run out of clock input / of fuel *)
Definition same_outcome {A} (R : rstate -> A -> Prop) (r : rr (unit * rstate)) (m : rres A) : Prop :=
  match r, m with
  | Ok (_, g'), ROk a => R g' a
  | Err e, RAbort => e = E_DIE
  | Err e, RNoClock => e = E_NOCLOCK
  | Err e, RNoFuel => e = E_NOFUEL
  | _, _ => False
  end.
