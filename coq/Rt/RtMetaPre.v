(* Prelude of the generated file Gen/RtMeta_gen.v (translate/units/rtmeta.py): the world of the metadata functions of
   src/rt/ovni.c.

   The generated file renders thread_metadata_store, ovni_thread_require, thread_metadata_populate, thread_metadata_init,
   set_thread_rank, ovni_add_cpu, ovni_proc_set_rank, get_thread_metadata, ovni_attr_has / set_* / get_*, ovni_attr_flush
   and ovni_thread_free statement by statement in the reader + state + error monad below.  die() = Err E_DIE.

   State (rstate): the process globals `rproc` the functions read (st, app, pid, loom), the thread-local `rthread` of the
   CALLING thread (ready, finished, tid, cpus, rank_set, rank, nranks, meta) and the stream.json files written so far
   (path, tree).  Environment (renv): rproc.procdir, rproc.move_to_final and parson's text parser / printer, which are not
   modelled: json_parse_string is the oracle e_parse, json_serialize_to_string the oracle e_print.

   Hand-written here (not translated), with exactly the meaning Rt/RtMetaDefs.v gives the object model:
     - parson: a JSON_Value* is either rthread.meta itself (JRoot: the only value the functions mutate, through the
       JSON_Object* of its root, `Some tt`) or a detached immutable value (JVal tree); json_object_dotset_* = dotset,
       json_object_dotget_value = dotget; a NULL object / name / string argument is JSONFailure, as in parson;
       json_serialize_to_file_pretty appends (path, tree) to the files written (file-system failures: C10);
     - JSON numbers are integers (double <-> integer conversions are dropped by the translator): the model's domain;
     - strings: `const char *` = cstr (NULL or bytes); strlen, strpbrk; snprintf with %s %d %ld %lld returns the length
       it would write and the buffer content truncated to size-1 bytes; version_parse = Emu/VersionDefs.version_parse;
     - malloc(sizeof(struct ovni_rcpu)) never fails and yields THE node being built (one scratch cell t_node; only
       ovni_add_cpu allocates, and it links the node before it returns); DL_APPEND appends it to rthread.cpus;
     - set_thread_cpus is a counted loop over the DL list: the translator renders it, from the source, as an instance of
       the generic array_of_list_loop below (key, member names, order and fields come from the C text);
     - free, close, move_thdir_to_final, try_clean_dir, rthread.evbuf / streamfd / thdir: effects outside the metadata
       state (event buffer: C01; relocation: C09/C10): identity here.
   Definitions only; proofs in Proofs/RtMetaGenProofs.v. *)
From OV Require Import Base.CInt Emu.VersionDefs Rt.RtMetaDefs.
Local Open Scope Z_scope.

Definition cstr := option str.
Definition str_lit (s : str) : cstr := Some s.

Inductive jref := JRoot | JVal (j : json).
Definition ptr_jvalue := option jref.
Definition ptr_jobject := option unit.
Definition ptr_rcpu := option unit.
Definition ptr_bytes := option unit.

Record renv := mkEnv {
  e_procdir : str;                       (* rproc.procdir *)
  e_move : Z;                            (* rproc.move_to_final *)
  e_parse : str -> option json;          (* json_parse_string *)
  e_print : json -> str                  (* json_serialize_to_string *)
}.

Record rstate := mkRs {
  p_st : Z; p_app : Z; p_loom : str; p_pid : Z;
  r_ready : Z; r_finished : Z; r_tid : Z;
  r_cpus : list (Z * Z); r_node : Z * Z;
  r_rank_set : Z; r_rank : Z; r_nranks : Z;
  r_meta : option fields;
  r_out : list (str * json)              (* chronological *)
}.

Definition E_FAIL := 20%nat.
Definition E_TRAP := 99%nat.
Definition E_DIE := 30%nat.

Inductive rres (A : Type) : Type := ROk (a : A) | RErr (e : nat).
Arguments ROk {A} a.
Arguments RErr {A} e.

Definition M (A : Type) : Type := renv -> rstate -> rres (A * rstate).
Definition ret {A} (a : A) : M A := fun _ st => ROk (a, st).
Definition fail {A} (e : nat) : M A := fun _ _ => RErr e.
Definition bind {A B} (m : M A) (f : A -> M B) : M B :=
  fun sx st => match m sx st with ROk (a, st') => f a sx st' | RErr e => RErr e end.
Definition bind_ {A B} (m : M A) (k : M B) : M B := bind m (fun _ => k).
Definition eval {A} (f : renv -> rstate -> A) : M A := fun sx st => ROk (f sx st, st).
Definition ite {A} (c : renv -> rstate -> bool) (a b : M A) : M A :=
  fun sx st => if c sx st then a sx st else b sx st.
Definition need {A} (safe : renv -> rstate -> bool) (k : M A) : M A :=
  fun sx st => if safe sx st then k sx st else RErr E_TRAP.
(* `if (f(..) != 0) die(..)`: a failure status becomes die() *)
Definition or_die {A} (m : M A) : M A :=
  fun sx st => match m sx st with RErr e => if Nat.eqb e E_FAIL then RErr E_DIE else RErr e | r => r end.
(* `if (f(..) != K) die(..)`: the primitives return 0 on success *)
Definition or_die_ne {A} (k : Z) (m : M A) : M A := if k =? 0 then or_die m else fail E_TRAP.

(* --- getters *)
Definition get_rproc_st (sx : renv) (st : rstate) : Z := p_st st.
Definition get_rproc_app (sx : renv) (st : rstate) : Z := p_app st.
Definition get_rproc_pid (sx : renv) (st : rstate) : Z := p_pid st.
Definition get_rproc_loom (sx : renv) (st : rstate) : cstr := Some (p_loom st).
Definition get_rproc_procdir (sx : renv) (st : rstate) : cstr := Some (e_procdir sx).
Definition get_rproc_move_to_final (sx : renv) (st : rstate) : Z := e_move sx.
Definition get_rthread_ready (sx : renv) (st : rstate) : Z := r_ready st.
Definition get_rthread_finished (sx : renv) (st : rstate) : Z := r_finished st.
Definition get_rthread_tid (sx : renv) (st : rstate) : Z := r_tid st.
Definition get_rthread_rank_set (sx : renv) (st : rstate) : Z := r_rank_set st.
Definition get_rthread_rank (sx : renv) (st : rstate) : Z := r_rank st.
Definition get_rthread_nranks (sx : renv) (st : rstate) : Z := r_nranks st.
Definition get_rthread_cpus (sx : renv) (st : rstate) : ptr_rcpu := match r_cpus st with [] => None | _ :: _ => Some tt end.
Definition get_rthread_meta (sx : renv) (st : rstate) : ptr_jvalue := match r_meta st with Some _ => Some JRoot | None => None end.
Definition get_rthread_evbuf (sx : renv) (st : rstate) : ptr_bytes := Some tt.
Definition get_rthread_streamfd (sx : renv) (st : rstate) : Z := 3.
Definition get_rthread_thdir (sx : renv) (st : rstate) : cstr := Some [].
Definition get_rthread_thdir_final (sx : renv) (st : rstate) : cstr := Some [].

(* --- setters *)
Definition upd (f : rstate -> rstate) : M unit := fun sx st => ROk (tt, f st).
Definition set_rthread_ready (v : renv -> rstate -> Z) : M unit :=
  fun sx st => upd (fun s => mkRs (p_st s) (p_app s) (p_loom s) (p_pid s) (v sx st) (r_finished s) (r_tid s) (r_cpus s) (r_node s)
                                  (r_rank_set s) (r_rank s) (r_nranks s) (r_meta s) (r_out s)) sx st.
Definition set_rthread_finished (v : renv -> rstate -> Z) : M unit :=
  fun sx st => upd (fun s => mkRs (p_st s) (p_app s) (p_loom s) (p_pid s) (r_ready s) (v sx st) (r_tid s) (r_cpus s) (r_node s)
                                  (r_rank_set s) (r_rank s) (r_nranks s) (r_meta s) (r_out s)) sx st.
Definition set_rthread_rank_set (v : renv -> rstate -> Z) : M unit :=
  fun sx st => upd (fun s => mkRs (p_st s) (p_app s) (p_loom s) (p_pid s) (r_ready s) (r_finished s) (r_tid s) (r_cpus s) (r_node s)
                                  (v sx st) (r_rank s) (r_nranks s) (r_meta s) (r_out s)) sx st.
Definition set_rthread_rank (v : renv -> rstate -> Z) : M unit :=
  fun sx st => upd (fun s => mkRs (p_st s) (p_app s) (p_loom s) (p_pid s) (r_ready s) (r_finished s) (r_tid s) (r_cpus s) (r_node s)
                                  (r_rank_set s) (v sx st) (r_nranks s) (r_meta s) (r_out s)) sx st.
Definition set_rthread_nranks (v : renv -> rstate -> Z) : M unit :=
  fun sx st => upd (fun s => mkRs (p_st s) (p_app s) (p_loom s) (p_pid s) (r_ready s) (r_finished s) (r_tid s) (r_cpus s) (r_node s)
                                  (r_rank_set s) (r_rank s) (v sx st) (r_meta s) (r_out s)) sx st.
Definition with_meta_ (s : rstate) (m : option fields) : rstate :=
  mkRs (p_st s) (p_app s) (p_loom s) (p_pid s) (r_ready s) (r_finished s) (r_tid s) (r_cpus s) (r_node s)
       (r_rank_set s) (r_rank s) (r_nranks s) m (r_out s).
(* rthread.meta = v: the thread adopts the value *)
Definition set_rthread_meta (v : renv -> rstate -> ptr_jvalue) : M unit :=
  fun sx st => match v sx st with
               | None => ROk (tt, with_meta_ st None)
               | Some JRoot => ROk (tt, st)
               | Some (JVal (jobj fs)) => ROk (tt, with_meta_ st (Some fs))
               | Some (JVal _) => RErr E_TRAP          (* a non-object as metadata root: not representable *)
               end.
Definition set_rthread_evbuf (v : renv -> rstate -> ptr_bytes) : M unit := ret tt.
Definition set_rthread_streamfd (v : renv -> rstate -> Z) : M unit := ret tt.

(* --- the CPU node being built *)
Definition with_node (s : rstate) (n : Z * Z) (cs : list (Z * Z)) : rstate :=
  mkRs (p_st s) (p_app s) (p_loom s) (p_pid s) (r_ready s) (r_finished s) (r_tid s) cs n
       (r_rank_set s) (r_rank s) (r_nranks s) (r_meta s) (r_out s).
Definition malloc_ovni_rcpu : M ptr_rcpu := fun sx st => ROk (Some tt, with_node st (0, 0) (r_cpus st)).
Definition set_ovni_rcpu_index (c : ptr_rcpu) (v : renv -> rstate -> Z) : M unit :=
  fun sx st => match c with Some _ => ROk (tt, with_node st (v sx st, snd (r_node st)) (r_cpus st)) | None => RErr E_TRAP end.
Definition set_ovni_rcpu_phyid (c : ptr_rcpu) (v : renv -> rstate -> Z) : M unit :=
  fun sx st => match c with Some _ => ROk (tt, with_node st (fst (r_node st), v sx st) (r_cpus st)) | None => RErr E_TRAP end.
Definition DL_APPEND_rthread_cpus (c : ptr_rcpu) : M unit :=
  fun sx st => match c with Some _ => ROk (tt, with_node st (r_node st) (r_cpus st ++ [r_node st])) | None => RErr E_TRAP end.

(* --- strings *)
Definition strlen (sx : renv) (st : rstate) (s : cstr) : Z := match s with Some b => Z.of_nat (length b) | None => 0 end.
Fixpoint strpbrk_go (s accept : str) : cstr :=
  match s with
  | [] => None
  | c :: r => if existsb (Z.eqb c) accept then Some s else strpbrk_go r accept
  end.
Definition strpbrk (sx : renv) (st : rstate) (s accept : cstr) : cstr :=
  match s, accept with Some b, Some a => strpbrk_go b a | _, _ => None end.

Inductive sarg := AStr (s : cstr) | AInt (z : Z).
Definition render_int (z : Z) : str := if z <? 0 then 45 :: render_num (- z) else render_num z.
Definition arg_text (conv : Z) (a : sarg) : str :=
  match a with
  | AStr (Some s) => if conv =? 115 then s else []
  | AStr None => []
  | AInt z => if conv =? 100 then render_int z else []
  end.
(* %s %d %ld %lld *)
Fixpoint format (f : str) (args : list sarg) : str :=
  match f with
  | [] => []
  | c :: r =>
    if c =? 37 then
      match r with
      | d :: r1 =>
        if d =? 108 then
          match r1 with
          | d2 :: r2 =>
            if d2 =? 108 then
              match r2 with
              | d3 :: r3 => match args with a :: as' => arg_text d3 a ++ format r3 as' | [] => format r3 [] end
              | [] => []
              end
            else match args with a :: as' => arg_text d2 a ++ format r2 as' | [] => format r2 [] end
          | [] => []
          end
        else match args with a :: as' => arg_text d a ++ format r1 as' | [] => format r1 [] end
      | [] => []
      end
    else c :: format r args
  end.
Definition c_snprintf (size : Z) (fmt : str) (args : renv -> rstate -> list sarg) : M (Z * cstr) :=
  fun sx st => let s := format fmt (args sx st) in
               ROk ((Z.of_nat (length s), Some (firstn (Z.to_nat (size - 1)) s)), st).

Definition version_parse_out (v : cstr) : M (list Z) :=
  fun sx st => match version_parse v with Some l => ROk (l, st) | None => RErr E_FAIL end.

(* --- parson *)
Definition json_value_init_object (sx : renv) (st : rstate) : ptr_jvalue := Some (JVal (jobj [])).
Definition json_value_get_object (sx : renv) (st : rstate) (v : ptr_jvalue) : ptr_jobject :=
  match v with
  | Some JRoot => match r_meta st with Some _ => Some tt | None => None end
  | _ => None
  end.
Definition root_dotset (o : ptr_jobject) (key : cstr) (v : option json) : M unit :=
  fun sx st => match o, key, v, r_meta st with
               | Some _, Some k, Some j, Some fs =>
                 match dotset fs k j with Some fs' => ROk (tt, with_meta_ st (Some fs')) | None => RErr E_FAIL end
               | _, _, _, _ => RErr E_FAIL
               end.
Definition json_object_dotset_number (o : ptr_jobject) (key : cstr) (num : Z) : M unit := root_dotset o key (Some (jnum num)).
Definition json_object_dotset_boolean (o : ptr_jobject) (key : cstr) (b : Z) : M unit :=
  root_dotset o key (Some (jbool (negb (b =? 0)))).
Definition json_object_dotset_string (o : ptr_jobject) (key : cstr) (s : cstr) : M unit :=
  root_dotset o key (match s with Some b => Some (jstr b) | None => None end).
Definition json_object_dotset_value (o : ptr_jobject) (key : cstr) (v : ptr_jvalue) : M unit :=
  root_dotset o key (match v with Some (JVal j) => Some j | _ => None end).
Definition json_object_dotget_value (sx : renv) (st : rstate) (o : ptr_jobject) (key : cstr) : ptr_jvalue :=
  match o, key, r_meta st with
  | Some _, Some k, Some fs => match dotget fs k with Some j => Some (JVal j) | None => None end
  | _, _, _ => None
  end.
Definition json_type_code (j : json) : Z :=
  match j with jnull => 1 | jstr _ => 2 | jnum _ => 3 | jobj _ => 4 | jarr _ => 5 | jbool _ => 6 end.
Definition json_value_get_type (sx : renv) (st : rstate) (v : ptr_jvalue) : Z :=
  match v with Some (JVal j) => json_type_code j | Some JRoot => 4 | None => -1 end.
Definition json_value_get_number (sx : renv) (st : rstate) (v : ptr_jvalue) : Z :=
  match v with Some (JVal (jnum z)) => z | _ => 0 end.
Definition json_value_get_boolean (sx : renv) (st : rstate) (v : ptr_jvalue) : Z :=
  match v with Some (JVal (jbool b)) => b2z b | _ => -1 end.
Definition json_value_get_string (sx : renv) (st : rstate) (v : ptr_jvalue) : cstr :=
  match v with Some (JVal (jstr s)) => Some s | _ => None end.
Definition json_parse_string (sx : renv) (st : rstate) (s : cstr) : ptr_jvalue :=
  match s with Some t => match e_parse sx t with Some j => Some (JVal j) | None => None end | None => None end.
Definition json_serialize_to_string (sx : renv) (st : rstate) (v : ptr_jvalue) : cstr :=
  match v with
  | Some (JVal j) => Some (e_print sx j)
  | Some JRoot => match r_meta st with Some fs => Some (e_print sx (jobj fs)) | None => None end
  | None => None
  end.
Definition json_serialize_to_file_pretty (v : ptr_jvalue) (path : cstr) : M unit :=
  fun sx st => match v, path, r_meta st with
               | Some JRoot, Some p, Some fs =>
                 ROk (tt, mkRs (p_st st) (p_app st) (p_loom st) (p_pid st) (r_ready st) (r_finished st) (r_tid st) (r_cpus st)
                                (r_node st) (r_rank_set st) (r_rank st) (r_nranks st) (r_meta st) (r_out st ++ [(p, jobj fs)]))
               | _, _, _ => RErr E_FAIL
               end.

(* --- counted loops that build a JSON array from a DL list (set_thread_cpus).  The translator accepts the C function only in
   the exact shape: json_value_init_array; for (c = list; c; c = c->next) { fresh object; json_object_set_number(obj, k_i,
   c->f_i) for each member in order; json_array_append_value }; json_object_dotset_value(meta, key, array); and passes the
   key, the member names in call order and the field read for each.  Meaning: one object per list element in list order,
   each built from the empty object by json_object_set_value (fset) in the order of the calls; die() on JSONFailure. *)
Definition fld_ovni_rcpu_index (c : Z * Z) : Z := fst c.
Definition fld_ovni_rcpu_phyid (c : Z * Z) : Z := snd c.
Definition get_rthread_cpus_list (sx : renv) (st : rstate) : list (Z * Z) := r_cpus st.
Definition loop_object {E} (members : list (cstr * (E -> Z))) (e : E) : option json :=
  match fold_left (fun acc kf => match acc, fst kf with
                                 | Some fs, Some k => Some (fset fs k (jnum (snd kf e)))
                                 | _, _ => None
                                 end) members (Some []) with
  | Some fs => Some (jobj fs)
  | None => None
  end.
Definition array_of_list_loop {E} (meta : ptr_jobject) (key : cstr) (l : renv -> rstate -> list E)
           (members : list (cstr * (E -> Z))) : M unit :=
  fun sx st => match all_some (map (loop_object members) (l sx st)) with
               | None => RErr E_DIE                       (* json_object_set_number with a NULL name *)
               | Some objs => or_die (root_dotset meta key (Some (jarr objs))) sx st
               end.

(* the fold set_thread_cpus computes, as RtMetaDefs.free_tree writes it (specification; Proofs/RtMetaGenProofs.v proves the
   generated function equal to it) *)
Definition set_thread_cpus_fold (meta : ptr_jobject) : M unit :=
  fun sx st => match meta, r_meta st with
               | Some _, Some fs =>
                 match pset fs [k_ovni; k_loom_cpus] (jarr (map cpu_json (r_cpus st))) with
                 | Some fs' => ROk (tt, with_meta_ st (Some fs'))
                 | None => RErr E_DIE
                 end
               | _, _ => RErr E_TRAP
               end.

(* --- ovni_thread_init: memset(&rthread, 0, sizeof(rthread)) zeroes every field of the thread-local struct (the scratch
   node is not part of rthread); rthread.tid = tid *)
Definition zero_rthread : M unit :=
  fun sx st => ROk (tt, mkRs (p_st st) (p_app st) (p_loom st) (p_pid st) 0 0 0 [] (r_node st) 0 0 0 None (r_out st)).
Definition set_rthread_tid (v : renv -> rstate -> Z) : M unit :=
  fun sx st => upd (fun s => mkRs (p_st s) (p_app s) (p_loom s) (p_pid s) (r_ready s) (r_finished s) (v sx st) (r_cpus s) (r_node s)
                                  (r_rank_set s) (r_rank s) (r_nranks s) (r_meta s) (r_out s)) sx st.

(* --- ovni_proc_init: the fields of rproc.  atomic_compare_exchange_strong(&rproc.st, &expected, desired) executed by one
   thread (two racing callers: unit rtconc): success flag and the value seen; on success rproc.st = desired *)
Definition with_proc (s : rstate) (st app : Z) (loom : str) (pid : Z) : rstate :=
  mkRs st app loom pid (r_ready s) (r_finished s) (r_tid s) (r_cpus s) (r_node s)
       (r_rank_set s) (r_rank s) (r_nranks s) (r_meta s) (r_out s).
Definition cas_rproc_st (expected desired : Z) : M (Z * Z) :=
  fun sx st => if p_st st =? expected
               then ROk ((1, expected), with_proc st desired (p_app st) (p_loom st) (p_pid st))
               else ROk ((0, p_st st), st).
Definition set_rproc_st (v : renv -> rstate -> Z) : M unit :=
  fun sx st => ROk (tt, with_proc st (v sx st) (p_app st) (p_loom st) (p_pid st)).
Definition set_rproc_app (v : renv -> rstate -> Z) : M unit :=
  fun sx st => ROk (tt, with_proc st (p_st st) (v sx st) (p_loom st) (p_pid st)).
Definition set_rproc_pid (v : renv -> rstate -> Z) : M unit :=
  fun sx st => ROk (tt, with_proc st (p_st st) (p_app st) (p_loom st) (v sx st)).
(* strcpy(rproc.loom, src): the bytes of src (the length was checked against the array by the caller) *)
Definition strcpy_rproc_loom (v : renv -> rstate -> cstr) : M unit :=
  fun sx st => match v sx st with
               | Some b => ROk (tt, with_proc st (p_st st) (p_app st) b (p_pid st))
               | None => RErr E_TRAP
               end.
Definition set_rproc_clockid (v : renv -> rstate -> Z) : M unit := ret tt.
Definition get_rproc_loomdir (sx : renv) (st : rstate) : cstr := Some [].
Definition get_rproc_tmpdir (sx : renv) (st : rstate) : cstr := Some [].

(* --- ovni_flush: the two flush events and the write of the buffer belong to the event-buffer model (unit rtbuf, C01);
   on the metadata state they are the identity.  The local `struct ovni_ev` being built is an opaque cell. *)
Definition ev_local := unit.
Definition ev_local_zero : ev_local := tt.
Definition ptr_ev := option unit.
Definition ev_local_ref (e : ev_local) : ptr_ev := Some tt.
Definition ovni_clock_now (sx : renv) (st : rstate) : Z := 0.
Definition ovni_ev_set_clock (e : ptr_ev) (clock : Z) : M unit := ret tt.
Definition ovni_ev_set_mcv (e : ptr_ev) (mcv : cstr) : M unit := ret tt.
Definition flush_evbuf : M unit := ret tt.
Definition ovni_ev_add (e : ptr_ev) : M unit := ret tt.
Definition create_proc_dir (loom : cstr) (pid : Z) : M unit := ret tt.

(* --- outside the metadata state *)
(* the event buffer and the stream file of ovni_thread_init (units rtbuf / rtfs): malloc never fails here *)
Definition malloc (sx : renv) (st : rstate) (size : Z) : ptr_bytes := Some tt.
Definition set_rthread_evlen (v : renv -> rstate -> Z) : M unit := ret tt.
Definition create_thread_dir (tid : Z) : M unit := ret tt.
Definition create_trace_stream : M unit := ret tt.
Definition write_stream_header : M unit := ret tt.
Definition free (p : ptr_bytes) : M unit := ret tt.
Definition close (fd : Z) : M unit := ret tt.
Definition move_thdir_to_final (a b : cstr) : M unit := ret tt.
Definition try_clean_dir (a : cstr) : M unit := ret tt.
