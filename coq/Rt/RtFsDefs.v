(* rtfs engine (C09 crash consistency, C10 I/O faults): the runtime's file handling
   (src/rt/ovni.c: ovni_proc_init, ovni_thread_init, ovni_flush, ovni_thread_free,
   move_thdir_to_final, ovni_proc_fini; src/common.c: mkpath) as a generator of a
   trace of libc calls acting on an abstract file system.

   Definitions only (extracted by Extract/Extract_rtfs.v).  Two variants of the
   relocation code are modelled:
     New : the REPAIRED move_thdir_to_final (patches/fix-c10-c09-move-to-final.diff):
           three directory passes: copy stream.* except stream.json, copy stream.json,
           remove the sources; every copy error is reported and stops the later passes.
     Old : the code as found (one pass in readdir order, copy with fwrite/fclose
           results ignored, then remove(src)).  Section "old" of the proofs refutes
           C09/C10 for it.

   What is abstracted (assumptions, validated by the shim runs of lib/checks/c09.py,
   c10.py): a completed write() is in the file after SIGKILL; stdio keeps a buffer of
   [bufsz] bytes per FILE that reaches the file when it overflows and at fclose and
   is lost on SIGKILL (theorems hold for every bufsz); stream.json is a byte string
   that parson accepts only when complete (modelled: '{' body '}' with '}' nowhere
   else) and whose "finished" key is one marker byte; readdir returns the entries of
   a thread directory in an arbitrary order rho. *)
From Coq Require Import ZArith List Bool Arith Lia Permutation.
Import ListNotations.
Local Open Scope Z_scope.

(* ------------------------------------------------------------------ paths *)

Inductive loc := Tmp | Fin.              (* $OVNI_TMPDIR tree / $OVNI_TRACEDIR tree *)
Inductive fname := Obs | Json.           (* stream.obs / stream.json *)
Inductive entry := EDot | EDotDot | EFile (f : fname).
Inductive path :=
| PRoot (l : loc)                        (* tracedir or tmpdir *)
| PLoom (l : loc)                        (* .../loom.L *)
| PProc (l : loc)                        (* .../loom.L/proc.P *)
| PThread (l : loc) (t : Z)              (* .../thread.T *)
| PFile (l : loc) (t : Z) (f : fname).   (* .../thread.T/stream.* *)
Inductive mode := Direct | TmpMode.
Inductive variant := New | Old.

Definition loc_eqb (a b : loc) : bool :=
  match a, b with Tmp, Tmp | Fin, Fin => true | _, _ => false end.
Definition fname_eqb (a b : fname) : bool :=
  match a, b with Obs, Obs | Json, Json => true | _, _ => false end.
Definition entry_eqb (a b : entry) : bool :=
  match a, b with
  | EDot, EDot | EDotDot, EDotDot => true
  | EFile f, EFile g => fname_eqb f g
  | _, _ => false
  end.
Definition path_eqb (a b : path) : bool :=
  match a, b with
  | PRoot l, PRoot l' | PLoom l, PLoom l' | PProc l, PProc l' => loc_eqb l l'
  | PThread l t, PThread l' t' => loc_eqb l l' && (t =? t')
  | PFile l t f, PFile l' t' f' => loc_eqb l l' && (t =? t') && fname_eqb f f'
  | _, _ => false
  end.

(* the directory the runtime writes into while tracing *)
Definition procloc (m : mode) : loc := match m with Direct => Fin | TmpMode => Tmp end.

(* ------------------------------------------------------------------ libc calls *)

Inductive op :=
| Mkdir (p : path)
| Open (p : path)                          (* open(O_WRONLY|O_CREAT) of stream.obs *)
| Write (p : path) (bs : list Z)
| Close (p : path)
| FopenW (p : path)
| FopenR (p : path)
| Fputs (p : path) (bs : list Z)           (* parson: serialized metadata *)
| Fread (p : path) (bs : list Z)           (* bs = what the healthy call returns; [] at EOF *)
| Fwrite (p : path) (bs : list Z)
| Fclose (p : path)
| Opendir (p : path)
| Readdir (p : path) (e : option entry)    (* None = end of directory *)
| Closedir (p : path)
| Remove (p : path)
| Rmdir (p : path) (children : list path). (* children: what could still be inside *)

(* ------------------------------------------------------------------ abstract file system *)

Record fsys := mkfs {
  files : path -> option (list Z);         (* regular files *)
  dirs : path -> bool;                     (* directories *)
  pend : path -> option (list Z)           (* stdio buffer of the FILE open for writing on a path: process memory, lost on SIGKILL *)
}.

Definition upd {A} (f : path -> A) (p : path) (v : A) : path -> A :=
  fun q => if path_eqb q p then v else f q.

Definition fs0 : fsys := mkfs (fun _ => None) (fun _ => false) (fun _ => None).

Definition content (s : fsys) (p : path) : list Z :=
  match files s p with Some c => c | None => [] end.

Definition absent (s : fsys) (p : path) : bool :=
  match files s p with Some _ => false | None => negb (dirs s p) end.

(* stdio output: bytes go to the buffer; when more than bufsz bytes are pending the
   first bufsz of them reach the file (observed with strace: 1024-byte fwrites give
   4096-byte writes, issued by the fwrite that overflows the buffer) *)
Definition buffered (bufsz : nat) (s : fsys) (p : path) (bs : list Z) : fsys :=
  match pend s p with
  | None => s
  | Some pd =>
    let tot := pd ++ bs in
    if (bufsz <? length tot)%nat
    then mkfs (upd (files s) p (Some (content s p ++ firstn bufsz tot))) (dirs s)
              (upd (pend s) p (Some (skipn bufsz tot)))
    else mkfs (files s) (dirs s) (upd (pend s) p (Some tot))
  end.

(* a call that succeeds *)
Definition exec_ok (bufsz : nat) (o : op) (s : fsys) : fsys :=
  match o with
  | Mkdir p => mkfs (files s) (upd (dirs s) p true) (pend s)
  | Open p => match files s p with
              | Some _ => s
              | None => mkfs (upd (files s) p (Some [])) (dirs s) (pend s)
              end
  | Write p bs => mkfs (upd (files s) p (Some (content s p ++ bs))) (dirs s) (pend s)
  | FopenW p => mkfs (upd (files s) p (Some [])) (dirs s) (upd (pend s) p (Some []))
  | Fputs p bs | Fwrite p bs => buffered bufsz s p bs
  | Fclose p => match pend s p with
                | Some pd => mkfs (upd (files s) p (Some (content s p ++ pd))) (dirs s)
                                  (upd (pend s) p None)
                | None => s
                end
  | Remove p => mkfs (upd (files s) p None) (dirs s) (pend s)
  | Rmdir p ch => if forallb (absent s) ch
                  then mkfs (files s) (upd (dirs s) p false) (pend s)
                  else s                       (* ENOTEMPTY: try_clean_dir stays silent *)
  | Close _ | FopenR _ | Fread _ _ | Opendir _ | Readdir _ _ | Closedir _ => s
  end.

Definition apply_ops (bufsz : nat) (l : list op) (s : fsys) : fsys :=
  fold_left (fun s o => exec_ok bufsz o s) l s.

(* crash = any prefix of the trace; what survives is files/dirs (pend is gone) *)
Definition apply_prefix (bufsz : nat) (k : nat) (l : list op) : fsys :=
  apply_ops bufsz (firstn k l) fs0.

(* ------------------------------------------------------------------ faults *)

Inductive fkind :=
| FErr                (* the call returns its error value (-1 / NULL / EOF / 0) and has no effect *)
| FShort (c : nat).   (* write / fwrite transfer only c bytes and return c *)

(* does the C code see the faulty call as a failure?  A short write() is retried by the
   loop of write_evbuf, so it is not. *)
Definition is_failure (fk : fkind) (o : op) : bool :=
  match fk, o with
  | FShort c, Write _ bs => false
  | _, _ => true
  end.

Definition exec_fault (bufsz : nat) (fk : fkind) (o : op) (s : fsys) : fsys :=
  match fk, o with
  | FShort c, Write p bs => exec_ok bufsz (Write p bs) s   (* c bytes, then the loop writes the rest *)
  | FShort c, Fwrite p bs => exec_ok bufsz (Fwrite p (firstn c bs)) s
  | _, Fclose p => match pend s p with       (* the final flush failed: buffer lost *)
                   | Some _ => mkfs (files s) (dirs s) (upd (pend s) p None)
                   | None => s               (* FILE open for reading: nothing to lose *)
                   end
  | _, _ => s
  end.

(* ------------------------------------------------------------------ the runtime as an instruction list *)

(* control state of the C code that decides which later calls still happen *)
Inductive flag := FInOpen | FOutOpen | FCopyOk | FDirOpen | FDirOk | FMoveOk.
Definition flag_eqb (a b : flag) : bool :=
  match a, b with
  | FInOpen, FInOpen | FOutOpen, FOutOpen | FCopyOk, FCopyOk
  | FDirOpen, FDirOpen | FDirOk, FDirOk | FMoveOk, FMoveOk => true
  | _, _ => false
  end.

Record instr := mki8 {
  i_tid : Z;               (* thread whose control flags it uses (0: process level) *)
  i_op : op;
  i_guard : list flag;     (* executed only if all these flags are set *)
  i_set : list flag;       (* flags set when the call succeeds *)
  i_unset : list flag;     (* flags cleared when the call succeeds (after i_set) *)
  i_die : bool;            (* on failure: die() *)
  i_diag : bool;           (* on failure: a diagnostic is printed (die/err/warn) *)
  i_clear : list flag      (* on failure: flags cleared (return -1 / break / ret = 1) *)
}.
Definition mki (t : Z) (o : op) (g st : list flag) (die dg : bool) (cl : list flag) : instr :=
  mki8 t o g st [] die dg cl.

Definition idie (t : Z) (o : op) : instr := mki t o [] [] true true [].
Definition iign (t : Z) (o : op) : instr := mki t o [] [] false false [].
Definition iwarn (t : Z) (o : op) : instr := mki t o [] [] false true [].

(* stream header "ovni" + version 1 *)
Definition hdr : list Z := [111; 118; 110; 105; 1; 0; 0; 0].

(* metadata text: '{' [finished marker] padding '}' *)
Definition meta_text (fin : bool) (n : nat) : list Z :=
  123 :: (if fin then [70] else []) ++ repeat 32 n ++ [125].

Record thread := mkth {
  th_tid : Z;
  th_chunks : list (list Z);   (* bytes handed to write() by each flush, in order *)
  th_meta0 : nat;              (* padding of the initial / final metadata text *)
  th_meta1 : nat
}.
Definition program := list thread.

(* all bytes the thread passes to write() *)
Definition all_bytes (th : thread) : list Z := hdr ++ concat (th_chunks th).

Definition mkpath_thread (l : loc) (t : Z) : list instr :=
  [idie t (Mkdir (PRoot l)); idie t (Mkdir (PLoom l)); idie t (Mkdir (PProc l)); idie t (Mkdir (PThread l t))].

Definition proc_init_tr (m : mode) : list instr :=
  let mk l := [idie 0 (Mkdir (PRoot l)); idie 0 (Mkdir (PLoom l)); idie 0 (Mkdir (PProc l))] in
  match m with Direct => mk Fin | TmpMode => mk Tmp ++ mk Fin end.

Definition store_meta_tr (m : mode) (t : Z) (txt : list Z) : list instr :=
  let j := PFile (procloc m) t Json in
  [idie t (FopenW j); idie t (Fputs j txt); idie t (Fclose j)].

Definition thread_init_tr (m : mode) (th : thread) : list instr :=
  let t := th_tid th in
  mkpath_thread (procloc m) t
  ++ (match m with Direct => [] | TmpMode => mkpath_thread Fin t end)
  ++ [idie t (Open (PFile (procloc m) t Obs)); idie t (Write (PFile (procloc m) t Obs) hdr)]
  ++ store_meta_tr m t (meta_text false (th_meta0 th)).

Definition flush_tr (m : mode) (th : thread) : list instr :=
  map (fun c => idie (th_tid th) (Write (PFile (procloc m) (th_tid th) Obs) c)) (th_chunks th).

(* fread(buffer, 1, 1024) chunks *)
Fixpoint chunks (fuel : nat) (n : nat) (l : list Z) : list (list Z) :=
  match fuel with
  | O => []
  | S fuel' => match l with
               | [] => []
               | _ => firstn n l :: chunks fuel' n (skipn n l)
               end
  end.
Definition chunks1024 (l : list Z) : list (list Z) := chunks (length l) 1024 l.

(* readdir order of a thread directory: thread id -> pass number -> entries *)
Definition order := Z -> nat -> list entry.
Definition all_entries : list entry := [EDot; EDotDot; EFile Obs; EFile Json].

Definition file_data (th : thread) (f : fname) : list Z :=
  match f with Obs => all_bytes th | Json => meta_text true (th_meta1 th) end.

(* --- repaired relocation --- *)

(* copy_thread_to_final(src, dst); g = flags under which the surrounding loop body runs *)
Definition copy_new (t : Z) (g : list flag) (f : fname) (data : list Z) : list instr :=
  let src := PFile Tmp t f in
  let dst := PFile Fin t f in
  let gl := g ++ [FInOpen; FOutOpen; FCopyOk] in
  [mki t (FopenR src) g [FInOpen; FCopyOk] false true [FInOpen; FMoveOk];
   mki t (FopenW dst) (g ++ [FInOpen]) [FOutOpen] false true [FOutOpen; FMoveOk]]
  ++ flat_map (fun c => [mki t (Fread src c) gl [] false true [FCopyOk; FMoveOk];
                         mki t (Fwrite dst c) gl [] false true [FCopyOk; FMoveOk]])
              (chunks1024 data)
  ++ [mki t (Fread src []) gl [] false true [FCopyOk; FMoveOk];
      mki t (Fclose dst) (g ++ [FInOpen; FOutOpen]) [] false true [FMoveOk];
      mki t (Fclose src) (g ++ [FInOpen]) [] false false []].

(* move_thdir_step(thdir, thdir_final, step): pass 0 = copy data, 1 = copy metadata, 2 = remove.
   Passes 1 and 2 are entered only if nothing failed before (FMoveOk); closedir ends the pass. *)
Definition pass_new (rho : order) (th : thread) (p : nat) : list instr :=
  let t := th_tid th in
  let d := PThread Tmp t in
  let gm := match p with O => [] | _ => [FMoveOk] end in
  let g := [FDirOpen; FDirOk] in
  let body (e : entry) : list instr :=
    match e, p with
    | EFile Obs, O => copy_new t g Obs (file_data th Obs)
    | EFile Json, S O => copy_new t g Json (file_data th Json)
    | EFile f, S (S O) => [mki t (Remove (PFile Tmp t f)) g [] false true [FMoveOk]]
    | _, _ => []
    end in
  [mki t (Opendir d) gm (match p with O => [FDirOpen; FDirOk; FMoveOk] | _ => [FDirOpen; FDirOk] end)
       false true [FDirOpen; FMoveOk]]
  ++ flat_map (fun e => mki t (Readdir d (Some e)) g [] false true [FDirOk; FMoveOk] :: body e) (rho t p)
  ++ [mki t (Readdir d None) g [] false true [FDirOk; FMoveOk];
      mki8 t (Closedir d) [FDirOpen] [] [FDirOpen; FDirOk] false false [FDirOpen; FDirOk]].

Definition relocate_new (rho : order) (th : thread) : list instr :=
  pass_new rho th 0 ++ pass_new rho th 1 ++ pass_new rho th 2.

(* --- relocation as found --- *)

Definition copy_old (t : Z) (g : list flag) (f : fname) (data : list Z) : list instr :=
  let src := PFile Tmp t f in
  let dst := PFile Fin t f in
  let gl := g ++ [FInOpen; FOutOpen; FCopyOk] in
  let gb := g ++ [FInOpen; FOutOpen] in
  [mki t (FopenR src) g [FInOpen; FCopyOk] false true [FInOpen];
   mki t (FopenW dst) (g ++ [FInOpen]) [FOutOpen] false true [FOutOpen]]   (* infile leaked on failure *)
  ++ flat_map (fun c => [mki t (Fread src c) gl [] false false [FCopyOk];   (* loop ends *)
                         mki t (Fwrite dst c) gl [] false false []])        (* result ignored *)
              (chunks1024 data)
  ++ [mki t (Fread src []) gl [] false false [FCopyOk];
      mki t (Fclose dst) gb [] false false [];                              (* result ignored *)
      mki t (Fclose src) gb [] false false [];
      mki t (Remove src) gb [] false true []].

Definition relocate_old (rho : order) (th : thread) : list instr :=
  let t := th_tid th in
  let d := PThread Tmp t in
  let g := [FDirOpen; FDirOk] in
  let body (e : entry) : list instr :=
    match e with
    | EFile f => copy_old t g f (file_data th f)
    | _ => []
    end in
  [mki t (Opendir d) [] [FDirOpen; FDirOk] false true [FDirOpen]]
  ++ flat_map (fun e => mki t (Readdir d (Some e)) g [] false false [FDirOk] :: body e) (rho t 0%nat)
  ++ [mki t (Readdir d None) g [] false false [FDirOk];
      mki8 t (Closedir d) [FDirOpen] [] [FDirOpen; FDirOk] false false [FDirOpen; FDirOk]].

Definition relocate (v : variant) (rho : order) (th : thread) : list instr :=
  match v with New => relocate_new rho th | Old => relocate_old rho th end.

Definition thread_free_tr (v : variant) (m : mode) (rho : order) (th : thread) : list instr :=
  let t := th_tid th in
  store_meta_tr m t (meta_text true (th_meta1 th))
  ++ [iign t (Close (PFile (procloc m) t Obs))]
  ++ match m with
     | Direct => []
     | TmpMode => relocate v rho th
                  ++ [iwarn t (Rmdir (PThread Tmp t) [PFile Tmp t Obs; PFile Tmp t Json])]
     end.

Definition thread_tr (v : variant) (m : mode) (rho : order) (th : thread) : list instr :=
  thread_init_tr m th ++ flush_tr m th ++ thread_free_tr v m rho th.

Definition proc_fini_tr (m : mode) (P : program) : list instr :=
  match m with
  | Direct => []
  | TmpMode => [iwarn 0 (Rmdir (PProc Tmp) (map (fun th => PThread Tmp (th_tid th)) P));
                iwarn 0 (Rmdir (PLoom Tmp) [PProc Tmp]);
                iwarn 0 (Rmdir (PRoot Tmp) [PLoom Tmp])]
  end.

(* threads one after another (each thread touches only its own thread.<tid> paths) *)
Definition itrace (v : variant) (m : mode) (P : program) (rho : order) : list instr :=
  proc_init_tr m ++ flat_map (thread_tr v m rho) P ++ proc_fini_tr m P.

Definition trace_of_program_v (v : variant) (m : mode) (P : program) (rho : order) : list op :=
  map i_op (itrace v m P rho).

(* the repaired runtime *)
Definition trace_of_program (m : mode) (P : program) (rho : order) : list op :=
  trace_of_program_v New m P rho.

(* ------------------------------------------------------------------ machine with one fault *)

Record mstate := mkm {
  m_fs : fsys;
  m_fl : Z -> flag -> bool;
  m_diag : bool;           (* something was printed on stderr *)
  m_dead : bool;           (* abort() was called *)
  m_log : list op          (* calls made so far, most recent first *)
}.

Definition m0 : mstate := mkm fs0 (fun _ _ => false) false false [].

Definition guard_ok (fl : flag -> bool) (g : list flag) : bool := forallb fl g.

Definition setfl (fl : Z -> flag -> bool) (t : Z) (l : list flag) (v : bool) : Z -> flag -> bool :=
  match l with
  | [] => fl
  | _ => fun t' f => if (t' =? t) && existsb (flag_eqb f) l then v else fl t' f
  end.

Definition step (bufsz : nat) (fault : option fkind) (i : instr) (s : mstate) : mstate :=
  match fault with
  | None => mkm (exec_ok bufsz (i_op i) (m_fs s))
                (setfl (setfl (m_fl s) (i_tid i) (i_set i) true) (i_tid i) (i_unset i) false)
                (m_diag s) (m_dead s) (i_op i :: m_log s)
  | Some fk =>
    if is_failure fk (i_op i)
    then mkm (exec_fault bufsz fk (i_op i) (m_fs s)) (setfl (m_fl s) (i_tid i) (i_clear i) false)
             (m_diag s || i_diag i) (i_die i) (i_op i :: m_log s)
    else mkm (exec_fault bufsz fk (i_op i) (m_fs s))
             (setfl (setfl (m_fl s) (i_tid i) (i_set i) true) (i_tid i) (i_unset i) false)
             (m_diag s) (m_dead s) (i_op i :: m_log s)
  end.

(* fi = Some (n, fk): the (n+1)-th call that is actually made from here on fails with fk *)
Fixpoint run (bufsz : nat) (fi : option (nat * fkind)) (l : list instr) (s : mstate) : mstate :=
  match l with
  | [] => s
  | i :: l' =>
    if m_dead s then s
    else if guard_ok (m_fl s (i_tid i)) (i_guard i)
         then match fi with
              | Some (O, fk) => run bufsz None l' (step bufsz (Some fk) i s)
              | Some (S n, fk) => run bufsz (Some (n, fk)) l' (step bufsz None i s)
              | None => run bufsz None l' (step bufsz None i s)
              end
         else run bufsz fi l' s
  end.

Definition apply_with_fault (bufsz : nat) (i : nat) (fk : fkind) (l : list instr) : mstate :=
  run bufsz (Some (i, fk)) l m0.

(* ------------------------------------------------------------------ emulator side *)

Fixpoint last_is (x : Z) (l : list Z) : bool :=
  match l with
  | [] => false
  | [y] => y =? x
  | _ :: l' => last_is x l'
  end.

(* parson accepts the metadata file: complete text *)
Definition json_ok (d : list Z) : bool :=
  match d with
  | c :: r => (c =? 123) && last_is 125 r && negb (existsb (Z.eqb 125) (removelast r))
  | [] => false
  end.
Definition json_finished (d : list Z) : bool := json_ok d && existsb (Z.eqb 70) d.

(* size of the event at the head of l (stream.c / ovni_ev_size): 12-byte header, flags
   nibble, jumbo length field; None if the header itself is cut *)
Definition le32 (l : list Z) : Z :=
  nth 0 l 0 + 256 * nth 1 l 0 + 65536 * nth 2 l 0 + 16777216 * nth 3 l 0.
Definition ev_size (l : list Z) : option nat :=
  match l with
  | [] => None
  | fl :: _ =>
    if (length l <? 12)%nat then None
    else if Z.testbit fl 4
         then if (length l <? 16)%nat then None
              else Some (16 + Z.to_nat (le32 (skipn 12 l)))%nat
         else let n := Z.land fl 15 in
              Some (if n =? 0 then 12%nat else (13 + Z.to_nat n)%nat)
  end.
Fixpoint tiles (fuel : nat) (l : list Z) : bool :=
  match fuel with
  | O => false
  | S fuel' =>
    match l with
    | [] => true
    | _ => match ev_size l with
           | Some n => (n <=? length l)%nat && tiles fuel' (skipn n l)
           | None => false
           end
    end
  end.
Definition list_eqb (a b : list Z) : bool :=
  (length a =? length b)%nat && forallb (fun xy => fst xy =? snd xy) (combine a b).
Definition obs_ok (d : list Z) : bool :=
  list_eqb (firstn 8 d) hdr && tiles (S (length d)) (skipn 8 d).

(* a thread directory is a stream for the emulator iff it holds a stream.json (trace.c) *)
Definition visible (s : fsys) (l : loc) (t : Z) : bool :=
  match files s (PFile l t Json) with Some _ => true | None => false end.

(* necessary conditions for "ovniemu exits 0" on the tree at l: every visible stream
   has parsable metadata with ovni.finished = 1 (thread.c), a stream.obs with a
   correct header that events tile exactly (stream.c) *)
Definition stream_ok (s : fsys) (l : loc) (t : Z) : bool :=
  json_finished (content s (PFile l t Json))
  && match files s (PFile l t Obs) with Some d => obs_ok d | None => false end.
Definition emu_ok (s : fsys) (l : loc) (tids : list Z) : bool :=
  forallb (fun t => negb (visible s l t) || stream_ok s l t) tids.

(* ------------------------------------------------------------------ specification *)

Fixpoint is_prefix (a b : list Z) : bool :=
  match a, b with
  | [], _ => true
  | x :: a', y :: b' => (x =? y) && is_prefix a' b'
  | _ :: _, [] => false
  end.

(* bytes thread t has passed to write() in a list of calls *)
Fixpoint flushed_of (l : list op) (t : Z) : list Z :=
  match l with
  | [] => []
  | Write (PFile _ t' Obs) bs :: l' => if t' =? t then bs ++ flushed_of l' t else flushed_of l' t
  | _ :: l' => flushed_of l' t
  end.

(* ... before the k-th call of the run *)
Definition flushed (m : mode) (P : program) (rho : order) (k : nat) (t : Z) : list Z :=
  flushed_of (firstn k (trace_of_program m P rho)) t.

Definition tids (P : program) : list Z := map th_tid P.

(* C09 sentence 1 on a tree: accepted => every visible stream holds what was flushed *)
Definition c09_s1_ok (s : fsys) (l : loc) (ts : list Z) (fl : Z -> list Z) : bool :=
  negb (emu_ok s l ts)
  || forallb (fun t => negb (visible s l t) || is_prefix (fl t) (content s (PFile l t Obs))) ts.
(* C09 sentence 2 on a tree: marked finished in the final directory => the stream there is
   everything flushed so far, and that is everything the thread ever writes *)
Definition c09_s2_ok (s : fsys) (P : program) (fl : Z -> list Z) : bool :=
  forallb (fun th =>
    negb (json_finished (content s (PFile Fin (th_tid th) Json)))
    || (match files s (PFile Fin (th_tid th) Obs) with
        | Some d => list_eqb d (fl (th_tid th)) && list_eqb d (all_bytes th)
        | None => false
        end)) P.

(* the trace directory the emulator is given is the final one ($OVNI_TRACEDIR) *)
Definition C09_sentence1 (bufsz : nat) (m : mode) (P : program) (rho : order) : Prop :=
  forall k t, let s := apply_prefix bufsz k (trace_of_program m P rho) in
    emu_ok s Fin (tids P) = true -> In t (tids P) -> visible s Fin t = true ->
    is_prefix (flushed m P rho k t) (content s (PFile Fin t Obs)) = true.

Definition C09_sentence2 (bufsz : nat) (m : mode) (P : program) (rho : order) : Prop :=
  forall k th, let s := apply_prefix bufsz k (trace_of_program m P rho) in
    In th P -> json_finished (content s (PFile Fin (th_tid th) Json)) = true ->
    files s (PFile Fin (th_tid th) Obs) = Some (all_bytes th) /\
    flushed m P rho k (th_tid th) = all_bytes th.

(* C10 *)
Inductive outcome := AbortWithDiagnostic | AbortSilently | CompleteValidTrace | ReturnedIncomplete.

Definition stream_complete (s : fsys) (l : loc) (th : thread) : bool :=
  json_finished (content s (PFile l (th_tid th) Json))
  && match files s (PFile l (th_tid th) Obs) with
     | Some d => list_eqb d (all_bytes th)
     | None => false
     end.
(* every stream of the program is complete in its final or in its temporary directory *)
Definition complete_valid (s : fsys) (P : program) : bool :=
  forallb (fun th => stream_complete s Fin th || stream_complete s Tmp th) P.

Definition outcome_of (P : program) (s : mstate) : outcome :=
  if m_dead s then (if m_diag s then AbortWithDiagnostic else AbortSilently)
  else if complete_valid (m_fs s) P then CompleteValidTrace else ReturnedIncomplete.

(* a source was removed although its copy is not complete *)
Definition orphan_delete (s : mstate) (P : program) : bool :=
  existsb (fun th =>
    existsb (fun f =>
      existsb (fun o => match o with
                        | Remove (PFile Tmp t f') => (t =? th_tid th) && fname_eqb f f'
                        | _ => false
                        end) (m_log s)
      && negb (match files (m_fs s) (PFile Fin (th_tid th) f) with
               | Some d => list_eqb d (file_data th f)
               | None => false
               end)) [Obs; Json]) P.

Definition C10_statement (bufsz : nat) (m : mode) (P : program) (rho : order) : Prop :=
  forall i fk, let s := apply_with_fault bufsz i fk (itrace New m P rho) in
    (outcome_of P s = AbortWithDiagnostic \/ outcome_of P s = CompleteValidTrace)
    /\ orphan_delete s P = false.

(* well-formed inputs *)
Definition wf_program (P : program) : Prop :=
  NoDup (tids P) /\ forall th, In th P -> th_tid th <> 0.
Definition wf_order (rho : order) : Prop :=
  forall t p, Permutation (rho t p) all_entries.
