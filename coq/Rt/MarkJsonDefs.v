(* C17, the JSON leg of the mark API: what ovni_mark_type / ovni_mark_label (src/rt/ovni.c) write into the
   thread's metadata tree (rthread.meta -> stream.json) and how the emulator (src/emu/ovni/mark.c: scan_thread,
   parse_mark, parse_labels, create_mark_type, add_label; create_type for the PCF) reads it back.
   Built on the parson object model of Rt/RtMetaDefs.v (json, fget/fset, dotget/dotset); the abstract
   per-thread definitions (mdef), the run-time refusals (rt_call) and the merge (merge_threads) are those of
   Emu/MarkDefs.v.  Definitions only; proofs in Proofs/MarkJsonProofs.v.

   Runtime, statement by statement:
     ovni_mark_type(type, flags, title):  type range, title NULL/"" -> die; get_thread_metadata (finished / not
       ready -> die); key "ovni.mark.<%PRId32>" (snprintf into 128 bytes); json_object_dotget_value != NULL -> die
       ("already defined": ANY value under that name, object or not); dotset_string "<key>.title"; dotset_string
       "<key>.chan_type" = flags & OVNI_MARK_STACK ? "stack" : "single"; a failing dotset (a prefix of the name
       holds a non-object) -> die.  Between the two dotsets nothing is stored, so a die() leaves no file change.
     ovni_mark_label(type, value, label): type range, value <= 0, label NULL/"" -> die; the type key must exist
       (any value); "<key>.labels.<%PRId64>" must not exist; dotset_string.
     ovni_mark_push/pop/set do not touch the metadata (value 0 -> die).
   Emulator: json_object_dotget_object(meta, "ovni.mark") == NULL (absent OR not an object) = "no marks in this
   thread"; members in array order; type key through strtol(base 10) with errno/endptr checks (so " 7", "+7",
   "07", "-0" are numbers, "7x", "", "0x7" are not), range [0,100); the member must be an object; "title" and
   "chan_type" strings ("single" / "stack" exactly); title and labels copied with snprintf into MAX_PCF_LABEL
   (512) bytes, longer -> error; "labels" optional but an object when present; label keys through strtoll (ANY
   int64: zero and negative keys are NOT refused here), label values strings.  Any error fails mark_create, hence
   the emulation.  The PCF gets pcf_add_value(type, value, label) with the int64 value (a repeated value is an
   error; it cannot happen after the merge).  Before the repair of C17's finding label-value-truncated-to-int the
   value was TRUNCATED to int on the way: the *_old definitions.

   long and int64_t are 64 bits (LP64), int is 32 bits.  Strings are byte lists without NUL. *)
From OV Require Import Base.CInt Emu.MarkDefs Rt.RtMetaDefs.
Local Open Scope Z_scope.


(* ------------------------------------------------------------------ printf("%d") and strtol(.., 10) *)
(* least significant digit first *)
Fixpoint rdigits (fuel : nat) (n : Z) : list Z :=
  match fuel with
  | O => []
  | S f => if n <? 10 then [48 + n] else (48 + n mod 10) :: rdigits f (n / 10)
  end.
(* %PRId32 / %PRId64 of an integer of magnitude < 10^20 *)
Definition render_int (z : Z) : str := if z <? 0 then 45 :: rev (rdigits 20 (- z)) else rev (rdigits 20 z).

Definition is_space (c : Z) : bool := (c =? 32) || ((9 <=? c) && (c <=? 13)).      (* isspace, C locale *)
Definition is_digit (c : Z) : bool := (48 <=? c) && (c <=? 57).
Fixpoint skip_spaces (s : str) : str :=
  match s with
  | [] => []
  | c :: r => if is_space c then skip_spaces r else s
  end.
Definition digits_val (s : str) : Z := fold_left (fun a c => a * 10 + (c - 48)) s 0.

(* strtol / strtoll (64 bits) in base 10 with the callers' checks: errno == 0 (no overflow), endptr != str (some
   digit), *endptr == 0 (nothing after the digits) *)
Definition parse_number (s : str) : option Z :=
  let s1 := skip_spaces s in
  let (neg, s2) := match s1 with
                   | [] => (false, s1)
                   | c :: r => if c =? 45 then (true, r) else if c =? 43 then (false, r) else (false, s1)
                   end in
  match s2 with
  | [] => None
  | _ :: _ =>
    if forallb is_digit s2 then
      let v := if neg then - digits_val s2 else digits_val s2 in
      if (- 2 ^ 63 <=? v) && (v <? 2 ^ 63) then Some v else None
    else None
  end.

(* ------------------------------------------------------------------ names *)
Definition k_mark : str := [109; 97; 114; 107].  (* "mark" *)
Definition k_title : str := [116; 105; 116; 108; 101].  (* "title" *)
Definition k_chan_type : str := [99; 104; 97; 110; 95; 116; 121; 112; 101].  (* "chan_type" *)
Definition k_labels : str := [108; 97; 98; 101; 108; 115].  (* "labels" *)
Definition s_single : str := [115; 105; 110; 103; 108; 101].  (* "single" *)
Definition s_stack : str := [115; 116; 97; 99; 107].  (* "stack" *)

Definition MAX_PCF_LABEL : Z := 512.
Definition KEYBUF : Z := 128.                     (* char key[128] *)
Definition OVNI_MARK_STACK : Z := 1.

Definition slen (s : str) : Z := Z.of_nat (length s).
Definition dotted (a b : str) : str := a ++ DOTC :: b.
(* "ovni.mark.<type>" *)
Definition mark_key (t : Z) : str := dotted k_ovni (dotted k_mark (render_int t)).

(* ------------------------------------------------------------------ runtime: the writes on rthread.meta *)
(* None = die() *)
Definition mark_type_tree (fs : fields) (t : Z) (stack : bool) (title : option str) : option fields :=
  if (t <? 0) || (100 <=? t) then None else
  match title with
  | None => None
  | Some [] => None
  | Some ti =>
    let key := mark_key t in
    if KEYBUF <=? slen key then None else
    match dotget fs key with
    | Some _ => None                                         (* "type already defined" *)
    | None =>
      let kt := dotted key k_title in
      if KEYBUF <=? slen kt then None else
      match dotset fs kt (jstr ti) with
      | None => None
      | Some fs1 =>
        let kc := dotted key k_chan_type in
        if KEYBUF <=? slen kc then None else
        dotset fs1 kc (jstr (if stack then s_stack else s_single))
      end
    end
  end.

Definition mark_label_tree (fs : fields) (t v : Z) (label : option str) : option fields :=
  if (t <? 0) || (100 <=? t) then None else
  if v <=? 0 then None else
  match label with
  | None => None
  | Some [] => None
  | Some la =>
    let key := mark_key t in
    if KEYBUF <=? slen key then None else
    match dotget fs key with
    | None => None                                           (* "type not defined" *)
    | Some _ =>
      let kv := dotted (dotted key k_labels) (render_int v) in
      if KEYBUF <=? slen kv then None else
      match dotget fs kv with
      | Some _ => None                                       (* "label already defined" *)
      | None => dotset fs kv (jstr la)
      end
    end
  end.

(* one call of the mark API seen from the metadata tree *)
Definition tree_call (fs : fields) (c : mcall) : option fields :=
  match c with
  | MType t stack title => mark_type_tree fs t stack title
  | MLabel t v label => mark_label_tree fs t v label
  | MPush _ v | MPop _ v | MSet _ v => if v =? 0 then None else Some fs
  end.

Fixpoint tree_calls (fs : fields) (cs : list mcall) : option fields :=
  match cs with
  | [] => Some fs
  | c :: r => match tree_call fs c with Some fs' => tree_calls fs' r | None => None end
  end.

Fixpoint rt_calls (s : rtm) (cs : list mcall) : res rtm :=
  match cs with
  | [] => Ret s
  | c :: r => match rt_call s c with Ret s' => rt_calls s' r | Die => Die end
  end.

(* the arguments are C values: int32_t type, int64_t value *)
Definition i64 (z : Z) : bool := (- 2 ^ 63 <=? z) && (z <? 2 ^ 63).
Definition call_typed (c : mcall) : bool :=
  match c with
  | MType t _ _ => i32 t
  | MLabel t v _ | MPush t v | MPop t v | MSet t v => i32 t && i64 v
  end.
(* titles and labels the emulator can hold (MAX_PCF_LABEL) *)
Definition call_fits (c : mcall) : bool :=
  match c with
  | MType _ _ (Some ti) => slen ti <? MAX_PCF_LABEL
  | MLabel _ _ (Some la) => slen la <? MAX_PCF_LABEL
  | _ => true
  end.

(* mark calls interleaved with attribute stores of the same thread (ovni_attr_set_*: json_object_dotset_value) *)
Inductive tcall :=
| TMark (c : mcall)
| TAttr (key : str) (v : json).
Definition tree_tcall (fs : fields) (tc : tcall) : option fields :=
  match tc with
  | TMark c => tree_call fs c
  | TAttr key v => attr_set fs key v
  end.
Fixpoint tree_tcalls (fs : fields) (l : list tcall) : option fields :=
  match l with
  | [] => Some fs
  | tc :: r => match tree_tcall fs tc with Some fs' => tree_tcalls fs' r | None => None end
  end.
Definition marks_of (l : list tcall) : list mcall :=
  flat_map (fun tc => match tc with TMark c => [c] | TAttr _ _ => [] end) l.
Definition tcall_ok (tc : tcall) : bool :=
  match tc with
  | TMark c => call_typed c && call_fits c
  | TAttr key _ => user_key key                     (* a name outside "ovni" and "version" *)
  end.

(* --- the calls as part of the metadata state machine of RtMetaDefs (per-thread trees, file writes) *)
Inductive mop :=
| MBase (o : op)
| MMarkType (t flags : Z) (title : option str)
| MMarkLabel (t v : Z) (label : option str).

Definition opt_ascii (o : option str) : bool := match o with None => true | Some s => ascii s end.
Definition m_in_dom (o : mop) : bool :=
  match o with
  | MBase b => in_dom b
  | MMarkType t flags title => i32 t && i64 flags && opt_ascii title
  | MMarkLabel t v label => i32 t && i64 v && opt_ascii label
  end.

(* flags & OVNI_MARK_STACK *)
Definition stack_flag (flags : Z) : bool := negb (Z.land flags OVNI_MARK_STACK =? 0).

Definition mark_store (s : state) (th : nat) (r : fields -> option fields) : outcome :=
  let t := tget (st_threads s) th in
  if negb (attr_gate t) then ODie else                       (* get_thread_metadata *)
  match r (t_meta t) with
  | None => ODie
  | Some fs => ODone (tset s th (with_meta t fs)) None None
  end.

Definition mstep (c : cfg) (s : state) (th : nat) (o : mop) : outcome :=
  if negb (m_in_dom o) then OOut else
  match o with
  | MBase b => step c s th b
  | MMarkType t flags title => mark_store s th (fun fs => mark_type_tree fs t (stack_flag flags) title)
  | MMarkLabel t v label => mark_store s th (fun fs => mark_label_tree fs t v label)
  end.

Definition mprog := list (nat * mop).
Fixpoint mrun_from (c : cfg) (s : state) (p : mprog) : list ev * state :=
  match p with
  | [] => ([], s)
  | (th, o) :: r =>
    match mstep c s th o with
    | ODie => ([EvDie], s)
    | OOut => ([EvOut], s)
    | ODone s' w obs => let (l, sf) := mrun_from c s' r in (EvOk w obs :: l, sf)
    end
  end.
Definition mrun (c : cfg) (p : mprog) : list ev * state := mrun_from c st0 p.

(* ------------------------------------------------------------------ emulator: reading "ovni.mark" *)
(* parse_labels (the part that does not depend on the other threads) *)
Definition parse_label (kv : str * json) : option (Z * str) :=
  match parse_number (fst kv) with
  | None => None
  | Some v =>
    match snd kv with
    | jstr l => if slen l <? MAX_PCF_LABEL then Some (v, l) else None
    | _ => None
    end
  end.
Definition parse_labels (ls : fields) : option (list (Z * str)) := all_some (map parse_label ls).

Definition chan_type_of (s : str) : option bool :=
  if str_dec s s_single then Some false else if str_dec s s_stack then Some true else None.

(* parse_mark on one member of the "ovni.mark" object *)
Definition parse_mark_entry (kv : str * json) : option mdef :=
  match parse_number (fst kv) with
  | None => None
  | Some t =>
    if (t <? 0) || (100 <=? t) then None else
    match snd kv with
    | jobj m =>
      match fget m k_title, fget m k_chan_type with
      | Some (jstr ti), Some (jstr ct) =>
        match chan_type_of ct with
        | None => None
        | Some stack =>
          if negb (slen ti <? MAX_PCF_LABEL) then None else
          match fget m k_labels with
          | None => Some {| md_type := t; md_title := ti; md_stack := stack; md_labels := [] |}
          | Some (jobj ls) =>
            match parse_labels ls with
            | Some l => Some {| md_type := t; md_title := ti; md_stack := stack; md_labels := l |}
            | None => None
            end
          | Some _ => None
          end
        end
      | _, _ => None
      end
    | _ => None
    end
  end.

(* scan_thread: None = the emulator refuses the trace; Some [] = no marks in this thread *)
Definition parse_mark_json (j : json) : option (list mdef) :=
  match j with
  | jobj fs =>
    match pget fs [k_ovni; k_mark] with
    | Some (jobj ms) => all_some (map parse_mark_entry ms)
    | _ => Some []                                           (* json_object_dotget_object == NULL *)
    end
  | _ => None                                                (* the loader refuses a stream.json that is not an object *)
  end.

Definition thread_defs_of_tree (j : json) : list mdef :=
  match parse_mark_json j with Some l => l | None => [] end.

(* mark_create over the threads in emulation order.  mark.c interleaves reading and merging (type by type,
   label by label); every error has the same outcome and a success depends only on the sequence of
   definitions, so reading every thread first and merging afterwards is the same function. *)
Definition emu_types_of_trees (ts : list json) : option (list mtype) :=
  match all_some (map parse_mark_json ts) with
  | Some l => merge_threads l
  | None => None
  end.

(* --- the PCF sections (create_type): pcf_add_value(pcftype, value, label), a repeated value is an error.
   `cast` is what happens to the int64 label value on its way into the PCF: nothing since the repair
   (struct pcf_value.value is int64_t); before it, pcf_add_value took an int and mark.c passed (int) l->value
   (the *_old definitions: the model of the code before the repair, kept for C17_labels_beyond_int_refuted_old). *)
Fixpoint pcf_values_with (cast : Z -> Z) (acc : list (Z * str)) (ls : list (Z * str)) : option (list (Z * str)) :=
  match ls with
  | [] => Some acc
  | (v, s) :: r =>
    let v' := cast v in
    if existsb (fun p => fst p =? v') acc then None          (* "PCF value already in type" *)
    else pcf_values_with cast (acc ++ [(v', s)]) r
  end.

Definition pcf_section_with (cast : Z -> Z) (m : mtype) : option (Z * str * list (Z * str)) :=
  match pcf_values_with cast [] (mt_labels m) with
  | Some vs => Some (100 + mt_type m, mt_title m, vs)
  | None => None
  end.
Definition pcf_of_types_with (cast : Z -> Z) (ms : list mtype) : option (list (Z * str * list (Z * str))) :=
  all_some (map (pcf_section_with cast) ms).

(* what ovniemu makes of the mark metadata of a trace: None = refused *)
Definition emu_pcf_of_trees_with (cast : Z -> Z) (ts : list json) : option (list (Z * str * list (Z * str))) :=
  match emu_types_of_trees ts with
  | Some ms => pcf_of_types_with cast ms
  | None => None
  end.

Definition no_cast (v : Z) : Z := v.
Definition pcf_values := pcf_values_with no_cast.
Definition pcf_section := pcf_section_with no_cast.
Definition pcf_of_types := pcf_of_types_with no_cast.
Definition emu_pcf_of_trees := emu_pcf_of_trees_with no_cast.
(* before the repair *)
Definition pcf_of_types_old := pcf_of_types_with cast_int32.
Definition emu_pcf_of_trees_old := emu_pcf_of_trees_with cast_int32.

(* the label Paraver shows for a value of a type *)
Definition pcf_label (secs : list (Z * str * list (Z * str))) (ty v : Z) : option str :=
  match find (fun s => fst (fst s) =? ty) secs with
  | Some s => lookup_label (snd s) v
  | None => None
  end.

(* ------------------------------------------------------------------ the canonical tree of a definition list *)
(* what the runtime has written under "ovni.mark" after the calls that produced defs (used by the proofs and
   by the non-vacuity examples) *)
Definition enc_labels (ls : list (Z * str)) : fields := map (fun p => (render_int (fst p), jstr (snd p))) ls.
Definition enc_body (d : mdef) : fields :=
  [(k_title, jstr (md_title d)); (k_chan_type, jstr (if md_stack d then s_stack else s_single))]
  ++ match md_labels d with [] => [] | _ :: _ => [(k_labels, jobj (enc_labels (md_labels d)))] end.
Definition enc_def (d : mdef) : str * json := (render_int (md_type d), jobj (enc_body d)).
Definition enc_defs (ds : list mdef) : fields := map enc_def ds.
