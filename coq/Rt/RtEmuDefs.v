(* C02, second half: "a program that uses the runtime API in the documented way gets a trace that
   the emulator accepts".  Definitions only; they compose three existing models:
     - the runtime model (Rt/RtBufDefs.v: run, the disk bytes of a program),
     - the stream loader (Emu/StreamDefs.v + Emu/LoaderSpec.v: which files are accepted and which
       (offset, size, clock) records are delivered),
     - the emulator core (Emu/EmuCoreDefs.v: run; Emu/DecodeDefs.v + Emu/MarkDefs.v: decode_all).

   Vocabulary.  A [kind] is what the emulator makes of an event of the ovni model on one thread:
     KOh e          a thread state event (OHx OHe OHp OHr OHc OHw)
     KNop           accepted and ignored (OU?, OB., OCn, OHC; any payload, jumbo or not)
     KFlush b       OF[ (b = true) / OF] (b = false): SET flushing / SET null on the flush channel
     KMark a ty v   OM[ OM] OM= : PUSH / POP / SET of value v on the channel of mark type ty
   [uev_kind] classifies an event as it is on disk, [kind_event] is the emulator-core event of a
   kind (it is what decode_all gives: RtEmuProofs.decode_kind), [kinds_ready] is the discipline
   under which the emulator core accepts a sequence of kinds on one thread (RtEmuProofs.core_accepts),
   [emu_ready] is the same discipline stated on the API calls of a program. *)
From OV Require Import Base.CInt Rt.CodecPre Gen.Codec_gen Rt.CodecDefs Rt.RtBufDefs.
From OV Require Import Emu.EmuCoreDefs Emu.DecodeDefs Emu.MarkDefs Emu.ThreadSpecDefs Emu.LoaderSpec.
From OV Require Gen.Tables_gen.
Local Open Scope Z_scope.

Inductive kind : Type :=
| KOh (e : ohev)
| KNop
| KFlush (opening : bool)
| KMark (a : action) (ty v : Z).

Definition is_kflush (k : kind) : bool := match k with KFlush _ => true | _ => false end.

(* ------------------------------------------------------------------ events as they are on disk *)

(* the payload the emulator sees (emu_ev.c: payload = &oev->payload, payload_size = ovni_payload_size):
   for a jumbo event the 4-byte size field followed by the data *)
Definition payload_of (e : uev) : list Z :=
  if u_jumbo e then le_bytes 4 (zlength (u_data e)) ++ u_data e else u_data e.

(* None = not an event this development speaks about (another model, an affinity event, a malformed
   mark...) *)
Definition uev_kind (e : uev) : option kind :=
  let p := payload_of e in
  let c := u_c e in
  let v := u_v e in
  if negb (u_m e =? 79) then None
  else if c =? 72 then                                   (* OH? *)
    if v =? 120 then (if u_jumbo e || Nat.ltb (length p) 4 then None else Some (KOh (Execute (le_i32 p 0))))
    else if v =? 101 then Some (KOh End_)
    else if v =? 112 then Some (KOh Pause)
    else if v =? 114 then Some (KOh Resume)
    else if v =? 99 then Some (KOh Cool)
    else if v =? 119 then Some (KOh Warm)
    else if v =? 67 then Some KNop
    else None
  else if (c =? 66) || (c =? 85) then Some KNop          (* OB? OU? *)
  else if c =? 67 then (if v =? 110 then Some KNop else None)
  else if c =? 70 then                                   (* OF? *)
    if v =? 91 then Some (KFlush true) else if v =? 93 then Some (KFlush false) else None
  else if c =? 77 then                                   (* OM? *)
    if negb (Nat.eqb (length p) 12) then None else
    let value := le_i64 p 0 in
    let type := le_i32 p 8 in
    if value =? 0 then None
    else if v =? 91 then Some (KMark PUSH type value)
    else if v =? 93 then Some (KMark POP type value)
    else if v =? 61 then Some (KMark SET type value)
    else None
  else None.

Fixpoint uevs_kinds (es : list uev) : option (list kind) :=
  match es with
  | [] => Some []
  | e :: r =>
    match uev_kind e, uevs_kinds r with
    | Some k, Some ks => Some (k :: ks)
    | _, _ => None
    end
  end.

(* ------------------------------------------------------------------ the emulator-core event of a kind *)

(* cs = all channels of the trace (model channels then mark channels) *)
Definition kind_event (cs : list chanspec) (k : kind) : event :=
  match k with
  | KOh e => EvOvni e
  | KNop => EvNop
  | KFlush b =>
    match chan_pos cs M_OVNI Tables_gen.c_ovni_CH_FLUSH with
    | None => EvBad E_UNKNOWN
    | Some kf => EvChan kf SET (if b then Some Tables_gen.c_ovni_ST_FLUSHING else None) 3
    end
  | KMark a ty v =>
    match chan_pos cs MARK_MODEL ty with
    | None => EvBad E_UNKNOWN
    | Some km => EvChan km a (Some v) 3
    end
  end.

(* timed kinds of one thread (gindex 0) as emulator-core events *)
Definition kinds_events (cs : list chanspec) (tks : list (Z * kind)) : list (Z * nat * event) :=
  map (fun tk => (fst tk, 0%nat, kind_event cs (snd tk))) tks.

(* ------------------------------------------------------------------ the discipline *)

(* OF[ and OF] alternate, starting outside a flush (inside = an OF[ is open); other kinds do not matter *)
Fixpoint kflush_scan (inside : bool) (ks : list kind) : option bool :=
  match ks with
  | [] => Some inside
  | KFlush true :: r => if inside then None else kflush_scan true r
  | KFlush false :: r => if inside then kflush_scan false r else None
  | _ :: r => kflush_scan inside r
  end.

(* thread state and, for every mark type, the values pushed and not yet popped (top first) *)
Record scan : Type := mkScan { sc_ts : tst; sc_stk : Z -> list Z }.

Definition scan0 : scan := mkScan Unknown (fun _ => []).

Definition set_stk (f : Z -> list Z) (ty : Z) (l : list Z) : Z -> list Z :=
  fun t => if t =? ty then l else f t.

(* ms: the mark types of the trace; cpus: the CPU indices of the loom of the thread *)
Definition kind_step (ms : list mtype) (cpus : list Z) (s : scan) (k : kind) : option scan :=
  match k with
  | KNop => Some s
  | KFlush _ => Some s                                   (* judged by kflush_scan *)
  | KOh e =>
    (* the documented thread state machine (Emu/ThreadSpecDefs.v); OHx names a CPU of the loom *)
    let ok := match e with
              | Execute idx => memz idx cpus
              | AffSet _ | AffRemote _ _ => false
              | _ => true
              end in
    if ok then match fsm (sc_ts s) e with Some ts' => Some (mkScan ts' (sc_stk s)) | None => None end
    else None
  | KMark a ty v =>
    if v =? 0 then None else
    match find_mt ms ty with
    | None => None                                       (* type not defined with ovni_mark_type *)
    | Some m =>
      match a with
      | PUSH =>
        if mt_stack m && negb (Nat.leb MAX_CHAN_STACK (length (sc_stk s ty)))
        then Some (mkScan (sc_ts s) (set_stk (sc_stk s) ty (v :: sc_stk s ty))) else None
      | POP =>
        if mt_stack m then
          match sc_stk s ty with
          | x :: rest => if x =? v then Some (mkScan (sc_ts s) (set_stk (sc_stk s) ty rest)) else None
          | [] => None
          end
        else None
      | SET => if mt_stack m then None else Some s
      | IGN => None
      end
    end
  end.

Fixpoint kinds_scan (ms : list mtype) (cpus : list Z) (s : scan) (ks : list kind) : option scan :=
  match ks with
  | [] => Some s
  | k :: r => match kind_step ms cpus s k with Some s' => kinds_scan ms cpus s' r | None => None end
  end.

Definition stacks_empty (ms : list mtype) (s : scan) : bool :=
  forallb (fun m => match sc_stk s (mt_type m) with [] => true | _ => false end) ms.

(* the thread ends dead; with -l (lint) no mark stack is left open *)
Definition scan_final (ms : list mtype) (lint : bool) (s : scan) : bool :=
  tst_eqb (sc_ts s) Dead && (negb lint || stacks_empty ms s).

Definition main_ok (ms : list mtype) (cpus : list Z) (lint : bool) (ks : list kind) : bool :=
  match kinds_scan ms cpus scan0 ks with Some s => scan_final ms lint s | None => false end.

Definition kinds_ready (ms : list mtype) (cpus : list Z) (lint : bool) (ks : list kind) : bool :=
  match kflush_scan false ks with Some _ => true | None => false end && main_ok ms cpus lint ks.

(* ------------------------------------------------------------------ programs *)

(* the event a call hands to the library (clock 0: the kind does not depend on it) *)
Definition op_uev (o : op) : option uev :=
  match o with
  | Emit m c v chunks => Some (mkU false m c v 0 (concat chunks))
  | JumboEmit m c v data => Some (mkU true m c v 0 data)
  | MarkPush ty va => Some (mkU false c_O c_M c_LB 0 (concat (mark_payload ty va)))
  | MarkPop ty va => Some (mkU false c_O c_M c_RB 0 (concat (mark_payload ty va)))
  | MarkSet ty va => Some (mkU false c_O c_M c_EQ 0 (concat (mark_payload ty va)))
  | Flush | Free => None
  end.

(* the kinds a call contributes: ovni_flush() contributes nothing itself (the library writes the
   OF[ OF] pairs, for explicit and automatic flushes alike); a program does not emit OF* events
   and does not call ovni_thread_free() before the end *)
Definition op_kinds (o : op) : option (list kind) :=
  match o with
  | Flush => Some []
  | Free => None
  | _ =>
    match op_uev o with
    | Some e => match uev_kind e with
                | Some k => if is_kflush k then None else Some [k]
                | None => None
                end
    | None => None
    end
  end.

Fixpoint ops_kinds (ops : list op) : option (list kind) :=
  match ops with
  | [] => Some []
  | o :: r =>
    match op_kinds o, ops_kinds r with
    | Some k, Some ks => Some (k ++ ks)
    | _, _ => None
    end
  end.

(* A. the conformant emulator-ready programs of one thread: every call is a thread state event,
   an ignored event, a mark call or ovni_flush(); the thread state events follow the documented
   state machine from OHx on a CPU of the list to OHe; mark values are pushed / popped on stack
   types with stack discipline (at most MAX_CHAN_STACK deep) and set on single types; with lint,
   every mark stack is empty at the end.  The program is `ops` followed by ovni_flush();
   ovni_thread_free(). *)
Definition emu_ready (ms : list mtype) (cpus : list Z) (lint : bool) (ops : list op) : bool :=
  match ops_kinds ops with Some ks => main_ok ms cpus lint ks | None => false end.

(* ------------------------------------------------------------------ what the loader delivers *)

(* an event as the player hands it to the models: time, thread gindex, (model, category, value),
   payload, jumbo flag, gid of a type label (unused here); same shape as LabelDecode.raw_event *)
Definition raw_ev : Type := (Z * nat * (Z * Z * Z) * list Z * bool * Z)%type.

(* the event of the record (offset, size, clock) that the stream layer delivered for the file bs
   (emu_ev.c; clock offset 0; the only stream of the trace: thread 0) *)
Definition raw_at (bs : list Z) (r : Z * Z * Z) : raw_ev :=
  let '(off, sz, clk) := r in
  (clk, 0%nat, (sbyte bs (off + 1), sbyte bs (off + 2), sbyte bs (off + 3)),
   map (fun b => b mod 256) (firstn (Z.to_nat (sz - 12)) (skipn (Z.to_nat (off + 12)) bs)),
   Z.testbit (sbyte bs off) 4, 0).

Definition raw_of_uev (e : uev) : raw_ev :=
  (u_clock e, 0%nat, (u_m e, u_c e, u_v e), payload_of e, u_jumbo e, 0).

(* where the events of a stream lie: (offset, size, clock) *)
Fixpoint layout (off : Z) (es : list uev) : list (Z * Z * Z) :=
  match es with
  | [] => []
  | e :: r => (off, esize e, u_clock e) :: layout (off + esize e) r
  end.

Definition decode_raw (en : list Z) (cs : list chanspec) (r : raw_ev) : Z * nat * event :=
  let '(tm, who, (m, c, v), p, j, aux) := r in (tm, who, decode_all en cs m c v p j aux).

(* all events of the file, decoded *)
Definition decode_stream (en : list Z) (cs : list chanspec) (bs : list Z) (recs : list (Z * Z * Z)) : list (Z * nat * event) :=
  map (fun r => decode_raw en cs (raw_at bs r)) recs.

Definition clock_i63b (clock : list Z) : bool := forallb (fun t => t <? 2 ^ 63) clock.

(* ------------------------------------------------------------------ any number of threads *)

(* The same discipline for a whole trace: the thread state events of all threads are judged by
   the documented machine with CPU occupancy (ThreadSpecDefs.spec_step: affinity events and
   oversubscription included), flush markers and marks per thread. *)
Definition mark_step (ms : list mtype) (stk : Z -> list Z) (a : action) (ty v : Z) : option (Z -> list Z) :=
  if v =? 0 then None else
  match find_mt ms ty with
  | None => None
  | Some m =>
    match a with
    | PUSH =>
      if mt_stack m && negb (Nat.leb MAX_CHAN_STACK (length (stk ty)))
      then Some (set_stk stk ty (v :: stk ty)) else None
    | POP =>
      if mt_stack m then
        match stk ty with
        | x :: rest => if x =? v then Some (set_stk stk ty rest) else None
        | [] => None
        end
      else None
    | SET => if mt_stack m then None else Some stk
    | IGN => None
    end
  end.

Record mscan : Type := mkMscan { m_ss : list sthread; m_fl : nat -> bool; m_stk : nat -> Z -> list Z }.

Definition mscan0 (sx : static) : mscan := mkMscan (spec_init sx) (fun _ => false) (fun _ _ => []).

Definition set_at {A : Type} (f : nat -> A) (t : nat) (x : A) : nat -> A :=
  fun t' => if Nat.eqb t' t then x else f t'.

Definition mkind_step (sx : static) (ms : list mtype) (s : mscan) (who : nat) (k : kind) : option mscan :=
  if negb (Nat.ltb who (length (m_ss s))) then None else
  match k with
  | KOh e =>
    match spec_step sx (m_ss s) who e with
    | Some ss' => Some (mkMscan ss' (m_fl s) (m_stk s))
    | None => None
    end
  | KNop => Some s
  | KFlush b =>
    if Bool.eqb (m_fl s who) b then None
    else Some (mkMscan (m_ss s) (set_at (m_fl s) who b) (m_stk s))
  | KMark a ty v =>
    match mark_step ms (m_stk s who) a ty v with
    | Some g => Some (mkMscan (m_ss s) (m_fl s) (set_at (m_stk s) who g))
    | None => None
    end
  end.

(* timed kinds of a trace: (time, thread gindex, kind) *)
Fixpoint mkinds_scan (sx : static) (ms : list mtype) (s : mscan) (tks : list (Z * nat * kind)) : option mscan :=
  match tks with
  | [] => Some s
  | (_, who, k) :: r =>
    match mkind_step sx ms s who k with Some s' => mkinds_scan sx ms s' r | None => None end
  end.

Definition mscan_final (ms : list mtype) (lint : bool) (s : mscan) : bool :=
  forallb (fun p => tst_eqb (fst p) Dead) (m_ss s) &&
  (negb lint ||
   forallb (fun t => forallb (fun m => match m_stk s t (mt_type m) with [] => true | _ => false end) ms)
           (seq 0 (length (m_ss s)))).

Definition mkinds_ready (sx : static) (ms : list mtype) (tks : list (Z * nat * kind)) : bool :=
  match mkinds_scan sx ms (mscan0 sx) tks with
  | Some s => mscan_final ms (s_lint sx) s
  | None => false
  end.

Definition mkinds_events (cs : list chanspec) (tks : list (Z * nat * kind)) : list (Z * nat * event) :=
  map (fun x => let '(tm, who, k) := x in (tm, who, kind_event cs k)) tks.
