(* Model of the per-thread event buffer of libovni (src/rt/ovni.c:
   write_stream_header, flush_evbuf, ovni_flush, add_flush_events, ovni_ev_add,
   ovni_ev_add_jumbo, ovni_mark_push/pop/set, ovni_thread_free) and the
   specification of C01 (fidelity) and C02 (valid_stream).  Definitions only.

   State: evlen (bytes used in evbuf), buf (the bytes in evbuf, kept as the
   list of memcpy'ed chunks, most recent first), wr (the write(2) calls done on
   the stream file, most recent first), clk (the values the next
   ovni_clock_now() calls will return: the clock is an input).

   `fx` selects the version of add_flush_events:
     fx = true   the REPAIRED code (patches/fix-c02-flush-markers.diff): when the two
                 12-byte flush markers do not fit both, the buffer is flushed first
                 and the end time is taken afterwards;
     fx = false  the code before the repair (kept to state the refutation
                 C02_valid_refuted and so that the check can tell which of the
                 two the tree under test is).
   The recursion ovni_ev_add -> add_flush_events -> ovni_ev_add is on explicit
   fuel; running out of it is the explicit answer RNoFuel (never produced for
   capacities >= 64: RtBufProofs.run_never_out_of_fuel). *)
From OV Require Import Base.CInt Rt.CodecPre Gen.Codec_gen Rt.CodecDefs.
Local Open Scope Z_scope.

Record rt : Type := mkRt {
  ready : bool;               (* rthread.ready *)
  evlen : Z;                  (* rthread.evlen *)
  buf : list (list Z);        (* contents of rthread.evbuf[0..evlen), chunks, latest first *)
  wr : list (list Z);         (* data of each completed write() on streamfd, latest first *)
  clk : list Z                (* future results of ovni_clock_now() *)
}.

Definition buf_bytes (s : rt) : list Z := concat (rev (buf s)).
Definition disk_bytes (s : rt) : list Z := concat (rev (wr s)).

Inductive rres (A : Type) : Type :=
| ROk (a : A)
| RAbort            (* die(): abort() *)
| RNoClock          (* the given clock list is exhausted: the input does not describe a complete run *)
| RNoFuel.          (* recursion fuel exhausted *)
Arguments ROk {A} a.
Arguments RAbort {A}.
Arguments RNoClock {A}.
Arguments RNoFuel {A}.

Definition rbind {A B : Type} (r : rres A) (f : A -> rres B) : rres B :=
  match r with
  | ROk a => f a
  | RAbort => RAbort
  | RNoClock => RNoClock
  | RNoFuel => RNoFuel
  end.

Definition set_clk (s : rt) (c : list Z) : rt := mkRt (ready s) (evlen s) (buf s) (wr s) c.

(* ovni_clock_now() *)
Definition clock_now (s : rt) : rres (Z * rt) :=
  match clk s with
  | [] => RNoClock
  | t :: r => ROk (t, set_clk s r)
  end.

(* flush_evbuf(): write_evbuf(evbuf, evlen); evlen = 0   (the write loop completes: short
   writes and errors are the subject of C10) *)
Definition flush_evbuf (s : rt) : rt :=
  mkRt (ready s) 0 [] (buf_bytes s :: wr s) (clk s).

(* memcpy(&evbuf[evlen], bytes, size); evlen += size *)
Definition append (s : rt) (bytes : list Z) (size : Z) : rt :=
  mkRt (ready s) (evlen s + size) (bytes :: buf s) (wr s) (clk s).

Fixpoint appends (s : rt) (chunks : list (list Z * Z)) : rt :=
  match chunks with
  | [] => s
  | (b, n) :: r => appends (append s b n) r
  end.

Definition c_O : Z := 79.
Definition c_F : Z := 70.
Definition c_M : Z := 77.
Definition c_LB : Z := 91.   (* '[' *)
Definition c_RB : Z := 93.   (* ']' *)
Definition c_EQ : Z := 61.   (* '=' *)

(* struct ovni_ev pre = {0}; pre.header.clock = t; ovni_ev_set_mcv(&pre, "OF[" / "OF]") *)
Definition marker (v : Z) (t : Z) : ovni_ev := ovni_ev_set_mcv (ovni_ev_set_clock ev_zero t) c_O c_F v.

Section Recursion.
  Variable fx : bool.
  Variable cap : Z.                               (* OVNI_MAX_EV_BUF *)

  (* add_flush_events(t0, t1); `rec` is ovni_ev_add *)
  Definition add_flush_events (rec : ovni_ev -> rt -> rres rt) (t0 t1 : Z) (s : rt) : rres rt :=
    if fx && (evlen s + (c_sizeof_struct_ovni_ev_header + c_sizeof_struct_ovni_ev_header) >=? cap) then
      (* repaired code only: both markers must fit; flush again and take the end time afterwards *)
      let s1 := flush_evbuf s in
      rbind (clock_now s1) (fun '(t1', s2) =>
      rbind (rec (marker c_LB t0) s2) (rec (marker c_RB t1')))
    else
      rbind (rec (marker c_LB t0) s) (rec (marker c_RB t1)).

  (* common tail of ovni_ev_add and ovni_ev_add_jumbo:
       if (evlen + total >= OVNI_MAX_EV_BUF) { t0 = now; flush_evbuf(); t1 = now; flushed = 1; }
       memcpy...; evlen += ...;
       if (flushed) add_flush_events(t0, t1);                                           *)
  Definition add_with_flush (rec : ovni_ev -> rt -> rres rt) (chunks : list (list Z * Z)) (total : Z) (s : rt) : rres rt :=
    if evlen s + total >=? cap then
      rbind (clock_now s) (fun '(t0, s1) =>
      let s2 := flush_evbuf s1 in
      rbind (clock_now s2) (fun '(t1, s3) =>
      add_flush_events rec t0 t1 (appends s3 chunks)))
    else ROk (appends s chunks).

  (* static void ovni_ev_add(struct ovni_ev *ev) *)
  Fixpoint ovni_ev_add (fuel : nat) (ev : ovni_ev) (s : rt) : rres rt :=
    match fuel with
    | O => RNoFuel
    | S f =>
      if negb (ready s) then RAbort
      else
        let size := cast_uint64 (ovni_ev_size ev) in
        add_with_flush (ovni_ev_add f) [(ev_image ev size, size)] size s
    end.

  (* static void ovni_ev_add_jumbo(ev, buf, bufsize) with bufsize = |data| *)
  Definition ovni_ev_add_jumbo (fuel : nat) (ev : ovni_ev) (data : list Z) (s : rt) : rres rt :=
    if negb (ready s) then RAbort
    else if negb (ovni_payload_size ev =? 0) then RAbort
    else
      let bufsize := zlength data in
      match ovni_payload_add ev (le_bytes 4 bufsize) with
      | Die => RAbort
      | Ret ev1 =>
        let evsize := cast_uint64 (ovni_ev_size ev1) in
        let totalsize := evsize + bufsize in
        if totalsize >=? cap then RAbort
        else
          let ev2 := set_flags ev1 (Z.lor (h_flags ev1) c_OVNI_EV_JUMBO) in
          add_with_flush (ovni_ev_add fuel) [(ev_image ev2 evsize, evsize); (data, bufsize)] totalsize s
      end.

  (* void ovni_flush(void)   (rproc.st == ST_READY is assumed: C11 covers the process state) *)
  Definition ovni_flush (fuel : nat) (s : rt) : rres rt :=
    if negb (ready s) then RAbort
    else
      rbind (clock_now s) (fun '(t0, s1) =>
      let s2 := flush_evbuf s1 in
      rbind (clock_now s2) (fun '(t1, s3) =>
      rbind (ovni_ev_add fuel (marker c_LB t0) s3) (ovni_ev_add fuel (marker c_RB t1)))).
End Recursion.

(* what ovni_thread_init leaves: write_stream_header() writes magic + version and flushes *)
Definition stream_header_image : list Z :=
  [111; 118; 110; 105] ++ le_bytes 4 c_OVNI_STREAM_VERSION.

Definition thread_init (clock : list Z) : rt :=
  flush_evbuf (append (mkRt true 0 [] [] clock) stream_header_image c_sizeof_struct_ovni_stream_header).

(* ovni_thread_free(): evbuf is freed without being flushed; the thread is no longer ready *)
Definition thread_free (s : rt) : rres rt :=
  if negb (ready s) then RAbort else ROk (mkRt false 0 [] (wr s) (clk s)).

(* --------------------------------------------------------------- the API as a program sees it *)

Inductive op : Type :=
| Emit (m c v : Z) (chunks : list (list Z))     (* ev={0}; set_mcv; ovni_payload_add per chunk; set_clock(ovni_clock_now()); ovni_ev_emit *)
| JumboEmit (m c v : Z) (data : list Z)         (* ev={0}; set_mcv; set_clock(ovni_clock_now()); ovni_ev_jumbo_emit(&ev, data, |data|) *)
| Flush                                         (* ovni_flush() *)
| MarkPush (type value : Z)                     (* ovni_mark_push(type, value) *)
| MarkPop (type value : Z)
| MarkSet (type value : Z)
| Free.                                         (* ovni_thread_free() *)

Definition FUEL : nat := 4.

Definition build (m c v : Z) (chunks : list (list Z)) : res ovni_ev :=
  fold_left (fun r ch => match r with Ret e => ovni_payload_add e ch | Die => Die end)
            chunks (Ret (ovni_ev_set_mcv ev_zero m c v)).

(* ovni_mark_push/pop/set: if (value == 0) die; ev = {0}; set_clock(now); set_mcv("OM?");
   payload_add(&value, 8); payload_add(&type, 4); ovni_ev_add(&ev) *)
Definition mark_payload (type value : Z) : list (list Z) := [le_bytes 8 value; le_bytes 4 type].

Definition mark (fx : bool) (cap : Z) (v : Z) (type value : Z) (st : rt * list uev) : rres (rt * list uev) :=
  let (s, log) := st in
  if value =? 0 then RAbort
  else
    rbind (clock_now s) (fun '(t, s1) =>
    match build c_O c_M v (mark_payload type value) with
    | Die => RAbort
    | Ret ev =>
      rbind (ovni_ev_add fx cap FUEL (ovni_ev_set_clock ev t) s1) (fun s2 =>
      ROk (s2, log ++ [mkU false c_O c_M v t (concat (mark_payload type value))]))
    end).

(* One API call.  The second component is the log of the events handed to the library, in call
   order, exactly as the caller knows them (the "emit log" of harness/rtbuf_drv.c). *)
Definition step (fx : bool) (cap : Z) (o : op) (st : rt * list uev) : rres (rt * list uev) :=
  match o with
  | Emit m c v chunks =>
    let (s, log) := st in
    match build m c v chunks with
    | Die => RAbort
    | Ret ev =>
      rbind (clock_now s) (fun '(t, s1) =>
      rbind (ovni_ev_add fx cap FUEL (ovni_ev_set_clock ev t) s1) (fun s2 =>
      ROk (s2, log ++ [mkU false m c v t (concat chunks)])))
    end
  | JumboEmit m c v data =>
    let (s, log) := st in
    rbind (clock_now s) (fun '(t, s1) =>
    rbind (ovni_ev_add_jumbo fx cap FUEL (ovni_ev_set_clock (ovni_ev_set_mcv ev_zero m c v) t) data s1) (fun s2 =>
    ROk (s2, log ++ [mkU true m c v t data])))
  | Flush =>
    let (s, log) := st in
    rbind (ovni_flush fx cap FUEL s) (fun s2 => ROk (s2, log))
  | MarkPush type value => mark fx cap c_LB type value st
  | MarkPop type value => mark fx cap c_RB type value st
  | MarkSet type value => mark fx cap c_EQ type value st
  | Free =>
    let (s, log) := st in
    rbind (thread_free s) (fun s2 => ROk (s2, log))
  end.

Fixpoint run_from (fx : bool) (cap : Z) (ops : list op) (st : rt * list uev) : rres (rt * list uev) :=
  match ops with
  | [] => ROk st
  | o :: r => rbind (step fx cap o st) (run_from fx cap r)
  end.

Definition run (fx : bool) (cap : Z) (ops : list op) (clock : list Z) : rres (rt * list uev) :=
  run_from fx cap ops (thread_init clock, []).

(* the arguments are expressible in C (uint8_t characters, int32_t type, int64_t value, uint32_t bufsize) *)
Definition op_wfb (o : op) : bool :=
  match o with
  | Emit m c v chunks => byteb m && byteb c && byteb v && forallb (forallb byteb) chunks
  | JumboEmit m c v data => byteb m && byteb c && byteb v && forallb byteb data && (zlength data <? 2 ^ 32)
  | MarkPush ty va | MarkPop ty va | MarkSet ty va =>
    (- 2 ^ 31 <=? ty) && (ty <? 2 ^ 31) && (- 2 ^ 63 <=? va) && (va <? 2 ^ 63)
  | Flush | Free => true
  end.

(* the calls the API accepts (everything else dies) *)
Definition chunks_okb (chunks : list (list Z)) : bool :=
  forallb (fun ch => 2 <=? zlength ch) chunks && (zlength (concat chunks) <=? 16).

Definition api_okb (cap : Z) (o : op) : bool :=
  match o with
  | Emit _ _ _ chunks => chunks_okb chunks
  | JumboEmit _ _ _ data => 16 + zlength data <? cap
  | MarkPush _ va | MarkPop _ va | MarkSet _ va => negb (va =? 0)
  | Flush | Free => true
  end.

(* --------------------------------------------------------------- specification *)

Inductive tag : Type := User | Lib.

Definition is_user (te : tag * uev) : bool := match fst te with User => true | Lib => false end.

(* OF[ / OF] without payload *)
Definition is_markerb (e : uev) : bool :=
  negb (u_jumbo e) && (u_m e =? c_O) && (u_c e =? c_F) && ((u_v e =? c_LB) || (u_v e =? c_RB)) &&
  match u_data e with [] => true | _ => false end.

(* C01: the bytes are the header followed by the encodings of the logged user events, in order,
   each once, interleaved only with flush markers of the library *)
Definition fidelity (log : list uev) (bytes : list Z) : Prop :=
  exists tagged : list (tag * uev),
    bytes = STREAM_HEADER ++ flat_map encode (map snd tagged) /\
    map snd (filter is_user tagged) = log /\
    Forall (fun te => is_user te = false -> is_markerb (snd te) = true) tagged /\
    Forall wf_uev (map snd tagged) /\
    parse_stream bytes = POk (map snd tagged).

(* C02: validity of a stream per trace_spec.md *)
Fixpoint sortedb (l : list Z) : bool :=
  match l with
  | x :: ((y :: _) as r) => (x <=? y) && sortedb r
  | _ => true
  end.

Definition is_flush_ev (e : uev) : bool := (u_m e =? c_O) && (u_c e =? c_F).

(* state: inside a flush region?  None = violation *)
Fixpoint flush_scan (inside : bool) (es : list uev) : option bool :=
  match es with
  | [] => Some inside
  | e :: r =>
    if is_flush_ev e then
      if u_v e =? c_LB then (if inside then None else flush_scan true r)
      else if u_v e =? c_RB then (if inside then flush_scan false r else None)
      else None
    else flush_scan inside r
  end.

Definition flush_okb (es : list uev) : bool :=
  match flush_scan false es with Some false => true | _ => false end.

Definition valid_events (es : list uev) : bool :=
  forallb wf_uevb es && sortedb (map u_clock es) && flush_okb es.

(* header ok, events tile the file exactly, clocks never decrease, flush markers paired and not nested *)
Definition valid_stream (bs : list Z) : bool :=
  match parse_stream bs with
  | POk es => valid_events es
  | _ => false
  end.

(* a conformant program takes its clocks from a non-decreasing source and does not forge flush events *)
Definition user_flush_free (o : op) : bool :=
  match o with
  | Emit m c _ _ | JumboEmit m c _ _ => negb ((m =? c_O) && (c =? c_F))
  | _ => true
  end.

Definition clock_okb (clock : list Z) : bool :=
  forallb (fun t => (0 <=? t) && (t <? 2 ^ 64)) clock && sortedb clock.
