(* Prelude of the generated file Gen/RtMark_gen.v (translate/units/rtmark.py): the world of ovni_mark_type and
   ovni_mark_label of src/rt/ovni.c is the one of the metadata functions, Rt/RtMetaPre.v (rthread / rproc as state,
   die() = E_DIE, parson's dotget / dotset on rthread.meta, snprintf into a local key buffer), plus ONE primitive:
     char_at s i   `s[i]` on a `const char *` that is not NULL (the translator guards it with that condition): the i-th
                   byte of the string, and the terminating 0 when i is its length (any i past the end reads 0 here; the
                   translated functions only read index 0).
   The emitting calls ovni_mark_push / ovni_mark_pop / ovni_mark_set live in Gen/RtBuf_gen.v (unit rtbuf).
   Definitions only; proofs in Proofs/RtMarkGenProofs.v. *)
From OV Require Import Base.CInt Rt.RtMetaDefs Rt.RtMetaPre.
Local Open Scope Z_scope.

Definition char_at (s : cstr) (i : Z) : Z :=
  match s with
  | Some b => nth (Z.to_nat i) b 0
  | None => 0
  end.
