(* rtconc - small-step interleaving model of the process-level synchronisation
   of libovni (src/rt/ovni.c).

   Shared state      : rproc.st (atomic_int, seq_cst), the plain process fields
                       of `struct ovni_rproc`, the file-system namespace of
                       thread directories (keyed by TID).
   Per-thread state  : `_Thread_local struct ovni_rthread` (ready, finished,
                       tid, event buffer, cpus, rank, metadata).
   A thread program is a list of API calls; every call is expanded into its
   atomic actions in program order.  One step of the system = one action of
   one thread, chosen by the schedule.  die() = the thread stops for ever and
   the call is logged as refused.

   What is abstracted: event bytes (an event is a token; codec and the
   buffer-full path are rtbuf's business - C01/C02), JSON (metadata is the
   sequence of sets), I/O failures (rtfs - C09/C10), argument validation that
   does not touch shared state (model names, loom length).  Sequentially
   consistent atomics (the code uses the default memory order).  The model
   cannot exhibit C-level data races by itself: instead every access to a
   plain process field is an explicit event, and "race free" is proved as an
   explicit happens-before chain through the `st` operations. *)
From Coq Require Import List ZArith Bool Arith.
Import ListNotations.
Local Open Scope Z_scope.

(* ---- process state ------------------------------------------------------ *)
Inductive pst := UNINIT | INIT | READY | GONE.

(* the non-atomic members of struct ovni_rproc that the code touches *)
Inductive field :=
| Floom | Fpid | Fapp | Fclockid | Floomdir | Ftmpdir | Fmove | Fprocdir | Fprocdir_final.

(* ---- API ---------------------------------------------------------------- *)
Inductive call :=
| ProcInit                    (* ovni_proc_init *)
| ProcFini                    (* ovni_proc_fini *)
| ThreadInit (tid : Z)        (* ovni_thread_init *)
| Require (m v : Z)           (* ovni_thread_require *)
| AddCpu (i p : Z)            (* ovni_add_cpu *)
| SetRank (r n : Z)           (* ovni_proc_set_rank *)
| Emit (e : Z)                (* ovni_clock_now + ovni_ev_emit (ovni_mark_set ...) *)
| Flush                       (* ovni_flush *)
| AttrSet (k v : Z)           (* ovni_attr_set_* / ovni_mark_type *)
| AttrFlush                   (* ovni_attr_flush *)
| ThreadFree                  (* ovni_thread_free *)
| ClockNow.                   (* bare ovni_clock_now *)

(* what ends up in stream.obs / stream.json *)
Inductive item := IHeader | IEv (e : Z) | IFlushB | IFlushE.
Inductive mitem := MReq (m v : Z) | MAttr (k v : Z) | MCpu (i p : Z) | MRank (r n : Z) | MFinished.

(* one thread directory: stream.obs and stream.json (None = not written yet) *)
Record file := mkFile { f_obs : list item; f_meta : option (list mitem) }.

(* the requirement ovni_thread_init adds by itself: ("ovni", OVNI_MODEL_VERSION) *)
Definition REQ_OVNI : Z := 0.

(* thread-local steps *)
Inductive lop :=
| LChkInit (tid : Z)   (* ready: warn+return; finished: die; tid = 0: die *)
| LChkArgs (i p : Z)   (* ovni_add_cpu: negative index/phyid: die *)
| LChkReady            (* if (!rthread.ready) die *)
| LChkLive             (* get_thread_metadata: finished: die; !ready: die *)
| LReset               (* memset(&rthread,0); evbuf = malloc (the new tid takes effect with FsCreate) *)
| LMetaInit            (* json_value_init_object + the thread-local part of populate *)
| LSetReady
| LRequire (m v : Z)
| LAddCpu (i p : Z)
| LSetRank (r n : Z)
| LEmit (e : Z)
| LPushFlush           (* the two OF[ OF] events of ovni_flush *)
| LAttr (k v : Z)
| LFinalMeta           (* rank, loom_cpus, finished=1 into the metadata *)
| LFinish.             (* free evbuf, close, finished = 1, ready = 0 *)

(* operations on the thread's own directory *)
Inductive fsop :=
| FsCreate (tid : Z)   (* rthread.tid = tid; mkdir thread.<tid>, open stream.obs, write header *)
| FsAppend             (* flush_evbuf: write(evbuf, evlen); evlen = 0 *)
| FsStoreMeta.         (* json_serialize_to_file_pretty(rthread.meta) *)

Inductive action :=
| ACasInit             (* atomic_compare_exchange_strong(&rproc.st, UNINIT, INIT); fail: die *)
| AStoreReady          (* atomic_store(&rproc.st, ST_READY) *)
| ACasFini             (* atomic_compare_exchange_strong(&rproc.st, READY, GONE); fail: die *)
| ALoadReady           (* if (atomic_load(&rproc.st) != ST_READY) die *)
| AWrite (f : field)   (* plain store to rproc.f *)
| ARead (f : field)    (* plain load of rproc.f *)
| ALocal (l : lop)
| AFs (o : fsop).

(* mv = "OVNI_TMPDIR is set" (rproc.move_to_final), a parameter of the run *)
Definition expand (mv : bool) (c : call) : list action :=
  match c with
  | ProcInit =>
      [ACasInit; AWrite Floom; AWrite Fpid; AWrite Fapp; AWrite Fclockid; AWrite Floomdir]
      ++ (if mv then [AWrite Ftmpdir; AWrite Fmove; AWrite Fprocdir; AWrite Fprocdir_final]
          else [AWrite Fmove; AWrite Fprocdir])
      ++ [AStoreReady]
  | ProcFini =>
      [ACasFini; ARead Fmove] ++ (if mv then [ARead Fprocdir; ARead Floomdir; ARead Ftmpdir] else [])
  | ThreadInit tid =>
      [ALocal (LChkInit tid); ALoadReady; ALocal LReset; ARead Fprocdir; ARead Fmove]
      ++ (if mv then [ARead Fprocdir_final] else [])
      ++ [ARead Fprocdir; AFs (FsCreate tid); ALocal LMetaInit; ARead Fpid; ARead Floom; ARead Fapp;
          ARead Fprocdir; AFs FsStoreMeta; ALocal LSetReady; ALocal (LRequire REQ_OVNI REQ_OVNI)]
  | Require m v => [ALocal LChkReady; ALocal (LRequire m v)]
  | AddCpu i p => [ALocal (LChkArgs i p); ALoadReady; ALocal LChkReady; ALocal (LAddCpu i p)]
  | SetRank r n => [ALoadReady; ALocal LChkReady; ALocal (LSetRank r n)]
  | Emit e => [ARead Fclockid; ALocal LChkReady; ALocal (LEmit e)]
  | Flush => [ALocal LChkReady; ALoadReady; ARead Fclockid; AFs FsAppend; ARead Fclockid; ALocal LPushFlush]
  | AttrSet k v => [ALocal LChkLive; ALocal (LAttr k v)]
  | AttrFlush => [ALocal LChkLive; ARead Fprocdir; AFs FsStoreMeta]
  | ThreadFree => [ALocal LChkLive; ALocal LFinalMeta; ARead Fprocdir; AFs FsStoreMeta; ARead Fmove; ALocal LFinish]
  | ClockNow => [ARead Fclockid]
  end.

(* ---- per-thread state --------------------------------------------------- *)
Record thr := mkThr {
  t_todo : list call;        (* calls not started yet *)
  t_cur : list action;       (* rest of the call in progress *)
  t_dead : bool;             (* reached die() *)
  t_ready : bool;
  t_fin : bool;
  t_tid : Z;                 (* rthread.tid = key of the thread directory; 0 until FsCreate *)
  t_buf : list item;         (* events in rthread.evbuf *)
  t_meta : list mitem;       (* rthread.meta as the sequence of sets *)
  t_cpus : list (Z * Z);
  t_rank : option (Z * Z);
  t_seen : bool;             (* ghost: this thread has observed st = READY *)
  t_out : list bool          (* outcome of every call started, newest first: true = returned, false = died *)
}.

Definition thr0 (p : list call) : thr :=
  mkThr p [] false false false 0 [] [] [] None false [].

Definition set_ctl (t : thr) (todo : list call) (cur : list action) (out : list bool) : thr :=
  mkThr todo cur (t_dead t) (t_ready t) (t_fin t) (t_tid t) (t_buf t) (t_meta t) (t_cpus t) (t_rank t) (t_seen t) out.

(* the action just executed was the head of the call; r is what remains of it *)
Definition advance (t : thr) (r : list action) (cs : list call) : thr :=
  set_ctl t cs r (match r with [] => true :: t_out t | _ => t_out t end).
Definition skip_call (t : thr) (cs : list call) : thr := set_ctl t cs [] (true :: t_out t).
Definition die (t : thr) (cs : list call) : thr :=
  mkThr cs [] true (t_ready t) (t_fin t) (t_tid t) (t_buf t) (t_meta t) (t_cpus t) (t_rank t) (t_seen t) (false :: t_out t).
Definition mark_seen (t : thr) : thr :=
  mkThr (t_todo t) (t_cur t) (t_dead t) (t_ready t) (t_fin t) (t_tid t) (t_buf t) (t_meta t) (t_cpus t) (t_rank t) true (t_out t).

Inductive lres := LOk (t : thr) | LSkip | LDie.

Definition local_exec (l : lop) (t : thr) : lres :=
  let upd ready fin tid buf meta cpus rank :=
    LOk (mkThr (t_todo t) (t_cur t) (t_dead t) ready fin tid buf meta cpus rank (t_seen t) (t_out t)) in
  match l with
  | LChkInit tid => if t_ready t then LSkip else if t_fin t then LDie else if tid =? 0 then LDie else LOk t
  | LChkArgs i p => if (i <? 0) || (p <? 0) then LDie else LOk t
  | LChkReady => if t_ready t then LOk t else LDie
  | LChkLive => if t_fin t then LDie else if t_ready t then LOk t else LDie
  | LReset => upd false false (t_tid t) [] [] [] None
  | LMetaInit => upd (t_ready t) (t_fin t) (t_tid t) (t_buf t) [] (t_cpus t) (t_rank t)
  | LSetReady => upd true (t_fin t) (t_tid t) (t_buf t) (t_meta t) (t_cpus t) (t_rank t)
  | LRequire m v => upd (t_ready t) (t_fin t) (t_tid t) (t_buf t) (t_meta t ++ [MReq m v]) (t_cpus t) (t_rank t)
  | LAddCpu i p => upd (t_ready t) (t_fin t) (t_tid t) (t_buf t) (t_meta t) (t_cpus t ++ [(i, p)]) (t_rank t)
  | LSetRank r n => upd (t_ready t) (t_fin t) (t_tid t) (t_buf t) (t_meta t) (t_cpus t) (Some (r, n))
  | LEmit e => upd (t_ready t) (t_fin t) (t_tid t) (t_buf t ++ [IEv e]) (t_meta t) (t_cpus t) (t_rank t)
  | LPushFlush => upd (t_ready t) (t_fin t) (t_tid t) (t_buf t ++ [IFlushB; IFlushE]) (t_meta t) (t_cpus t) (t_rank t)
  | LAttr k v => upd (t_ready t) (t_fin t) (t_tid t) (t_buf t) (t_meta t ++ [MAttr k v]) (t_cpus t) (t_rank t)
  | LFinalMeta =>
      upd (t_ready t) (t_fin t) (t_tid t) (t_buf t)
          (t_meta t ++ (match t_rank t with Some (r, n) => [MRank r n] | None => [] end)
                  ++ map (fun c => MCpu (fst c) (snd c)) (t_cpus t) ++ [MFinished])
          (t_cpus t) (t_rank t)
  | LFinish => upd false true (t_tid t) [] (t_meta t) (t_cpus t) (t_rank t)
  end.

(* FS operation on the thread's own directory.  Returns the new content and the new thread state.
   A second FsCreate on an existing directory (two threads sharing a TID) is NOT modelled faithfully
   (open() without O_TRUNC and two file offsets); it is excluded by the distinct-TID hypothesis. *)
Definition fs_exec (o : fsop) (t : thr) (fl : option file) : option file * thr :=
  match o with
  | FsCreate z =>
      (* z = 0 never gets here: LChkInit refuses it first *)
      if z =? 0 then (fl, t) else
      (Some (mkFile [IHeader] None),
       mkThr (t_todo t) (t_cur t) (t_dead t) (t_ready t) (t_fin t) z (t_buf t) (t_meta t) (t_cpus t) (t_rank t) (t_seen t) (t_out t))
  | FsAppend =>
      (match fl with Some f => Some (mkFile (f_obs f ++ t_buf t) (f_meta f)) | None => None end,
       mkThr (t_todo t) (t_cur t) (t_dead t) (t_ready t) (t_fin t) (t_tid t) [] (t_meta t) (t_cpus t) (t_rank t) (t_seen t) (t_out t))
  | FsStoreMeta =>
      (match fl with Some f => Some (mkFile (f_obs f) (Some (t_meta t))) | None => None end, t)
  end.

(* ---- events of a run (ghost trace) -------------------------------------- *)
Inductive event :=
| EvCasInit (i : nat) (ok : bool)
| EvStoreReady (i : nat)
| EvCasFini (i : nat) (ok : bool)
| EvLoad (i : nat) (ok : bool)          (* ok = the value read was READY *)
| EvW (i : nat) (f : field)
| EvR (i : nat) (f : field)
| EvTau (i : nat).                      (* thread-local or own-directory step *)

(* next action of a thread: (action, rest of the call, calls left) *)
Definition fetch (mv : bool) (t : thr) : option (action * list action * list call) :=
  if t_dead t then None else
  match t_cur t with
  | a :: r => Some (a, r, t_todo t)
  | [] => match t_todo t with
          | [] => None
          | c :: cs => match expand mv c with a :: r => Some (a, r, cs) | [] => None end
          end
  end.

(* result of one step of thread i seen from the thread: new thread state, new st,
   new content of its own directory (None = untouched), event *)
Record tres := mkTres { r_thr : thr; r_st : pst; r_file : option (option file); r_ev : event }.

Definition is_st (a b : pst) : bool :=
  match a, b with UNINIT, UNINIT | INIT, INIT | READY, READY | GONE, GONE => true | _, _ => false end.

Definition tstep (mv : bool) (i : nat) (t : thr) (st : pst) (fl : option file) : option tres :=
  match fetch mv t with
  | None => None
  | Some (a, r, cs) =>
    Some match a with
    | ACasInit => if is_st st UNINIT then mkTres (advance t r cs) INIT None (EvCasInit i true)
                  else mkTres (die t cs) st None (EvCasInit i false)
    | AStoreReady => mkTres (mark_seen (advance t r cs)) READY None (EvStoreReady i)
    | ACasFini => if is_st st READY then mkTres (mark_seen (advance t r cs)) GONE None (EvCasFini i true)
                  else mkTres (die t cs) st None (EvCasFini i false)
    | ALoadReady => if is_st st READY then mkTres (mark_seen (advance t r cs)) st None (EvLoad i true)
                    else mkTres (die t cs) st None (EvLoad i false)
    | AWrite f => mkTres (advance t r cs) st None (EvW i f)
    | ARead f => mkTres (advance t r cs) st None (EvR i f)
    | ALocal l => match local_exec l t with
                  | LOk t' => mkTres (advance t' r cs) st None (EvTau i)
                  | LSkip => mkTres (skip_call t cs) st None (EvTau i)
                  | LDie => mkTres (die t cs) st None (EvTau i)
                  end
    | AFs o => let (fl', t') := fs_exec o t fl in mkTres (advance t' r cs) st (Some fl') (EvTau i)
    end
  end.

(* ---- the whole system --------------------------------------------------- *)
Definition fsmap := list (Z * file).
Fixpoint fs_get (k : Z) (m : fsmap) : option file :=
  match m with [] => None | (k', f) :: r => if k =? k' then Some f else fs_get k r end.
Definition fs_put (k : Z) (f : option file) (m : fsmap) : fsmap :=
  match f with Some f => (k, f) :: m | None => m end.

Record config := mkCfg {
  c_st : pst;
  c_fields : list (field * nat);     (* fields set so far, with the writer *)
  c_fs : fsmap;
  c_thr : list thr;
  c_trace : list event               (* newest first *)
}.

Fixpoint set_nth {A : Type} (n : nat) (x : A) (l : list A) : list A :=
  match l, n with
  | [], _ => []
  | _ :: r, O => x :: r
  | y :: r, S n' => y :: set_nth n' x r
  end.

Definition step (mv : bool) (c : config) (i : nat) : option config :=
  match nth_error (c_thr c) i with
  | None => None
  | Some t =>
    match tstep mv i t (c_st c) (fs_get (t_tid t) (c_fs c)) with
    | None => None
    | Some r =>
      Some (mkCfg (r_st r)
                  (match r_ev r with EvW w f => (f, w) :: c_fields c | _ => c_fields c end)
                  (match r_file r with Some fl' => fs_put (t_tid (r_thr r)) fl' (c_fs c) | None => c_fs c end)
                  (set_nth i (r_thr r) (c_thr c))
                  (r_ev r :: c_trace c))
    end
  end.

(* a schedule is any list of thread indices; a thread that cannot move stutters *)
Fixpoint run (mv : bool) (c : config) (sched : list nat) : config :=
  match sched with
  | [] => c
  | i :: s => match step mv c i with Some c' => run mv c' s | None => run mv c s end
  end.

Definition init (progs : list (list call)) : config :=
  mkCfg UNINIT [] [] (map thr0 progs) [].

(* the state right after a successful ovni_proc_init by somebody else *)
Definition all_fields : list field :=
  [Floom; Fpid; Fapp; Fclockid; Floomdir; Ftmpdir; Fmove; Fprocdir; Fprocdir_final].
Definition ready_cfg (writer : nat) (progs : list (list call)) : config :=
  mkCfg READY (map (fun f => (f, writer)) all_fields) [] (map thr0 progs) [].

(* ---- sequential reference: the thread alone, every st operation succeeding *)
Definition fav (a : action) : pst :=
  match a with ACasInit => UNINIT | _ => READY end.

Definition astep (mv : bool) (s : thr * option file) : option (thr * option file) :=
  let (t, fl) := s in
  match fetch mv t with
  | None => None
  | Some (a, _, _) =>
    match tstep mv 0 t (fav a) fl with
    | None => None
    | Some r => Some (r_thr r, match r_file r with Some fl' => fl' | None => fl end)
    end
  end.

Fixpoint arun (mv : bool) (n : nat) (s : thr * option file) : thr * option file :=
  match n with
  | O => s
  | S n' => match astep mv s with Some s' => arun mv n' s' | None => s end
  end.

Definition nactions (mv : bool) (p : list call) : nat :=
  fold_right (fun c n => (length (expand mv c) + n)%nat) O p.

(* result of running the program sequentially to its end (or to its die()) *)
Definition seq_result (mv : bool) (p : list call) : thr * option file :=
  arun mv (nactions mv p) (thr0 p, None).

(* ---- observables and deciders used by the oracle ------------------------ *)
Definition thr_done (t : thr) : bool :=
  negb (t_dead t) && match t_cur t, t_todo t with [], [] => true | _, _ => false end.

Fixpoint count_ev (p : event -> bool) (tr : list event) : nat :=
  match tr with [] => O | e :: r => ((if p e then 1 else 0) + count_ev p r)%nat end.
Definition is_init_ok (e : event) := match e with EvCasInit _ true => true | _ => false end.
Definition is_init_ev (e : event) := match e with EvCasInit _ _ => true | _ => false end.
Definition is_fini_ok (e : event) := match e with EvCasFini _ true => true | _ => false end.
Definition is_fini_ev (e : event) := match e with EvCasFini _ _ => true | _ => false end.
Definition is_store (e : event) := match e with EvStoreReady _ => true | _ => false end.
Definition is_write (e : event) := match e with EvW _ _ => true | _ => false end.
Definition is_read (e : event) := match e with EvR _ _ => true | _ => false end.

(* conformance: no ovni_clock_now()/emit before the thread's first other call
   (every other call either dies or leaves the thread having observed READY) *)
Fixpoint guardedb (seen : bool) (p : list call) : bool :=
  match p with
  | [] => true
  | Emit _ :: r | ClockNow :: r => seen && guardedb seen r
  | _ :: r => guardedb true r
  end.

Fixpoint tids_of (p : list call) : list Z :=
  match p with
  | [] => []
  | ThreadInit z :: r => z :: tids_of r
  | _ :: r => tids_of r
  end.

(* round-robin completion used by the oracle after the given schedule is exhausted *)
Fixpoint seqn (n : nat) : list nat := match n with O => [] | S k => seqn k ++ [k] end.
Fixpoint rounds (k : nat) (n : nat) : list nat :=
  match k with O => [] | S k' => seqn n ++ rounds k' n end.
Definition run_complete (mv : bool) (progs : list (list call)) (sched : list nat) : config :=
  let c := run mv (init progs) sched in
  run mv c (rounds (fold_right (fun p n => (nactions mv p + n)%nat) O progs) (length progs)).

(* the table the static cross-check compares with the source: which st operations and
   which process fields a call touches, in program order *)
Definition call_kinds : list call :=
  [ProcInit; ProcFini; ThreadInit 1; Require 0 0; AddCpu 0 0; SetRank 0 0; Emit 0; Flush; AttrSet 0 0;
   AttrFlush; ThreadFree; ClockNow].
