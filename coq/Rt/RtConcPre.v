(* Prelude of the generated file Gen/RtConc_gen.v (translate/units/rtconc.py): the PROCESS-STATE skeleton of the API
   functions of src/rt/ovni.c as a trace monad.  A generated function denotes, for a given `world`, the list of atomic
   actions on the shared process state it performs, in program order, and how it ends.

   Shared actions (what Rt/RtConcDefs.v calls ACasInit / ACasFini / ALoadReady / AStoreReady / AWrite f / ARead f):
     SCas e d   atomic_compare_exchange_strong(&rproc.st, &local, d) with local == e
     SLoad      atomic_load(&rproc.st)
     SStore v   atomic_store(&rproc.st, v)
     SW f, SR f a plain store to / load of rproc.f
   The world gives every answer the shared state or the untranslated C can give:
     w_obs k    the value of rproc.st the k-th st operation of the call observes
     w_mv       getenv("OVNI_TMPDIR") != NULL, which is also the value rproc.move_to_final holds once published
     w_cond n   the outcome of the n-th opaque condition (a condition that mentions neither rproc.st nor a value the
                translator tracks: rthread.ready, strlen(loom) >= ..., a failing libc / parson call ...)
     w_die n    whether the n-th opaque statement (a call of untranslated code: mkpath, malloc, json, the buffer ...)
                ends in die()
   Everything that is not a shared action is opaque: it emits nothing.  Accesses that occur only inside the argument
   list of die() are not emitted (the thread stops there).  Definitions only; proofs in Proofs/RtConcGenProofs.v. *)
From Coq Require Import List Bool Arith.
From OV Require Import Rt.RtConcDefs.
Import ListNotations.

Inductive sact := SCas (e d : pst) | SLoad | SStore (v : pst) | SW (f : field) | SR (f : field).

Record world := { w_obs : nat -> pst; w_mv : bool; w_cond : nat -> bool; w_die : nat -> bool }.

Inductive out := Next | Died | Returned.

(* counter of st operations, trace so far (in order), how the statement ended *)
Definition T := world -> nat -> list sact -> (nat * list sact * out).

Definition tskip : T := fun _ k tr => (k, tr, Next).
Definition tdie : T := fun _ k tr => (k, tr, Died).
Definition tret : T := fun _ k tr => (k, tr, Returned).
Definition tseq (a b : T) : T := fun w k tr => match a w k tr with (k', tr', Next) => b w k' tr' | r => r end.
Definition emit (a : sact) : T := fun _ k tr => (k, tr ++ [a], Next).
Definition opq (n : nat) : T := fun w k tr => (k, tr, if w_die w n then Died else Next).
Definition tif (c : world -> bool) (a b : T) : T := fun w k tr => if c w then a w k tr else b w k tr.
(* a call of a translated function: `return` ends the callee only *)
Definition tcall (f : T) : T := fun w k tr => match f w k tr with (k', tr', Returned) => (k', tr', Next) | r => r end.

Definition pst_eqb (a b : pst) : bool := is_st a b.

(* bool ok = atomic_compare_exchange_strong(&rproc.st, &loc, d), loc == e before: ok and the new value of loc *)
Definition cas_st (e d : pst) (f : bool -> pst -> T) : T :=
  fun w k tr => let o := w_obs w k in f (pst_eqb o e) (if pst_eqb o e then e else o) w (S k) (tr ++ [SCas e d]).
Definition load_st (f : pst -> T) : T := fun w k tr => f (w_obs w k) w (S k) (tr ++ [SLoad]).
Definition store_st (v : pst) : T := fun w k tr => (S k, tr ++ [SStore v], Next).

(* the value of the enum constants ST_* as the model's states *)
Definition run (f : T) (w : world) : list sact * out := let '(_, tr, o) := f w O [] in (tr, o).

(* ---- the model's expansion read the same way -------------------------------------------------------------- *)
Definition sact_of (a : action) : option sact :=
  match a with
  | ACasInit => Some (SCas UNINIT INIT)
  | AStoreReady => Some (SStore READY)
  | ACasFini => Some (SCas READY GONE)
  | ALoadReady => Some SLoad
  | AWrite f => Some (SW f)
  | ARead f => Some (SR f)
  | ALocal _ | AFs _ => None
  end.
Definition is_stop (a : action) : bool :=
  match a with ACasInit | AStoreReady | ACasFini | ALoadReady => true | _ => false end.

(* the model's semantics of its actions (RtConcDefs.tstep): a CAS / load that does not observe the value it wants
   is where the thread dies; everything else goes on.  Thread-local and own-directory steps are skipped. *)
Fixpoint model_run (w : world) (k : nat) (tr : list sact) (l : list action) : list sact * out :=
  match l with
  | [] => (tr, Next)
  | a :: r =>
    match a with
    | ACasInit => if pst_eqb (w_obs w k) UNINIT then model_run w (S k) (tr ++ [SCas UNINIT INIT]) r
                  else (tr ++ [SCas UNINIT INIT], Died)
    | ACasFini => if pst_eqb (w_obs w k) READY then model_run w (S k) (tr ++ [SCas READY GONE]) r
                  else (tr ++ [SCas READY GONE], Died)
    | ALoadReady => if pst_eqb (w_obs w k) READY then model_run w (S k) (tr ++ [SLoad]) r else (tr ++ [SLoad], Died)
    | AStoreReady => model_run w (S k) (tr ++ [SStore READY]) r
    | AWrite f => model_run w k (tr ++ [SW f]) r
    | ARead f => model_run w k (tr ++ [SR f]) r
    | ALocal _ | AFs _ => model_run w k tr r
    end
  end.

(* no opaque statement dies and no opaque condition holds (conditions are guards: true = the die / early-return side) *)
Definition straight (w : world) : Prop := (forall n, w_cond w n = false) /\ (forall n, w_die w n = false).

Fixpoint is_prefix (a b : list sact) : bool :=
  match a, b with
  | [], _ => true
  | x :: a', y :: b' =>
    (match x, y with
     | SCas e d, SCas e' d' => pst_eqb e e' && pst_eqb d d'
     | SLoad, SLoad => true
     | SStore v, SStore v' => pst_eqb v v'
     | SW f, SW g | SR f, SR g =>
       match f, g with
       | Floom, Floom | Fpid, Fpid | Fapp, Fapp | Fclockid, Fclockid | Floomdir, Floomdir | Ftmpdir, Ftmpdir
       | Fmove, Fmove | Fprocdir, Fprocdir | Fprocdir_final, Fprocdir_final => true
       | _, _ => false
       end
     | _, _ => false
     end) && is_prefix a' b'
  | _ :: _, [] => false
  end.
