(* Prelude of the generated file Gen/CpuC_gen.v (translate/units/cpuc.py): the world of the thread-list functions of
   src/emu/cpu.c is the one of unit sys, Emu/SysPre.v (threads and CPUs with their C fields, cpu->threads as the Coq list
   of its elements in list order, DL_APPEND2 / DL_DELETE2 = append / remove the element, the generated chan_set on the
   system channels), plus the combinator of the search loop and pointer equality on threads:
     dl_search l body   `DL_FOREACH2(head, el, next) BODY` where BODY may return: the elements of the list (read when
                        the loop starts: BODY stores nothing, the translator checks it) are visited in list order until
                        BODY returns a value (Some v); None = the loop ran to its end.
   Definitions only; proofs in Proofs/CpuCProofs.v. *)
From Coq Require Import ZArith List Bool.
From OV Require Import Base.CInt Emu.EmuCoreDefs Emu.SysPre.
From OV Require Emu.GuardsPre.
Import ListNotations.
Local Open Scope Z_scope.

Definition ptr_eqb_thread (a b : ptr_thread) : bool := GuardsPre.opt_eqb_nat a b.

Fixpoint dl_walk {A} (l : list ptr_thread) (body : ptr_thread -> M (option A)) : M (option A) :=
  match l with
  | [] => ret None
  | p :: r => bind (body p) (fun o => match o with Some a => ret (Some a) | None => dl_walk r body end)
  end.
Definition dl_search {A} (l : senv -> sys -> list ptr_thread) (body : ptr_thread -> M (option A)) : M (option A) :=
  fun sx st => dl_walk (l sx st) body sx st.
