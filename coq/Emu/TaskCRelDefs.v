(* How the state of the generated creation functions (Emu/TaskCPre.v: ONE struct task_info) is read inside the
   emulator-core state of Emu/EmuCoreDefs.v, which keeps the tasks and types of all processes and models in two lists
   keyed by (loom, pid, model): the task_info of (L, P, M) holds, in insertion order, the entries with that key.
   Definitions only; proofs in Proofs/TaskCProofs.v. *)
From Coq Require Import ZArith List Bool.
From OV Require Import Base.CInt Emu.EmuCoreDefs Emu.MarkDefs Emu.TaskCPre.
Import ListNotations.
Local Open Scope Z_scope.

Definition selT (L : nat) (P M : Z) (t : task) : bool := Nat.eqb (tk_loom t) L && (tk_pid t =? P) && (tk_model t =? M).
Definition selY (L : nat) (P M : Z) (y : ttype) : bool := Nat.eqb (ty_loom y) L && (ty_pid y =? P) && (ty_model y =? M).
(* a bit of the task flags word (enum task_flags: PARALLEL = 1, RESURRECT = 2, PAUSE = 4, RELAX_NESTING = 8) *)
Definition flagb (fl m : Z) : bool := negb (Z.land fl m =? 0).

Definition TyRep (L : nat) (P M : Z) (c : ytype) (y : ttype) : Prop :=
  ty_loom y = L /\ ty_pid y = P /\ ty_model y = M /\ ty_id y = y_id c /\ ty_gid y = y_gid c.
Definition TkRep (L : nat) (P M : Z) (ys : list ytype) (k : ctask) (t : task) : Prop :=
  tk_loom t = L /\ tk_pid t = P /\ tk_model t = M /\ tk_id t = k_id k /\
  (exists h y, k_type k = Some h /\ nth_error ys h = Some y /\ tk_gid t = y_gid y) /\
  tk_par t = flagb (k_flags k) 1 /\ tk_res t = flagb (k_flags k) 2 /\ tk_pause t = flagb (k_flags k) 4 /\
  tk_relax t = flagb (k_flags k) 8 /\
  map cb_id (k_bodies k) = map b_id (tk_bodies t).
Definition Rep (L : nat) (P M : Z) (c : cst) (st : state) : Prop :=
  Forall2 (TyRep L P M) (s_types c) (filter (selY L P M) (types st)) /\
  Forall2 (TkRep L P M (s_types c)) (s_tasks c) (filter (selT L P M) (tasks st)).
