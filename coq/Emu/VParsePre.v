(* Prelude of the generated file Gen/VParse_gen.v (translate/units/vparse.py): the world of
   src/include/version.h version_parse and src/emu/model.c model_version_probe.

   The generated file renders the two functions statement by statement in the state + error monad below
   (`return -1` = fail E_FAIL, die() = fail E_DIE, a libc call outside its contract = E_TRAP).

   Hand-written here (not translated), with the meaning Emu/VersionDefs.v already gives the POSIX functions
   (skip_delims / take_token for strtok_r, skip_space / strip_sign / span_digits / digits_value / LONG_MAX /
   LONG_MIN for strtol: the SAME definitions are used, there is no second model):
     - `char *` = NULL or (address, the C string at that address); addresses only matter for `endptr == num`;
       string literals live at address -1 and are never compared;
     - strlen; strcpy into a local buffer of N bytes (E_TRAP when the string with its NUL does not fit);
     - strtok_r(str, delim, &save): the save pointer is part of the state (the C local is initialised to NULL and
       touched by nothing else: the translator checks that);
     - errno; strtol(s, &end, 10): no digits => returns 0, end = s, errno untouched; out of the range of long =>
       LONG_MAX / LONG_MIN and errno = ERANGE; the conversion is base 10 only (E_TRAP otherwise);
     - the output parameter `int tuple[3]` is a list in the state; out_tuple runs a callee on a fresh tuple and
       hands the filled tuple to the caller (the callee's save pointer is its own local);
     - snprintf(buf, N, fmt, ...): only its return value is used; fmt_len understands %s and plain bytes;
     - struct model_spec = (name, version); struct emu / struct system = the list of the threads' metadata objects;
       `struct thread *` = the suffix of that list starting at the thread (NULL = []), t->gnext = the tail;
       for_gnext_thread = the loop `for (t = e; t; t = t->gnext)` with one accumulator;
     - should_enable is the GENERATED Gen/Meta_gen.should_enable (unit meta) on that thread's metadata, with the
       generated Gen/Version_gen.version_is_compatible.
   Definitions only; proofs in Proofs/VParseProofs.v. *)
From Coq Require Import ZArith List Bool.
From OV Require Import Base.CInt Emu.VersionDefs Rt.RtMetaDefs Emu.MetaPre Gen.Meta_gen Gen.Version_gen.
Import ListNotations.
Local Open Scope Z_scope.

Definition cptr := option (Z * list Z).

Record vstate := mkV { v_errno : Z; v_save : cptr; v_tuple : list Z }.

Definition E_FAIL := 20%nat.
Definition E_DIE := 21%nat.
Definition E_TRAP := 99%nat.
Definition ERANGE : Z := 34.

Inductive vres (A : Type) : Type := VOk (a : A) | VErr (e : nat).
Arguments VOk {A} a.
Arguments VErr {A} e.

Definition M (A : Type) : Type := vstate -> vres (A * vstate).
Definition ret {A} (a : A) : M A := fun st => VOk (a, st).
Definition fail {A} (e : nat) : M A := fun _ => VErr e.
Definition bind {A B} (m : M A) (f : A -> M B) : M B :=
  fun st => match m st with VOk (a, st') => f a st' | VErr e => VErr e end.
Definition bind_ {A B} (m : M A) (k : M B) : M B := bind m (fun _ => k).
Definition ite {A} (c : bool) (a b : M A) : M A := if c then a else b.

(* strings *)
Definition LIT_ADDR : Z := -1.
Definition str_lit (l : list Z) : cptr := Some (LIT_ADDR, l).
Definition cstr (p : cptr) : cstring := match p with Some (_, s) => Some s | None => None end.
Definition slen (s : list Z) : Z := Z.of_nat (length s).
Definition strlen_c (p : cptr) : Z := match p with Some (_, s) => slen s | None => 0 end.
Definition BUF_ADDR : Z := 0.
Definition strcpy_c (size : Z) (src : cptr) : M cptr :=
  match src with
  | Some (_, s) => if size <=? slen s then fail E_TRAP else ret (Some (BUF_ADDR, s))
  | None => fail E_TRAP
  end.
Definition ptr_eqb (p q : cptr) : bool :=
  match p, q with
  | Some (a, _), Some (b, _) => a =? b
  | None, None => true
  | _, _ => false
  end.
Definition char_at (p : cptr) (i : Z) : Z :=
  match p with Some (_, s) => if i <? 0 then 0 else nth (Z.to_nat i) s 0 | None => 0 end.

(* strtok_r *)
Definition with_save (st : vstate) (p : cptr) : vstate := mkV (v_errno st) p (v_tuple st).
Definition strtok_r_c (str delim : cptr) : M cptr :=
  fun st =>
    match (match str with Some p => Some p | None => v_save st end), delim with
    | Some (a, s), Some (_, d) =>
      let s' := skip_delims d s in
      let a' := a + (slen s - slen s') in
      match s' with
      | [] => VOk (None, with_save st (Some (a', [])))
      | _ :: _ =>
        let (t, r) := take_token d s' in
        let next := if slen t <? slen s' then a' + slen t + 1 else a' + slen t in
        VOk (Some (a', t), with_save st (Some (next, r)))
      end
    | _, _ => VErr E_TRAP
    end.

(* errno, strtol *)
Definition get_errno : M Z := fun st => VOk (v_errno st, st).
Definition set_errno (e : Z) : M unit := fun st => VOk (tt, mkV e (v_save st) (v_tuple st)).
Definition strtol_c (num : cptr) (base : Z) : M (Z * cptr) :=
  match num with
  | None => fail E_TRAP
  | Some (a, s) =>
    if negb (base =? 10) then fail E_TRAP else
    let s0 := skip_space s in
    let '(neg, s1) := strip_sign s0 in
    let '(ds, rest) := span_digits s1 in
    match ds with
    | [] => ret (0, num)
    | _ :: _ =>
      let endp : cptr := Some (a + (slen s - slen rest), rest) in
      let v := if neg then - digits_value ds else digits_value ds in
      if v >? LONG_MAX then bind_ (set_errno ERANGE) (ret (LONG_MAX, endp))
      else if v <? LONG_MIN then bind_ (set_errno ERANGE) (ret (LONG_MIN, endp))
      else ret (v, endp)
    end
  end.

(* the output tuple *)
Fixpoint upd (l : list Z) (i : nat) (v : Z) : list Z :=
  match l, i with
  | [], _ => []
  | _ :: r, O => v :: r
  | x :: r, S j => x :: upd r j v
  end.
Definition set_tuple (i v : Z) : M unit :=
  fun st => if (0 <=? i) && (i <? slen (v_tuple st)) then VOk (tt, mkV (v_errno st) (v_save st) (upd (v_tuple st) (Z.to_nat i) v))
            else VErr E_TRAP.
Definition out_tuple (m : M Z) : M (list Z) :=
  fun st =>
    match m (mkV (v_errno st) None [0; 0; 0]) with
    | VOk (r, st') => if r =? 0 then VOk (v_tuple st', mkV (v_errno st') (v_save st) (v_tuple st)) else VErr E_FAIL
    | VErr e => VErr e
    end.

(* snprintf: the length of the formatted text *)
Fixpoint fmt_len (fmt : list Z) (args : list cptr) : Z :=
  match fmt with
  | [] => 0
  | c :: r =>
    match r with
    | c2 :: r2 =>
      if (c =? 37) && (c2 =? 115) then
        match args with
        | a :: args' => strlen_c a + fmt_len r2 args'
        | [] => fmt_len r2 []
        end
      else 1 + fmt_len r args
    | [] => 1
    end
  end.
Definition snprintf_c (size : Z) (fmt : cptr) (args : list cptr) : Z :=
  match fmt with Some (_, f) => fmt_len f args | None => 0 end.

(* the objects of model.c *)
Record ptr_spec := mkSpec { sp_name : cptr; sp_version : cptr }.
Record ptr_emu := mkEmu { e_threads : list ptr_jobj }.
Definition ptr_thread := list ptr_jobj.
Definition get_model_spec_version (s : ptr_spec) : cptr := sp_version s.
Definition get_model_spec_name (s : ptr_spec) : cptr := sp_name s.
Definition addr_emu_system (e : ptr_emu) : ptr_emu := e.
Definition get_system_threads (e : ptr_emu) : ptr_thread := e_threads e.

Fixpoint for_gnext_thread (l : ptr_thread) (acc : Z) (f : ptr_thread -> Z -> M Z) : M Z :=
  match l with
  | [] => ret acc
  | _ :: r => bind (f l acc) (fun acc' => for_gnext_thread r acc' f)
  end.

Definition should_enable_c (have : list Z) (spec : ptr_spec) (t : ptr_thread) : Z :=
  Meta_gen.should_enable (mkE (cstr (sp_name spec)) Version_gen.version_is_compatible) (mkM None 0 0 0 (hd None t)) have tt tt.
