(* C20 - model of src/emu/sort.c (sort_replace + the sort module) and of the
   two-mux breakdown pipeline of src/emu/{nosv,nanos6}/breakdown.c.
   Definitions only (model + spec deciders); proofs are in Proofs/SortProofs.v.

   The sorted array holds int64_t; they are Z here (no arithmetic is done on
   them, only comparisons, so no overflow question arises). *)
From OV Require Import Base.CInt.
Local Open Scope Z_scope.

(* ------------------------------------------------------------------ *)
(* value.h: struct value { int64_t type; union { int64_t i; double d; } } *)

Inductive value := VNull | VInt (i : Z) | VDouble (bits : Z).

(* value_is_equal = memcmp of the whole struct (value_null() has i = 0) *)
Definition value_eqb (a b : value) : bool :=
  match a, b with
  | VNull, VNull => true
  | VInt x, VInt y => x =? y
  | VDouble x, VDouble y => x =? y
  | _, _ => false
  end.

Definition is_vnull (v : value) : bool := match v with VNull => true | _ => false end.

(* sort_cb_input: int64_t new = 0; if (cur.type == VALUE_INT64) new = cur.i; *)
Definition to_i64 (v : value) : Z := match v with VInt i => i | _ => 0 end.

(* ------------------------------------------------------------------ *)
(* sort_replace(arr, n, old, new)                                      *)

Inductive sr_result :=
| SR_ok (a : list Z)
| SR_die      (* old == new: die("old == new") *)
| SR_oob.     (* a loop reads past the end of the array (undefined behaviour in C) *)

(* for (; arr[i] < old; i++) ;   starting at the head of [a]:
   Some (elements skipped, rest beginning with the first element >= old);
   None when the scan runs off the end of the array. *)
Fixpoint skip_lt (old : Z) (a : list Z) : option (list Z * list Z) :=
  match a with
  | [] => None
  | x :: r =>
    if x <? old then
      match skip_lt old r with
      | Some (p, s) => Some (x :: p, s)
      | None => None
      end
    else Some ([], a)
  end.

(* for (; i < n - 1 && arr[i + 1] <= new; i++) arr[i] = arr[i + 1];  arr[i] = new;
   [tail] = arr[i+1 .. n-1]; the result is the new arr[i .. n-1]. *)
Fixpoint shift_left (new : Z) (tail : list Z) : list Z :=
  match tail with
  | y :: t => if y <=? new then y :: shift_left new t else new :: tail
  | [] => [new]
  end.

(* for (; i > 0 && arr[i - 1] > new; i--) arr[i] = arr[i - 1];  arr[i] = new;
   [rp] = arr[i-1], arr[i-2], .. arr[0] (the part left of the hole, nearest first),
   [acc] = what has been shifted right already; the result is the new arr[0 .. i0]. *)
Fixpoint shift_right (new : Z) (rp acc : list Z) : list Z :=
  match rp with
  | y :: t => if y >? new then shift_right new t (y :: acc) else rev rp ++ new :: acc
  | [] => new :: acc
  end.

(* index at which the first loop of the old < new branch starts:
   int64_t m = n / 2; if (arr[m] < old) i = m; *)
Definition start_index (a : list Z) (old : Z) : nat :=
  let m := Nat.div (length a) 2 in
  if nth m a 0 <? old then m else 0%nat.

Definition sort_replace_from (j : nat) (a : list Z) (old new : Z) : sr_result :=
  match skip_lt old (skipn j a) with
  | Some (p, _ :: tail) => SR_ok (firstn j a ++ p ++ shift_left new tail)
  | _ => SR_oob
  end.

Definition sort_replace (a : list Z) (old new : Z) : sr_result :=
  if old =? new then SR_die else
  match a with
  | [] => SR_oob                         (* n = 0: arr[0] is read *)
  | _ =>
    if old <? new then sort_replace_from (start_index a old) a old new
    else
      match skip_lt old a with
      | Some (p, _ :: tail) => SR_ok (shift_right new (rev p) [] ++ tail)
      | _ => SR_oob
      end
  end.

(* the same without the n/2 jump (used to show the jump harmless) *)
Definition sort_replace_nojump (a : list Z) (old new : Z) : sr_result :=
  if old =? new then SR_die else
  match a with
  | [] => SR_oob
  | _ =>
    if old <? new then sort_replace_from 0 a old new
    else
      match skip_lt old a with
      | Some (p, _ :: tail) => SR_ok (shift_right new (rev p) [] ++ tail)
      | _ => SR_oob
      end
  end.

(* ------------------------------------------------------------------ *)
(* Spec side: sortedness, multiset, reference sort                     *)

Fixpoint sortedb (l : list Z) : bool :=
  match l with
  | x :: r => match r with y :: _ => (x <=? y) && sortedb r | [] => true end
  | [] => true
  end.

Fixpoint remove_one (x : Z) (l : list Z) : list Z :=
  match l with
  | [] => []
  | y :: r => if y =? x then r else y :: remove_one x r
  end.

Fixpoint insert (x : Z) (l : list Z) : list Z :=
  match l with
  | [] => [x]
  | y :: r => if x <=? y then x :: l else y :: insert x r
  end.

(* reference sort; also the model of memcpy + qsort(cmp_int64) on the first change
   (any correct sort of integers gives this list) *)
Fixpoint isort (l : list Z) : list Z :=
  match l with
  | [] => []
  | x :: r => insert x (isort r)
  end.

Fixpoint count (x : Z) (l : list Z) : nat :=
  match l with
  | [] => O
  | y :: r => if y =? x then S (count x r) else count x r
  end.

(* same multiset, decided through the reference sort *)
Definition same_multiset (a b : list Z) : bool :=
  if list_eq_dec Z.eq_dec (isort a) (isort b) then true else false.

(* "rows hold the sorted per-CPU values" *)
Definition rows_ok (rows percpu : list Z) : bool := sortedb rows && same_multiset rows percpu.

(* ------------------------------------------------------------------ *)
(* The sort module (struct sort)                                       *)

Record sortmod := {
  m_values : list Z;        (* sort->values: last seen input values *)
  m_sorted : list Z;        (* sort->sorted *)
  m_copied : bool;          (* sort->copied *)
  m_outputs : list value;   (* current value of the output channels *)
}.

(* sort_init: calloc'ed arrays, output channels null *)
Definition sm_init (n : nat) : sortmod :=
  {| m_values := repeat 0 n; m_sorted := repeat 0 n; m_copied := false; m_outputs := repeat VNull n |}.

Fixpoint upd {A : Type} (i : nat) (x : A) (l : list A) : list A :=
  match l, i with
  | [], _ => []
  | _ :: r, O => x :: r
  | y :: r, S k => y :: upd k x r
  end.

(* the output loop of sort_cb_input: for each i, chan_set(outputs[i], sorted[i]) unless equal.
   Returns the new output values and the list of (row, value) written, in row order. *)
Fixpoint write_outputs (k : nat) (outs : list value) (sorted : list Z) : list value * list (nat * Z) :=
  match outs, sorted with
  | o :: outs', s :: sorted' =>
    let (os, ws) := write_outputs (S k) outs' sorted' in
    if value_eqb o (VInt s) then (o :: os, ws) else (VInt s :: os, (k, s) :: ws)
  | _, _ => (outs, [])
  end.

Inductive mres :=
| M_ok (st : sortmod) (writes : list (nat * Z))
| M_err.     (* index out of range, or sort_replace left its domain *)

(* sort_cb_input for input [i] whose channel now holds [v] *)
Definition input_changed (st : sortmod) (i : nat) (v : value) : mres :=
  if Nat.leb (length (m_values st)) i then M_err else
  let new := to_i64 v in
  let old := nth i (m_values st) 0 in
  if old =? new then M_ok st [] else
  let values' := upd i new (m_values st) in
  let r := if m_copied st then sort_replace (m_sorted st) old new else SR_ok (isort values') in
  match r with
  | SR_ok sorted' =>
    let (outs', ws) := write_outputs 0 (m_outputs st) sorted' in
    M_ok {| m_values := values'; m_sorted := sorted'; m_copied := true; m_outputs := outs' |} ws
  | _ => M_err
  end.

(* a history of callbacks; None when some step failed *)
Fixpoint sm_run (st : sortmod) (h : list (nat * value)) : option sortmod :=
  match h with
  | [] => Some st
  | (i, v) :: r =>
    match input_changed st i v with
    | M_ok st' _ => sm_run st' r
    | M_err => None
    end
  end.

(* the input channels themselves under the same history *)
Fixpoint inputs_after (ins : list value) (h : list (nat * value)) : list value :=
  match h with
  | [] => ins
  | (i, v) :: r => inputs_after (upd i v ins) r
  end.

(* what a Paraver row shows for an output channel (null prints as 0) *)
Definition rows_of (st : sortmod) : list Z := map to_i64 (m_outputs st).

(* positions whose value differs between two output vectors *)
Fixpoint diff_rows (k : nat) (a b : list value) : list (nat * Z) :=
  match a, b with
  | x :: a', y :: b' => if value_eqb x y then diff_rows (S k) a' b' else (k, to_i64 y) :: diff_rows (S k) a' b'
  | _, _ => []
  end.

(* ------------------------------------------------------------------ *)
(* The per-CPU breakdown pipeline: mux0 (select = ss, re-selected on tt; inputs ss, tt;
   default "unknown subsystem") -> tr ; mux1 (select = idle; inputs tr, idle) -> tri -> sort input

   `fx` selects the version of connect_cpu:
     fx = true   the REPAIRED code (/repo commit bca364a, patches/fix-c20-mux0-reselect-on-task-type.diff):
                 mux_add_reselect(&mux0, tt) puts cb_reselect (= cb_select on the select channel)
                 on the task type channel, enabled at connect time;
     fx = false  the code before the repair (kept to state the refutations
                 C20_wiring_refuted_old ..): the task type channel only carries the cb_input
                 of mux0's input 1. *)

Section Breakdown.
  Variable fx : bool.
  (* ST_TASK_BODY, ST_UNKNOWN_SS, ST_PROGRESSING of the model (nOS-V: 11 2 100, Nanos6: 1 2 100) *)
  Variables BODY UNKNOWN PROG : Z.

  (* --- Spec: the breakdown value of one CPU from its three channel values *)
  Definition in_task_body (ss : value) : bool := match ss with VInt i => i =? BODY | _ => false end.
  Definition progressing (idle : value) : bool := match idle with VInt i => i =? PROG | _ => false end.

  Definition bd_value (tt ss idle : value) : value :=
    if progressing idle then
      if in_task_body ss && negb (is_vnull tt) then tt      (* task type while in a task body *)
      else if is_vnull ss then VInt UNKNOWN                   (* no subsystem at all: "Unknown subsystem" *)
      else ss                                                 (* otherwise the subsystem *)
    else idle.                                                (* replaced by the idle state *)

  (* --- Model *)
  (* which input a mux has selected: None, or Some false = input 0, Some true = input 1 *)
  Definition sel := option bool.

  (* breakdown.c:select_tr *)
  Definition select_tr (ss tt : value) : sel :=
    let in_body := match ss with VInt i => i =? BODY | _ => false end in
    let in_body := if in_body then negb (is_vnull tt) else false in
    if in_body then Some true
    else if is_vnull ss then None
    else Some false.

  (* breakdown.c:select_idle *)
  Definition select_idle (idle : value) : sel :=
    match idle with
    | VInt i => if i =? PROG then Some false else Some true
    | _ => Some true
    end.

  Record wires := {
    w_ss : value; w_tt : value; w_idle : value;   (* the CPU's subsystem / task type / idle channels *)
    w_tr : value; w_tri : value;                  (* breakdown.tr, breakdown.tri *)
    w_sel0 : sel; w_sel1 : sel;                   (* mux0.selected, mux1.selected *)
    w_sval : Z;                                   (* sort->values[i] for this CPU *)
  }.

  Definition w_init : wires :=
    {| w_ss := VNull; w_tt := VNull; w_idle := VNull; w_tr := VNull; w_tri := VNull;
       w_sel0 := None; w_sel1 := None; w_sval := 0 |}.

  Inductive chn := SS | TT | IDLE | TR | TRI.
  Definition chn_eqb (a b : chn) : bool :=
    match a, b with SS, SS | TT, TT | IDLE, IDLE | TR, TR | TRI, TRI => true | _, _ => false end.

  Definition set_tr (st : wires) (v : value) : wires :=
    {| w_ss := w_ss st; w_tt := w_tt st; w_idle := w_idle st; w_tr := v; w_tri := w_tri st;
       w_sel0 := w_sel0 st; w_sel1 := w_sel1 st; w_sval := w_sval st |}.
  Definition set_tri (st : wires) (v : value) : wires :=
    {| w_ss := w_ss st; w_tt := w_tt st; w_idle := w_idle st; w_tr := w_tr st; w_tri := v;
       w_sel0 := w_sel0 st; w_sel1 := w_sel1 st; w_sval := w_sval st |}.
  Definition set_sel0 (st : wires) (s : sel) : wires :=
    {| w_ss := w_ss st; w_tt := w_tt st; w_idle := w_idle st; w_tr := w_tr st; w_tri := w_tri st;
       w_sel0 := s; w_sel1 := w_sel1 st; w_sval := w_sval st |}.
  Definition set_sel1 (st : wires) (s : sel) : wires :=
    {| w_ss := w_ss st; w_tt := w_tt st; w_idle := w_idle st; w_tr := w_tr st; w_tri := w_tri st;
       w_sel0 := w_sel0 st; w_sel1 := s; w_sval := w_sval st |}.
  Definition set_sval (st : wires) (z : Z) : wires :=
    {| w_ss := w_ss st; w_tt := w_tt st; w_idle := w_idle st; w_tr := w_tr st; w_tri := w_tri st;
       w_sel0 := w_sel0 st; w_sel1 := w_sel1 st; w_sval := z |}.

  (* mux.c:cb_select of mux0 (also reached through cb_reselect): disable the callback of the
     old input, run select_tr on the CURRENT values of ss and tt, enable the callback of the
     chosen input (bay_enable_cb: DL_APPEND at the end of that channel's callback list), and
     chan_set(tr, value of the chosen input or the default). *)
  Definition mux0_select (st : wires) : wires * sel :=
    let s := select_tr (w_ss st) (w_tt st) in
    let out := match s with None => VInt UNKNOWN | Some false => w_ss st | Some true => w_tt st end in
    (set_tr (set_sel0 st s) out, s).

  (* The dirty callbacks of one channel, in the order they sit in the channel's callback
     list.  mux.c: cb_select is registered enabled by mux_init and cb_reselect by
     mux_add_reselect, both at connect time and never disabled, so each is the head of its
     channel's list (ss, resp. tt); the cb_input of an input is appended by bay_enable_cb when
     cb_select selects it, so it runs after cb_select / cb_reselect when it sits on the same
     channel, also within the very walk (DL_FOREACH) in which it was re-appended.
     Result: new state and the channels chan_set() was called on, in order. *)
  Definition run_cbs (st : wires) (c : chn) : wires * list chn :=
    match c with
    | SS =>
      (* mux0 cb_select *)
      let (st1, s) := mux0_select st in
      (* mux0 input 0 (ss) cb_input, now enabled iff input 0 is selected *)
      match s with
      | Some false => (set_tr st1 (w_ss st1), [TR; TR])
      | _ => (st1, [TR])
      end
    | TT =>
      if fx then
        (* mux0 cb_reselect -> cb_select(mux->select, mux) *)
        let (st1, s) := mux0_select st in
        (* mux0 input 1 (task type) cb_input, now enabled iff input 1 is selected *)
        match s with
        | Some true => (set_tr st1 (w_tt st1), [TR; TR])
        | _ => (st1, [TR])
        end
      else
        (* before the repair: only mux0 input 1 (task type) cb_input, enabled iff selected *)
        match w_sel0 st with
        | Some true => (set_tr st (w_tt st), [TR])
        | _ => (st, [])
        end
    | IDLE =>
      (* mux1 cb_select *)
      let s := select_idle (w_idle st) in
      let out := match s with None => VNull | Some false => w_tr st | Some true => w_idle st end in
      let st1 := set_tri (set_sel1 st s) out in
      (* mux1 input 1 (idle) cb_input *)
      match s with
      | Some true => (set_tri st1 (w_idle st1), [TRI; TRI])
      | _ => (st1, [TRI])
      end
    | TR =>
      (* mux1 input 0 (tr) cb_input *)
      match w_sel1 st with
      | Some false => (set_tri st (w_tr st), [TRI])
      | _ => (st, [])
      end
    | TRI =>
      (* sort_cb_input: values[i] = tri *)
      (set_sval st (to_i64 (w_tri st)), [])
    end.

  (* chan_set on an already dirty channel does not enqueue it again (DL_APPEND happens once) *)
  Fixpoint add_dirty (ws : list chn) (dirty : list chn) : list chn :=
    match ws with
    | [] => dirty
    | c :: r => add_dirty r (if existsb (chn_eqb c) dirty then dirty else dirty ++ [c])
    end.

  (* bay_propagate, dirty phase: DL_FOREACH over a list that grows while it is walked *)
  Fixpoint propagate (fuel : nat) (k : nat) (dirty : list chn) (st : wires) : option wires :=
    match fuel with
    | O => None
    | S f =>
      match nth_error dirty k with
      | None => Some st
      | Some c => let (st', ws) := run_cbs st c in propagate f (S k) (add_dirty ws dirty) st'
      end
    end.

  (* One emulator event as seen by this CPU: the CPU channels it writes, in the order in which
     they are written (= the order in which they enter the dirty list). *)
  Inductive cin := CSS | CTT | CIDLE.
  Definition cin_chn (c : cin) : chn := match c with CSS => SS | CTT => TT | CIDLE => IDLE end.

  Definition write_cin (st : wires) (c : cin) (v : value) : wires :=
    match c with
    | CSS => {| w_ss := v; w_tt := w_tt st; w_idle := w_idle st; w_tr := w_tr st; w_tri := w_tri st;
                w_sel0 := w_sel0 st; w_sel1 := w_sel1 st; w_sval := w_sval st |}
    | CTT => {| w_ss := w_ss st; w_tt := v; w_idle := w_idle st; w_tr := w_tr st; w_tri := w_tri st;
                w_sel0 := w_sel0 st; w_sel1 := w_sel1 st; w_sval := w_sval st |}
    | CIDLE => {| w_ss := w_ss st; w_tt := w_tt st; w_idle := v; w_tr := w_tr st; w_tri := w_tri st;
                  w_sel0 := w_sel0 st; w_sel1 := w_sel1 st; w_sval := w_sval st |}
    end.

  Fixpoint apply_writes (b : list (cin * value)) (st : wires) (dirty : list chn) : wires * list chn :=
    match b with
    | [] => (st, dirty)
    | (c, v) :: r => apply_writes r (write_cin st c v) (add_dirty [cin_chn c] dirty)
    end.

  (* at most five channels can become dirty *)
  Definition cpu_event (st : wires) (b : list (cin * value)) : option wires :=
    let (st1, dirty) := apply_writes b st [] in
    propagate 6 0 dirty st1.

  Fixpoint cpu_run (st : wires) (h : list (list (cin * value))) : option wires :=
    match h with
    | [] => Some st
    | b :: r => match cpu_event st b with Some st' => cpu_run st' r | None => None end
    end.

  (* --- the batches the emulator produces *)
  Definition writes_to (c : cin) (b : list (cin * value)) : bool :=
    existsb (fun w => match fst w, c with CSS, CSS | CTT, CTT | CIDLE, CIDLE => true | _, _ => false end) b.

  (* no write to ss or tt after a write to idle *)
  Fixpoint idle_last (b : list (cin * value)) : bool :=
    match b with
    | [] => true
    | (CIDLE, _) :: r => negb (writes_to CSS r) && negb (writes_to CTT r) && idle_last r
    | _ :: r => idle_last r
    end.

  (* every CPU channel is written at most once by one event *)
  Fixpoint once (b : list (cin * value)) : bool :=
    match b with
    | [] => true
    | (c, _) :: r => negb (writes_to c r) && once r
    end.

  Definition sel_eqb (a b : sel) : bool :=
    match a, b with
    | None, None => true
    | Some x, Some y => Bool.eqb x y
    | _, _ => false
    end.

  Definition mux0_unevaluated (st : wires) : bool :=
    is_vnull (w_ss st) && is_vnull (w_tt st) && is_vnull (w_tr st) && sel_eqb (w_sel0 st) None.

  (* [batch_ok st b]: the batches the emulator can produce
     - each of the three CPU channels is written at most once (they are outputs of tracking
       muxes whose select is the CPU's running thread and whose inputs are that thread's
       channels; no event changes both);
     - ss/tt never enter the dirty list after idle (model_cpu.c connects the track muxes in
       channel-enum order, subsystem and task type before idle, and no single event writes a
       thread's idle channel together with another one);
     - nothing but a batch that writes ss reaches a CPU whose mux0 never ran (the first thing a
       CPU sees is a change of its running thread, which writes all channels);
     - ONLY for the code before the repair (fx = false): a batch that writes the task type but
       not the subsystem does not change what select_tr would choose (the select callback of
       mux0 hung on ss only).  Not a property of the emulator's batches: VTp/VTr in a task body
       break it (C20_wiring_refuted_old). *)
  Definition batch_ok (st : wires) (b : list (cin * value)) : bool :=
    let st' := fst (apply_writes b st []) in
    once b && idle_last b &&
    (if mux0_unevaluated st then match b with [] => true | _ => writes_to CSS b end else true) &&
    (if fx || writes_to CSS b then true
     else sel_eqb (select_tr (w_ss st') (w_tt st')) (select_tr (w_ss st) (w_tt st))).

  (* the value the sort module should hold for this CPU *)
  Definition bd_of (st : wires) : Z := to_i64 (bd_value (w_tt st) (w_ss st) (w_idle st)).

  (* every batch of a history is admissible in the state it meets *)
  Fixpoint history_ok (st : wires) (h : list (list (cin * value))) : bool :=
    match h with
    | [] => true
    | b :: r =>
      batch_ok st b &&
      match cpu_event st b with Some st' => history_ok st' r | None => false end
    end.

  (* the CPU channels alone under the same history (what cpu.prv shows) *)
  Definition written (st : wires) (b : list (cin * value)) : wires := fst (apply_writes b st []).
  Definition cin_values (st : wires) : value * value * value := (w_ss st, w_tt st, w_idle st).

  (* --- all physical CPUs + the sort module.  An entry (i, b) is the part of an emulator event
     that concerns CPU i (an event that touches two CPUs, e.g. an affinity change, is two
     entries).  sort_cb_input for input i sees tri when tri's turn comes in the dirty list;
     that value is what the per-CPU model records in w_sval. *)
  Record system := { s_cpus : list wires; s_sort : sortmod }.

  Definition sys_init (n : nat) : system := {| s_cpus := repeat w_init n; s_sort := sm_init n |}.

  Definition sys_step (s : system) (e : nat * list (cin * value)) : option system :=
    let (i, b) := e in
    match nth_error (s_cpus s) i with
    | None => None
    | Some w =>
      match cpu_event w b with
      | None => None
      | Some w' =>
        match input_changed (s_sort s) i (VInt (w_sval w')) with
        | M_ok sm' _ => Some {| s_cpus := upd i w' (s_cpus s); s_sort := sm' |}
        | M_err => None
        end
      end
    end.

  Fixpoint sys_run (s : system) (h : list (nat * list (cin * value))) : option system :=
    match h with
    | [] => Some s
    | e :: r => match sys_step s e with Some s' => sys_run s' r | None => None end
    end.

  Fixpoint sys_history_ok (s : system) (h : list (nat * list (cin * value))) : bool :=
    match h with
    | [] => true
    | e :: r =>
      match nth_error (s_cpus s) (fst e) with
      | Some w => batch_ok w (snd e)
      | None => false
      end &&
      match sys_step s e with Some s' => sys_history_ok s' r | None => false end
    end.
End Breakdown.
