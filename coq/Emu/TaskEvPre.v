(* Prelude of the generated files Gen/TaskNosv_gen.v and Gen/TaskNanos6_gen.v (translate/units/taskev.py): the world
   of the task event handlers of src/emu/nosv/event.c and src/emu/nanos6/event.c.

   The state is the semantic state of Emu/EmuCoreDefs.v plus the list of raw channels written so far in the event
   (what task_event returns).  NOT modelled here, but taken from other generated files:
     - task_execute / task_pause / task_resume / task_end and body_get_running are the functions generated from
       task.c / body.c by unit guards (Gen/Guards_gen.v), run on the semantic state;
     - chan_set / chan_push / chan_pop / chan_read on a channel of the model are chan_step / raw_read, i.e. the raw
       channel operations that unit chan proves the generated chan.c computes (Proofs/ChanProofs.v).
   Hand-written here: pointers as handles (NULL = None); EXT(emu->thread, m) / EXT(emu->proc, m) as the thread / the
   process of the thread tagged with the model character (the extension slots of an enabled model are never NULL:
   its create hook allocates them for every thread and process); th->m.ch[i] as channel `chan_of cs m i` of the
   table-driven channel list; task_find (uthash lookup) as find_task; task_create of task.c (calloc + HASH_ADD) as
   EmuCoreDefs.task_create with the flags word decoded; struct value as ChanPre.cvalue.
   Definitions only; proofs in Proofs/TaskEvProofs.v. *)
From Coq Require Import ZArith List Bool.
From OV Require Import Base.CInt Emu.EmuCoreDefs Emu.DecodeDefs.
From OV Require Emu.ChanPre Emu.GuardsPre Gen.Guards_gen.
Import ListNotations.
Local Open Scope Z_scope.

Definition cvalue := ChanPre.cvalue.
Definition fld_cvalue_type (v : cvalue) : Z := ChanPre.vt v.
Definition fld_cvalue_i (v : cvalue) : Z := ChanPre.vi v.

Record tenv := { te_sx : static; te_cs : list chanspec }.
Record tw := { w_st : state; w_dirty : list (nat * nat) }.

Definition E_FAIL := GuardsPre.E_FAIL.
Definition E_TRAP := GuardsPre.E_TRAP.

Definition M (A : Type) : Type := tenv -> tw -> result (A * tw).
Definition ret {A} (a : A) : M A := fun _ st => Ok (a, st).
Definition fail {A} (e : nat) : M A := fun _ _ => Err e.
Definition bind {A B} (m : M A) (f : A -> M B) : M B :=
  fun sx st => match m sx st with Ok (a, st') => f a sx st' | Err e => Err e end.
Definition bind_ {A B} (m : M A) (k : M B) : M B := bind m (fun _ => k).
Definition eval {A} (f : tenv -> tw -> A) : M A := fun sx st => Ok (f sx st, st).
Definition ite {A} (c : tenv -> tw -> bool) (a b : M A) : M A :=
  fun sx st => if c sx st then a sx st else b sx st.
Definition need {A} (safe : tenv -> tw -> bool) (k : M A) : M A :=
  fun sx st => if safe sx st then k sx st else Err E_TRAP.
Definition exec (m : M unit) (sx : tenv) (st : tw) : result tw :=
  match m sx st with Ok (_, st') => Ok st' | Err e => Err e end.
(* x = f(..) for an int-status function: 0 / -1; a crash of f is a crash.  The state after a failure is not
   represented: every caller returns -1 at once *)
Definition status (m : M unit) : M Z :=
  fun sx st => match m sx st with
               | Ok (_, st') => Ok (0, st')
               | Err e => if Nat.eqb e E_TRAP then Err e else Ok (-1, st)
               end.

(* ---- pointers *)
Definition emu := GuardsPre.emu.
Definition ptr_thread := option nat.
Definition ptr_proc := option nat.                 (* the process of that thread *)
Definition ptr_extend := option (bool * nat).      (* &thread->ext (true) / &proc->ext (false) *)
Definition ptr_ext := option (bool * nat * Z).     (* void *: slot of model m in that extension *)
Definition ptr_mthread := option (nat * Z).        (* struct nosv_thread * / struct nanos6_thread *: (thread, model) *)
Definition ptr_mproc := option (nat * Z).          (* struct nosv_proc * / struct nanos6_proc * *)
Definition ptr_chan := option (nat * Z * Z).       (* (thread, model, index in th->m.ch) *)
Definition ptr_payload := option unit.
Inductive tref := TaskAt (i : nat) | TasksOf (n : nat) (m : Z).
Definition ptr_task := option tref.                (* a task (position in `tasks st`), or the head of a process's task table *)
Definition ptr_task_type := option nat.            (* task->type: of that task *)
Definition ptr_body := GuardsPre.ptr_body.
Definition ptr_task_info := option (nat * Z).
Definition ptr_task_stack := GuardsPre.ptr_task_stack.
Definition ptr_body_stack := GuardsPre.ptr_body_stack.

Definition gtask (t : ptr_task) : GuardsPre.ptr_task := match t with Some (TaskAt i) => Some i | _ => None end.
Definition ptr_eqb_body := GuardsPre.ptr_eqb_body.
Definition ptr_eqb_task (a b : ptr_task) : bool :=
  match a, b with
  | Some (TaskAt x), Some (TaskAt y) => Nat.eqb x y
  | Some (TasksOf n m), Some (TasksOf n' m') => Nat.eqb n n' && (m =? m')
  | None, None => true
  | _, _ => false
  end.

(* ---- the event *)
Definition get_emu_thread (sx : tenv) (st : tw) (e : emu) : ptr_thread := Some (GuardsPre.e_who e).
Definition get_emu_proc (sx : tenv) (st : tw) (e : emu) : ptr_proc := Some (GuardsPre.e_who e).
Definition get_emu_ev_v (sx : tenv) (st : tw) (e : emu) : Z := GuardsPre.e_v e.
Definition get_emu_ev_payload_size (sx : tenv) (st : tw) (e : emu) : Z := Z.of_nat (length (GuardsPre.e_payload e)).
Definition get_emu_ev_payload (sx : tenv) (st : tw) (e : emu) : ptr_payload :=
  match GuardsPre.e_payload e with [] => None | _ => Some tt end.
Definition get_emu_ev_payload_u32 (sx : tenv) (st : tw) (e : emu) : list Z :=
  [le_u32 (GuardsPre.e_payload e) 0; le_u32 (GuardsPre.e_payload e) 4].

Definition tinfo (sx : tenv) (n : nat) : thread_info := nth n (s_threads (te_sx sx)) dummy_info.
Definition get_proc_rank (sx : tenv) (st : tw) (p : ptr_proc) : Z := match p with Some n => ti_rank (tinfo sx n) | None => 0 end.
Definition get_proc_appid (sx : tenv) (st : tw) (p : ptr_proc) : Z := match p with Some n => ti_appid (tinfo sx n) | None => 0 end.

(* ---- model extensions *)
Definition addr_thread_ext (t : ptr_thread) : ptr_extend := match t with Some n => Some (true, n) | None => None end.
Definition addr_proc_ext (p : ptr_proc) : ptr_extend := match p with Some n => Some (false, n) | None => None end.
Definition extend_get (sx : tenv) (st : tw) (x : ptr_extend) (m : Z) : ptr_ext :=
  match x with Some (b, n) => Some (b, n, m) | None => None end.
Definition cast_ptr_ext_ptr_mthread (x : ptr_ext) : ptr_mthread := match x with Some (true, n, m) => Some (n, m) | _ => None end.
Definition cast_ptr_ext_ptr_mproc (x : ptr_ext) : ptr_mproc := match x with Some (false, n, m) => Some (n, m) | _ => None end.

Definition m_ch (th : ptr_mthread) (i : Z) : ptr_chan := match th with Some (n, m) => Some (n, m, i) | None => None end.
Definition get_nosv_thread_m_ch (sx : tenv) (st : tw) (th : ptr_mthread) : ptr_chan := m_ch th 0.
Definition addr_ptr_chan_at (c : ptr_chan) (i : Z) : ptr_chan := match c with Some (n, m, b) => Some (n, m, b + i) | None => None end.
Definition addr_nosv_thread_m_ch_at (th : ptr_mthread) (i : Z) : ptr_chan := m_ch th i.
Definition addr_nanos6_thread_m_ch_at (th : ptr_mthread) (i : Z) : ptr_chan := m_ch th i.
Definition addr_nosv_thread_task_stack (th : ptr_mthread) : ptr_task_stack := th.
Definition addr_nanos6_thread_task_stack (th : ptr_mthread) : ptr_task_stack := th.
Definition addr_nosv_proc_task_info (p : ptr_mproc) : ptr_task_info := p.
Definition addr_nanos6_proc_task_info (p : ptr_mproc) : ptr_task_info := p.
Definition addr_task_stack_body_stack (s : ptr_task_stack) : ptr_body_stack := s.

(* ---- channels of the model: the raw channel operations *)
Definition value_int64 (sx : tenv) (st : tw) (i : Z) : cvalue := {| ChanPre.vt := 1; ChanPre.vi := i |}.
Definition value_null (sx : tenv) (st : tw) : cvalue := ChanPre.vnull.
Definition val_of (v : cvalue) : value := if ChanPre.vt v =? 0 then None else Some (ChanPre.vi v).
Definition cval_of (v : value) : cvalue := match v with None => ChanPre.vnull | Some x => {| ChanPre.vt := 1; ChanPre.vi := x |} end.

Definition chan_op (a : action) (c : ptr_chan) (v : cvalue) : M unit :=
  fun sx st =>
    match c with
    | None => Err E_TRAP
    | Some (n, m, i) =>
      match chan_step (te_sx sx) (w_st st) n (chan_of (te_cs sx) m i) a (val_of v) with
      | Err e => Err E_FAIL
      | Ok (s', d) => Ok (tt, {| w_st := s'; w_dirty := w_dirty st ++ d |})
      end
    end.
Definition chan_set := chan_op SET.
Definition chan_push := chan_op PUSH.
Definition chan_pop := chan_op POP.
Definition chan_read (c : ptr_chan) : M cvalue :=
  fun sx st =>
    match c with
    | None => Err E_TRAP
    | Some (n, m, i) =>
      let k := chan_of (te_cs sx) m i in
      Ok (cval_of (raw_read (spec_of (te_sx sx) k) (raw_of (w_st st) n k)), st)
    end.

(* ---- tasks and bodies: fields *)
Definition get_task_info_tasks (sx : tenv) (st : tw) (i : ptr_task_info) : ptr_task :=
  match i with Some (n, m) => Some (TasksOf n m) | None => None end.
Definition task_find (sx : tenv) (st : tw) (head : ptr_task) (id : Z) : ptr_task :=
  match head with
  | Some (TasksOf n m) =>
    match find_task (w_st st) (ti_loom (tinfo sx n)) (ti_pid (tinfo sx n)) m id with
    | Some (i, _) => Some (TaskAt i)
    | None => None
    end
  | _ => None
  end.
Definition get_task_id (sx : tenv) (st : tw) (t : ptr_task) : Z :=
  match gtask t with Some i => tk_id (GuardsPre.tsk (w_st st) i) | None => 0 end.
Definition get_task_flags (sx : tenv) (st : tw) (t : ptr_task) : Z := GuardsPre.get_task_flags (te_sx sx) (w_st st) (gtask t).
Definition get_task_type (sx : tenv) (st : tw) (t : ptr_task) : ptr_task_type := gtask t.
Definition get_task_type_gid (sx : tenv) (st : tw) (t : ptr_task) : Z :=
  match gtask t with Some i => tk_gid (GuardsPre.tsk (w_st st) i) | None => 0 end.
Definition get_body_id (sx : tenv) (st : tw) (b : ptr_body) : Z :=
  match b with Some (i, j) => b_id (GuardsPre.bdy (w_st st) i j) | None => 0 end.
Definition get_body_task (sx : tenv) (st : tw) (b : ptr_body) : ptr_task :=
  match b with Some (i, _) => Some (TaskAt i) | None => None end.
Definition get_body_state (sx : tenv) (st : tw) (b : ptr_body) : Z := GuardsPre.get_body_state (te_sx sx) (w_st st) b.

(* ---- the functions generated from task.c / body.c, lifted *)
Definition body_get_running (sx : tenv) (st : tw) (s : ptr_body_stack) : ptr_body :=
  Guards_gen.body_get_running (te_sx sx) (w_st st) s.
Definition lift (m : GuardsPre.M unit) : M unit :=
  fun sx st => match m (te_sx sx) (w_st st) with
               | Ok (_, s') => Ok (tt, {| w_st := s'; w_dirty := w_dirty st |})
               | Err e => Err e
               end.
Definition task_execute (s : ptr_task_stack) (t : ptr_task) (bid : Z) : M unit := lift (Guards_gen.task_execute s (gtask t) bid).
Definition task_end (s : ptr_task_stack) (t : ptr_task) (bid : Z) : M unit := lift (Guards_gen.task_end s (gtask t) bid).
Definition task_pause (s : ptr_task_stack) (t : ptr_task) (bid : Z) : M unit := lift (Guards_gen.task_pause s (gtask t) bid).
Definition task_resume (s : ptr_task_stack) (t : ptr_task) (bid : Z) : M unit := lift (Guards_gen.task_resume s (gtask t) bid).

(* task_create of task.c: refuses an existing id and an unknown type; flags kept as the four booleans *)
Definition flag (w b : Z) : bool := negb (Z.land w b =? 0).
Definition task_create (info : ptr_task_info) (type_id task_id flags : Z) : M unit :=
  fun sx st =>
    match info with
    | None => Err E_TRAP
    | Some (n, m) =>
      match EmuCoreDefs.task_create (te_sx sx) (w_st st) n m task_id type_id (flag flags 1) (flag flags 2) (flag flags 4) (flag flags 8) with
      | Ok s' => Ok (tt, {| w_st := s'; w_dirty := w_dirty st |})
      | Err e => Err E_FAIL
      end
    end.
