(* Prelude of the generated file Gen/MuxInit_gen.v (translate/units/muxc.py): the construction functions of src/emu/mux.c
   (mux_init, mux_get_input, mux_set_input, mux_add_reselect, mux_set_default).

   The state is the struct mux being built (its fields as the C keeps them) next to a BayDefs bay; the environment says
   which mux of the bay this struct is (its id in BayDefs' numbering).  `return -1` = E_FAIL, a NULL dereference = E_TRAP.
   Hand-written here (not translated):
     - channels are their bay ids (a name is the id); bay_find: the id is a registered channel; chan_get_type: c_stack of
       the BayDefs channel; chan_prop_set(DIRTY_WRITE / ALLOW_DUP): c_dw / c_allow of the BayDefs channel;
     - bay_add_cb(bay, BAY_CB_DIRTY, chan, cb_select / cb_reselect / cb_input, mux / input, enabled) with the meaning
       C06_bay_callbacks_from_source proves of the generated bay.c: NULL for an unregistered channel; the callback
       (DSelect / DReselect / DInput of this mux) is appended at the END of the channel's dirty callbacks when enabled is
       non-zero and only created otherwise;
     - memset(mux, 0, ..), calloc of the inputs table (zeroed entries), value_null().
   Definitions only; proofs in Proofs/MuxInitProofs.v. *)
From Coq Require Import ZArith List Bool.
From OV Require Import Base.CInt Emu.EmuCoreDefs.
From OV Require Emu.BayDefs.
Import ListNotations.
Local Open Scope Z_scope.

Module B := BayDefs.

Inductive selfn := FRunning | FActive | FCustom (k : nat).
Inductive cbfn := FSelect | FReselect | FInput.
Inductive vref := VMux | VInputRef (i : Z).

Definition ptr_mux := option unit.
Definition ptr_input := option Z.
Definition ptr_bay := option unit.
Definition ptr_cb := option B.dcb.
Definition ptr_chan := option nat.
Definition ptr_fn := option selfn.
Definition ptr_void := option vref.
Definition ptr_name := option nat.
Definition cvalue := value.
Definition fn_cb_select : option cbfn := Some FSelect.
Definition fn_cb_reselect : option cbfn := Some FReselect.
Definition fn_cb_input : option cbfn := Some FInput.

Record inputobj := { in_index : Z; in_chan : ptr_chan; in_selected : Z; in_output : ptr_chan; in_cb : ptr_cb }.
Definition input0 : inputobj := {| in_index := 0; in_chan := None; in_selected := 0; in_output := None; in_cb := None |}.

Record mstate := {
  mi_bay : B.bay;
  mi_link : ptr_bay;           (* mux->bay *)
  mi_ninputs : Z; mi_selected : Z;
  mi_inputs : option (list inputobj);
  mi_fun : ptr_fn; mi_select : ptr_chan; mi_output : ptr_chan; mi_def : cvalue
}.
Record menv := { me_id : nat; me_alloc_ok : bool }.

Definition E_FAIL := 120%nat.
Definition E_TRAP := 199%nat.
Definition E_DIE := 198%nat.

Definition M (A : Type) : Type := menv -> mstate -> result (A * mstate).
Definition ret {A} (a : A) : M A := fun _ st => Ok (a, st).
Definition fail {A} (e : nat) : M A := fun _ _ => Err e.
Definition bind {A B} (m : M A) (f : A -> M B) : M B :=
  fun sx st => match m sx st with Ok (a, st') => f a sx st' | Err e => Err e end.
Definition bind_ {A B} (m : M A) (k : M B) : M B := bind m (fun _ => k).
Definition eval {A} (f : menv -> mstate -> A) : M A := fun sx st => Ok (f sx st, st).
Definition ite {A} (c : menv -> mstate -> bool) (a b : M A) : M A :=
  fun sx st => if c sx st then a sx st else b sx st.
Definition need {A} (safe : menv -> mstate -> bool) (k : M A) : M A :=
  fun sx st => if safe sx st then k sx st else Err E_TRAP.

Definition mk (b : B.bay) l n s i f se o d : mstate :=
  {| mi_bay := b; mi_link := l; mi_ninputs := n; mi_selected := s; mi_inputs := i; mi_fun := f; mi_select := se; mi_output := o; mi_def := d |}.
Definition with_bay (st : mstate) (b : B.bay) := mk b (mi_link st) (mi_ninputs st) (mi_selected st) (mi_inputs st) (mi_fun st) (mi_select st) (mi_output st) (mi_def st).
Definition with_inputs (st : mstate) x := mk (mi_bay st) (mi_link st) (mi_ninputs st) (mi_selected st) x (mi_fun st) (mi_select st) (mi_output st) (mi_def st).

Definition sizeof_ (n : Z) : Z := n.
Definition ptr_eqb_chan (a b : ptr_chan) : bool := match a, b with Some x, Some y => Nat.eqb x y | None, None => true | _, _ => false end.
Definition void_of_ptr_mux (m : ptr_mux) : ptr_void := match m with Some _ => Some VMux | None => None end.
Definition void_of_ptr_input (p : ptr_input) : ptr_void := option_map VInputRef p.

(* ---- chan.c / bay.c *)
Definition get_chan__name (sx : menv) (st : mstate) (c : ptr_chan) : ptr_name := c.
Definition valid (st : mstate) (c : nat) : bool := Nat.ltb c (length (B.b_chans (mi_bay st))).
Definition bay_find (sx : menv) (st : mstate) (b : ptr_bay) (name : ptr_name) : ptr_chan :=
  match name with Some c => if valid st c then Some c else None | None => None end.
Definition chan_get_type (sx : menv) (st : mstate) (c : ptr_chan) : Z :=
  match c with Some k => match nth_error (B.b_chans (mi_bay st)) k with Some ch => b2z (B.c_stack ch) | None => 0 end | None => 0 end.
Definition P_DIRTY_WRITE : Z := 0.
Definition P_ALLOW_DUP : Z := 1.
Definition chan_prop_set (c : ptr_chan) (prop v : Z) : M unit :=
  fun sx st =>
    match c with
    | Some k =>
      match nth_error (B.b_chans (mi_bay st)) k with
      | Some ch =>
        let ch' := {| B.c_stack := B.c_stack ch; B.c_val := B.c_val ch; B.c_stk := B.c_stk ch; B.c_last := B.c_last ch; B.c_dirty := B.c_dirty ch;
                      B.c_dw := if prop =? P_DIRTY_WRITE then negb (v =? 0) else B.c_dw ch;
                      B.c_allow := if prop =? P_ALLOW_DUP then negb (v =? 0) else B.c_allow ch; B.c_ign := B.c_ign ch |} in
        if (prop =? P_DIRTY_WRITE) || (prop =? P_ALLOW_DUP) then Ok (tt, with_bay st (B.set_chan (mi_bay st) k ch')) else Err E_TRAP
      | None => Err E_TRAP
      end
    | None => Err E_TRAP
    end.
Definition what_of (sx : menv) (f : option cbfn) (a : ptr_void) : option B.dcb :=
  match f, a with
  | Some FSelect, Some VMux => Some (B.DSelect (me_id sx))
  | Some FReselect, Some VMux => Some (B.DReselect (me_id sx))
  | Some FInput, Some (VInputRef i) => if i <? 0 then None else Some (B.DInput (me_id sx) (Z.to_nat i))
  | _, _ => None
  end.
Definition bay_add_cb (b : ptr_bay) (type : Z) (c : ptr_chan) (f : option cbfn) (arg : ptr_void) (enabled : Z) : M ptr_cb :=
  fun sx st =>
    match b, c, what_of sx f arg with
    | Some _, Some k, Some d =>
      if negb (type =? 0) then Err E_TRAP else
      if negb (valid st k) then Ok (None, st) else
      if negb (me_alloc_ok sx) then Ok (None, st) else
      if enabled =? 0 then Ok (Some d, st)
      else Ok (Some d, with_bay st (B.set_dcbs (mi_bay st) k (B.dcbs_of (mi_bay st) k ++ [d])))
    | _, _, None => Ok (None, st)          (* func == NULL *)
    | _, _, _ => Err E_TRAP
    end.

(* ---- struct mux *)
Definition zero_mux (m : ptr_mux) : M unit :=
  fun sx st => match m with Some _ => Ok (tt, mk (mi_bay st) None 0 0 None None None None None) | None => Err E_TRAP end.
Definition value_null (sx : menv) (st : mstate) : cvalue := None.
Definition calloc_ptr_input (n size : Z) : M ptr_input :=
  fun sx st => if me_alloc_ok sx then Ok (Some 0, with_inputs st (Some (repeat input0 (Z.to_nat n)))) else Ok (None, st).
Definition get_mux__inputs (sx : menv) (st : mstate) (m : ptr_mux) : ptr_input := match mi_inputs st with Some _ => Some 0 | None => None end.
Definition get_mux__output (sx : menv) (st : mstate) (m : ptr_mux) : ptr_chan := mi_output st.
Definition get_mux__bay (sx : menv) (st : mstate) (m : ptr_mux) : ptr_bay := mi_link st.
Definition at_ptr_input (p : ptr_input) (i : Z) : ptr_input := match p with Some j => Some (j + i) | None => None end.
Definition setm (m : ptr_mux) (f : menv -> mstate -> mstate) : M unit :=
  fun sx st => match m with Some _ => Ok (tt, f sx st) | None => Err E_TRAP end.
Definition set_mux_select (m : ptr_mux) (v : menv -> mstate -> ptr_chan) : M unit :=
  setm m (fun sx st => mk (mi_bay st) (mi_link st) (mi_ninputs st) (mi_selected st) (mi_inputs st) (mi_fun st) (v sx st) (mi_output st) (mi_def st)).
Definition set_mux_output (m : ptr_mux) (v : menv -> mstate -> ptr_chan) : M unit :=
  setm m (fun sx st => mk (mi_bay st) (mi_link st) (mi_ninputs st) (mi_selected st) (mi_inputs st) (mi_fun st) (mi_select st) (v sx st) (mi_def st)).
Definition set_mux_ninputs (m : ptr_mux) (v : menv -> mstate -> Z) : M unit :=
  setm m (fun sx st => mk (mi_bay st) (mi_link st) (v sx st) (mi_selected st) (mi_inputs st) (mi_fun st) (mi_select st) (mi_output st) (mi_def st)).
(* the calloc'ed table was put in place by calloc_ptr_input; the store keeps it (NULL when the allocation failed) *)
Definition set_mux_inputs (m : ptr_mux) (v : menv -> mstate -> ptr_input) : M unit :=
  setm m (fun sx st => match v sx st with Some _ => st | None => with_inputs st None end).
Definition set_mux_def (m : ptr_mux) (v : menv -> mstate -> cvalue) : M unit :=
  setm m (fun sx st => mk (mi_bay st) (mi_link st) (mi_ninputs st) (mi_selected st) (mi_inputs st) (mi_fun st) (mi_select st) (mi_output st) (v sx st)).
Definition set_mux_select_func (m : ptr_mux) (v : menv -> mstate -> ptr_fn) : M unit :=
  setm m (fun sx st => mk (mi_bay st) (mi_link st) (mi_ninputs st) (mi_selected st) (mi_inputs st) (v sx st) (mi_select st) (mi_output st) (mi_def st)).
Definition set_mux_bay (m : ptr_mux) (v : menv -> mstate -> ptr_bay) : M unit :=
  setm m (fun sx st => mk (mi_bay st) (v sx st) (mi_ninputs st) (mi_selected st) (mi_inputs st) (mi_fun st) (mi_select st) (mi_output st) (mi_def st)).

(* ---- struct mux_input *)
Definition input_at (st : mstate) (p : ptr_input) : option inputobj :=
  match p, mi_inputs st with Some i, Some l => if i <? 0 then None else nth_error l (Z.to_nat i) | _, _ => None end.
Definition get_mux_input__chan (sx : menv) (st : mstate) (p : ptr_input) : ptr_chan := match input_at st p with Some o => in_chan o | None => None end.
Definition get_mux_input__cb (sx : menv) (st : mstate) (p : ptr_input) : ptr_cb := match input_at st p with Some o => in_cb o | None => None end.
Definition seti (p : ptr_input) (f : menv -> mstate -> inputobj -> inputobj) : M unit :=
  fun sx st => match p, mi_inputs st, input_at st p with
               | Some i, Some l, Some o => Ok (tt, with_inputs st (Some (update l (Z.to_nat i) (f sx st o))))
               | _, _, _ => Err E_TRAP
               end.
Definition set_mux_input_index (p : ptr_input) (v : menv -> mstate -> Z) : M unit :=
  seti p (fun sx st o => {| in_index := v sx st; in_chan := in_chan o; in_selected := in_selected o; in_output := in_output o; in_cb := in_cb o |}).
Definition set_mux_input_chan (p : ptr_input) (v : menv -> mstate -> ptr_chan) : M unit :=
  seti p (fun sx st o => {| in_index := in_index o; in_chan := v sx st; in_selected := in_selected o; in_output := in_output o; in_cb := in_cb o |}).
Definition set_mux_input_output (p : ptr_input) (v : menv -> mstate -> ptr_chan) : M unit :=
  seti p (fun sx st o => {| in_index := in_index o; in_chan := in_chan o; in_selected := in_selected o; in_output := v sx st; in_cb := in_cb o |}).
Definition set_mux_input_cb (p : ptr_input) (v : menv -> mstate -> ptr_cb) : M unit :=
  seti p (fun sx st o => {| in_index := in_index o; in_chan := in_chan o; in_selected := in_selected o; in_output := in_output o; in_cb := v sx st |}).
