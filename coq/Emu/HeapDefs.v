(* Array model of the intrusive pointer heap of src/include/heap.h (definitions only).

   The C heap is a binary tree of nodes linked by parent/left/right pointers whose
   shape is always the complete tree with `size` nodes: heap_get(head, n) walks from
   the root following the bits of n below its most significant bit (heap_get_move),
   so it reaches the node at position n of the classical 1-indexed array heap
   (children of position p at 2p and 2p+1).  Every pointer exchange in heap_insert /
   heap_max_heapify swaps the *positions* of a node and its parent, i.e. two array
   cells.  The model therefore is a list: the node at C position p (1-based) is the
   list element of index p-1 (0-based), parent index (i-1)/2, children 2i+1, 2i+2.

   Tie-breaking is the C's:
     heap_insert:      append at position size+1, then   while (parent && cmp(node,parent) > 0) swap
     heap_pop_max:     last node replaces the root, then heap_max_heapify:
                         largest = a;
                         if (left  && cmp(left,  largest) > 0) largest = left;
                         if (right && cmp(right, largest) > 0) largest = right;
                         if (largest == a) return;  exchange; recurse on a                         *)
From Coq Require Import ZArith List Bool Arith.
Import ListNotations.
Local Open Scope Z_scope.

Section HeapDefs.
  Context {A : Type}.
  Variable cmp : A -> A -> Z.      (* heap_node_compare_t:  > 0 if a > b, < 0 if a < b, = 0 if equal *)

  (* h[i] := x  (no change when i is out of range) *)
  Fixpoint upd (l : list A) (i : nat) (x : A) : list A :=
    match l, i with
    | [], _ => []
    | _ :: t, O => x :: t
    | a :: t, S i' => a :: upd t i' x
    end.

  (* exchange cells i and j (no change when one of them is out of range) *)
  Definition swap (l : list A) (i j : nat) : list A :=
    match nth_error l i, nth_error l j with
    | Some a, Some b => upd (upd l i b) j a
    | _, _ => l
    end.

  Definition parent (i : nat) : nat := ((i - 1) / 2)%nat.
  Definition left (i : nat) : nat := (2 * i + 1)%nat.
  Definition right (i : nat) : nat := (2 * i + 2)%nat.

  (* the while loop of heap_insert; the node is at index i.  fuel > i always suffices *)
  Fixpoint bubble_up (fuel i : nat) (h : list A) : list A :=
    match fuel with
    | O => h
    | S f =>
      match i with
      | O => h                                            (* parent == NULL *)
      | S _ =>
        match nth_error h i, nth_error h (parent i) with
        | Some x, Some y =>
          if cmp x y >? 0 then bubble_up f (parent i) (swap h i (parent i)) else h
        | _, _ => h
        end
      end
    end.

  Definition insert (h : list A) (x : A) : list A :=
    bubble_up (S (length h)) (length h) (h ++ [x]).

  (* index of `largest` in heap_max_heapify for the node at index i *)
  Definition largest (h : list A) (i : nat) : nat :=
    match nth_error h i with
    | None => i
    | Some cur =>
      let b1 := match nth_error h (left i) with
                | Some l => if cmp l cur >? 0 then left i else i
                | None => i
                end in
      match nth_error h (right i), nth_error h b1 with
      | Some r, Some b => if cmp r b >? 0 then right i else b1
      | _, _ => b1
      end
    end.

  (* heap_max_heapify; fuel >= length h - i always suffices *)
  Fixpoint sift_down (fuel i : nat) (h : list A) : list A :=
    match fuel with
    | O => h
    | S f =>
      let b := largest h i in
      if (b =? i)%nat then h else sift_down f b (swap h i b)
    end.

  (* heap_pop_max: returns the root and the heap after moving the last node to the root *)
  Definition pop_max (h : list A) : option (A * list A) :=
    match h with
    | [] => None
    | x :: t =>
      match t with
      | [] => Some (x, [])
      | _ :: _ => Some (x, sift_down (length t) 0 (last t x :: removelast t))
      end
    end.

  (* order invariant: every node is <= its parent under cmp *)
  Definition HeapInv (h : list A) : Prop :=
    forall i x y, (0 < i)%nat -> nth_error h i = Some x -> nth_error h (parent i) = Some y -> cmp y x >= 0.

  (* boolean version, used by the oracle driver as a self-check *)
  Definition heap_inv_b (h : list A) : bool :=
    forallb (fun i => match nth_error h i, nth_error h (parent i) with
                      | Some x, Some y => cmp y x >=? 0
                      | _, _ => true
                      end) (seq 1 (length h - 1)).
End HeapDefs.

(* heap_get_move / heap_get: the walk from the root to position n (1-based).
   shift = index of the most significant bit, base = 2^shift. *)
Definition get_move (n : Z) : bool * Z :=
  let base := 2 ^ (Z.log2 n) in
  let aux := n - base / 2 in
  if aux <? base then (false, aux) else (true, aux - base / 2).

Fixpoint get_path (fuel : nat) (n : Z) : list bool :=
  match fuel with
  | O => []
  | S f => if n =? 1 then [] else let (b, n') := get_move n in b :: get_path f n'
  end.

(* position reached from position p by following moves (left = 2p, right = 2p+1) *)
Fixpoint walk (p : Z) (moves : list bool) : Z :=
  match moves with
  | [] => p
  | b :: t => walk (2 * p + (if b then 1 else 0)) t
  end.
