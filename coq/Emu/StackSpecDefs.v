(* C08: push/pop histories of one stack channel.  The emulator side is raw_apply (chan_push / chan_pop
   of src/emu/chan.c); the specification is a declarative grammar of well-nested histories that does
   not mention a stack machine. *)
From Coq Require Import ZArith List Bool.
From OV Require Import Emu.EmuCoreDefs.
Import ListNotations.
Local Open Scope Z_scope.

Inductive sev := Enter (v : Z) | Leave (v : Z).

Definition sev_apply (sp : chanspec) (r : raw) (e : sev) : result (raw * bool) :=
  match e with
  | Enter v => raw_apply sp r PUSH (Some v)
  | Leave v => raw_apply sp r POP (Some v)
  end.

(* the emulator on a whole history of one channel; None = some event is rejected *)
Fixpoint chan_run (sp : chanspec) (r : raw) (evs : list sev) : option raw :=
  match evs with
  | [] => Some r
  | e :: rest => match sev_apply sp r e with Ok (r', _) => chan_run sp r' rest | Err _ => None end
  end.

(* hist evs o : evs is a well-nested history that leaves the regions o open (innermost first).
   - empty;
   - a region that is entered and left, whose inside leaves nothing open, followed by a history;
   - a region that is entered and never left, followed by a history. *)
Inductive hist : list sev -> list Z -> Prop :=
| h_nil : hist [] []
| h_closed v w evs o : hist w [] -> hist evs o -> hist (Enter v :: w ++ Leave v :: evs) o
| h_open v evs o : hist evs o -> hist (Enter v :: evs) (o ++ [v]).

(* no region is re-entered while it is the innermost open one, and no more than 512 regions are ever open *)
Definition entries_ok (dup : bool) (evs : list sev) : Prop :=
  forall p v q o, evs = p ++ Enter v :: q -> hist p o ->
    (dup = true \/ hd_error o <> Some v) /\ (length o < MAX_CHAN_STACK)%nat.

Definition empty_stack_chan (sp : chanspec) : raw := {| r_stk := []; r_val := cs_init sp |}.
