(* Prelude of the generated file Gen/Meta_gen.v (translate/units/meta.py): the world of the emulator's metadata
   gates (stream.c check_version, system.c is_thread_stream, loom.c loom_name / load_cpus, proc.c
   proc_stream_get_pid / load_appid / load_rank, thread.c thread_stream_get_tid / thread_load_metadata, model.c
   should_enable).

   The generated file renders those functions statement by statement; the side-effect free ones as Gallina functions
   `f sx st args`, the three that store into struct proc / struct thread in the reader + state + error monad below
   (same conventions as Emu/ChanPre.v: `return -1` = fail E_FAIL).

   Hand-written here (not translated):
     - parson's look-up API, with the meaning Rt/RtMetaDefs.v gives the object model (json, fget = first member of
       that name, dotget on dotted names): json_object_get_value, json_object_dotget_value, json_number
       (= json_value_get_number: 0 unless a number), json_object_dotget_number / _string / _object / _array (0 / NULL
       unless of that type), json_object_get_string / _get_number, json_array_get_count / _get_object;
     - `double`: the numbers of the model are integers (RtMetaDefs: "numbers that are not integers of magnitude <= 2^53"
       are outside the domain), so double = Z, the conversion int -> double is the identity and `(int) d` is the
       identity on the domain |d| < 2^31 (outside it the C conversion is undefined behaviour);
     - strings: `const char *` = NULL or a byte list; strcmp = the sign of the lexicographic comparison of unsigned bytes;
     - the state: ONE stream (its parsed metadata object: stream_metadata(s)), ONE struct proc (appid, rank, nranks;
       proc_init_begin sets 0, -1, 0 ... see proc0) and ONE struct thread (meta); the pointers to them are never
       NULL (create_system passes the objects it has just found or made);
     - version_parse (src/include/version.c) is Emu/VersionDefs.version_parse; version_is_compatible is a parameter of
       the environment (Proofs/MetaGenProofs.v instantiates it with the generated Gen/Version_gen.v);
     - the entry the loop body of load_cpus hands to its find-or-insert half: entry_err / entry_ok index phyid.
   Definitions only; proofs in Proofs/MetaGenProofs.v. *)
From Coq Require Import ZArith List Bool.
From OV Require Import Base.CInt Emu.VersionDefs Rt.RtMetaDefs.
Import ListNotations.
Local Open Scope Z_scope.

(* pointers *)
Definition ptr_jobj := option fields.          (* JSON_Object * *)
Definition ptr_jval := option json.            (* JSON_Value * *)
Definition ptr_jarr := option (list json).     (* JSON_Array * *)
Definition ptr_str := option str.              (* const char * *)
Definition arr_int := list Z.                  (* int[3] *)
Definition ptr_stream := unit.
Definition ptr_proc := unit.
Definition ptr_thread := unit.
Definition ptr_loom := unit.
Definition ptr_spec := unit.

Record mstate := mkM {
  sm : ptr_jobj;            (* stream_metadata(s) *)
  p_appid : Z;              (* proc->appid *)
  p_rank : Z;               (* proc->rank *)
  p_nranks : Z;             (* proc->nranks *)
  th_meta : ptr_jobj        (* thread->meta *)
}.
Record menv := mkE {
  spec_name : ptr_str;                      (* spec->name *)
  compat : list Z -> list Z -> Z            (* version_is_compatible *)
}.

(* proc_init_begin: memset 0, rank = -1 ; thread_init_begin: memset 0 *)
Definition fresh (meta : ptr_jobj) : mstate := mkM meta 0 (-1) 0 None.

Definition E_FAIL := 20%nat.
Definition E_TRAP := 99%nat.

Inductive mres (A : Type) : Type := MOk (a : A) | MErr (e : nat).
Arguments MOk {A} a.
Arguments MErr {A} e.

Definition M (A : Type) : Type := menv -> mstate -> mres (A * mstate).
Definition ret {A} (a : A) : M A := fun _ st => MOk (a, st).
Definition fail {A} (e : nat) : M A := fun _ _ => MErr e.
Definition bind {A B} (m : M A) (f : A -> M B) : M B :=
  fun sx st => match m sx st with MOk (a, st') => f a sx st' | MErr e => MErr e end.
Definition bind_ {A B} (m : M A) (k : M B) : M B := bind m (fun _ => k).
Definition eval {A} (f : menv -> mstate -> A) : M A := fun sx st => MOk (f sx st, st).
Definition ite {A} (c : menv -> mstate -> bool) (a b : M A) : M A :=
  fun sx st => if c sx st then a sx st else b sx st.
Definition need {A} (safe : menv -> mstate -> bool) (k : M A) : M A :=
  fun sx st => if safe sx st then k sx st else MErr E_TRAP.
Definition exec (m : M unit) (sx : menv) (st : mstate) : mres mstate :=
  match m sx st with MOk (_, st') => MOk st' | MErr e => MErr e end.

(* strings *)
Definition str_lit (l : list Z) : ptr_str := Some l.
Fixpoint str_cmp (a b : list Z) : Z :=
  match a, b with
  | [], [] => 0
  | [], _ :: _ => -1
  | _ :: _, [] => 1
  | x :: a', y :: b' => if x <? y then -1 else if y <? x then 1 else str_cmp a' b'
  end.
(* strcmp(NULL, ..) does not occur: the callers test for NULL first *)
Definition strcmp (sx : menv) (st : mstate) (a b : ptr_str) : Z :=
  match a, b with Some x, Some y => str_cmp x y | _, _ => 0 end.

(* doubles *)
Definition double := Z.
Definition double_of_int (z : Z) : double := z.
Definition int_of_double (d : double) : Z := d.
Definition double_eqb : double -> double -> bool := Z.eqb.
Definition double_ltb : double -> double -> bool := Z.ltb.
Definition double_gtb : double -> double -> bool := Z.gtb.
Definition double_leb : double -> double -> bool := Z.leb.
Definition double_geb : double -> double -> bool := Z.geb.

(* parson *)
Definition json_object_get_value (sx : menv) (st : mstate) (o : ptr_jobj) (k : ptr_str) : ptr_jval :=
  match o, k with Some fs, Some key => fget fs key | _, _ => None end.
Definition json_object_dotget_value (sx : menv) (st : mstate) (o : ptr_jobj) (k : ptr_str) : ptr_jval :=
  match o, k with Some fs, Some key => dotget fs key | _, _ => None end.
Definition json_number (sx : menv) (st : mstate) (v : ptr_jval) : double :=
  match v with Some (jnum z) => z | _ => 0 end.
Definition jv_string (v : ptr_jval) : ptr_str := match v with Some (jstr s) => Some s | _ => None end.
Definition jv_object (v : ptr_jval) : ptr_jobj := match v with Some (jobj fs) => Some fs | _ => None end.
Definition jv_array (v : ptr_jval) : ptr_jarr := match v with Some (jarr l) => Some l | _ => None end.
Definition json_object_dotget_number (sx : menv) (st : mstate) (o : ptr_jobj) (k : ptr_str) : double :=
  json_number sx st (json_object_dotget_value sx st o k).
Definition json_object_dotget_string (sx : menv) (st : mstate) (o : ptr_jobj) (k : ptr_str) : ptr_str :=
  jv_string (json_object_dotget_value sx st o k).
Definition json_object_dotget_object (sx : menv) (st : mstate) (o : ptr_jobj) (k : ptr_str) : ptr_jobj :=
  jv_object (json_object_dotget_value sx st o k).
Definition json_object_dotget_array (sx : menv) (st : mstate) (o : ptr_jobj) (k : ptr_str) : ptr_jarr :=
  jv_array (json_object_dotget_value sx st o k).
Definition json_object_get_string (sx : menv) (st : mstate) (o : ptr_jobj) (k : ptr_str) : ptr_str :=
  jv_string (json_object_get_value sx st o k).
Definition json_object_get_number (sx : menv) (st : mstate) (o : ptr_jobj) (k : ptr_str) : double :=
  json_number sx st (json_object_get_value sx st o k).
Definition json_array_get_count (sx : menv) (st : mstate) (a : ptr_jarr) : Z :=
  match a with Some l => Z.of_nat (length l) | None => 0 end.
Definition json_array_get_object (sx : menv) (st : mstate) (a : ptr_jarr) (i : Z) : ptr_jobj :=
  match a with
  | Some l => if (0 <=? i) && (i <? Z.of_nat (length l)) then jv_object (nth_error l (Z.to_nat i)) else None
  | None => None
  end.

(* the objects *)
Definition stream_metadata (sx : menv) (st : mstate) (s : ptr_stream) : ptr_jobj := sm st.
Definition get_proc_appid (sx : menv) (st : mstate) (p : ptr_proc) : Z := p_appid st.
Definition get_proc_rank (sx : menv) (st : mstate) (p : ptr_proc) : Z := p_rank st.
Definition get_proc_nranks (sx : menv) (st : mstate) (p : ptr_proc) : Z := p_nranks st.
Definition get_thread_meta (sx : menv) (st : mstate) (t : ptr_thread) : ptr_jobj := th_meta st.
Definition get_model_spec_name (sx : menv) (st : mstate) (s : ptr_spec) : ptr_str := spec_name sx.

Definition set_proc_appid (p : ptr_proc) (v : menv -> mstate -> Z) : M unit :=
  fun sx st => MOk (tt, mkM (sm st) (v sx st) (p_rank st) (p_nranks st) (th_meta st)).
Definition set_proc_rank (p : ptr_proc) (v : menv -> mstate -> Z) : M unit :=
  fun sx st => MOk (tt, mkM (sm st) (p_appid st) (v sx st) (p_nranks st) (th_meta st)).
Definition set_proc_nranks (p : ptr_proc) (v : menv -> mstate -> Z) : M unit :=
  fun sx st => MOk (tt, mkM (sm st) (p_appid st) (p_rank st) (v sx st) (th_meta st)).
Definition set_thread_meta (t : ptr_thread) (v : menv -> mstate -> ptr_jobj) : M unit :=
  fun sx st => MOk (tt, mkM (sm st) (p_appid st) (p_rank st) (p_nranks st) (v sx st)).

(* version.c *)
Definition version_parse_c (sx : menv) (st : mstate) (s : ptr_str) : option (list Z) := version_parse s.
Definition version_is_compatible (sx : menv) (st : mstate) (want have : arr_int) : Z := compat sx want have.

(* load_cpus: what one array entry yields for the find-or-insert half of the loop body *)
Definition cpu_entry := option (Z * Z).       (* (index, phyid) *)
Definition entry_err (sx : menv) (st : mstate) : cpu_entry := None.
Definition entry_ok (sx : menv) (st : mstate) (index phyid : Z) : cpu_entry := Some (index, phyid).
