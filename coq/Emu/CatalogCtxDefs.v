(* C18: a legal context for every listed event, run through the emulator-core model. *)
From Coq Require Import ZArith List Bool.
From OV Require Import Emu.EmuCoreDefs Emu.DecodeDefs Emu.MarkDefs Emu.TableFactsDefs Emu.CatalogDefs Tools.EvSpecDefs.
From OV Require Gen.Tables_gen.
Import ListNotations.
Local Open Scope Z_scope.

(* raw events: time is filled in later; (thread, (m, c, v), payload, jumbo, aux) *)
Definition rev := (nat * (Z * Z * Z) * list Z * bool * Z)%type.

Definition N_BODYID : list Z := [98; 111; 100; 121; 105; 100].
Definition N_TYPE : list Z := [116; 121; 112; 101].

(* argument values of the probe payloads: 1 everywhere, except the body id of a non-parallel nOS-V task (0) and the
   mark type of OM= (2, a single-value type; 1 is a stack type) *)
Definition arg_value (m c v : Z) (a : arg) : value :=
  match a_type a with
  | STR => VStr [116]
  | _ => VInt (if list_eqb (a_name a) N_BODYID then 0
               else if list_eqb (a_name a) N_TYPE && (m =? 79) && (c =? 77) && (v =? 61) then 2 else 1)
  end.

Definition find_decl (m c v : Z) : option (list Z) :=
  match find (fun '(m', sig, _) => (m' =? m) && (nth 0 sig 0 =? m) && (nth 1 sig 0 =? c) && (nth 2 sig 0 =? v)) Tables_gen.evdescs with
  | Some (_, sig, _) => Some sig
  | None => None
  end.

(* the event of thread who with the payload of its declared shape (nothing if it is not declared) *)
Definition ev (who : nat) (m c v : Z) : list rev :=
  match find_decl m c v with
  | None => []
  | Some sig =>
    match compile sig with
    | None => []
    | Some sp =>
      let pl := match payload_of sp (map (arg_value m c v) (s_args sp)) with Some p => p | None => [] end in
      [(who, (m, c, v), pl, s_jumbo sp, 7)]
    end
  end.

Definition le32 (z : Z) : list Z := le_bytes 4 z.
Definition ohx (who : nat) (cpu : Z) : rev := (who, (79, 72, 120), le32 cpu ++ le32 0 ++ le_bytes 8 0, false, 0).
Definition ohe (who : nat) : rev := (who, (79, 72, 101), [], false, 0).

(* thread 1 (tid 1) runs on CPU 2 during the whole probe; thread 0 is the probed one *)
Definition wrap (pre probe post : list rev) : list rev :=
  [ohx 1 2] ++ pre ++ probe ++ post ++ [ohe 1].

Definition O := 79.
Definition table_rows (m : Z) := filter (fun '(m', _, _, _, _, _) => m' =? m) Tables_gen.table.

Definition is_push (a : Tables_gen.action) := match a with Tables_gen.PUSH => true | _ => false end.
Definition is_pop (a : Tables_gen.action) := match a with Tables_gen.POP => true | _ => false end.
Definition is_set (a : Tables_gen.action) := match a with Tables_gen.SET => true | _ => false end.

(* candidate contexts (events before, events after) for the listed event (m, c, v) on thread 0 *)
Definition contexts (m c v : Z) : list (list rev * list rev) :=
  let run0 := [ohx 0 0] in
  let e := ev 0 in
  if m =? O then
    if c =? 72 then
      if v =? 120 then [([], [ohe 0])]
      else if v =? 101 then [(run0, [])]
      else if v =? 112 then [(run0, e O 72 114 ++ [ohe 0])]
      else if v =? 114 then [(run0 ++ e O 72 112, [ohe 0])]
      else if v =? 119 then [(run0 ++ e O 72 112, e O 72 114 ++ [ohe 0])]
      else [(run0, [ohe 0])]
    else if (c =? 70) && (v =? 91) then [(run0, e O 70 93 ++ [ohe 0])]
    else if (c =? 70) && (v =? 93) then [(run0 ++ e O 70 91, [ohe 0])]
    else if (c =? 77) && (v =? 93) then [(run0 ++ e O 77 91, [ohe 0])]
    else [(run0, [ohe 0])]
  else if m =? M_KERNEL then
    if v =? 73 then [(run0 ++ e m 67 79, [ohe 0])] else [(run0, e m 67 73 ++ [ohe 0])]
  else if ((m =? M_NOSV) || (m =? M_NANOS6)) && ((c =? 84) || (c =? 89)) then
    let Y := e m 89 99 in let Tc := e m 84 99 in let Tx := e m 84 120 in
    let Te := e m 84 101 in let Tp := e m 84 112 in let Tr := e m 84 114 in
    if c =? 89 then [(run0, [ohe 0])]
    else if (v =? 99) || (v =? 67) then [(run0 ++ Y, [ohe 0])]
    else if v =? 120 then [(run0 ++ Y ++ Tc, Te ++ [ohe 0])]
    else if v =? 101 then [(run0 ++ Y ++ Tc ++ Tx, [ohe 0])]
    else if v =? 112 then [(run0 ++ Y ++ Tc ++ Tx, Tr ++ Te ++ [ohe 0])]
    else [(run0 ++ Y ++ Tc ++ Tx ++ Tp, Te ++ [ohe 0])]
  else
    match table_lookup Tables_gen.table m c v with
    | None => [(run0, [ohe 0])]
    | Some (ch, a, x) =>
      if is_pop a then
        map (fun '(_, c', v', _, _, _) => (run0 ++ e m c' v', [ohe 0]))
            (filter (fun '(_, _, _, ch', a', x') => (ch' =? ch) && is_push a' && (x' =? x)) (table_rows m))
      else if is_set a then
        (run0, [ohe 0]) ::
        map (fun '(_, c', v', _, _, _) => (run0 ++ e m c' v', [ohe 0]))
            (filter (fun '(_, _, _, ch', a', x') => (ch' =? ch) && is_set a' && negb (x' =? x)) (table_rows m))
      else [(run0, [ohe 0])]
    end.

Definition ctx_chans : list chanspec :=
  chans_all ++ mark_chans [{| mt_type := 1; mt_title := [109]; mt_stack := true; mt_labels := [] |};
                           {| mt_type := 2; mt_title := [115]; mt_stack := false; mt_labels := [] |}].

Definition ctx_sx : static :=
  {| s_threads := [{| ti_tid := 5; ti_pid := 9; ti_loom := 0; ti_appid := 1; ti_rank := -1 |};
                   {| ti_tid := 1; ti_pid := 9; ti_loom := 0; ti_appid := 1; ti_rank := -1 |}];
     s_cpus := [{| ci_virtual := false; ci_loom := 0; ci_index := 0 |}; {| ci_virtual := false; ci_loom := 0; ci_index := 1 |};
                {| ci_virtual := false; ci_loom := 0; ci_index := 2 |}; {| ci_virtual := true; ci_loom := 0; ci_index := -1 |}];
     s_chans := ctx_chans; s_lint := false |}.

Fixpoint timed (t : Z) (l : list rev) : list (Z * nat * event) :=
  match l with
  | [] => []
  | (who, (m, c, v), p, j, aux) :: r => (t, who, decode_all all_models ctx_chans m c v p j aux) :: timed (t + 5) r
  end.

Definition accepted (l : list rev) : bool :=
  match run ctx_sx [] (timed 10 l) with EmuCoreDefs.Ok _ => true | EmuCoreDefs.Err _ => false end.

(* the listed event is processed - the whole trace around it is accepted - in one of its contexts *)
Definition processed (m c v : Z) : bool :=
  match ev 0 m c v with
  | [] => false
  | probe => existsb (fun '(pre, post) => accepted (wrap pre probe post)) (contexts m c v)
  end.

Definition unprocessed : list (Z * Z * Z) :=
  flat_map (fun '(m, sig, _) => let c := nth 1 sig 0 in let v := nth 2 sig 0 in if processed m c v then [] else [(m, c, v)]) Tables_gen.evdescs.
