(* Prelude of the generated file Gen/EmuLoop_gen.v (translate/units/emuloop.py): the world of the emulator's top-level
   sequencing (src/emu/emu.c emu_init / emu_connect / emu_step / emu_finish, model.c model_event / model_connect /
   model_create / model_finish, recorder.c recorder_advance / recorder_finish, pv/pvt.c pvt_advance / pvt_close,
   pv/prv.c prv_advance / prv_close).

   The generated file renders those functions statement by statement in the reader + state + error monad below
   (`return -1` = fail E_FAIL, a NULL dereference = E_TRAP).  Everything they call that is not translated is a PRIMITIVE
   defined here by hand, WITH THE MEANING THE EXISTING MODELS GIVE IT:
     - player_step / player_ev / player_stream: PlayerDefs.pstep (sorted mode) on the player state; +1 = SDone, -1 = SErr;
     - system_get_lpt: the environment's map stream -> thread (NULL for a stream of no thread);
     - emu->ev->dclock / ->m: PlayerDefs.o_dclock of the delivered event / the model byte of its content (environment:
       what emu_ev decodes from the stream bytes, Emu/EmuEvDefs.v);
     - model->registered[] (models_register: environment), model->enabled[] (model_probe: state), model->spec[i]
       (NULL unless registered), the hooks of struct model_spec (NULL or not: environment);
     - spec->event(emu), the handler of ONE model on the current event and thread: EmuCoreDefs.core_step on
       MarkDefs.decode_all with ONLY that model enabled (the handler of model m understands the events of m and nothing
       else; whether m is enabled for the trace is tested by the translated model_event, not here).  Two renderings of
       "the models' state", chosen by the state:
         MSem st pend : the semantic model (EmuCoreDefs).  The handler leaves the channels it wrote dirty:
                        pend = Some (state before the handler, written channels);
         MMech st b   : the mechanical model (BayDefs): the handler's channel writes are replayed on the bay b
                        (BayDefs.apply_writes of BayDefs.handler_writes), as in BayDefs.mstep;
     - bay_propagate: MSem: the emission rule on the pending writes (EmuCoreDefs.emit_all on all_reqs, exactly the
       second half of EmuCoreDefs.step); MMech: BayDefs.propagate.  In both, the PRV emit callbacks write the resulting
       lines into the recorder at the recorder's CURRENT time (PvDefs.rec_write);
     - spec->connect(emu) / spec->finish(emu): the environment's per-model hooks on the recorder (instantiated with
       PvDefs.model_connect and with the end-of-trace checks + PvDefs.finish_pvt in Proofs/EmuLoopProofs.v);
       spec->create(emu): channels are created with the wiring (not modelled: no effect);
     - struct prv / pvt / recorder: PvDefs.prv / pvt / recorder; the recorder's hash table holds the two PVTs in
       insertion order (thread, cpu); fseek(file, 0, SEEK_SET) + write_header + fclose: PvDefs.overwrite of
       PvDefs.prv_header at the file position; pcf_close: PvDefs.pcf_text; prf_close: PvDefs.prf_close; the files
       left on disk are recorded per PVT (es_io);
     - cfg_generate, emu_stat_*: no effect on what is modelled;
     - the callees of emu_init (emu_args_init, trace_load, system_init, recorder_init, bay_init, system_connect,
       player_init, model_init, models_register, model_probe): each only records that it ran (es_log) and fails when the
       environment says so: emu_init is about order and failure propagation only;
     - for_range / for_hh_pvt: the two loop forms (over the 256 model slots, over the recorder's PVTs) as folds.
   Definitions only; proofs in Proofs/EmuLoopProofs.v. *)
From Coq Require Import ZArith List Bool.
From OV Require Import Base.CInt Emu.EmuCoreDefs Emu.DecodeDefs Emu.MarkDefs.
From OV Require Emu.PlayerDefs Emu.PvDefs Emu.BayDefs.
Import ListNotations.
Local Open Scope Z_scope.

Module PL := PlayerDefs.
Module PV := PvDefs.
Module B := BayDefs.

Inductive models :=
| MSem (st : state) (pend : option (state * list (nat * nat)))
| MMech (st : state) (b : B.bay).
Definition core_of (m : models) : state := match m with MSem st _ => st | MMech st _ => st end.

Record pvio := {
  io_pos : option nat;          (* position of prv->file: None = at the end (append), Some n after fseek *)
  io_prv : option str; io_pcf : option str; io_row : option str   (* the files as left on disk by fclose / pcf_close / prf_close *)
}.
Definition io0 : pvio := {| io_pos := None; io_prv := None; io_pcf := None; io_row := None |}.

Record cur := { c_ev : bool; c_stream : option nat; c_loom : option nat; c_proc : option nat; c_thread : option nat }.
Definition cur0 : cur := {| c_ev := false; c_stream := None; c_loom := None; c_proc := None; c_thread := None |}.

Record estate := {
  es_player : PL.pst;             (* emu->player *)
  es_pev : option PL.oev;         (* the event the last player_step delivered *)
  es_cur : cur;                   (* emu->ev != NULL, emu->stream, emu->loom / proc / thread (as the thread they belong to) *)
  es_finished : Z;                (* emu->finished *)
  es_enabled : list Z;            (* model->enabled[] *)
  es_models : models;             (* what the handlers act on *)
  es_rec : PV.recorder;           (* emu->recorder *)
  es_io : list pvio;              (* per PVT: 0 = thread, 1 = cpu *)
  es_log : list nat               (* the callees of emu_init that ran, latest first *)
}.

Definition rawc := ((Z * Z * Z) * list Z * bool * Z)%type.    (* mcv, payload, jumbo flag, aux (PvDefs.raw_ev without time / thread) *)
Inductive hook := HCreate | HConnect | HEvent | HFinish.

Record eenv := {
  en_sx : static;
  en_offs : list Z;                                   (* clock offset per stream (PlayerDefs) *)
  en_content : nat -> Z -> rawc;                      (* stream, payload id -> what emu_ev decodes *)
  en_lpt : nat -> option nat;                         (* system_get_lpt *)
  en_registered : list Z;                             (* models_register *)
  en_hook : Z -> hook -> bool;                        (* spec->create / connect / event / finish != NULL *)
  en_connect : Z -> PV.recorder -> result PV.recorder;          (* spec->connect(emu) *)
  en_finish : Z -> state -> PV.recorder -> result PV.recorder;  (* spec->finish(emu) *)
  en_init_ok : nat -> bool                            (* does the k-th callee of emu_init succeed *)
}.

Definition E_FAIL := 20%nat.
Definition E_TRAP := 99%nat.

Definition M (A : Type) : Type := eenv -> estate -> result (A * estate).
Definition ret {A} (a : A) : M A := fun _ st => Ok (a, st).
Definition fail {A} (e : nat) : M A := fun _ _ => Err e.
Definition bind {A B} (m : M A) (f : A -> M B) : M B :=
  fun sx st => match m sx st with Ok (a, st') => f a sx st' | Err e => Err e end.
Definition bind_ {A B} (m : M A) (k : M B) : M B := bind m (fun _ => k).
Definition eval {A} (f : eenv -> estate -> A) : M A := fun sx st => Ok (f sx st, st).
Definition ite {A} (c : eenv -> estate -> bool) (a b : M A) : M A :=
  fun sx st => if c sx st then a sx st else b sx st.
Definition need {A} (safe : eenv -> estate -> bool) (k : M A) : M A :=
  fun sx st => if safe sx st then k sx st else Err E_TRAP.
(* x = f(..): 0 on success, -1 on `return -1` (the caller goes on from the state before the call: what a failed callee
   leaves behind is not modelled; the callers translated here either stop with an error or only remember the failure),
   a trap stays a trap *)
Definition status (m : M unit) : M Z :=
  fun sx st => match m sx st with
               | Ok (_, st') => Ok (0, st')
               | Err e => if Nat.eqb e E_FAIL then Ok (-1, st) else Err e
               end.

(* loops *)
Fixpoint for_list {I A} (l : list I) (acc : A) (body : I -> A -> M A) : M A :=
  match l with
  | [] => ret acc
  | i :: r => bind (body i acc) (fun a => for_list r a body)
  end.
Definition zrange (lo hi : Z) : list Z := map (fun k => lo + Z.of_nat k) (seq 0 (Z.to_nat (hi - lo))).
Definition for_range {A} (lo hi : Z) (acc : A) (body : Z -> A -> M A) : M A := for_list (zrange lo hi) acc body.

Definition cur_with_ev (c : cur) (x : bool) : cur :=
  {| c_ev := x; c_stream := c_stream c; c_loom := c_loom c; c_proc := c_proc c; c_thread := c_thread c |}.
Definition cur_with_stream (c : cur) (x : option nat) : cur :=
  {| c_ev := c_ev c; c_stream := x; c_loom := c_loom c; c_proc := c_proc c; c_thread := c_thread c |}.
Definition cur_with_loom (c : cur) (x : option nat) : cur :=
  {| c_ev := c_ev c; c_stream := c_stream c; c_loom := x; c_proc := c_proc c; c_thread := c_thread c |}.
Definition cur_with_proc (c : cur) (x : option nat) : cur :=
  {| c_ev := c_ev c; c_stream := c_stream c; c_loom := c_loom c; c_proc := x; c_thread := c_thread c |}.
Definition cur_with_thread (c : cur) (x : option nat) : cur :=
  {| c_ev := c_ev c; c_stream := c_stream c; c_loom := c_loom c; c_proc := c_proc c; c_thread := x |}.

Definition with_player (st : estate) (x : PL.pst) : estate :=
  {| es_player := x; es_pev := es_pev st; es_cur := es_cur st; es_finished := es_finished st; es_enabled := es_enabled st; es_models := es_models st; es_rec := es_rec st; es_io := es_io st; es_log := es_log st |}.
Definition with_pev (st : estate) (x : option PL.oev) : estate :=
  {| es_player := es_player st; es_pev := x; es_cur := es_cur st; es_finished := es_finished st; es_enabled := es_enabled st; es_models := es_models st; es_rec := es_rec st; es_io := es_io st; es_log := es_log st |}.
Definition with_cur (st : estate) (x : cur) : estate :=
  {| es_player := es_player st; es_pev := es_pev st; es_cur := x; es_finished := es_finished st; es_enabled := es_enabled st; es_models := es_models st; es_rec := es_rec st; es_io := es_io st; es_log := es_log st |}.
Definition with_finished (st : estate) (x : Z) : estate :=
  {| es_player := es_player st; es_pev := es_pev st; es_cur := es_cur st; es_finished := x; es_enabled := es_enabled st; es_models := es_models st; es_rec := es_rec st; es_io := es_io st; es_log := es_log st |}.
Definition with_enabled (st : estate) (x : list Z) : estate :=
  {| es_player := es_player st; es_pev := es_pev st; es_cur := es_cur st; es_finished := es_finished st; es_enabled := x; es_models := es_models st; es_rec := es_rec st; es_io := es_io st; es_log := es_log st |}.
Definition with_models (st : estate) (x : models) : estate :=
  {| es_player := es_player st; es_pev := es_pev st; es_cur := es_cur st; es_finished := es_finished st; es_enabled := es_enabled st; es_models := x; es_rec := es_rec st; es_io := es_io st; es_log := es_log st |}.
Definition with_rec (st : estate) (x : PV.recorder) : estate :=
  {| es_player := es_player st; es_pev := es_pev st; es_cur := es_cur st; es_finished := es_finished st; es_enabled := es_enabled st; es_models := es_models st; es_rec := x; es_io := es_io st; es_log := es_log st |}.
Definition with_io (st : estate) (x : list pvio) : estate :=
  {| es_player := es_player st; es_pev := es_pev st; es_cur := es_cur st; es_finished := es_finished st; es_enabled := es_enabled st; es_models := es_models st; es_rec := es_rec st; es_io := x; es_log := es_log st |}.
Definition with_log (st : estate) (x : list nat) : estate :=
  {| es_player := es_player st; es_pev := es_pev st; es_cur := es_cur st; es_finished := es_finished st; es_enabled := es_enabled st; es_models := es_models st; es_rec := es_rec st; es_io := es_io st; es_log := x |}.

(* pointers *)
Definition ptr_emu := unit.
Definition ptr_ev := option unit.
Definition ptr_stream := option nat.
Definition ptr_lpt := option nat.
Definition ptr_loom := option nat.
Definition ptr_proc := option nat.
Definition ptr_thread := option nat.
Definition ptr_player := option unit.
Definition ptr_model := option unit.
Definition ptr_spec := option Z.
Definition ptr_recorder := option unit.
Definition ptr_pvt := option nat.
Definition ptr_prv := option nat.
Definition ptr_pcf := option nat.
Definition ptr_prf := option nat.
Definition ptr_file := option nat.
Definition ptr_bay := option unit.
Definition ptr_stat := option unit.
Definition ptr_args := option unit.
Definition ptr_trace := option unit.
Definition ptr_system := option unit.
Definition ptr_hook := option unit.
Definition ptr_argv := option unit.
Definition ptr_str := option unit.

Definition addr_emu_player (e : ptr_emu) : ptr_player := Some tt.
Definition addr_emu_model (e : ptr_emu) : ptr_model := Some tt.
Definition addr_emu_bay (e : ptr_emu) : ptr_bay := Some tt.
Definition addr_emu_stat (e : ptr_emu) : ptr_stat := Some tt.
Definition addr_emu_recorder (e : ptr_emu) : ptr_recorder := Some tt.
Definition addr_emu_args (e : ptr_emu) : ptr_args := Some tt.
Definition addr_emu_trace (e : ptr_emu) : ptr_trace := Some tt.
Definition addr_emu_system (e : ptr_emu) : ptr_system := Some tt.
Definition addr_pvt_prv (p : ptr_pvt) : ptr_prv := p.
Definition addr_pvt_pcf (p : ptr_pvt) : ptr_pcf := p.
Definition addr_pvt_prf (p : ptr_pvt) : ptr_prf := p.

(* ---- the recorder: two PVTs, thread then cpu (uthash iterates in insertion order; system_connect adds "thread" first) *)
Definition NPVT : nat := 2.
Definition get_pvt (r : PV.recorder) (i : nat) : option PV.pvt :=
  match i with 0%nat => Some (PV.rc_th r) | 1%nat => Some (PV.rc_cpu r) | _ => None end.
Definition set_pvt (r : PV.recorder) (i : nat) (v : PV.pvt) : PV.recorder :=
  match i with
  | 0%nat => {| PV.rc_th := v; PV.rc_cpu := PV.rc_cpu r |}
  | _ => {| PV.rc_th := PV.rc_th r; PV.rc_cpu := v |}
  end.
Definition pvt_at (st : estate) (p : option nat) : option PV.pvt := match p with Some i => get_pvt (es_rec st) i | None => None end.
Definition io_at (st : estate) (i : nat) : pvio := nth i (es_io st) io0.
Definition set_io (st : estate) (i : nat) (x : pvio) : estate := with_io st (update (es_io st) i x).

Definition get_recorder_pvt (sx : eenv) (st : estate) (r : ptr_recorder) : ptr_pvt := Some 0%nat.
Definition get_recorder_dir (sx : eenv) (st : estate) (r : ptr_recorder) : ptr_str := Some tt.
Definition get_emu_args_tracedir (sx : eenv) (st : estate) (e : ptr_emu) : ptr_str := Some tt.
(* for (pvt = start; pvt; pvt = pvt->hh.next) *)
Definition for_hh_pvt {A} (start : eenv -> estate -> ptr_pvt) (acc : A) (body : ptr_pvt -> A -> M A) : M A :=
  fun sx st => match start sx st with
               | None => Ok (acc, st)
               | Some i => for_list (map (fun k => Some k) (seq i (NPVT - i))) acc body sx st
               end.

(* struct prv *)
Definition get_prv_time (sx : eenv) (st : estate) (p : ptr_prv) : Z :=
  match pvt_at st p with Some v => PV.pv_time (PV.v_prv v) | None => 0 end.
Definition get_prv_nrows (sx : eenv) (st : estate) (p : ptr_prv) : Z :=
  match pvt_at st p with Some v => PV.pv_nrows (PV.v_prv v) | None => 0 end.
Definition get_prv_file (sx : eenv) (st : estate) (p : ptr_prv) : ptr_file := p.
Definition prv_with_time (pv : PV.prv) (t : Z) : PV.prv :=
  {| PV.pv_nrows := PV.pv_nrows pv; PV.pv_time := t; PV.pv_chans := PV.pv_chans pv; PV.pv_file := PV.pv_file pv |}.
Definition prv_with_file (pv : PV.prv) (f : str) : PV.prv :=
  {| PV.pv_nrows := PV.pv_nrows pv; PV.pv_time := PV.pv_time pv; PV.pv_chans := PV.pv_chans pv; PV.pv_file := f |}.
Definition set_prv_time (p : ptr_prv) (v : eenv -> estate -> Z) : M unit :=
  fun sx st => match p, pvt_at st p with
               | Some i, Some x => Ok (tt, with_rec st (set_pvt (es_rec st) i (PV.set_prv x (prv_with_time (PV.v_prv x) (v sx st)))))
               | _, _ => Err E_TRAP
               end.

(* stdio on prv->file *)
Definition fseek (f : ptr_file) (off whence : Z) : M unit :=
  fun sx st => match f, pvt_at st f with
               | Some i, Some _ =>
                 if (off =? 0) && (whence =? 0)
                 then Ok (tt, set_io st i {| io_pos := Some 0%nat; io_prv := io_prv (io_at st i); io_pcf := io_pcf (io_at st i); io_row := io_row (io_at st i) |})
                 else Err E_TRAP
               | _, _ => Err E_TRAP
               end.
(* prv.c write_header: fprintf of the header line at the file position *)
Definition write_header (f : ptr_file) (time nrows : Z) : M unit :=
  fun sx st => match f, pvt_at st f with
               | Some i, Some x =>
                 let h := PV.prv_header time nrows in
                 let old := PV.pv_file (PV.v_prv x) in
                 match io_pos (io_at st i) with
                 | None => Ok (tt, with_rec st (set_pvt (es_rec st) i (PV.set_prv x (prv_with_file (PV.v_prv x) (old ++ h)))))
                 | Some 0%nat =>
                   Ok (tt, set_io (with_rec st (set_pvt (es_rec st) i (PV.set_prv x (prv_with_file (PV.v_prv x) (PV.overwrite h old)))))
                              i {| io_pos := Some (length h); io_prv := io_prv (io_at st i); io_pcf := io_pcf (io_at st i); io_row := io_row (io_at st i) |})
                 | Some _ => Err E_TRAP
                 end
               | _, _ => Err E_TRAP
               end.
Definition fclose (f : ptr_file) : M unit :=
  fun sx st => match f, pvt_at st f with
               | Some i, Some x =>
                 match io_prv (io_at st i) with
                 | Some _ => Err E_TRAP                       (* closed twice *)
                 | None => Ok (tt, set_io st i {| io_pos := io_pos (io_at st i); io_prv := Some (PV.pv_file (PV.v_prv x));
                                                  io_pcf := io_pcf (io_at st i); io_row := io_row (io_at st i) |})
                 end
               | _, _ => Err E_TRAP
               end.
Definition pcf_close (p : ptr_pcf) : M unit :=
  fun sx st => match p, pvt_at st p with
               | Some i, Some x => Ok (tt, set_io st i {| io_pos := io_pos (io_at st i); io_prv := io_prv (io_at st i);
                                                          io_pcf := Some (PV.pcf_text (PV.v_pcf x)); io_row := io_row (io_at st i) |})
               | _, _ => Err E_TRAP
               end.
Definition prf_close (p : ptr_prf) : M unit :=
  fun sx st => match p, pvt_at st p with
               | Some i, Some x =>
                 match PV.prf_close (PV.v_prf x) with
                 | Ok row => Ok (tt, set_io st i {| io_pos := io_pos (io_at st i); io_prv := io_prv (io_at st i);
                                                    io_pcf := io_pcf (io_at st i); io_row := Some row |})
                 | Err _ => Err E_FAIL
                 end
               | _, _ => Err E_TRAP
               end.
Definition cfg_generate (dir : ptr_str) : M unit := ret tt.

(* ---- struct model *)
Definition NMODELS : nat := 256.
Definition flags_of (l : list Z) : list Z := map (fun k => b2z (memz (Z.of_nat k) l)) (seq 0 NMODELS).
Definition get_model_registered (sx : eenv) (st : estate) (m : ptr_model) : list Z := flags_of (en_registered sx).
Definition get_model_enabled (sx : eenv) (st : estate) (m : ptr_model) : list Z := flags_of (es_enabled st).
Definition get_model_spec (sx : eenv) (st : estate) (m : ptr_model) : list ptr_spec :=
  map (fun k => if memz (Z.of_nat k) (en_registered sx) then Some (Z.of_nat k) else None) (seq 0 NMODELS).
Definition ixp_ptr_spec (l : list ptr_spec) (i : Z) : ptr_spec := nth (Z.to_nat i) l None.
Definition hook_of (sx : eenv) (s : ptr_spec) (h : hook) : ptr_hook :=
  match s with Some m => if en_hook sx m h then Some tt else None | None => None end.
Definition get_model_spec_create (sx : eenv) (st : estate) (s : ptr_spec) : ptr_hook := hook_of sx s HCreate.
Definition get_model_spec_connect (sx : eenv) (st : estate) (s : ptr_spec) : ptr_hook := hook_of sx s HConnect.
Definition get_model_spec_event (sx : eenv) (st : estate) (s : ptr_spec) : ptr_hook := hook_of sx s HEvent.
Definition get_model_spec_finish (sx : eenv) (st : estate) (s : ptr_spec) : ptr_hook := hook_of sx s HFinish.

(* ---- struct emu: the quick-access pointers *)
Definition get_emu_ev (sx : eenv) (st : estate) (e : ptr_emu) : ptr_ev := if c_ev (es_cur st) then Some tt else None.
Definition get_emu_stream (sx : eenv) (st : estate) (e : ptr_emu) : ptr_stream := c_stream (es_cur st).
Definition content_of (sx : eenv) (st : estate) : option rawc :=
  match es_pev st with Some e => Some (en_content sx (PL.o_id e) (PL.o_pay e)) | None => None end.
Definition get_emu_ev_dclock (sx : eenv) (st : estate) (e : ptr_emu) : Z :=
  match es_pev st with Some e => PL.o_dclock e | None => 0 end.
Definition get_emu_ev_m (sx : eenv) (st : estate) (e : ptr_emu) : Z :=
  match content_of sx st with Some (m, _, _, _, _, _) => m | None => 0 end.
Definition set_emu_ev (e : ptr_emu) (v : eenv -> estate -> ptr_ev) : M unit :=
  fun sx st => Ok (tt, with_cur st (cur_with_ev (es_cur st) (negb (is_null (v sx st))))).
Definition set_emu_stream (e : ptr_emu) (v : eenv -> estate -> ptr_stream) : M unit :=
  fun sx st => Ok (tt, with_cur st (cur_with_stream (es_cur st) (v sx st))).
Definition set_emu_loom (e : ptr_emu) (v : eenv -> estate -> ptr_loom) : M unit :=
  fun sx st => Ok (tt, with_cur st (cur_with_loom (es_cur st) (v sx st))).
Definition set_emu_proc (e : ptr_emu) (v : eenv -> estate -> ptr_proc) : M unit :=
  fun sx st => Ok (tt, with_cur st (cur_with_proc (es_cur st) (v sx st))).
Definition set_emu_thread (e : ptr_emu) (v : eenv -> estate -> ptr_thread) : M unit :=
  fun sx st => Ok (tt, with_cur st (cur_with_thread (es_cur st) (v sx st))).
Definition set_emu_finished (e : ptr_emu) (v : eenv -> estate -> Z) : M unit :=
  fun sx st => Ok (tt, with_finished st (v sx st)).
Definition get_lpt_loom (sx : eenv) (st : estate) (l : ptr_lpt) : ptr_loom := l.
Definition get_lpt_proc (sx : eenv) (st : estate) (l : ptr_lpt) : ptr_proc := l.
Definition get_lpt_thread (sx : eenv) (st : estate) (l : ptr_lpt) : ptr_thread := l.

(* ---- player.c *)
Definition player_step (p : ptr_player) : M Z :=
  fun sx st => match p with
               | None => Err E_TRAP
               | Some _ =>
                 match PL.pstep true (en_offs sx) (es_player st) with
                 | PL.SDone => Ok (1, st)
                 | PL.SErr _ => Ok (-1, st)
                 | PL.SEmit e pst' => Ok (0, with_pev (with_player st pst') (Some e))
                 end
               end.
Definition player_ev (sx : eenv) (st : estate) (p : ptr_player) : ptr_ev := match es_pev st with Some _ => Some tt | None => None end.
Definition player_stream (sx : eenv) (st : estate) (p : ptr_player) : ptr_stream := option_map PL.o_id (es_pev st).
Definition system_get_lpt (sx : eenv) (st : estate) (s : ptr_stream) : ptr_lpt :=
  match s with Some id => en_lpt sx id | None => None end.

(* ---- the models' hooks *)
(* the event as the handler of model m sees it *)
Definition event_for (sx : eenv) (m : Z) (c : rawc) : event :=
  let '((m', cc, v), p, j, aux) := c in decode_all [m] (s_chans (en_sx sx)) m' cc v p j aux.

Definition call_event (s : ptr_spec) (e : ptr_emu) : M unit :=
  fun sx st =>
    match s, content_of sx st, c_thread (es_cur st) with
    | Some m, Some c, Some who =>
      if en_hook sx m HEvent then
        let ev := event_for sx m c in
        match es_models st with
        | MSem st0 None =>
          match core_step (en_sx sx) st0 who ev with
          | Ok (st1, dirty) => Ok (tt, with_models st (MSem st1 (Some (st0, dirty))))
          | Err _ => Err E_FAIL
          end
        | MSem _ (Some _) => Err E_TRAP      (* a handler on channels still dirty: outside the semantic model *)
        | MMech st0 b =>
          match core_step (en_sx sx) st0 who ev with
          | Ok (st1, dirty) =>
            match B.apply_writes b (B.handler_writes (en_sx sx) st0 st1 who ev dirty) with
            | Ok b1 => Ok (tt, with_models st (MMech st1 b1))
            | Err _ => Err E_FAIL
            end
          | Err _ => Err E_FAIL
          end
        end
      else Err E_TRAP
    | _, _, _ => Err E_TRAP
    end.

(* the PRV emit callbacks of the propagated channels *)
Definition write_lines (st : estate) (ls : list line) : result estate :=
  match PV.foldr PV.rec_write ls (es_rec st) with Ok r => Ok (with_rec st r) | Err _ => Err E_FAIL end.

Definition bay_propagate (b : ptr_bay) : M unit :=
  fun sx st =>
    match b with
    | None => Err E_TRAP
    | Some _ =>
      match es_models st with
      | MSem st1 None => Ok (tt, st)
      | MSem st1 (Some (st0, dirty)) =>
        match emit_all (prv_last st1) (all_reqs (en_sx sx) st0 st1 dirty) with
        | Ok (last', ls) =>
          match write_lines st ls with Ok st' => Ok (tt, with_models st' (MSem (set_last st1 last') None)) | Err e => Err e end
        | Err _ => Err E_FAIL
        end
      | MMech st1 bb =>
        match B.propagate bb (prv_last st1) with
        | Ok (b2, last', ls) =>
          match write_lines st ls with Ok st' => Ok (tt, with_models st' (MMech (set_last st1 last') b2)) | Err e => Err e end
        | Err _ => Err E_FAIL
        end
      end
    end.

Definition call_connect (s : ptr_spec) (e : ptr_emu) : M unit :=
  fun sx st => match s with
               | Some m => if en_hook sx m HConnect
                           then match en_connect sx m (es_rec st) with Ok r => Ok (tt, with_rec st r) | Err _ => Err E_FAIL end
                           else Err E_TRAP
               | None => Err E_TRAP
               end.
Definition call_create (s : ptr_spec) (e : ptr_emu) : M unit :=
  fun sx st => match s with Some m => if en_hook sx m HCreate then Ok (tt, st) else Err E_TRAP | None => Err E_TRAP end.
Definition call_finish (s : ptr_spec) (e : ptr_emu) : M unit :=
  fun sx st => match s with
               | Some m => if en_hook sx m HFinish
                           then match en_finish sx m (core_of (es_models st)) (es_rec st) with Ok r => Ok (tt, with_rec st r) | Err _ => Err E_FAIL end
                           else Err E_TRAP
               | None => Err E_TRAP
               end.

(* ---- emu_stat.c: progress report only *)
Definition emu_stat_init (s : ptr_stat) : M unit := ret tt.
Definition emu_stat_update (s : ptr_stat) (p : ptr_player) : M unit := ret tt.
Definition emu_stat_report (s : ptr_stat) (p : ptr_player) (last : Z) : M unit := ret tt.

(* ---- the callees of emu_init: order and failure only *)
Definition init_proc (k : nat) : M unit := fun sx st => Ok (tt, with_log st (k :: es_log st)).
Definition init_action (k : nat) : M unit :=
  fun sx st => if en_init_ok sx k then Ok (tt, with_log st (k :: es_log st)) else Err E_FAIL.
Definition zero_emu (e : ptr_emu) : M unit := init_proc 0.
Definition emu_args_init (a : ptr_args) (argc : Z) (argv : ptr_argv) : M unit := init_proc 1.
Definition trace_load (t : ptr_trace) (dir : ptr_str) : M unit := init_action 2.
Definition system_init (s : ptr_system) (a : ptr_args) (t : ptr_trace) : M unit := init_action 3.
Definition recorder_init (r : ptr_recorder) (dir : ptr_str) : M unit := init_action 4.
Definition bay_init (b : ptr_bay) : M unit := init_proc 5.
Definition system_connect (s : ptr_system) (b : ptr_bay) (r : ptr_recorder) : M unit := init_action 6.
Definition player_init (p : ptr_player) (t : ptr_trace) (unsorted : Z) : M unit := init_action 7.
Definition model_init (m : ptr_model) : M unit := init_proc 8.
Definition models_register (m : ptr_model) : M unit := init_action 9.
Definition model_probe (m : ptr_model) (e : ptr_emu) : M unit := init_action 10.
