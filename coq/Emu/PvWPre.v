(* Prelude of the generated file Gen/PvW_gen.v (translate/units/pvw.py): the world of the Paraver writer primitives of
   src/emu/pv/pcf.c, prf.c, prv.c.  The generated file renders pcf_find_type, pcf_add_type, pcf_find_value,
   pcf_add_value, write_header, write_type, write_types, pcf_close; prf_open, prf_add, prf_close; prv.c's write_header,
   prv_open_file, get_id, find_prv_chan, write_line, prv_register statement by statement in the reader + state + error
   monad below (`return -1` = fail E_FAIL, `return NULL` = ret None, an invalid memory access = E_TRAP).
   Definitions only; proofs in Proofs/PvWProofs.v.

   State: ONE struct pcf, ONE struct prf, ONE struct prv (the functions touch no other) and a table of FILEs.
   Hand-written here (not translated):
     - uthash: a hash table is the list of its entries in insertion order (uthash iterates in insertion order; the
       `hh.next` walk of write_type / write_types is the walk of that list).  HASH_FIND_* = the first entry with the key,
       HASH_ADD_* = append.  Entries are never removed by the three files.
     - pointers to table entries are POSITIONS in that list.  calloc() returns the position the new object WILL have
       once it is added (the current length) and keeps the object in a pending cell (w_tnew / w_cnew) until HASH_ADD
       appends it; an object whose function fails before HASH_ADD (label too long, bad flags) is leaked in the C and is
       unreachable here (the next calloc overwrites the cell; the C function returned NULL / -1, nobody holds the
       pointer).  A pending `struct pcf_value` is the distinguished pointer VNew (calloc cannot know the type it will be
       added to); every caller of pcf_add_value only compares the result with NULL.
     - char label[512] is a byte string without the terminating 0; snprintf(d, N, "%s", s) stores s truncated to N-1
       characters and returns the length of s.
     - fprintf: the translator parses the literal format into items; `render` prints them with PvDefs' dec / pad_left /
       pad_right / dec_pad0 (%d, %-Nd, %Nd, %0Nd, %s).  A FILE is the list of bytes written so far + an open flag;
       writing to a closed or NULL FILE is E_TRAP.
     - calloc / fopen / bay_add_cb succeed or fail as the environment says (e_calloc_ok, e_fopen_ok, e_bay_ok).
     - write_colors (pcf.c): primitive = "\n\nSTATES_COLOR\n" + one PvDefs.color_line per palette entry.
     - check_flags: the generated Prv_gen.check_flags (unit prv).  value_null, fn_cb_prv: opaque. *)
From Coq Require Import ZArith List Bool.
From OV Require Import Base.CInt Emu.EmuCoreDefs Emu.MarkDefs Emu.PvDefs.
From OV Require Emu.PrvPre Emu.ChanPre Gen.Prv_gen Gen.Pv_gen.
Import ListNotations.
Local Open Scope Z_scope.

Record wenv := { e_calloc_ok : bool; e_fopen_ok : bool; e_bay_ok : bool }.

Record cvalue := { vt : Z; vi : Z }.
Record ctype := { ct_id : Z; ct_label : str; ct_nvalues : Z; ct_values : list (Z * str) }.
Record crow := { r_label : str; r_set : Z }.
Record cchan := { cc_id : Z; cc_chan : Z; cc_row1 : Z; cc_type : Z; cc_flags : Z; cc_lset : Z; cc_last : cvalue }.

Definition ptr_file := option nat.

Record wstate := {
  w_files : list (str * bool);          (* FILE table: bytes written, still open *)
  (* struct pcf *)
  w_pcf_f : ptr_file;
  w_types : list ctype;                 (* pcf->types, insertion order *)
  w_tnew : option ctype;                (* calloc'ed struct pcf_type not yet in the table *)
  w_vnew : option (Z * str);            (* calloc'ed struct pcf_value not yet in a table *)
  (* struct prf *)
  w_prf_f : ptr_file;
  w_nrows : Z;
  w_rows : option (list crow);          (* prf->rows: NULL or the array *)
  (* struct prv *)
  w_prv_file : ptr_file;
  w_time : Z;
  w_prv_nrows : Z;
  w_chans : list cchan;                 (* prv->channels, insertion order *)
  w_cnew : option cchan;
  w_cbs : list (Z * nat)                (* bay_add_cb(bay, BAY_CB_EMIT, chan, cb_prv, rchan, 1) calls: (chan, rchan) *)
}.

Definition E_FAIL := 1%nat.
Definition E_TRAP := 99%nat.

Definition M (A : Type) : Type := wenv -> wstate -> result (A * wstate).
Definition ret {A} (a : A) : M A := fun _ st => Ok (a, st).
Definition fail {A} (e : nat) : M A := fun _ _ => Err e.
Definition bind {A B} (m : M A) (f : A -> M B) : M B :=
  fun sx st => match m sx st with Ok (a, st') => f a sx st' | Err e => Err e end.
Definition bind_ {A B} (m : M A) (k : M B) : M B := bind m (fun _ => k).
Definition eval {A} (f : wenv -> wstate -> A) : M A := fun sx st => Ok (f sx st, st).
Definition ite {A} (c : wenv -> wstate -> bool) (a b : M A) : M A :=
  fun sx st => if c sx st then a sx st else b sx st.
Definition need {A} (safe : wenv -> wstate -> bool) (k : M A) : M A :=
  fun sx st => if safe sx st then k sx st else Err E_TRAP.

(* ---------------------------------------------------------------- pointers *)
Definition ptr_pcf := unit.
Definition ptr_prf := unit.
Definition ptr_prv := unit.
Definition ptr_bay := unit.
Definition ptr_chan := Z.
Definition ptr_pcf_type := option nat.
Inductive vref := VNew | VAt (t i : nat).
Definition ptr_pcf_value := option vref.
Definition ptr_prf_row := option Z.
Definition ptr_prv_chan := option nat.
Definition ptr_bay_cb := option unit.
Inductive ptr_void := V_rchan (p : ptr_prv_chan).
Definition void_of_ptr_prv_chan (p : ptr_prv_chan) : ptr_void := V_rchan p.
Definition fn_cb_prv : unit := tt.
Inductive lref := L_type (h : nat) | L_value (v : vref) | L_row (i : Z).
Definition lptr := option lref.

(* ---------------------------------------------------------------- state updates *)
Definition upd_files (st : wstate) (x : list (str * bool)) : wstate :=
  {| w_files := x; w_pcf_f := w_pcf_f st; w_types := w_types st; w_tnew := w_tnew st; w_vnew := w_vnew st;
     w_prf_f := w_prf_f st; w_nrows := w_nrows st; w_rows := w_rows st; w_prv_file := w_prv_file st; w_time := w_time st;
     w_prv_nrows := w_prv_nrows st; w_chans := w_chans st; w_cnew := w_cnew st; w_cbs := w_cbs st |}.
Definition upd_pcf (st : wstate) (ts : list ctype) (tn : option ctype) (vn : option (Z * str)) : wstate :=
  {| w_files := w_files st; w_pcf_f := w_pcf_f st; w_types := ts; w_tnew := tn; w_vnew := vn;
     w_prf_f := w_prf_f st; w_nrows := w_nrows st; w_rows := w_rows st; w_prv_file := w_prv_file st; w_time := w_time st;
     w_prv_nrows := w_prv_nrows st; w_chans := w_chans st; w_cnew := w_cnew st; w_cbs := w_cbs st |}.
Definition upd_prf (st : wstate) (f : ptr_file) (n : Z) (rows : option (list crow)) : wstate :=
  {| w_files := w_files st; w_pcf_f := w_pcf_f st; w_types := w_types st; w_tnew := w_tnew st; w_vnew := w_vnew st;
     w_prf_f := f; w_nrows := n; w_rows := rows; w_prv_file := w_prv_file st; w_time := w_time st;
     w_prv_nrows := w_prv_nrows st; w_chans := w_chans st; w_cnew := w_cnew st; w_cbs := w_cbs st |}.
Definition upd_prv (st : wstate) (f : ptr_file) (t n : Z) (cs : list cchan) (cn : option cchan) (cbs : list (Z * nat)) : wstate :=
  {| w_files := w_files st; w_pcf_f := w_pcf_f st; w_types := w_types st; w_tnew := w_tnew st; w_vnew := w_vnew st;
     w_prf_f := w_prf_f st; w_nrows := w_nrows st; w_rows := w_rows st; w_prv_file := f; w_time := t;
     w_prv_nrows := n; w_chans := cs; w_cnew := cn; w_cbs := cbs |}.

Fixpoint find_idx {A} (f : A -> bool) (l : list A) : option nat :=
  match l with
  | [] => None
  | a :: r => if f a then Some O else match find_idx f r with Some i => Some (S i) | None => None end
  end.

(* ---------------------------------------------------------------- FILEs *)
Inductive fflag := FL | FR | FZ.
Inductive fitem := F_lit (s : str) | F_str (s : str) | F_dec (fl : fflag) (w : nat) (v : Z).
Definition render_item (i : fitem) : str :=
  match i with
  | F_lit s => s
  | F_str s => s
  | F_dec FL w v => pad_right w (dec v)
  | F_dec FR w v => pad_left w SP (dec v)
  | F_dec FZ w v => dec_pad0 w v
  end.
Definition render (l : list fitem) : str := flat_map render_item l.

Definition fwrite (f : ptr_file) (bs : str) : M unit :=
  fun sx st =>
    match f with
    | None => Err E_TRAP
    | Some i => match nth_error (w_files st) i with
                | Some (c, true) => Ok (tt, upd_files st (update (w_files st) i (c ++ bs, true)))
                | _ => Err E_TRAP
                end
    end.
Definition fprintf (f : wenv -> wstate -> ptr_file) (items : wenv -> wstate -> list fitem) : M unit :=
  fun sx st => fwrite (f sx st) (render (items sx st)) sx st.
Definition fclose (f : ptr_file) : M unit :=
  fun sx st =>
    match f with
    | None => Err E_TRAP
    | Some i => match nth_error (w_files st) i with
                | Some (c, true) => Ok (tt, upd_files st (update (w_files st) i (c, false)))
                | _ => Err E_TRAP
                end
    end.
Definition file_bytes (st : wstate) (f : ptr_file) : str :=
  match f with Some i => fst (nth i (w_files st) ([], false)) | None => [] end.
Definition file_open (st : wstate) (f : ptr_file) : bool :=
  match f with Some i => snd (nth i (w_files st) ([], false)) | None => false end.

(* write_colors(f, palette, n) of pcf.c *)
Definition write_colors (f : ptr_file) (palette : list Z) (n : Z) : M unit :=
  fwrite f (unlines ([[]; []; S_STATES_COLOR] ++
                     map (fun x => color_line (Z.of_nat (fst x)) (snd x))
                         (combine (seq 0 (Z.to_nat n)) (firstn (Z.to_nat n) palette)))).

(* ---------------------------------------------------------------- struct pcf *)
Definition zero_ctype : ctype := {| ct_id := 0; ct_label := []; ct_nvalues := 0; ct_values := [] |}.

Definition tget (st : wstate) (h : nat) : option ctype :=
  if Nat.ltb h (length (w_types st)) then nth_error (w_types st) h
  else if Nat.eqb h (length (w_types st)) then w_tnew st else None.
Definition tset (h : nat) (f : ctype -> ctype) : M unit :=
  fun sx st =>
    if Nat.ltb h (length (w_types st)) then
      match nth_error (w_types st) h with
      | Some o => Ok (tt, upd_pcf st (update (w_types st) h (f o)) (w_tnew st) (w_vnew st))
      | None => Err E_TRAP
      end
    else if Nat.eqb h (length (w_types st)) then
      match w_tnew st with
      | Some o => Ok (tt, upd_pcf st (w_types st) (Some (f o)) (w_vnew st))
      | None => Err E_TRAP
      end
    else Err E_TRAP.
Definition tobj (st : wstate) (p : ptr_pcf_type) : ctype :=
  match p with Some h => match tget st h with Some o => o | None => zero_ctype end | None => zero_ctype end.

Definition get_pcf_f (sx : wenv) (st : wstate) (p : ptr_pcf) : ptr_file := w_pcf_f st.
Definition get_pcf_types (sx : wenv) (st : wstate) (p : ptr_pcf) : ptr_pcf_type :=
  match w_types st with [] => None | _ => Some O end.
Definition get_pcf_type_id (sx : wenv) (st : wstate) (p : ptr_pcf_type) : Z := ct_id (tobj st p).
Definition get_pcf_type_label (sx : wenv) (st : wstate) (p : ptr_pcf_type) : str := ct_label (tobj st p).
Definition get_pcf_type_nvalues (sx : wenv) (st : wstate) (p : ptr_pcf_type) : Z := ct_nvalues (tobj st p).
Definition get_pcf_type_values (sx : wenv) (st : wstate) (p : ptr_pcf_type) : ptr_pcf_value :=
  match p with
  | Some h => match ct_values (tobj st p) with [] => None | _ => Some (VAt h O) end
  | None => None
  end.
Definition vobj (st : wstate) (p : ptr_pcf_value) : Z * str :=
  match p with
  | Some VNew => match w_vnew st with Some x => x | None => (0, []) end
  | Some (VAt t i) => nth i (ct_values (tobj st (Some t))) (0, [])
  | None => (0, [])
  end.
Definition get_pcf_value_value (sx : wenv) (st : wstate) (p : ptr_pcf_value) : Z := fst (vobj st p).
Definition get_pcf_value_label (sx : wenv) (st : wstate) (p : ptr_pcf_value) : str := snd (vobj st p).

Definition on_type (p : ptr_pcf_type) (f : ctype -> ctype) : M unit :=
  fun sx st => match p with Some h => tset h f sx st | None => Err E_TRAP end.
Definition set_pcf_type_id (p : ptr_pcf_type) (v : wenv -> wstate -> Z) : M unit :=
  fun sx st => on_type p (fun o => {| ct_id := v sx st; ct_label := ct_label o; ct_nvalues := ct_nvalues o; ct_values := ct_values o |}) sx st.
Definition set_pcf_type_nvalues (p : ptr_pcf_type) (v : wenv -> wstate -> Z) : M unit :=
  fun sx st => on_type p (fun o => {| ct_id := ct_id o; ct_label := ct_label o; ct_nvalues := v sx st; ct_values := ct_values o |}) sx st.
(* type->values = NULL: the empty table (storing anything else into the head is not supported) *)
Definition set_pcf_type_values (p : ptr_pcf_type) (v : wenv -> wstate -> ptr_pcf_value) : M unit :=
  fun sx st => match v sx st with
               | None => on_type p (fun o => {| ct_id := ct_id o; ct_label := ct_label o; ct_nvalues := ct_nvalues o; ct_values := [] |}) sx st
               | Some _ => Err E_TRAP
               end.
Definition set_pcf_value_value (p : ptr_pcf_value) (v : wenv -> wstate -> Z) : M unit :=
  fun sx st => match p, w_vnew st with
               | Some VNew, Some x => Ok (tt, upd_pcf st (w_types st) (w_tnew st) (Some (v sx st, snd x)))
               | _, _ => Err E_TRAP
               end.

Definition calloc_pcf_type : M ptr_pcf_type :=
  fun sx st => if e_calloc_ok sx then Ok (Some (length (w_types st)), upd_pcf st (w_types st) (Some zero_ctype) (w_vnew st))
               else Ok (None, st).
Definition calloc_pcf_value : M ptr_pcf_value :=
  fun sx st => if e_calloc_ok sx then Ok (Some VNew, upd_pcf st (w_types st) (w_tnew st) (Some (0, [])))
               else Ok (None, st).

(* HASH_FIND_INT(pcf->types, &key, out) *)
Definition hash_find_pcf_types (p : ptr_pcf) (key : Z) : M ptr_pcf_type :=
  fun sx st => Ok (find_idx (fun o => ct_id o =? key) (w_types st), st).
(* HASH_ADD_INT(pcf->types, id, add) *)
Definition hash_add_pcf_types_by_id (p : ptr_pcf) (add : ptr_pcf_type) : M unit :=
  fun sx st => match add, w_tnew st with
               | Some h, Some o => if Nat.eqb h (length (w_types st))
                                   then Ok (tt, upd_pcf st (w_types st ++ [o]) None (w_vnew st)) else Err E_TRAP
               | _, _ => Err E_TRAP
               end.
(* HASH_FIND(hh, type->values, &key, sizeof(key), out) *)
Definition hash_find_pcf_type_values (t : ptr_pcf_type) (key : Z) : M ptr_pcf_value :=
  fun sx st => match t with
               | None => Err E_TRAP
               | Some h => match tget st h with
                           | None => Err E_TRAP
                           | Some o => Ok (match find_idx (fun x => fst x =? key) (ct_values o) with
                                           | Some i => Some (VAt h i) | None => None end, st)
                           end
               end.
(* HASH_ADD(hh, type->values, value, sizeof(value), add) *)
Definition hash_add_pcf_type_values_by_value (t : ptr_pcf_type) (add : ptr_pcf_value) : M unit :=
  fun sx st => match add, w_vnew st with
               | Some VNew, Some x =>
                 match on_type t (fun o => {| ct_id := ct_id o; ct_label := ct_label o; ct_nvalues := ct_nvalues o;
                                             ct_values := ct_values o ++ [x] |}) sx st with
                 | Ok (_, st') => Ok (tt, upd_pcf st' (w_types st') (w_tnew st') None)
                 | Err e => Err e
                 end
               | _, _ => Err E_TRAP
               end.

(* for (struct pcf_type *t = START; t != NULL; t = t->hh.next) BODY *)
Fixpoint walk {A} (l : list A) (body : A -> M unit) : M unit :=
  match l with
  | [] => ret tt
  | a :: r => bind_ (body a) (walk r body)
  end.
Definition for_hh_pcf_type (start : wenv -> wstate -> ptr_pcf_type) (body : ptr_pcf_type -> M unit) : M unit :=
  fun sx st => match start sx st with
               | None => Ok (tt, st)
               | Some i => walk (map Some (seq i (length (w_types st) - i))) body sx st
               end.
Definition for_hh_pcf_value (start : wenv -> wstate -> ptr_pcf_value) (body : ptr_pcf_value -> M unit) : M unit :=
  fun sx st => match start sx st with
               | None => Ok (tt, st)
               | Some VNew => Err E_TRAP
               | Some (VAt t i) =>
                 walk (map (fun j => Some (VAt t j)) (seq i (length (ct_values (tobj st (Some t))) - i))) body sx st
               end.
(* for (long i = 0; i < BOUND; i++) BODY   (the body stores nothing: BOUND is evaluated once) *)
Fixpoint loop_from (n : nat) (i : Z) (body : Z -> M unit) : M unit :=
  match n with
  | O => ret tt
  | S k => bind_ (body i) (loop_from k (i + 1) body)
  end.
Definition for_range (bound : wenv -> wstate -> Z) (body : Z -> M unit) : M unit :=
  fun sx st => loop_from (Z.to_nat (bound sx st)) 0 body sx st.

(* ---------------------------------------------------------------- labels: snprintf(d, n, "%s", s) *)
Definition addr_pcf_type_label (p : ptr_pcf_type) : lptr := match p with Some h => Some (L_type h) | None => None end.
Definition addr_pcf_value_label (p : ptr_pcf_value) : lptr := match p with Some v => Some (L_value v) | None => None end.
Definition addr_prf_row_label (p : ptr_prf_row) : lptr := match p with Some i => Some (L_row i) | None => None end.

Definition in_range {A} (l : list A) (i : Z) : bool := (0 <=? i) && (i <? Z.of_nat (length l)).

Definition store_label (d : lptr) (s : str) : M unit :=
  fun sx st =>
    match d with
    | None => Err E_TRAP
    | Some (L_type h) => tset h (fun o => {| ct_id := ct_id o; ct_label := s; ct_nvalues := ct_nvalues o; ct_values := ct_values o |}) sx st
    | Some (L_value VNew) => match w_vnew st with
                             | Some x => Ok (tt, upd_pcf st (w_types st) (w_tnew st) (Some (fst x, s)))
                             | None => Err E_TRAP
                             end
    | Some (L_value (VAt _ _)) => Err E_TRAP
    | Some (L_row i) => match w_rows st with
                        | Some l => if in_range l i
                                    then Ok (tt, upd_prf st (w_prf_f st) (w_nrows st)
                                                   (Some (update l (Z.to_nat i) {| r_label := s; r_set := r_set (nth (Z.to_nat i) l {| r_label := []; r_set := 0 |}) |})))
                                    else Err E_TRAP
                        | None => Err E_TRAP
                        end
    end.
Definition snprintf_s (d : lptr) (n : Z) (s : str) : M Z :=
  fun sx st => match store_label d (firstn (Z.to_nat (n - 1)) s) sx st with
               | Ok (_, st') => Ok (slen s, st')
               | Err e => Err e
               end.

(* ---------------------------------------------------------------- struct prf *)
Definition zero_row : crow := {| r_label := []; r_set := 0 |}.
Definition zero_prf (p : ptr_prf) : M unit := fun sx st => Ok (tt, upd_prf st None 0 None).
Definition fopen_into_prf_f (p : ptr_prf) (path : str) : M unit :=
  fun sx st => if e_fopen_ok sx
               then Ok (tt, upd_prf (upd_files st (w_files st ++ [([], true)])) (Some (length (w_files st))) (w_nrows st) (w_rows st))
               else Ok (tt, upd_prf st None (w_nrows st) (w_rows st)).
Definition calloc_into_prf_rows (p : ptr_prf) (n : wenv -> wstate -> Z) : M unit :=
  fun sx st => Ok (tt, upd_prf st (w_prf_f st) (w_nrows st)
                         (if e_calloc_ok sx then Some (repeat zero_row (Z.to_nat (n sx st))) else None)).
Definition get_prf_f (sx : wenv) (st : wstate) (p : ptr_prf) : ptr_file := w_prf_f st.
Definition get_prf_nrows (sx : wenv) (st : wstate) (p : ptr_prf) : Z := w_nrows st.
Definition get_prf_rows (sx : wenv) (st : wstate) (p : ptr_prf) : ptr_prf_row :=
  match w_rows st with Some _ => Some 0 | None => None end.
Definition set_prf_nrows (p : ptr_prf) (v : wenv -> wstate -> Z) : M unit :=
  fun sx st => Ok (tt, upd_prf st (w_prf_f st) (v sx st) (w_rows st)).
Definition addr_prf_rows_at (p : ptr_prf) (i : Z) : ptr_prf_row := Some i.
Definition robj (st : wstate) (p : ptr_prf_row) : crow :=
  match p, w_rows st with Some i, Some l => nth (Z.to_nat i) l zero_row | _, _ => zero_row end.
Definition get_prf_row_set (sx : wenv) (st : wstate) (p : ptr_prf_row) : Z := r_set (robj st p).
Definition get_prf_row_label (sx : wenv) (st : wstate) (p : ptr_prf_row) : str := r_label (robj st p).
Definition set_prf_row_set (p : ptr_prf_row) (v : wenv -> wstate -> Z) : M unit :=
  fun sx st => match p, w_rows st with
               | Some i, Some l => if in_range l i
                                   then Ok (tt, upd_prf st (w_prf_f st) (w_nrows st)
                                                  (Some (update l (Z.to_nat i) {| r_label := r_label (nth (Z.to_nat i) l zero_row); r_set := v sx st |})))
                                   else Err E_TRAP
               | _, _ => Err E_TRAP
               end.

(* ---------------------------------------------------------------- struct prv *)
Definition vnull : cvalue := {| vt := 0; vi := 0 |}.
Definition value_null (sx : wenv) (st : wstate) : cvalue := vnull.
Definition zero_cchan : cchan := {| cc_id := 0; cc_chan := 0; cc_row1 := 0; cc_type := 0; cc_flags := 0; cc_lset := 0; cc_last := vnull |}.
Definition zero_prv (p : ptr_prv) : M unit := fun sx st => Ok (tt, upd_prv st None 0 0 [] (w_cnew st) (w_cbs st)).
Definition get_prv_file (sx : wenv) (st : wstate) (p : ptr_prv) : ptr_file := w_prv_file st.
Definition get_prv_time (sx : wenv) (st : wstate) (p : ptr_prv) : Z := w_time st.
Definition get_prv_nrows (sx : wenv) (st : wstate) (p : ptr_prv) : Z := w_prv_nrows st.
Definition set_prv_nrows (p : ptr_prv) (v : wenv -> wstate -> Z) : M unit :=
  fun sx st => Ok (tt, upd_prv st (w_prv_file st) (w_time st) (v sx st) (w_chans st) (w_cnew st) (w_cbs st)).
Definition set_prv_file (p : ptr_prv) (v : wenv -> wstate -> ptr_file) : M unit :=
  fun sx st => Ok (tt, upd_prv st (v sx st) (w_time st) (w_prv_nrows st) (w_chans st) (w_cnew st) (w_cbs st)).

Definition calloc_prv_chan : M ptr_prv_chan :=
  fun sx st => if e_calloc_ok sx
               then Ok (Some (length (w_chans st)), upd_prv st (w_prv_file st) (w_time st) (w_prv_nrows st) (w_chans st) (Some zero_cchan) (w_cbs st))
               else Ok (None, st).
(* stores into a struct prv_chan: only the pending object is ever written by the translated functions *)
Definition on_cnew (p : ptr_prv_chan) (f : cchan -> cchan) : M unit :=
  fun sx st => match p, w_cnew st with
               | Some h, Some o => if Nat.eqb h (length (w_chans st))
                                   then Ok (tt, upd_prv st (w_prv_file st) (w_time st) (w_prv_nrows st) (w_chans st) (Some (f o)) (w_cbs st))
                                   else Err E_TRAP
               | _, _ => Err E_TRAP
               end.
Definition set_prv_chan_id (p : ptr_prv_chan) (v : wenv -> wstate -> Z) : M unit :=
  fun sx st => on_cnew p (fun o => {| cc_id := v sx st; cc_chan := cc_chan o; cc_row1 := cc_row1 o; cc_type := cc_type o; cc_flags := cc_flags o; cc_lset := cc_lset o; cc_last := cc_last o |}) sx st.
Definition set_prv_chan_chan (p : ptr_prv_chan) (v : wenv -> wstate -> ptr_chan) : M unit :=
  fun sx st => on_cnew p (fun o => {| cc_id := cc_id o; cc_chan := v sx st; cc_row1 := cc_row1 o; cc_type := cc_type o; cc_flags := cc_flags o; cc_lset := cc_lset o; cc_last := cc_last o |}) sx st.
Definition set_prv_chan_row_base1 (p : ptr_prv_chan) (v : wenv -> wstate -> Z) : M unit :=
  fun sx st => on_cnew p (fun o => {| cc_id := cc_id o; cc_chan := cc_chan o; cc_row1 := v sx st; cc_type := cc_type o; cc_flags := cc_flags o; cc_lset := cc_lset o; cc_last := cc_last o |}) sx st.
Definition set_prv_chan_type (p : ptr_prv_chan) (v : wenv -> wstate -> Z) : M unit :=
  fun sx st => on_cnew p (fun o => {| cc_id := cc_id o; cc_chan := cc_chan o; cc_row1 := cc_row1 o; cc_type := v sx st; cc_flags := cc_flags o; cc_lset := cc_lset o; cc_last := cc_last o |}) sx st.
Definition set_prv_chan_flags (p : ptr_prv_chan) (v : wenv -> wstate -> Z) : M unit :=
  fun sx st => on_cnew p (fun o => {| cc_id := cc_id o; cc_chan := cc_chan o; cc_row1 := cc_row1 o; cc_type := cc_type o; cc_flags := v sx st; cc_lset := cc_lset o; cc_last := cc_last o |}) sx st.
Definition set_prv_chan_last_value_set (p : ptr_prv_chan) (v : wenv -> wstate -> Z) : M unit :=
  fun sx st => on_cnew p (fun o => {| cc_id := cc_id o; cc_chan := cc_chan o; cc_row1 := cc_row1 o; cc_type := cc_type o; cc_flags := cc_flags o; cc_lset := v sx st; cc_last := cc_last o |}) sx st.
Definition set_prv_chan_last_value (p : ptr_prv_chan) (v : wenv -> wstate -> cvalue) : M unit :=
  fun sx st => on_cnew p (fun o => {| cc_id := cc_id o; cc_chan := cc_chan o; cc_row1 := cc_row1 o; cc_type := cc_type o; cc_flags := cc_flags o; cc_lset := cc_lset o; cc_last := v sx st |}) sx st.
(* rchan->prv = prv: there is one struct prv; the back pointer carries no information *)
Definition set_prv_chan_prv (p : ptr_prv_chan) (v : wenv -> wstate -> ptr_prv) : M unit := on_cnew p (fun o => o).

(* HASH_FIND_LONG(prv->channels, &id, out) / HASH_ADD_LONG(prv->channels, id, add) *)
Definition hash_find_prv_channels (p : ptr_prv) (key : Z) : M ptr_prv_chan :=
  fun sx st => Ok (find_idx (fun o => cc_id o =? key) (w_chans st), st).
Definition hash_add_prv_channels_by_id (p : ptr_prv) (add : ptr_prv_chan) : M unit :=
  fun sx st => match add, w_cnew st with
               | Some h, Some o => if Nat.eqb h (length (w_chans st))
                                   then Ok (tt, upd_prv st (w_prv_file st) (w_time st) (w_prv_nrows st) (w_chans st ++ [o]) None (w_cbs st))
                                   else Err E_TRAP
               | _, _ => Err E_TRAP
               end.

(* bay_add_cb(bay, BAY_CB_EMIT, chan, cb_prv, rchan, 1) *)
Definition bay_add_cb (b : ptr_bay) (kind : Z) (chan : ptr_chan) (fn : unit) (arg : ptr_void) (enabled : Z) : M ptr_bay_cb :=
  fun sx st => match arg with
               | V_rchan (Some h) =>
                 if e_bay_ok sx
                 then Ok (Some tt, upd_prv st (w_prv_file st) (w_time st) (w_prv_nrows st) (w_chans st) (w_cnew st) (w_cbs st ++ [(chan, h)]))
                 else Ok (None, st)
               | V_rchan None => Err E_TRAP
               end.

(* check_flags(flags): the generated function of unit prv, run in its own (irrelevant) state *)
Definition prv_dummy : PrvPre.pstate :=
  {| PrvPre.rflags := 0; PrvPre.lset := 0; PrvPre.lval := ChanPre.vnull; PrvPre.rrow := 0; PrvPre.rtyp := 0;
     PrvPre.cur := ChanPre.vnull; PrvPre.plines := [] |}.
Definition check_flags (flags : Z) : M unit :=
  fun sx st => match Prv_gen.check_flags flags tt prv_dummy with
               | Ok _ => Ok (tt, st)
               | Err _ => Err E_FAIL
               end.
