(* C12: the two classes of invalid content that are decided by the handlers, not by the stream
   loader: unknown events and wrong payload sizes "for events whose size the model checks".
   [wrong_size] is written from the handlers' documented payload shapes (doc/user/emulation/events.md
   and the payload checks of src/emu/{ovni,nosv,nanos6}/event.c, ovni/mark.c). *)
From Coq Require Import ZArith List Bool.
From OV Require Import Emu.EmuCoreDefs Emu.DecodeDefs Emu.MarkDefs Emu.CatalogDefs.
Import ListNotations.
Local Open Scope Z_scope.

(* event codes as (model, category, value) bytes; n = payload size in bytes; jumbo = jumbo flag *)
Definition wrong_size (m c v : Z) (n : nat) (jumbo : bool) : bool :=
  if m =? M_OVNI then
    if c =? 72 then (v =? 120) && Nat.ltb n 4                                  (* OHx: cpu index missing *)
    else if c =? 65 then ((v =? 115) && negb (Nat.eqb n 4))                     (* OAs: exactly 4 *)
                      || ((v =? 114) && negb (Nat.eqb n 8))                     (* OAr: exactly 8 *)
    else if c =? 77 then negb (Nat.eqb n 12)                                    (* OM[ OM] OM=: value + type *)
    else false
  else if m =? M_NOSV then
    if c =? 84 then ((v =? 99) || (v =? 67) || (v =? 120) || (v =? 101) || (v =? 114) || (v =? 112)) && Nat.ltb n 8
    else if c =? 89 then (v =? 99) && negb jumbo                               (* VYc must be a jumbo event *)
    else false
  else if m =? M_NANOS6 then
    if c =? 84 then ((v =? 99) && negb (Nat.eqb n 8))
                  || (((v =? 120) || (v =? 101) || (v =? 114) || (v =? 112)) && Nat.ltb n 4)
    else if c =? 89 then (v =? 99) && negb jumbo                               (* 6Yc must be a jumbo event *)
    else false
  else false.
