(* Prelude of the generated file Gen/MetaBuild_gen.v (translate/units/metabuild.py): the world of the builders of
   src/emu/system.c (create_thread, create_proc, create_loom, the loop body of create_system) and of loom_find_proc,
   loom_add_proc, loom_load_metadata (loom.c), proc_find_thread, proc_add_thread, proc_load_metadata (proc.c).

   The generated file renders those functions statement by statement in the state + error monad below (`return -1`,
   and `return NULL` in a pointer function, = fail E_FAIL: every caller turns them into its own error return).

   Hand-written here (not translated):
     - the state: the tables of the system under construction ARE the fact tables of Emu/MetaDefs.v (looms, CPUs,
       processes, app ids, ranks, threads; DL lists and uthash tables as insertion-ordered lists), the three objects a
       stream may malloc (pending loom / process / thread: the fields *_init_begin and the *_add_* functions set), the
       lpt array filled so far and stream_data_set's map;
     - handles: a struct loom * is NULL, the loom of a name in the table, or the pending object (ditto processes, threads);
     - a struct stream * is the stream's claims (MetaDefs.stream_meta): the gates loom_name, proc_stream_get_pid,
       thread_stream_get_tid, is_thread_stream and the loaders load_cpus, load_appid, load_rank, thread_load_metadata
       are the functions unit meta translates; their meaning on the claims
       is C15_stream_claims_from_source (only thread streams have claims, so is_thread_stream = 1 here);
     - the accessors proc_get_pid / proc_set_loom / thread_get_tid / thread_set_proc, HASH_FIND_INT / HASH_ADD_INT on
       loom->procs and proc->threads, is_init (0 while the system is built); malloc; DL_APPEND; nlooms / nprocs /
       nthreads (functions of the tables, not stored).
   Definitions only; proofs in Proofs/MetaBuildGenProofs.v. *)
From Coq Require Import ZArith List Bool.
From OV Require Import Base.CInt Emu.MetaDefs.
From OV Require Rt.MarkJsonDefs.
Import ListNotations.
Local Open Scope Z_scope.

Definition ptr_str := option name.
Definition ptr_sys := unit.
Definition ptr_stream := stream_meta.
Inductive lh := LTab (n : name) | LPend.
Inductive ph := PTab (k : pkey) | PPend.
Inductive th := TTab (k : key) | TPend.
Definition ptr_loom := option lh.
Definition ptr_proc := option ph.
Definition ptr_thread := option th.
Definition ptr_lpt := option nat.          (* &sys->lpt[i] *)

Record lpt := mkL { l_stream : option stream_meta; l_loom : option name; l_proc : option pkey; l_thread : option key }.
Definition lpt0 : lpt := mkL None None None None.

Record bstate := mkB {
  b_st : state;                   (* looms, CPUs, processes, app ids, ranks, threads: insertion order *)
  b_ploom : name;                 (* the malloc'ed struct loom: id *)
  b_pproc : pkey;                 (* the malloc'ed struct proc: loom (proc_set_loom), pid *)
  b_pthr : key;                   (* the malloc'ed struct thread: process (thread_set_proc), tid *)
  b_lpt : list lpt;               (* sys->lpt[0 .. i) *)
  b_data : list (stream_meta * nat)   (* stream_data_set *)
}.
Definition b0 : bstate := mkB st0 [] ([], 0) ([], 0, 0) [] [].

Definition E_FAIL := 20%nat.
Definition E_TRAP := 99%nat.
Definition E_DIE := 21%nat.
Inductive rres (A : Type) : Type := ROk (a : A) | RErr (e : nat).
Arguments ROk {A} a.
Arguments RErr {A} e.
Definition M (A : Type) : Type := bstate -> rres (A * bstate).
Definition ret {A} (a : A) : M A := fun st => ROk (a, st).
Definition fail {A} (e : nat) : M A := fun _ => RErr e.
Definition bind {A B} (m : M A) (f : A -> M B) : M B :=
  fun st => match m st with ROk (a, st') => f a st' | RErr e => RErr e end.
Definition bind_ {A B} (m : M A) (k : M B) : M B := bind m (fun _ => k).
Definition ite {A} (c : bool) (a b : M A) : M A := if c then a else b.
Definition is_null {A} (p : option A) : bool := match p with None => true | Some _ => false end.

(* state updates *)
Definition with_st (b : bstate) (x : state) : bstate := mkB x (b_ploom b) (b_pproc b) (b_pthr b) (b_lpt b) (b_data b).
Definition with_ploom (b : bstate) (n : name) : bstate := mkB (b_st b) n (b_pproc b) (b_pthr b) (b_lpt b) (b_data b).
Definition with_pproc (b : bstate) (k : pkey) : bstate := mkB (b_st b) (b_ploom b) k (b_pthr b) (b_lpt b) (b_data b).
Definition with_pthr (b : bstate) (k : key) : bstate := mkB (b_st b) (b_ploom b) (b_pproc b) k (b_lpt b) (b_data b).
Definition with_lpt (b : bstate) (l : list lpt) : bstate := mkB (b_st b) (b_ploom b) (b_pproc b) (b_pthr b) l (b_data b).
Definition with_data (b : bstate) (d : list (stream_meta * nat)) : bstate := mkB (b_st b) (b_ploom b) (b_pproc b) (b_pthr b) (b_lpt b) d.
Definition set_looms (x : state) (l : list name) : state := (l, snd x).
Definition set_cpus (x : state) (c : cpu_table) : state := (st_looms x, (c, snd (snd x))).
Definition set_procs (x : state) (p : list pkey) : state := (st_looms x, (st_cpus x, (p, snd (snd (snd x))))).
Definition set_apps_ranks (x : state) (a : list app_fact) (r : list rank_fact) : state :=
  (st_looms x, (st_cpus x, (st_procs x, (a, (r, st_threads x))))).
Definition set_threads (x : state) (t : list key) : state :=
  (st_looms x, (st_cpus x, (st_procs x, (st_apps x, (st_ranks x, t))))).

Definition loom_key (b : bstate) (h : lh) : name := match h with LTab n => n | LPend => b_ploom b end.
Definition proc_key (b : bstate) (h : ph) : pkey := match h with PTab k => k | PPend => b_pproc b end.
Definition thr_key (b : bstate) (h : th) : key := match h with TTab k => k | TPend => b_pthr b end.

(* the gates of unit meta on the claims of the stream *)
Definition loom_name_c (s : ptr_stream) : ptr_str := Some (s_loom s).
Definition proc_stream_get_pid_c (s : ptr_stream) : Z := if valid_proc (spkey s) then s_pid s else -1.
Definition thread_stream_get_tid_c (s : ptr_stream) : Z := if s_tid s <=? 0 then -1 else s_tid s.
Definition is_thread_stream (s : ptr_stream) : M Z := ret 1.

(* looms *)
(* find_loom is generated: the walk over the DL list sys->looms (insertion order) with an early return of the element,
   loom->id, strcmp = the sign of the lexicographic comparison of the bytes *)
Fixpoint str_cmp (a b : list Z) : Z :=
  match a, b with
  | [], [] => 0
  | [], _ :: _ => -1
  | _ :: _, [] => 1
  | x :: a', y :: b' => if x <? y then -1 else if y <? x then 1 else str_cmp a' b'
  end.
Definition strcmp_c (a b : ptr_str) : Z := match a, b with Some x, Some y => str_cmp x y | _, _ => 0 end.
Definition rd_loom_id (l : ptr_loom) : M ptr_str :=
  fun b => match l with Some h => ROk (Some (loom_key b h), b) | None => RErr E_TRAP end.
Fixpoint dl_find_names (l : list name) (p : ptr_loom -> M bool) : M ptr_loom :=
  match l with
  | [] => ret None
  | n :: r => bind (p (Some (LTab n))) (fun c => if c then ret (Some (LTab n)) else dl_find_names r p)
  end.
Definition dl_find_looms (sys : ptr_sys) (p : ptr_loom -> M bool) : M ptr_loom :=
  fun b => dl_find_names (st_looms (b_st b)) p b.
Definition calloc_loom : M ptr_loom := ret (Some LPend).
(* loom_init_begin is generated: memset, strchr(name, '/'), snprintf(loom->name, PATH_MAX, "%s", name) as its returned
   length (the stored bytes are cut at PATH_MAX - 1), loom->id = loom->name (the pending loom's name IS its id);
   hostname, rank_min and the virtual CPU are not part of the merge *)
Definition on_ploom (l : ptr_loom) (f : bstate -> bstate) : M unit :=
  fun b => match l with Some LPend => ROk (tt, f b) | _ => RErr E_TRAP end.
Definition memset_loom (l : ptr_loom) : M unit := on_ploom l (fun b => with_ploom b []).
Definition strchr_c (s : ptr_str) (c : Z) : ptr_str :=
  match s with Some x => if existsb (Z.eqb c) x then Some x else None | None => None end.
Definition snprintf_s_loom_name (l : ptr_loom) (size : Z) (s : ptr_str) : M Z :=
  fun b => match l, s with
           | Some LPend, Some x => ROk (Z.of_nat (length x), with_ploom b (firstn (Z.to_nat (size - 1)) x))
           | _, _ => RErr E_TRAP
           end.
Definition set_hostname_loom (l : ptr_loom) : M unit := on_ploom l (fun b => b).
Definition rd_loom_name (l : ptr_loom) : M ptr_str :=
  fun b => match l with Some LPend => ROk (Some (b_ploom b), b) | _ => RErr E_TRAP end.
Definition set_loom_id (l : ptr_loom) (v : ptr_str) : M unit :=
  fun b => match l, v with Some LPend, Some x => ROk (tt, with_ploom b x) | _, _ => RErr E_TRAP end.
Definition set_loom_rank_min (l : ptr_loom) (v : Z) : M unit := on_ploom l (fun b => b).
Definition cpu_init_begin_vcpu (l : ptr_loom) (i p v : Z) : M unit := on_ploom l (fun b => b).
Definition cpu_set_loom_vcpu (l l2 : ptr_loom) : M unit := on_ploom l (fun b => b).
Definition dl_append_looms (sys : ptr_sys) (l : ptr_loom) : M unit :=
  fun b => match l with
           | Some LPend => ROk (tt, with_st b (set_looms (b_st b) (st_looms (b_st b) ++ [b_ploom b])))
           | _ => RErr E_TRAP
           end.
Definition rd_system_nlooms (sys : ptr_sys) : M Z := fun b => ROk (Z.of_nat (length (st_looms (b_st b))) - 1, b).
Definition set_system_nlooms (sys : ptr_sys) (v : Z) : M unit := ret tt.
(* loom_load_metadata is generated; stream_metadata(s) is the stream's claims; load_cpus (head and entries: unit meta;
   find-or-insert: the hand model add_cpu) on the loom of the stream *)
Definition ptr_jobj := stream_meta.
Definition stream_metadata_c (s : ptr_stream) : ptr_jobj := s.
Definition load_cpus (l : ptr_loom) (s : ptr_jobj) : M Z :=
  fun b => match l with
           | Some h =>
             if name_eqb (loom_key b h) (s_loom s) then
               match part add_cpu cpu_claim (st_cpus (b_st b)) s with
               | Ok c' => ROk (0, with_st b (set_cpus (b_st b) c'))
               | _ => ROk (-1, b)
               end
             else RErr E_TRAP
           | None => RErr E_TRAP
           end.

(* processes: loom_find_proc and loom_add_proc are generated; HASH_FIND_INT / HASH_ADD_INT on loom->procs, the fields they use *)
Definition hash_find_proc (l : ptr_loom) (pid : Z) : M ptr_proc :=
  fun b => match l with
           | Some h => let k := (loom_key b h, pid) in
                       ROk (if in_dec pkey_dec k (st_procs (b_st b)) then Some (PTab k) else None, b)
           | None => RErr E_TRAP
           end.
Definition calloc_proc : M ptr_proc := ret (Some PPend).
(* proc_init_begin is generated: memset, the field stores, snprintf(proc->id, PATH_MAX, "proc.%d", pid) as its returned length
   (the bytes of the prefix + the decimal digits, MarkJsonDefs.render_int).  appid / rank / nranks of a new process are the
   absence of a fact in the tables (C15_stream_claims_from_source: 0 / -1 / 0); gindex and id are not stored *)
Definition on_pproc (p : ptr_proc) (f : bstate -> bstate) : M unit :=
  fun b => match p with Some PPend => ROk (tt, f b) | _ => RErr E_TRAP end.
Definition memset_proc (p : ptr_proc) : M unit := on_pproc p (fun b => with_pproc b (fst (b_pproc b), 0)).
Definition set_proc_gindex (p : ptr_proc) (v : Z) : M unit := on_pproc p (fun b => b).
Definition set_proc_appid (p : ptr_proc) (v : Z) : M unit := on_pproc p (fun b => b).
Definition set_proc_rank (p : ptr_proc) (v : Z) : M unit := on_pproc p (fun b => b).
Definition set_proc_nranks (p : ptr_proc) (v : Z) : M unit := on_pproc p (fun b => b).
Definition set_proc_pid (p : ptr_proc) (v : Z) : M unit := on_pproc p (fun b => with_pproc b (fst (b_pproc b), v)).
Definition dlen (prefix : list Z) (v : Z) : Z := Z.of_nat (length prefix + length (MarkJsonDefs.render_int v)).
Definition snprintf_d_proc_id (p : ptr_proc) (size : Z) (prefix : list Z) (v : Z) : M Z :=
  fun b => match p with Some PPend => ROk (dlen prefix v, b) | _ => RErr E_TRAP end.
Definition proc_get_pid (p : ptr_proc) : M Z :=
  fun b => match p with Some h => ROk (snd (proc_key b h), b) | None => RErr E_TRAP end.
(* loom->is_init is set by loom_init_end, after create_system *)
Definition rd_loom_is_init (l : ptr_loom) : M Z := fun b => match l with Some _ => ROk (0, b) | None => RErr E_TRAP end.
(* uthash does not look for the key: the pending process enters the table under (the loom, its pid) *)
Definition hash_add_proc (l : ptr_loom) (p : ptr_proc) : M unit :=
  fun b => match l, p with
           | Some h, Some PPend =>
             ROk (tt, with_st b (set_procs (b_st b) (st_procs (b_st b) ++ [(loom_key b h, snd (b_pproc b))])))
           | _, _ => RErr E_TRAP
           end.
(* nprocs / nthreads: functions of the tables, not stored *)
Definition rd_loom_nprocs (l : ptr_loom) : M Z := ret 0.
Definition set_loom_nprocs (l : ptr_loom) (v : Z) : M unit := ret tt.
Definition proc_set_loom (p : ptr_proc) (l : ptr_loom) : M unit :=
  fun b => match p, l with
           | Some PPend, Some h => ROk (tt, with_pproc b (loom_key b h, snd (b_pproc b)))
           | _, _ => RErr E_TRAP
           end.
(* proc_load_metadata is generated; load_appid and load_rank (unit meta; C15_stream_claims_from_source: struct proc is the
   slice of the fact tables for its key) on the process of the stream *)
Definition set_apps (x : state) (a : list app_fact) : state := (st_looms x, (st_cpus x, (st_procs x, (a, snd (snd (snd (snd x))))))).
Definition set_ranks (x : state) (r : list rank_fact) : state := (st_looms x, (st_cpus x, (st_procs x, (st_apps x, (r, st_threads x))))).
Definition load_appid (p : ptr_proc) (s : ptr_stream) : M Z :=
  fun b => match p with
           | Some h =>
             if pkey_eqb (proc_key b h) (spkey s) then
               match part add_app app_claim (st_apps (b_st b)) s with
               | Ok a' => ROk (0, with_st b (set_apps (b_st b) a'))
               | _ => ROk (-1, b)
               end
             else RErr E_TRAP
           | None => RErr E_TRAP
           end.
Definition load_rank (p : ptr_proc) (s : ptr_stream) : M Z :=
  fun b => match p with
           | Some h =>
             if pkey_eqb (proc_key b h) (spkey s) then
               match part add_rank rank_claim (st_ranks (b_st b)) s with
               | Ok r' => ROk (0, with_st b (set_ranks (b_st b) r'))
               | _ => ROk (-1, b)
               end
             else RErr E_TRAP
           | None => RErr E_TRAP
           end.

(* threads: proc_find_thread and proc_add_thread are generated *)
Definition hash_find_thread (p : ptr_proc) (tid : Z) : M ptr_thread :=
  fun b => match p with
           | Some h => let k := (proc_key b h, tid) in
                       ROk (if in_dec key_dec k (st_threads (b_st b)) then Some (TTab k) else None, b)
           | None => RErr E_TRAP
           end.
Definition calloc_thread : M ptr_thread := ret (Some TPend).
(* thread_init_begin is generated *)
Definition on_pthr (t : ptr_thread) (f : bstate -> bstate) : M unit :=
  fun b => match t with Some TPend => ROk (tt, f b) | _ => RErr E_TRAP end.
Definition memset_thread (t : ptr_thread) : M unit := on_pthr t (fun b => with_pthr b (fst (b_pthr b), 0)).
Definition set_thread_state (t : ptr_thread) (v : Z) : M unit := on_pthr t (fun b => b).
Definition set_thread_gindex (t : ptr_thread) (v : Z) : M unit := on_pthr t (fun b => b).
Definition set_thread_tid (t : ptr_thread) (v : Z) : M unit := on_pthr t (fun b => with_pthr b (fst (b_pthr b), v)).
Definition snprintf_d_thread_id (t : ptr_thread) (size : Z) (prefix : list Z) (v : Z) : M Z :=
  fun b => match t with Some TPend => ROk (dlen prefix v, b) | _ => RErr E_TRAP end.
Definition thread_load_metadata (t : ptr_thread) (s : ptr_stream) : M Z :=
  fun b => match t with Some _ => ROk (0, b) | None => RErr E_TRAP end.
Definition thread_get_tid (t : ptr_thread) : M Z :=
  fun b => match t with Some h => ROk (snd (thr_key b h), b) | None => RErr E_TRAP end.
Definition rd_proc_is_init (p : ptr_proc) : M Z := fun b => match p with Some _ => ROk (0, b) | None => RErr E_TRAP end.
Definition hash_add_thread (p : ptr_proc) (t : ptr_thread) : M unit :=
  fun b => match p, t with
           | Some h, Some TPend =>
             ROk (tt, with_st b (set_threads (b_st b) (st_threads (b_st b) ++ [(proc_key b h, snd (b_pthr b))])))
           | _, _ => RErr E_TRAP
           end.
Definition rd_proc_nthreads (p : ptr_proc) : M Z := ret 0.
Definition set_proc_nthreads (p : ptr_proc) (v : Z) : M unit := ret tt.
Definition thread_set_proc (t : ptr_thread) (p : ptr_proc) : M unit :=
  fun b => match t, p with
           | Some TPend, Some h => ROk (tt, with_pthr b (proc_key b h, snd (b_pthr b)))
           | _, _ => RErr E_TRAP
           end.

(* create_system's `for (struct stream *s = trace->streams; s; s = s->next)`: trace->streams is the list of the streams *)
Definition ptr_trace := list stream_meta.
Fixpoint for_streams (l : ptr_trace) (body : ptr_stream -> M Z) : M unit :=
  match l with [] => ret tt | s :: r => bind_ (body s) (for_streams r body) end.

(* the lpt array *)
Definition lpt_next (sys : ptr_sys) : M ptr_lpt :=
  fun b => ROk (Some (length (b_lpt b)), with_lpt b (b_lpt b ++ [lpt0])).
Fixpoint upd_nth {A} (l : list A) (i : nat) (f : A -> A) : list A :=
  match l, i with
  | [], _ => []
  | x :: r, O => f x :: r
  | x :: r, S i' => x :: upd_nth r i' f
  end.
Definition set_lpt (p : ptr_lpt) (f : bstate -> lpt -> option lpt) : M unit :=
  fun b => match p with
           | Some i => match nth_error (b_lpt b) i with
                       | Some x => match f b x with
                                   | Some y => ROk (tt, with_lpt b (upd_nth (b_lpt b) i (fun _ => y)))
                                   | None => RErr E_TRAP
                                   end
                       | None => RErr E_TRAP
                       end
           | None => RErr E_TRAP
           end.
Definition set_lpt_stream (p : ptr_lpt) (s : ptr_stream) : M unit :=
  set_lpt p (fun _ x => Some (mkL (Some s) (l_loom x) (l_proc x) (l_thread x))).
Definition set_lpt_loom (p : ptr_lpt) (l : ptr_loom) : M unit :=
  set_lpt p (fun b x => match l with Some h => Some (mkL (l_stream x) (Some (loom_key b h)) (l_proc x) (l_thread x)) | None => None end).
Definition set_lpt_proc (p : ptr_lpt) (q : ptr_proc) : M unit :=
  set_lpt p (fun b x => match q with Some h => Some (mkL (l_stream x) (l_loom x) (Some (proc_key b h)) (l_thread x)) | None => None end).
Definition set_lpt_thread (p : ptr_lpt) (t : ptr_thread) : M unit :=
  set_lpt p (fun b x => match t with Some h => Some (mkL (l_stream x) (l_loom x) (l_proc x) (Some (thr_key b h))) | None => None end).
(* system_get_lpt is generated: stream_data_get (the map stream_data_set fills; a struct stream * is compared as the
   stream's claims: two streams with the same claims are refused by create_thread), lpt->stream *)
Definition stream_dec : forall a b : stream_meta, {a = b} + {a <> b}.
Proof. repeat decide equality. Defined.
Definition stream_eqb (a b : ptr_stream) : bool := if stream_dec a b then true else false.
Fixpoint find_data (d : list (stream_meta * nat)) (s : stream_meta) : option nat :=
  match d with [] => None | (s', i) :: r => if stream_dec s' s then Some i else find_data r s end.
Definition stream_data_get (s : ptr_stream) : M ptr_lpt := fun b => ROk (find_data (b_data b) s, b).
Definition rd_lpt_stream (p : ptr_lpt) : M ptr_stream :=
  fun b => match p with
           | Some i => match nth_error (b_lpt b) i with
                       | Some x => match l_stream x with Some s => ROk (s, b) | None => RErr E_TRAP end
                       | None => RErr E_TRAP
                       end
           | None => RErr E_TRAP
           end.
Definition stream_data_set (s : ptr_stream) (p : ptr_lpt) : M unit :=
  fun b => match p with Some i => ROk (tt, with_data b (b_data b ++ [(s, i)])) | None => RErr E_TRAP end.
