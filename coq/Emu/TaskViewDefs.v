(* C07, last sentence: "While a body runs its thread shows that task's id, type, body id, app id and rank,
   and shows nothing when no body runs."  Definitions of the statement: what every task channel of a thread
   is expected to hold, as a function of the body that runs on that thread. *)
From Coq Require Import ZArith List Bool.
From OV Require Import Emu.EmuCoreDefs Emu.DecodeDefs.
From OV Require Gen.Tables_gen.
Import ListNotations.
Local Open Scope Z_scope.

(* the value a task channel holds while body b of task tk runs on a thread with info ti: the field, except that
   the rank channel is never written for a process without a rank (ti_rank < 0) *)
Definition expected_field (ti : thread_info) (tk : task) (b : body) (f : tfield) : value :=
  match f with
  | FRank => if 0 <=? ti_rank ti then field_value ti tk b f else None
  | _ => field_value ti tk b f
  end.

(* ... and nothing when no body runs *)
Definition expected (ti : thread_info) (o : option (task * body)) (f : tfield) : value :=
  match o with Some (tk, b) => expected_field ti tk b f | None => None end.

(* the task models of an emulation: handler configuration and model id, for the enabled ones *)
Definition task_models (en : list Z) (cs : list chanspec) : list (taskcfg * Z) :=
  (if memz M_NOSV en then [(nosv_cfg cs, M_NOSV)] else []) ++
  (if memz M_NANOS6 en then [(nanos6_cfg cs, M_NANOS6)] else []).

Definition tinfo (sx : static) (t : nat) : thread_info := nth t (s_threads sx) dummy_info.

(* the running body of thread t for a task model (body_get_running of the thread's stack of that model) *)
Definition thread_top (sx : static) (st : state) (t : nat) (mdl : Z) : option (task * body) :=
  running_top st (ti_loom (tinfo sx t)) (ti_pid (tinfo sx t)) (nth t (threads st) dummy_thread) mdl.

(* the invariant: every task channel of every thread holds the field of the running body, or null *)
Definition TV (sx : static) (en : list Z) (st : state) : Prop :=
  forall t, (t < length (s_threads sx))%nat ->
  forall cfg mdl, In (cfg, mdl) (task_models en (s_chans sx)) ->
  forall f k, In (f, k) (tc_chans cfg) ->
    r_val (raw_of st t k) = expected (tinfo sx t) (thread_top sx st t mdl) f.

(* the (model, channel index) of the channels behind the fields *)
Definition nosv_ids : list (tfield * Z * Z) :=
  [(FBody, M_NOSV, Tables_gen.c_nosv_CH_BODYID); (FTask, M_NOSV, Tables_gen.c_nosv_CH_TASKID);
   (FType, M_NOSV, Tables_gen.c_nosv_CH_TYPE); (FApp, M_NOSV, Tables_gen.c_nosv_CH_APPID);
   (FRank, M_NOSV, Tables_gen.c_nosv_CH_RANK)].
Definition nanos6_ids : list (tfield * Z * Z) :=
  [(FTask, M_NANOS6, Tables_gen.c_nanos6_CH_TASKID); (FType, M_NANOS6, Tables_gen.c_nanos6_CH_TYPE);
   (FRank, M_NANOS6, Tables_gen.c_nanos6_CH_RANK)].

Definition is_field (m i : Z) : bool :=
  existsb (fun '(_, m', i') => (m =? m') && (i =? i')) (nosv_ids ++ nanos6_ids).

(* static facts about the dumped tables, decided by computation: a task channel is a plain (non-stack) channel
   that starts null, and no table-driven event sets it *)
Definition field_spec_okb (sp : chanspec) : bool :=
  negb (is_field (cs_model sp) (cs_index sp)) ||
  (negb (cs_stack sp) && match cs_init sp with None => true | Some _ => false end).

Definition field_row_okb (row : Z * Z * Z * Z * Tables_gen.action * Z) : bool :=
  let '(m, _, _, ch, a, _) := row in
  match a with Tables_gen.SET => negb (is_field m ch) | _ => true end.
