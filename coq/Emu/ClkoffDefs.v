(* Model of the clock-offset table of the emulator (definitions only, executable).
     src/emu/clkoff.c   clkoff_load = cparse (fgets(buf, 1024) + sscanf "%ld%s %lf %lf %lf", cadd) + cindex
     src/emu/loom.c     set_hostname: loom name up to the first '.'
     src/emu/system.c   load_clock_offsets (optional <tracedir>/clock-offsets.txt),
                        parse_clkoff_entry (strcmp of loom.hostname with the entry name; every entry
                        must match at least one loom; offset = (int64_t) entry->median),
                        init_offsets (every entry in file order, then stream.clock_offset := loom.clock_offset)
   Bytes are Z in 0..255.  The file is split exactly as the successive fgets calls do (a line longer
   than 1023 bytes is seen as several "lines"); a buffer is a C string (cut at the first NUL).
   sscanf is modelled character by character as glibc does it in the C locale (conversions are NOT
   delimited by white space: "5host 1.5.3 7" reads index 5, name "host", median 1.5, mean .3, stdev 7).

   Numbers.  The index is a decimal long, clamped as strtol does.  For the three doubles only the
   SYNTAX accepted by %lf is modelled in full (decimal, exponent, hexadecimal, inf/infinity, nan);
   the VALUE of the median is modelled on the domain where the double conversion followed by the
   cast (int64_t) is exact whatever the rounding:
       [sign] digits [ '.' digits ]   without exponent, and
         - the fraction is zero and the integer part is <= 2^53, or
         - the integer part is < 2^40 and the fraction is <= 1 - 2^-12
           (then value <= I + 1 - 2^-12, which is a double below I + 1, so the correctly rounded
            double stays below I + 1 and the cast truncates to I).
   There the offset is the integer part with the sign (truncation toward zero): FInt.  Anything
   else (exponents, hex floats, inf, nan, larger magnitudes) is FOut: "outside the modelled
   numeric domain"; a table containing such a median gives OUnspec and is not compared. *)
From Coq Require Import ZArith List Bool Arith.
From OV Require Import Emu.HeapDefs Emu.PlayerDefs.
Import ListNotations.
Local Open Scope Z_scope.

(* ------------------------------------------------------------------ characters (C locale) *)

Definition is_space (c : Z) : bool := (c =? 32) || ((9 <=? c) && (c <=? 13)).
Definition is_digit (c : Z) : bool := (48 <=? c) && (c <=? 57).
Definition lower (c : Z) : Z := if (65 <=? c) && (c <=? 90) then c + 32 else c.
Definition is_xdigit (c : Z) : bool := is_digit c || ((97 <=? lower c) && (lower c <=? 102)).
Definition is_sign (c : Z) : bool := (c =? 45) || (c =? 43).

Fixpoint beq (a b : list Z) : bool :=
  match a, b with
  | [], [] => true
  | x :: a', y :: b' => (x =? y) && beq a' b'
  | _, _ => false
  end.

(* ------------------------------------------------------------------ fgets / C strings *)

(* the successive results of fgets(buf, 1024, f): a chunk ends after '\n' or after 1023 bytes;
   k = room left in the buffer, acc = bytes of the current chunk (reversed) *)
Fixpoint chunks (k : nat) (acc : list Z) (s : list Z) : list (list Z) :=
  match s with
  | [] => match acc with [] => [] | _ => [rev acc] end
  | c :: t =>
    if (c =? 10) || (k <=? 1)%nat then rev (c :: acc) :: chunks 1023 [] t
    else chunks (k - 1) (c :: acc) t
  end.

Definition file_lines (s : list Z) : list (list Z) := chunks 1023 [] s.

(* the buffer as a C string *)
Fixpoint cstr (s : list Z) : list Z :=
  match s with
  | [] => []
  | c :: t => if c =? 0 then [] else c :: cstr t
  end.

(* ------------------------------------------------------------------ sscanf conversions *)

Inductive sc (A : Type) : Type :=
| InputEnd                          (* end of the string before the conversion read anything *)
| ConvFail                          (* matching failure *)
| Conv (a : A) (rest : list Z).
Arguments InputEnd {A}.
Arguments ConvFail {A}.
Arguments Conv {A} a rest.

Fixpoint skip_ws (s : list Z) : list Z :=
  match s with
  | c :: t => if is_space c then skip_ws t else s
  | [] => []
  end.

Fixpoint span (p : Z -> bool) (s : list Z) : list Z * list Z :=
  match s with
  | c :: t => if p c then let (a, b) := span p t in (c :: a, b) else ([], s)
  | [] => ([], [])
  end.

Definition digits_val (ds : list Z) : Z := fold_left (fun a c => 10 * a + (c - 48)) ds 0.

Definition LONG_MAX : Z := 9223372036854775807.
Definition clamp_long (z : Z) : Z :=
  if z <? - LONG_MAX - 1 then - LONG_MAX - 1 else if LONG_MAX <? z then LONG_MAX else z.

(* %ld *)
Definition scan_long (s0 : list Z) : sc Z :=
  match skip_ws s0 with
  | [] => InputEnd
  | c :: t =>
    let body := if is_sign c then t else c :: t in
    let (ds, rest) := span is_digit body in
    match ds with
    | [] => ConvFail
    | _ => Conv (clamp_long (if c =? 45 then - digits_val ds else digits_val ds)) rest
    end
  end.

(* %s (no width) *)
Definition scan_str (s0 : list Z) : sc (list Z) :=
  match skip_ws s0 with
  | [] => InputEnd
  | s => let (w, rest) := span (fun c => negb (is_space c)) s in Conv w rest
  end.

(* value of a median *)
Inductive fval := FInt (z : Z) | FOut.

(* case-insensitive literal (given in lower case) *)
Fixpoint lit (w : list Z) (s : list Z) : option (list Z) :=
  match w with
  | [] => Some s
  | x :: w' =>
    match s with
    | c :: t => if lower c =? x then lit w' t else None
    | [] => None
    end
  end.

(* the main loop of the floating-point conversion of glibc's vfscanf: returns got_digit, the
   characters taken, the rest.  hex: after "0x"; gd: got_digit; gdot: got_dot; ge: got_e;
   lastexp: the last character taken is the exponent character *)
Fixpoint fl_loop (hex gd gdot ge lastexp : bool) (s : list Z) : bool * list Z * list Z :=
  match s with
  | [] => (gd, [], [])
  | c :: t =>
    let take r := match r with (g, a, b) => (g, c :: a, b) end in
    if is_digit c then take (fl_loop hex true gdot ge false t)
    else if negb ge && hex && is_xdigit c then take (fl_loop hex true gdot ge false t)
    else if ge && lastexp && is_sign c then take (fl_loop hex gd gdot ge false t)
    else if gd && negb ge && (lower c =? (if hex then 112 else 101)) then take (fl_loop hex gd true true true t)
    else if negb gdot && (c =? 46) then take (fl_loop hex gd true ge false t)
    else (gd, [], s)
  end.

Definition TWO53 : Z := 9007199254740992.
Definition TWO40 : Z := 1099511627776.

(* value of "digits [. digits]" with sign, on the exact domain *)
Definition dec_value (neg : bool) (taken : list Z) : fval :=
  let (ip, r) := span is_digit taken in
  let I := digits_val ip in
  let sgn z := if neg then - z else z in
  match r with
  | [] => if I <=? TWO53 then FInt (sgn I) else FOut
  | d :: fp =>
    if (d =? 46) && forallb is_digit fp then
      let F := digits_val fp in
      if (F =? 0) && (I <=? TWO53) then FInt (sgn I)
      else if (I <? TWO40) && (4096 * F <=? 4095 * 10 ^ Z.of_nat (length fp)) then FInt (sgn I)
      else FOut
    else FOut                       (* exponent *)
  end.

(* %lf *)
Definition scan_double (s0 : list Z) : sc fval :=
  match skip_ws s0 with
  | [] => InputEnd
  | c0 :: t0 =>
    let neg := c0 =? 45 in
    let s := if is_sign c0 then t0 else c0 :: t0 in
    match s with
    | [] => ConvFail                                  (* sign, then the end *)
    | c :: t =>
      if lower c =? 110 then                          (* nan *)
        match lit [97; 110] t with Some r => Conv FOut r | None => ConvFail end
      else if lower c =? 105 then                     (* inf / infinity *)
        match lit [110; 102] t with
        | None => ConvFail
        | Some r =>
          match r with
          | c' :: r' => if lower c' =? 105
                        then match lit [110; 105; 116; 121] r' with Some r'' => Conv FOut r'' | None => ConvFail end
                        else Conv FOut r
          | [] => Conv FOut r
          end
        end
      else
        let hexrest := match t with x :: t' => if (c =? 48) && (lower x =? 120) then Some t' else None | [] => None end in
        match hexrest with
        | Some t' =>
          match fl_loop true false false false false t' with
          | (_, taken, rest) => match taken with [] => ConvFail | _ => Conv FOut rest end
          end
        | None =>
          match fl_loop false false false false false s with
          | (gd, taken, rest) => if gd then Conv (dec_value neg taken) rest else ConvFail
          end
        end
    end
  end.

(* ------------------------------------------------------------------ one line: sscanf(buf, "%ld%s %lf %lf %lf") *)

Record entry := mkentry { e_index : Z; e_name : list Z; e_median : fval }.

Inductive lres :=
| LEof                      (* sscanf returned EOF: cparse stops reading, silently *)
| LFields (n : nat)         (* fewer than 5 conversions: "read n instead of 5 fields" *)
| LEntry (e : entry).

Definition scan_line (buf : list Z) : lres :=
  match scan_long buf with
  | InputEnd => LEof
  | ConvFail => LFields 0
  | Conv idx r1 =>
    match scan_str r1 with
    | Conv name r2 =>
      match scan_double r2 with      (* the ' ' directives are subsumed by the skipping of %lf *)
      | Conv med r3 =>
        match scan_double r3 with
        | Conv _ r4 =>
          match scan_double r4 with
          | Conv _ _ => LEntry (mkentry idx name med)
          | _ => LFields 4
          end
        | _ => LFields 3
        end
      | _ => LFields 2
      end
    | _ => LFields 1
    end
  end.

(* ------------------------------------------------------------------ clkoff_load *)

Inductive cerr :=
| EMissingHeader            (* empty file *)
| EFields (n : nat)         (* malformed line *)
| EDuplicate                (* cadd: "entry with name ... already exists" *)
| ENoEntries                (* cindex: nentries < 1 *)
| EUnknownHost              (* parse_clkoff_entry: "cannot find loom with hostname" *)
| EAlready.                 (* parse_clkoff_entry: "loom already has a clock offset" (proved unreachable) *)

Definition has_name (n : list Z) (tbl : list entry) : bool := existsb (fun e => beq (e_name e) n) tbl.

Definition blank_line (l : list Z) : bool := match l with c :: _ => c =? 10 | [] => false end.

(* the loop of cparse over the lines after the header; tbl in insertion (= file) order *)
Fixpoint cparse (ls : list (list Z)) (tbl : list entry) : cerr + list entry :=
  match ls with
  | [] => inr tbl
  | l :: t =>
    if blank_line l then cparse t tbl               (* buf[0] == '\n' *)
    else
      match scan_line (cstr l) with
      | LEof => inr tbl                             (* break *)
      | LFields n => inl (EFields n)
      | LEntry e => if has_name (e_name e) tbl then inl EDuplicate else cparse t (tbl ++ [e])
      end
  end.

Definition load_table (file : list Z) : cerr + list entry :=
  match file_lines file with
  | [] => inl EMissingHeader
  | _ :: ls =>
    match cparse ls [] with
    | inl e => inl e
    | inr [] => inl ENoEntries
    | inr tbl => inr tbl
    end
  end.

(* ------------------------------------------------------------------ looms *)

(* loom.c set_hostname *)
Fixpoint upto_dot (s : list Z) : list Z :=
  match s with
  | [] => []
  | c :: t => if c =? 46 then [] else c :: upto_dot t
  end.
Definition hostname (loom : list Z) : list Z := upto_dot (cstr loom).

Definition lstate := list (list Z * Z).       (* loom name, loom.clock_offset; in creation order *)

(* one loom per distinct loom name, in the order of the first stream that names it; offset 0 *)
Fixpoint init_looms (slooms : list (list Z)) (acc : lstate) : lstate :=
  match slooms with
  | [] => acc
  | l :: t => if existsb (fun x => beq (fst x) l) acc then init_looms t acc else init_looms t (acc ++ [(l, 0)])
  end.

(* the DL_FOREACH of parse_clkoff_entry: None = "already has a clock offset"; else new state and matches *)
Fixpoint set_matching (host : list Z) (off : Z) (ls : lstate) : option (lstate * nat) :=
  match ls with
  | [] => Some ([], O)
  | (nm, o) :: t =>
    if beq (hostname nm) host then
      if o =? 0 then
        match set_matching host off t with Some (t', n) => Some ((nm, off) :: t', S n) | None => None end
      else None
    else
      match set_matching host off t with Some (t', n) => Some ((nm, o) :: t', n) | None => None end
  end.

(* the first loop of init_offsets *)
Fixpoint apply_entries (es : list (list Z * Z)) (ls : lstate) : cerr + lstate :=
  match es with
  | [] => inr ls
  | (h, off) :: t =>
    match set_matching h off ls with
    | None => inl EAlready
    | Some (_, O) => inl EUnknownHost
    | Some (ls', _) => apply_entries t ls'
    end
  end.

Fixpoint loom_offset (ls : lstate) (loom : list Z) : Z :=
  match ls with
  | [] => 0
  | (nm, o) :: t => if beq nm loom then o else loom_offset t loom
  end.

(* (host, (int64_t) median) of every entry, when all medians are in the exact domain *)
Fixpoint exact_entries (es : list entry) : option (list (list Z * Z)) :=
  match es with
  | [] => Some []
  | e :: t =>
    match e_median e, exact_entries t with
    | FInt z, Some r => Some ((e_name e, z) :: r)
    | _, _ => None
    end
  end.

Inductive outcome (A : Type) : Type :=
| OOk (a : A)
| OErr (e : cerr)            (* ovniemu exits with failure *)
| OUnspec.                   (* a median outside the modelled numeric domain *)
Arguments OOk {A} a.
Arguments OErr {A} e.
Arguments OUnspec {A}.

(* system_init: load_clock_offsets + init_offsets.  tbl = None: no clock-offsets.txt in the trace
   directory.  slooms: the loom name (metadata ovni.loom) of every stream, in trace order.
   Result: stream.clock_offset of every stream, in the same order. *)
Definition entries_offsets (es : list entry) (slooms : list (list Z)) : outcome (list Z) :=
  match exact_entries es with
  | None => OUnspec
  | Some hes =>
    match apply_entries hes (init_looms slooms []) with
    | inl e => OErr e
    | inr ls => OOk (map (loom_offset ls) slooms)
    end
  end.

Definition trace_offsets (tbl : option (list Z)) (slooms : list (list Z)) : outcome (list Z) :=
  match tbl with
  | None => OOk (map (fun _ => 0) slooms)
  | Some file =>
    match load_table file with
    | inl e => OErr e
    | inr es => entries_offsets es slooms
    end
  end.

(* ------------------------------------------------------------------ Spec *)
(* Independent reading of "the clock offset of the stream's host": the median of the table entry
   whose name IS the host name, 0 when there is none.  No loom state, no loops over entries. *)

Fixpoint host_offset (hes : list (list Z * Z)) (host : list Z) : Z :=
  match hes with
  | [] => 0
  | (h, o) :: t => if beq h host then o else host_offset t host
  end.

(* ------------------------------------------------------------------ the emulator on (streams with loom names, table) *)

Record tstrm := mktstrm { t_loom : list Z; t_evs : list ev }.   (* loom name, events (clock, payload) *)
Definition no_tstrm : tstrm := mktstrm [] [].

(* insertion sort of PlayerDefs.sort_streams for any content (the order looks at the path only) *)
Fixpoint ble (a b : list Z) : bool :=
  match a, b with
  | [], _ => true
  | _ :: _, [] => false
  | x :: a', y :: b' => if x <? y then true else if y <? x then false else ble a' b'
  end.
Fixpoint ins_by_path {A : Type} (x : list Z * A) (l : list (list Z * A)) : list (list Z * A) :=
  match l with
  | [] => [x]
  | y :: t => if ble (fst x) (fst y) then x :: y :: t else y :: ins_by_path x t
  end.
Definition sort_by_path {A : Type} (enum : list (list Z * A)) : list (list Z * A) :=
  fold_right ins_by_path [] enum.

(* the streams in trace order *)
Definition trace_tstreams (enum : list (list Z * tstrm)) : list tstrm := map snd (sort_by_path enum).

(* stream.clock_offset := the offset computed by system_init; then the player of PlayerDefs *)
Fixpoint zip_offs (enum : list (list Z * tstrm)) (offs : list Z) : list (list Z * strm) :=
  match enum, offs with
  | x :: t, o :: r => (fst x, mkstrm o (t_evs (snd x))) :: zip_offs t r
  | _, _ => []
  end.

Definition run_emu_table (tbl : option (list Z)) (enum : list (list Z * tstrm)) : outcome (list oev * verdict) :=
  match trace_offsets tbl (map (fun x => t_loom (snd x)) enum) with
  | OOk offs => OOk (run_emu (zip_offs enum offs))
  | OErr e => OErr e
  | OUnspec => OUnspec
  end.

(* the same streams with the offset READ OFF the table by host name (Spec side) *)
Definition attach (hes : list (list Z * Z)) (x : list Z * tstrm) : list Z * strm :=
  (fst x, mkstrm (host_offset hes (hostname (t_loom (snd x)))) (t_evs (snd x))).

Definition attach_s (hes : list (list Z * Z)) (t : tstrm) : strm :=
  mkstrm (host_offset hes (hostname (t_loom t))) (t_evs t).

(* the (host, offset) pairs a table file stands for: none without file *)
Definition table_entries (tbl : option (list Z)) : option (list (list Z * Z)) :=
  match tbl with
  | None => Some []
  | Some file => match load_table file with inl _ => None | inr es => exact_entries es end
  end.

(* "corrected time = stream clock + the offset written in the table for the host of the stream's loom";
   ts: the streams in trace (relative path) order *)
Definition spec_corrected_table (hes : list (list Z * Z)) (ts : list tstrm) (out : list oev) : Prop :=
  Forall (fun o => o_sclock o = o_rclock o + host_offset hes (hostname (t_loom (nth (o_id o) ts no_tstrm)))) out.

(* what cparse accepts: lines consumed up to the end or up to the first line on which sscanf returns
   EOF, each an empty line or a line with 5 conversions *)
Inductive parsed_prefix : list (list Z) -> list entry -> Prop :=
| PP_end : parsed_prefix [] []
| PP_eof l t : blank_line l = false -> scan_line (cstr l) = LEof -> parsed_prefix (l :: t) []
| PP_blank l t es : blank_line l = true -> parsed_prefix t es -> parsed_prefix (l :: t) es
| PP_entry l t e es : blank_line l = false -> scan_line (cstr l) = LEntry e -> parsed_prefix t es ->
    parsed_prefix (l :: t) (e :: es).

(* a well-formed table line as ovnisync writes it, fields as digit strings *)
Record row := mkrow {
  r_index : list Z;           (* digits *)
  r_name : list Z;            (* non-empty, no white space, no NUL *)
  r_neg : bool; r_median : list Z;   (* sign and digits of the median *)
  r_mean : list Z; r_std : list Z    (* digits *)
}.
Definition render_row (r : row) : list Z :=
  r_index r ++ 32 :: r_name r ++ 32 :: (if r_neg r then [45] else []) ++ r_median r ++ 32 :: r_mean r ++ 32 :: r_std r ++ [10].
Definition row_ok (r : row) : bool :=
  let digs l := match l with [] => false | _ => forallb is_digit l end in
  digs (r_index r) && digs (r_median r) && digs (r_mean r) && digs (r_std r) &&
  match r_name r with [] => false | _ => forallb (fun c => negb (is_space c) && negb (c =? 0)) (r_name r) end &&
  (Z.of_nat (length (render_row r)) <=? 1023) &&
  (digits_val (r_index r) <=? LONG_MAX) && (digits_val (r_median r) <=? TWO53).
Definition row_entry (r : row) : entry :=
  mkentry (digits_val (r_index r)) (r_name r)
          (FInt (if r_neg r then - digits_val (r_median r) else digits_val (r_median r))).
Definition header_ok (h : list Z) : bool :=
  forallb (fun c => negb (c =? 10)) h && (Z.of_nat (length h) <=? 1022).
Definition render_table (h : list Z) (rows : list row) : list Z := h ++ 10 :: concat (map render_row rows).
