(* C03, unit traceload: the hand-written prelude under coq/Gen/TraceLoad_gen.v (src/emu/trace.c:
   is_stream, cb_nftw, trace_load as syntax trees).

   What is a primitive here, i.e. NOT read from the source by this unit:
     - the C library: memset, snprintf("%s") into trace->tracedir, strcmp against a literal, opendir,
       closedir, nftw (the walk itself: which paths it visits, in which order and with which typeflag, is
       the environment x_walk; nftw calls the callback on each of them in that order and stops at the
       first nonzero return, which it returns);
     - path.c: path_remove_trailing, path_filename (Gallina functions on byte strings below);
     - trace.c:load_stream and stream.c:stream_load: the path arithmetic of load_stream (path_copy,
       path_dirname, skip strlen(tracedir) bytes and the leading slashes) is the function relpath_of below,
       stream_load is the environment x_stream (what a stream directory loads as, or that it fails);
       add_stream is DL_APPEND + nstreams++;
     - DL_SORT(trace->streams, cmp_streams): PlayerDefs.sort_streams, whose comparator is tied to
       trace.c:cmp_streams by unit cmp_player (CmpPlayerProofs.sort_streams_from_source).
   Definitions only. *)
From Coq Require Import ZArith List Bool.
From OV Require Import Base.CInt Emu.CmpPre Emu.PlayerDefs.
Import ListNotations.
Local Open Scope Z_scope.

Definition cstr := list Z.                 (* a non-NULL NUL-terminated string: its bytes without the NUL *)
Definition ptr_trace := option unit.
Definition ptr_dir := option unit.
Definition ptr_stat := option unit.
Definition ptr_ftw := option unit.

Record tstate := mk_tstate {
  t_dir : cstr;                            (* trace->tracedir *)
  t_streams : list (list Z * strm);        (* trace->streams in list order: relpath, what stream_load read *)
  t_n : Z;                                 (* trace->nstreams *)
  t_cur : ptr_trace                        (* the file-scope cur_trace *)
}.

Record tenv := mk_tenv {
  x_open : cstr -> bool;                               (* opendir(path) != NULL *)
  x_close : bool;                                      (* closedir() == 0 *)
  x_walk : cstr -> option (list (cstr * Z));           (* nftw(path): the visited (fpath, typeflag), None: nftw fails by itself *)
  x_stream : cstr -> cstr -> option strm               (* stream_load(tracedir, relpath) *)
}.

Definition E_FAIL := 20%nat.
Definition E_TRAP := 99%nat.

Inductive res (A : Type) : Type :=
| Ok (a : A) (st : tstate)
| Err (e : nat).
Arguments Ok {A} a st.
Arguments Err {A} e.

Definition M (A : Type) : Type := tenv -> tstate -> res A.
Definition ret {A} (a : A) : M A := fun _ st => Ok a st.
Definition fail {A} (e : nat) : M A := fun _ _ => Err e.
Definition bind {A B} (m : M A) (f : A -> M B) : M B :=
  fun sx st => match m sx st with Ok a st' => f a sx st' | Err e => Err e end.
Definition bind_ {A B} (m : M A) (k : M B) : M B := bind m (fun _ => k).
Definition eval {A} (f : tenv -> tstate -> A) : M A := fun sx st => Ok (f sx st) st.
Definition ite {A} (c : tenv -> tstate -> bool) (a b : M A) : M A :=
  fun sx st => if c sx st then a sx st else b sx st.
Definition need {A} (safe : tenv -> tstate -> bool) (k : M A) : M A :=
  fun sx st => if safe sx st then k sx st else Err E_TRAP.

(* ------------------------------------------------------------------ strings *)
Definition slash : Z := 47.
Definition is_slash (c : Z) : bool := c =? slash.
Fixpoint drop_while (f : Z -> bool) (l : list Z) : list Z :=
  match l with [] => [] | c :: t => if f c then drop_while f t else l end.
Fixpoint take_while (f : Z -> bool) (l : list Z) : list Z :=
  match l with [] => [] | c :: t => if f c then c :: take_while f t else [] end.

(* path.c:path_remove_trailing *)
Definition path_remove_trailing_v (p : cstr) : cstr := rev (drop_while is_slash (rev p)).
(* path.c:path_filename: after the last '/', the whole string if there is none *)
Definition path_filename (sx : tenv) (st : tstate) (p : cstr) : cstr :=
  rev (take_while (fun c => negb (is_slash c)) (rev p)).
(* path.c:path_dirname: no trailing slashes, then cut at the last '/' and the slashes before it
   (unchanged when no '/' is left) *)
Definition path_dirname_v (p : cstr) : cstr :=
  let q := path_remove_trailing_v p in
  match drop_while (fun c => negb (is_slash c)) (rev q) with
  | [] => q
  | r => rev (drop_while is_slash r)
  end.
Definition strcmp_lit (a lit : cstr) : Z := strcmp a lit.

(* load_stream: path = dirname(json_path); relpath = path + strlen(tracedir), leading slashes skipped *)
Definition relpath_of (dir json_path : cstr) : cstr :=
  drop_while is_slash (skipn (length dir) (path_dirname_v json_path)).

(* ------------------------------------------------------------------ struct trace, cur_trace *)
Definition get_trace_tracedir (sx : tenv) (st : tstate) (p : ptr_trace) : cstr := t_dir st.
Definition set_trace_tracedir (p : ptr_trace) (v : tenv -> tstate -> cstr) : M unit :=
  fun sx st => match p with
               | Some _ => Ok tt (mk_tstate (v sx st) (t_streams st) (t_n st) (t_cur st))
               | None => Err E_TRAP
               end.
Definition get_global_cur_trace (sx : tenv) (st : tstate) : ptr_trace := t_cur st.
Definition set_global_cur_trace (v : tenv -> tstate -> ptr_trace) : M unit :=
  fun sx st => Ok tt (mk_tstate (t_dir st) (t_streams st) (t_n st) (v sx st)).
(* memset(trace, 0, sizeof(struct trace)) *)
Definition zero_trace (p : ptr_trace) : M unit :=
  fun sx st => match p with
               | Some _ => Ok tt (mk_tstate [] [] 0 (t_cur st))
               | None => Err E_TRAP
               end.
(* if (snprintf(trace->tracedir, N, "%s", s) >= N) return -1 *)
Definition str_copy_trace_tracedir (p : ptr_trace) (n : Z) (v : tenv -> tstate -> cstr) : M unit :=
  fun sx st => match p with
               | Some _ => if Z.of_nat (length (v sx st)) >=? n then Err E_FAIL
                           else Ok tt (mk_tstate (v sx st) (t_streams st) (t_n st) (t_cur st))
               | None => Err E_TRAP
               end.

(* ------------------------------------------------------------------ directory *)
Definition opendir (path : cstr) : M ptr_dir :=
  fun sx st => Ok (if x_open sx path then Some tt else None) st.
Definition closedir (d : ptr_dir) : M unit :=
  fun sx st => match d with
               | Some _ => if x_close sx then Ok tt st else Err E_FAIL
               | None => Err E_TRAP
               end.
Fixpoint walk (cb : cstr -> ptr_stat -> Z -> ptr_ftw -> M unit) (l : list (cstr * Z)) : M unit :=
  match l with
  | [] => ret tt
  | (p, f) :: t => bind_ (cb p (Some tt) f (Some tt)) (walk cb t)
  end.
Definition nftw (path : cstr) (cb : cstr -> ptr_stat -> Z -> ptr_ftw -> M unit) (nopenfd flags : Z) : M unit :=
  fun sx st => match x_walk sx path with
               | Some l => walk cb l sx st
               | None => Err E_FAIL
               end.

(* trace.c:load_stream (path_copy refuses PATH_MAX bytes or more) *)
Definition load_stream (tr : ptr_trace) (json_path : cstr) : M unit :=
  fun sx st => match tr with
               | None => Err E_TRAP
               | Some _ =>
                 if Z.of_nat (length json_path) >=? 4096 then Err E_FAIL
                 else let rel := relpath_of (t_dir st) json_path in
                      match x_stream sx (t_dir st) rel with
                      | None => Err E_FAIL
                      | Some s => Ok tt (mk_tstate (t_dir st) (t_streams st ++ [(rel, s)]) (t_n st + 1) (t_cur st))
                      end
               end.

(* DL_SORT(trace->streams, cmp_streams) *)
Definition dl_sort_streams (p : ptr_trace) : M unit :=
  fun sx st => match p with
               | Some _ => Ok tt (mk_tstate (t_dir st) (sort_streams (t_streams st)) (t_n st) (t_cur st))
               | None => Err E_TRAP
               end.
