(* C15 - metadata merge: model of system_init (src/emu/system.c), load_cpus /
   loom_init_end / loom_sort (loom.c), load_appid / load_rank (proc.c),
   create_thread (system.c, thread.c), after trace_load (trace.c) has enumerated
   the streams.  The input list is the stream list in enumeration order (the
   order of trace->streams, i.e. sorted by relpath).

   Containers.  uthash tables and utlist lists are insertion-ordered; nothing is
   ever deleted while the system is built, so iteration order = insertion order.
   A table nested in a parent (CPUs and processes of a loom, threads of a
   process) is represented by ONE flat insertion-ordered list of entries that
   carry the parent's key; "the table of parent k" is that list filtered by k
   (filtering keeps the order).  proc->appid and proc->rank/nranks are the
   partial maps [st_apps] / [st_ranks] (no entry = the C initial value 0 / -1).
   HASH_SORT, DL_SORT are bottom-up merge sorts taking the left element on
   [cmp <= 0], i.e. stable; [isort] is a stable sort with the same comparator.

   Numbers are Z (the C code casts the JSON double to int: the tie only uses
   values that fit an int).  JSON parsing (parson) is not modelled: a stream is
   the record of the attributes the emulator reads. *)
From Coq Require Import ZArith List Bool Lia Permutation.
Import ListNotations.
Local Open Scope Z_scope.

(* ------------------------------------------------------------------ input *)
Definition name := list Z.           (* bytes of ovni.loom, no NUL *)

Record stream_meta := mkS {
  s_loom   : name;                   (* ovni.loom *)
  s_pid    : Z;                      (* ovni.pid *)
  s_tid    : Z;                      (* ovni.tid *)
  s_app    : option Z;               (* ovni.app_id, may be absent *)
  s_rank   : option Z;               (* ovni.rank, optional *)
  s_nranks : option Z;               (* ovni.nranks (only read when rank is there) *)
  s_cpus   : option (list (Z * Z))   (* ovni.loom_cpus: (index, phyid); Some [] = empty array *)
}.

Inductive outcome (A : Type) : Type := Ok (a : A) | Err | Crash.
Arguments Ok {A} a.
Arguments Err {A}.
Arguments Crash {A}.

Definition bind {A B} (r : outcome A) (f : A -> outcome B) : outcome B :=
  match r with Ok a => f a | Err => Err | Crash => Crash end.

Definition lift {A} (o : option A) : outcome A :=
  match o with Some a => Ok a | None => Err end.

(* left-to-right loop with early exit on the first error / crash *)
Fixpoint run {A S} (f : A -> S -> outcome A) (l : list S) (a : A) : outcome A :=
  match l with
  | [] => Ok a
  | s :: l' => match f a s with Ok a' => run f l' a' | Err => Err | Crash => Crash end
  end.

(* ------------------------------------------------- what a stream contributes *)
Definition key := (name * Z * Z)%type.                 (* loom, pid, tid *)
Definition pkey := (name * Z)%type.                    (* loom, pid *)
Definition skey (s : stream_meta) : key := (s_loom s, s_pid s, s_tid s).
Definition spkey (s : stream_meta) : pkey := (s_loom s, s_pid s).

Definition app_fact := (pkey * Z)%type.                        (* process, app_id *)
Definition rank_fact := (pkey * (Z * option Z))%type.          (* process, (rank, nranks) *)
Definition cpu_fact := (name * option (Z * Z))%type.           (* loom, Some (index, phyid); None = "empty array" *)

Definition loom_claim (s : stream_meta) : list name := [s_loom s].
Definition proc_claim (s : stream_meta) : list pkey := [spkey s].
Definition thread_claim (s : stream_meta) : list key := [skey s].
Definition app_claim (s : stream_meta) : list app_fact :=
  match s_app s with Some a => [(spkey s, a)] | None => [] end.
Definition rank_claim (s : stream_meta) : list rank_fact :=
  match s_rank s with Some r => [(spkey s, (r, s_nranks s))] | None => [] end.
Definition cpu_claim (s : stream_meta) : list cpu_fact :=
  match s_cpus s with
  | None => []
  | Some [] => [(s_loom s, None)]
  | Some es => map (fun e => (s_loom s, Some e)) es
  end.

(* ------------------------------------------------------- decidable equality *)
Definition name_dec : forall a b : name, {a = b} + {a <> b} := list_eq_dec Z.eq_dec.
Definition pkey_dec : forall a b : pkey, {a = b} + {a <> b}.
Proof. decide equality. apply Z.eq_dec. apply name_dec. Defined.
Definition key_dec : forall a b : key, {a = b} + {a <> b}.
Proof. decide equality. apply Z.eq_dec. apply pkey_dec. Defined.
Definition optz_dec : forall a b : option Z, {a = b} + {a <> b}.
Proof. decide equality. apply Z.eq_dec. Defined.
Definition zz_dec : forall a b : Z * Z, {a = b} + {a <> b}.
Proof. decide equality; apply Z.eq_dec. Defined.
Definition app_fact_dec : forall a b : app_fact, {a = b} + {a <> b}.
Proof. decide equality. apply Z.eq_dec. apply pkey_dec. Defined.
Definition rank_fact_dec : forall a b : rank_fact, {a = b} + {a <> b}.
Proof. decide equality. decide equality. apply optz_dec. apply Z.eq_dec. apply pkey_dec. Defined.
Definition cpu_fact_dec : forall a b : cpu_fact, {a = b} + {a <> b}.
Proof. decide equality. decide equality. apply zz_dec. apply name_dec. Defined.

Definition pkey_eqb (a b : pkey) : bool := if pkey_dec a b then true else false.
Definition name_eqb (a b : name) : bool := if name_dec a b then true else false.

(* ------------------------------------------- merging one fact into a table *)
(* Common shape of create_loom / create_proc / load_appid / load_rank /
   load_cpus: refuse an invalid value, refuse a value that contradicts what is
   stored, ignore a value that is already stored, otherwise append. *)
Definition ins {F} (dec : forall a b : F, {a = b} + {a <> b})
           (valid : F -> bool) (confl : F -> F -> bool) (X : list F) (f : F) : option (list F) :=
  if negb (valid f) then None
  else if existsb (confl f) X then None
  else if in_dec dec f X then Some X
  else Some (X ++ [f]).

Definition SLASH : Z := 47.
(* loom_init_begin: strchr(name, '/') *)
Definition valid_name (n : name) : bool := negb (existsb (Z.eqb SLASH) n).
Definition no_confl {F} (_ _ : F) : bool := false.

(* proc_stream_get_pid: 0 is the error value, negative refused by create_proc *)
Definition valid_proc (k : pkey) : bool := 0 <? snd k.

(* load_appid: "proc->appid && proc->appid != appid" ; "appid <= 0" *)
Definition valid_app (f : app_fact) : bool := 0 <? snd f.
Definition confl_app (f g : app_fact) : bool := pkey_eqb (fst f) (fst g) && negb (snd f =? snd g).

(* load_rank: rank < 0 ; previous rank differs ; nranks missing ; nranks <= 0 ;
   previous nranks differs ; rank >= nranks *)
Definition valid_rank (f : rank_fact) : bool :=
  match snd f with
  | (r, Some n) => (0 <=? r) && (0 <? n) && (r <? n)
  | (_, None) => false
  end.
Definition rattr_dec : forall a b : Z * option Z, {a = b} + {a <> b}.
Proof. decide equality. apply optz_dec. apply Z.eq_dec. Defined.
Definition confl_rank (f g : rank_fact) : bool :=
  pkey_eqb (fst f) (fst g) && (if rattr_dec (snd f) (snd g) then false else true).

(* load_cpus (REPAIRED, patches/fix-c15-load-cpus.diff):
     empty array                                    -> error
     index < 0                                      -> error
     loom_find_cpu(phyid): found, other index       -> error ; same index -> ignored
       (phyid -1 finds the virtual CPU, whose index is -1: error)
     a CPU of the loom already has this index       -> error   <- scan of the loom's CPUs
     loom_add_cpu: phyid < 0                        -> error *)
Definition valid_cpu (f : cpu_fact) : bool :=
  match snd f with Some (i, p) => (0 <=? i) && (0 <=? p) | None => false end.
Definition confl_cpu (f g : cpu_fact) : bool :=
  name_eqb (fst f) (fst g) &&
  match snd f, snd g with
  | Some (i, p), Some (j, q) => ((i =? j) && negb (p =? q)) || ((p =? q) && negb (i =? j))
  | _, _ => false
  end.

Definition add_loom X f := lift (ins name_dec valid_name no_confl X f).
Definition add_proc X f := lift (ins pkey_dec valid_proc no_confl X f).
Definition add_app X f := lift (ins app_fact_dec valid_app confl_app X f).
Definition add_rank X f := lift (ins rank_fact_dec valid_rank confl_rank X f).
Definition add_cpu X f := lift (ins cpu_fact_dec valid_cpu confl_cpu X f).

(* create_thread: tid 0 is the error value, negative refused; proc_find_thread
   finds the tid in the same process -> error *)
Definition add_thread (X : list key) (k : key) : outcome (list key) :=
  if snd k <=? 0 then Err
  else if in_dec key_dec k X then Err
  else Ok (X ++ [k]).

(* ------------------------------------------------ create_system: the loop *)
Definition cpu_table := list cpu_fact.
Definition state := (list name * (cpu_table * (list pkey * (list app_fact * (list rank_fact * list key)))))%type.
Definition st0 : state := ([], ([], ([], ([], ([], []))))).
Definition st_looms (st : state) := fst st.
Definition st_cpus (st : state) := fst (snd st).
Definition st_procs (st : state) := fst (snd (snd st)).
Definition st_apps (st : state) := fst (snd (snd (snd st))).
Definition st_ranks (st : state) := fst (snd (snd (snd (snd st)))).
Definition st_threads (st : state) := snd (snd (snd (snd (snd st)))).

(* two independent parts of the state updated one after the other for a stream *)
Definition par {A B S} (f : A -> S -> outcome A) (g : B -> S -> outcome B) : A * B -> S -> outcome (A * B) :=
  fun ab s => bind (f (fst ab) s) (fun a' => bind (g (snd ab) s) (fun b' => Ok (a', b'))).

Definition part {F S} (add : list F -> F -> outcome (list F)) (claim : S -> list F) : list F -> S -> outcome (list F) :=
  fun X s => run add (claim s) X.

(* one iteration of the loop of create_system, in the order of the C code:
   create_loom (find or append; load_cpus), create_proc (find or append;
   load_appid; load_rank), create_thread *)
Definition step_gen (addcpu : cpu_table -> cpu_fact -> outcome cpu_table) : state -> stream_meta -> outcome state :=
  par (part add_loom loom_claim)
 (par (part addcpu cpu_claim)
 (par (part add_proc proc_claim)
 (par (part add_app app_claim)
 (par (part add_rank rank_claim)
      (part add_thread thread_claim))))).

Definition raw_gen addcpu (m : list stream_meta) : outcome state := run (step_gen addcpu) m st0.

(* ------------------------------------------------------------- sorting *)
Fixpoint insert {A} (le : A -> A -> bool) (x : A) (l : list A) : list A :=
  match l with
  | [] => [x]
  | y :: r => if le x y then x :: l else y :: insert le x r
  end.
(* stable: an element stays in front of the later ones it is not greater than *)
Definition isort {A} (le : A -> A -> bool) (l : list A) : list A := fold_right (insert le) [] l.

(* strcmp on unsigned bytes; a proper prefix is smaller *)
Fixpoint str_le (a b : name) : bool :=
  match a, b with
  | [], _ => true
  | _ :: _, [] => false
  | x :: a', y :: b' => if x <? y then true else if y <? x then false else str_le a' b'
  end.

(* ------------------------------- set_sort_criteria, sort_lpt, init_end_system *)
Definition INT_MAX : Z := 2147483647.

Definition procs_of (st : state) (l : name) : list Z :=
  map snd (filter (fun k => name_eqb (fst k) l) (st_procs st)).
Definition cpus_of (st : state) (l : name) : list (Z * Z) :=
  flat_map (fun f => match snd f with Some e => [e] | None => [] end)
           (filter (fun f => name_eqb (fst f) l) (st_cpus st)).
Definition threads_of (st : state) (k : pkey) : list Z :=
  map snd (filter (fun t => pkey_eqb (fst t) k) (st_threads st)).
(* proc->rank, -1 when never set *)
Definition rank_of (st : state) (k : pkey) : Z :=
  match find (fun f => pkey_eqb (fst f) k) (st_ranks st) with Some f => fst (snd f) | None => -1 end.
(* proc->appid, 0 when never set *)
Definition app_of (st : state) (k : pkey) : Z :=
  match find (fun f => pkey_eqb (fst f) k) (st_apps st) with Some f => snd f | None => 0 end.

Definition loom_ranks (st : state) (l : name) : list Z := map (fun p => rank_of st (l, p)) (procs_of st l).
(* loom_set_rank_min *)
Definition rank_enabled st l : bool := existsb (fun r => 0 <=? r) (loom_ranks st l).
Definition rank_incomplete st l : bool := rank_enabled st l && existsb (fun r => r <? 0) (loom_ranks st l).
(* rank_min starts at INT_MAX and is lowered by every process; a rank is an int
   below nranks <= INT_MAX, so for a non-empty list this is the list minimum *)
Definition rank_min st l : Z :=
  match loom_ranks st l with [] => INT_MAX | r :: rs => fold_right Z.min r rs end.

Definition sproc := (Z * Z * list Z)%type.                      (* pid, appid, tids *)
Definition sloom := (name * list sproc * list (Z * Z))%type.    (* name, procs, cpus (index, phyid) *)
Definition system := list sloom.

(* loom.c by_rank / by_pid and system.c cmp_loom_rank / cmp_loom_id as boolean orders ("cmp <= 0").
   [tb] = true: the code as repaired by patches/fix-c15-rank-ties.diff, which breaks rank ties by PID
   (processes) and by name (looms); [tb] = false: the code before, where equal ranks compare equal and the
   stable sort keeps the enumeration order (kept for C15_union_rank_ties_refuted_old). *)
Definition proc_le (tb : bool) (st : state) (l : name) (p q : Z) : bool :=
  if rank_enabled st l then
    if tb then (rank_of st (l, p) <? rank_of st (l, q)) || ((rank_of st (l, p) =? rank_of st (l, q)) && (p <=? q))
    else rank_of st (l, p) <=? rank_of st (l, q)
  else p <=? q.
Definition loom_le (tb : bool) (st : state) (by_rank : bool) (a b : name) : bool :=
  if by_rank then
    if tb then (rank_min st a <? rank_min st b) || ((rank_min st a =? rank_min st b) && str_le a b)
    else rank_min st a <=? rank_min st b
  else str_le a b.

Definition sort_loom_gen (tb : bool) (st : state) (l : name) : sloom :=
  let ps := isort (proc_le tb st l) (procs_of st l) in
  (l,
   map (fun p => (p, app_of st (l, p), isort Z.leb (threads_of st (l, p)))) ps,
   isort (fun c d => snd c <=? snd d) (cpus_of st l)).
Definition sort_loom := sort_loom_gen true.

Fixpoint nodupb (l : list Z) : bool :=
  match l with [] => true | x :: r => negb (existsb (Z.eqb x) r) && nodupb r end.

(* proc_init_end (appid <= 0) and loom_init_end (no CPUs; index out of
   bounds; index already taken) *)
Definition loom_bad (sl : sloom) : bool :=
  let '(_, ps, cs) := sl in
  existsb (fun p => snd (fst p) <=? 0) ps
  || (Z.of_nat (length cs) =? 0)
  || existsb (fun c => Z.of_nat (length cs) <=? fst c) cs
  || negb (nodupb (map fst cs)).

Definition finish_gen (tb : bool) (st : state) : outcome system :=
  let L := st_looms st in
  if existsb (rank_incomplete st) L then Err
  else
    let by_rank := forallb (rank_enabled st) L in
    let Ls := isort (loom_le tb st by_rank) L in
    let sys := map (sort_loom_gen tb st) Ls in
    if existsb loom_bad sys then Err else Ok sys.
Definition finish := finish_gen true.

Definition build_gen addcpu (m : list stream_meta) : outcome system := bind (raw_gen addcpu m) finish.

(* The model of the repaired code. *)
Definition raw := raw_gen add_cpu.
Definition build := build_gen add_cpu.

(* the code before patches/fix-c15-rank-ties.diff: no tie-break on equal ranks *)
Module NoTieBreak.
  Definition build (m : list stream_meta) : outcome system := bind (raw m) (finish_gen false).
End NoTieBreak.

(* ---------------------------------------------- global lists and rows *)
(* init_global_lists / init_global_indices: rows are 1 + gindex *)
Definition thread_list (sys : system) : list (name * Z * Z * Z) :=         (* loom, pid, tid, appid *)
  flat_map (fun sl : sloom => let '(l, ps, _) := sl in
            flat_map (fun sp : sproc => let '(p, a, ts) := sp in map (fun t => (l, p, t, a)) ts) ps) sys.
Definition number {A} (l : list A) : list (Z * A) := combine (map Z.of_nat (seq 0 (length l))) l.
Definition cpu_list (sys : system) : list (Z * name * option (Z * Z)) :=   (* loom gindex, loom, cpu or vCPU *)
  flat_map (fun gl : Z * sloom => let '(g, (l, _, cs)) := gl in
            map (fun c => (g, l, Some c)) cs ++ [(g, l, None)]) (number sys).
Definition thread_rows (sys : system) := map (fun x => (1 + fst x, snd x)) (number (thread_list sys)).
Definition cpu_rows (sys : system) := map (fun x => (1 + fst x, snd x)) (number (cpu_list sys)).

(* ====================================================================== *)
(* The code as it is WITHOUT the repair: load_cpus asks loom_get_cpu(index),
   which reads loom->cpus_array[index] whenever index < loom->ncpus; the array
   is only allocated by loom_init_end, so that read is a NULL dereference. *)
Module Unfixed.
  Definition ncpus (X : cpu_table) (l : name) : Z :=
    Z.of_nat (length (filter (fun f => name_eqb (fst f) l) X)).
  Definition find_phy (X : cpu_table) (l : name) (p : Z) : option Z :=
    match find (fun f => name_eqb (fst f) l && match snd f with Some (_, q) => q =? p | None => false end) X with
    | Some (_, Some (i, _)) => Some i
    | _ => None
    end.
  Definition add_cpu (X : cpu_table) (f : cpu_fact) : outcome cpu_table :=
    match snd f with
    | None => Err                                           (* empty array *)
    | Some (i, p) =>
      if i <? 0 then Err                                    (* index out of bounds *)
      else if p =? -1 then Err                              (* finds the vCPU, index -1 <> i *)
      else match find_phy X (fst f) p with
           | Some i0 => if i0 =? i then Ok X else Err       (* duplicated, ignore / mismatch index *)
           | None =>
             if i <? ncpus X (fst f) then Crash             (* loom_get_cpu: cpus_array[i], cpus_array == NULL *)
             else if p <? 0 then Err                        (* loom_add_cpu *)
             else Ok (X ++ [f])
           end
    end.
  Definition build := build_gen add_cpu.
End Unfixed.

(* ====================================================================== *)
(* Spec: what the property says, in terms of the metadata only. *)
Definition keys (m : list stream_meta) : list key := map skey m.
Definition app_claims (m : list stream_meta) := flat_map app_claim m.      (* (loom,pid) has app_id a in some stream *)
Definition rank_claims (m : list stream_meta) := flat_map rank_claim m.    (* (loom,pid) has (rank, nranks) in some stream *)
Definition cpu_claims (m : list stream_meta) := flat_map cpu_claim m.      (* loom has CPU (index,phyid) in some stream *)

Definition same_set {A} (l1 l2 : list A) : Prop := forall x, In x l1 <-> In x l2.

(* same multiset of threads; per-process and per-loom attributes agree as
   unions, whichever thread carries them *)
Definition same_union (m1 m2 : list stream_meta) : Prop :=
  Permutation (keys m1) (keys m2) /\
  same_set (app_claims m1) (app_claims m2) /\
  same_set (rank_claims m1) (rank_claims m2) /\
  same_set (cpu_claims m1) (cpu_claims m2).

(* "processes by rank" / "looms by minimum rank" name an order only when a rank
   belongs to one process *)
Definition rank_names_proc (m : list stream_meta) : Prop :=
  forall k1 k2 r n1 n2, In (k1, (r, n1)) (rank_claims m) -> In (k2, (r, n2)) (rank_claims m) -> k1 = k2.

Definition loom_in (m : list stream_meta) (l : name) : Prop := exists s, In s m /\ s_loom s = l.
Definition proc_in (m : list stream_meta) (k : pkey) : Prop := exists s, In s m /\ spkey s = k.

Inductive contradictory (m : list stream_meta) : Prop :=
| C_app : forall k a b, In (k, a) (app_claims m) -> In (k, b) (app_claims m) -> a <> b -> contradictory m
| C_rank : forall k r1 n1 r2 n2, In (k, (r1, n1)) (rank_claims m) -> In (k, (r2, n2)) (rank_claims m) ->
                                 r1 <> r2 -> contradictory m
| C_nranks : forall k r1 n1 r2 n2, In (k, (r1, Some n1)) (rank_claims m) -> In (k, (r2, Some n2)) (rank_claims m) ->
                                   n1 <> n2 -> contradictory m
| C_index_two_phyids : forall l i p q, In (l, Some (i, p)) (cpu_claims m) -> In (l, Some (i, q)) (cpu_claims m) ->
                                       p <> q -> contradictory m
| C_phyid_two_indices : forall l i j p, In (l, Some (i, p)) (cpu_claims m) -> In (l, Some (j, p)) (cpu_claims m) ->
                                        i <> j -> contradictory m
| C_dup_tid : ~ NoDup (keys m) -> contradictory m
| C_no_cpus : forall l, loom_in m l -> (forall e, ~ In (l, Some e) (cpu_claims m)) -> contradictory m
| C_missing_cpu : forall l i p j, In (l, Some (i, p)) (cpu_claims m) -> 0 <= j < i ->
                                  (forall q, ~ In (l, Some (j, q)) (cpu_claims m)) -> contradictory m
| C_no_app : forall k, proc_in m k -> (forall a, ~ In (k, a) (app_claims m)) -> contradictory m.
