(* Facts about the event tables, channel specs and labels dumped from the source (Gen/Tables_gen.v),
   decided by computation over the whole tables. Used by C08, C13, C18. *)
From Coq Require Import ZArith List Bool.
From OV Require Import Emu.EmuCoreDefs Emu.DecodeDefs.
From OV Require Gen.Tables_gen.
Import ListNotations.
Local Open Scope Z_scope.

Definition all_models : list Z := [M_OVNI; M_NANOS6; M_NOSV; M_NODES; M_TAMPI; M_MPI; M_KERNEL; M_OPENMP].
Definition chans_all : list chanspec := mk_chans all_models.
Definition dec (m c v : Z) : event := decode all_models chans_all m c v [].

(* every pair of the evlist (PAIR_B/E/S) is an enter/leave pair of one channel with one value
   (or the flush set/clear pair, or the ignored unordered-region markers) *)
Definition pair_okb (p : Z * (Z * Z) * (Z * Z)) : bool :=
  let '(m, (c1, v1), (c2, v2)) := p in
  match dec m c1 v1, dec m c2 v2 with
  | EvChan k1 PUSH (Some x1) n1, EvChan k2 POP (Some x2) n2 => Nat.eqb k1 k2 && (x1 =? x2) && (n1 =? n2)
  | EvChan k1 SET (Some _) _, EvChan k2 SET None _ => Nat.eqb k1 k2
  | EvNop, EvNop => true
  | EvChan _ IGN _ n1, EvChan _ IGN _ n2 => n1 =? n2     (* a pair the model deliberately ignores (6t[ 6t], PBs PBS) *)
  | _, _ => false
  end.
Definition pairs_okb : bool := forallb pair_okb Tables_gen.evpairs.
Definition bad_pairs := filter (fun p => negb (pair_okb p)) Tables_gen.evpairs.

Definition is_push (a : Tables_gen.action) := match a with Tables_gen.PUSH => true | _ => false end.
Definition is_pop (a : Tables_gen.action) := match a with Tables_gen.POP => true | _ => false end.
Definition is_set (a : Tables_gen.action) := match a with Tables_gen.SET => true | _ => false end.

Definition count_entries (f : Tables_gen.action -> bool) (m ch x : Z) : nat :=
  length (filter (fun '(m', _, _, ch', a, x') => (m =? m') && (ch =? ch') && (x =? x') && f a) Tables_gen.table).

(* every pushed value of a channel is pushed by exactly one event and popped by exactly one event, and vice versa *)
Definition table_pairing_okb : bool :=
  forallb (fun '(m, _, _, ch, a, x) =>
    if is_push a || is_pop a then Nat.eqb (count_entries is_push m ch x) 1 && Nat.eqb (count_entries is_pop m ch x) 1 else true)
    Tables_gen.table.

(* every value a table can put on a channel has a label in that channel's PCF type *)
Definition has_label (m ch x : Z) : bool :=
  existsb (fun '(m', ch', x') => (m =? m') && (ch =? ch') && (x =? x')) Tables_gen.labels.
Definition table_labels_okb : bool :=
  forallb (fun '(m, _, _, ch, a, x) => if is_push a || is_set a then has_label m ch x else true) Tables_gen.table.

(* ... and no table value is 0 (the PRV refuses 0 on these channels) *)
Definition table_nonzero_okb : bool :=
  forallb (fun '(m, _, _, ch, a, x) => if is_push a || is_set a then negb (x =? 0) else true) Tables_gen.table.
