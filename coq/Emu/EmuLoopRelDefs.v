(* Statement-level definitions for the theorems about the emulator's main loop (Proofs/EmuLoopProofs.v):
   one iteration of PvDefs.pv_run_from, what set_current leaves in the quick-access pointers, the order in which
   model_finish reaches the models, the files a closed PVT leaves.  Definitions only. *)
From Coq Require Import ZArith List Bool.
From OV Require Import Base.CInt Emu.EmuCoreDefs Emu.DecodeDefs Emu.MarkDefs Emu.EmuLoopPre.
From OV Require Emu.PlayerDefs Emu.PvDefs Emu.BayDefs.
Import ListNotations.
Local Open Scope Z_scope.

(* one iteration of PvDefs.pv_run_from: recorder_advance, the handler + the emission rule (EmuCoreDefs.step), the PRV
   emit callbacks *)
Definition pv_iter (sx : static) (st : state) (r : PV.recorder) (dclock : Z) (who : nat) (ev : event) : result (state * PV.recorder) :=
  match PV.rec_advance r dclock with
  | Err e => Err e
  | Ok r1 =>
    match step sx st who ev with
    | Err e => Err e
    | Ok (st1, ls) =>
      match PV.foldr PV.rec_write ls r1 with
      | Err e => Err e
      | Ok r2 => Ok (st1, r2)
      end
    end
  end.

(* the same with the mechanical step of BayDefs *)
Definition mech_iter (sx : static) (st : state) (b : B.bay) (r : PV.recorder) (dclock : Z) (who : nat) (ev : event)
  : result (state * B.bay * PV.recorder) :=
  match PV.rec_advance r dclock with
  | Err e => Err e
  | Ok r1 =>
    match B.mstep sx st b who ev with
    | Err e => Err e
    | Ok (st1, b1, ls) =>
      match PV.foldr PV.rec_write ls r1 with
      | Err e => Err e
      | Ok r2 => Ok (st1, b1, r2)
      end
    end
  end.

(* the event a delivered player event stands for, decoded as the emulator with `enabled` models does *)
Definition event_of (sx : eenv) (enabled : list Z) (e : PL.oev) : event :=
  let '((m, c, v), p, j, aux) := en_content sx (PL.o_id e) (PL.o_pay e) in
  decode_all enabled (s_chans (en_sx sx)) m c v p j aux.
Definition model_of (sx : eenv) (e : PL.oev) : Z :=
  let '((m, _, _), _, _, _) := en_content sx (PL.o_id e) (PL.o_pay e) in m.

(* the state after player_step delivered e of thread who and set_current ran *)
Definition delivered (st : estate) (pst' : PL.pst) (e : PL.oev) (who : nat) : estate :=
  with_cur (with_pev (with_player st pst') (Some e))
    {| c_ev := true; c_stream := Some (PL.o_id e); c_loom := Some who; c_proc := Some who; c_thread := Some who |}.

(* environment and state are those of a loaded trace: only registered models are enabled, model bytes index the 256
   slots, every registered model has an event hook *)
Definition models_wf (sx : eenv) (st : estate) : Prop :=
  (forall m, memz m (es_enabled st) = true -> memz m (en_registered sx) = true) /\
  (forall m, memz m (en_registered sx) = true -> 0 <= m < 256 /\ en_hook sx m HEvent = true).

(* the models model_finish calls, in slot order *)
Definition finish_order (sx : eenv) (st : estate) : list Z :=
  filter (fun m => memz m (es_enabled st) && en_hook sx m HFinish) (zrange 0 256).
Definition connect_order (sx : eenv) (st : estate) : list Z :=
  filter (fun m => memz m (es_enabled st) && en_hook sx m HConnect) (zrange 0 256).

(* a PVT closed by pvt_close left these files *)
Definition closed_as (st : estate) (i : nat) (f : PV.pvfiles) : Prop :=
  io_prv (io_at st i) = Some (PV.f_prv f) /\ io_pcf (io_at st i) = Some (PV.f_pcf f) /\ io_row (io_at st i) = Some (PV.f_row f).

(* what the handler of the current event does to the models' state (spec->event(emu)): the first half of
   EmuCoreDefs.step / BayDefs.mstep *)
Definition run_handler (sx : eenv) (st : estate) (who : nat) (ev : event) : result estate :=
  match es_models st with
  | MSem c0 None =>
    match core_step (en_sx sx) c0 who ev with
    | Ok (c1, d) => Ok (with_models st (MSem c1 (Some (c0, d))))
    | Err _ => Err E_FAIL
    end
  | MSem _ (Some _) => Err E_TRAP
  | MMech c0 b =>
    match core_step (en_sx sx) c0 who ev with
    | Ok (c1, d) =>
      match B.apply_writes b (B.handler_writes (en_sx sx) c0 c1 who ev d) with
      | Ok b1 => Ok (with_models st (MMech c1 b1))
      | Err _ => Err E_FAIL
      end
    | Err _ => Err E_FAIL
    end
  end.

(* no channel is dirty between two events *)
Definition clean (st : estate) : Prop := match es_models st with MSem _ (Some _) => False | _ => True end.

(* the recorder and the per-PVT disk state after recorder_finish (both PVTs closed; rows = the texts prf_close wrote) *)
Definition closed_prv (pv : PV.prv) : PV.prv := prv_with_file pv (PV.prv_close pv).
Definition closed_io (v : PV.pvt) (row : str) : pvio :=
  {| io_pos := Some (length (PV.prv_header (PV.pv_time (PV.v_prv v)) (PV.pv_nrows (PV.v_prv v))));
     io_prv := Some (PV.prv_close (PV.v_prv v)); io_pcf := Some (PV.pcf_text (PV.v_pcf v)); io_row := Some row |}.
Definition closed_state (st : estate) (rowth rowcpu : str) : estate :=
  let th := PV.rc_th (es_rec st) in
  let cpu := PV.rc_cpu (es_rec st) in
  with_io (with_rec st {| PV.rc_th := PV.set_prv th (closed_prv (PV.v_prv th)); PV.rc_cpu := PV.set_prv cpu (closed_prv (PV.v_prv cpu)) |})
          [closed_io th rowth; closed_io cpu rowcpu].
