(* Prelude of the generated file Gen/Foot_gen.v (translate/units/footprint.py): the handlers seen from the payload.

   Only the event is represented: model / category / value bytes, the payload bytes (payload_size = their number;
   emu->ev->payload is NULL iff there are none, emu_ev.c) and the jumbo bit.  A read of the payload union
   `emu->ev->payload->i32[k]` is `rd_i32 .. k`; the translator guards it with `cin (rd_ok_i32 .. k)`: the bytes
   [4k, 4k+4) lie inside the payload_size bytes that belong to the event in the stream (what follows them is the next
   event or the end of the mapping).  A failed check is the outcome E_OOB, distinct from a rejection (E_FAIL) and from a
   NULL dereference (E_TRAP).
   Everything else is opaque: a field of any other object, the result of any callee that is not translated, are
   arbitrary values given by an oracle (one value per syntactic site `N`); an untranslated int-status callee
   succeeds or fails as the oracle says.  A theorem that holds for every oracle holds for the real functions, whatever
   the rest of the emulator does, as long as those callees do not read the payload themselves (the translator checks
   that the event is only passed to functions of the same file that never mention `payload`).
   Definitions only; proofs in Proofs/FootProofs.v. *)
From Coq Require Import ZArith List Bool.
From OV Require Import Base.CInt Emu.EmuCoreDefs.
Import ListNotations.
Local Open Scope Z_scope.

Record emu := { f_m : Z; f_c : Z; f_v : Z; f_payload : list Z; f_jumbo : bool }.
Definition ptr_emu_ev := emu.
Definition optr := option unit.
Definition ptr_payload := option unit.

Record oracle := { oz : nat -> Z; op : nat -> option unit; oa : nat -> Z }.
Definition fstate := unit.

Definition E_FAIL := 20%nat.
Definition E_TRAP := 99%nat.
Definition E_OOB := 98%nat.
Definition E_SIZE := 23%nat.   (* `return -1` of a guard that looks at payload_size / is_jumbo only *)

Definition M (A : Type) : Type := oracle -> fstate -> result (A * fstate).
Definition ret {A} (a : A) : M A := fun _ st => Ok (a, st).
Definition fail {A} (e : nat) : M A := fun _ _ => Err e.
Definition bind {A B} (m : M A) (f : A -> M B) : M B :=
  fun sx st => match m sx st with Ok (a, st') => f a sx st' | Err e => Err e end.
Definition bind_ {A B} (m : M A) (k : M B) : M B := bind m (fun _ => k).
Definition eval {A} (f : oracle -> fstate -> A) : M A := fun sx st => Ok (f sx st, st).
Definition ite {A} (c : oracle -> fstate -> bool) (a b : M A) : M A :=
  fun sx st => if c sx st then a sx st else b sx st.
Definition exec (m : M unit) (sx : oracle) : result unit :=
  match m sx tt with Ok _ => Ok tt | Err e => Err e end.

(* safety of a statement: fine, NULL dereference, or payload read out of bounds; evaluated left to right *)
Inductive chk := COk | CTrap | COob.
Definition cand (a b : chk) : chk := match a with COk => b | x => x end.
Definition cnn {A} (p : option A) : chk := if is_null p then CTrap else COk.
Definition cin (b : bool) : chk := if b then COk else COob.
Definition cift (c : bool) (s : chk) : chk := if c then s else COk.
Definition ciff (c : bool) (s : chk) : chk := if c then COk else s.
Definition need {A} (safe : oracle -> fstate -> chk) (k : M A) : M A :=
  fun sx st => match safe sx st with COk => k sx st | CTrap => Err E_TRAP | COob => Err E_OOB end.

(* x = f(..) for an int-status function: 0 / -1; a crash of f is a crash *)
Definition status (m : M unit) : M Z :=
  fun sx st => match m sx st with
               | Ok (_, st') => Ok (0, st')
               | Err e => if Nat.eqb e E_TRAP || Nat.eqb e E_OOB then Err e else Ok (-1, st)
               end.

(* opaque things *)
Definition opq_Z (sx : oracle) (n : nat) : Z := oz sx n.
Definition opq_ptr (sx : oracle) (n : nat) : optr := op sx n.
Definition opq_action (n : nat) : M unit := fun sx st => if oa sx n =? 0 then Ok (tt, st) else Err E_FAIL.
Definition opq_set (n : nat) : M unit := ret tt.

(* the event *)
Definition get_emu_ev (sx : oracle) (st : fstate) (e : emu) : ptr_emu_ev := e.
Definition get_emu_ev_m (sx : oracle) (st : fstate) (e : emu) : Z := f_m e.
Definition get_emu_ev_c (sx : oracle) (st : fstate) (e : emu) : Z := f_c e.
Definition get_emu_ev_v (sx : oracle) (st : fstate) (e : emu) : Z := f_v e.
Definition psize (e : emu) : Z := Z.of_nat (length (f_payload e)).
Definition get_emu_ev_payload_size (sx : oracle) (st : fstate) (e : emu) : Z := psize e.
Definition get_emu_ev_is_jumbo (sx : oracle) (st : fstate) (e : emu) : Z := b2z (f_jumbo e).
Definition get_emu_ev_payload (sx : oracle) (st : fstate) (e : emu) : ptr_payload :=
  match f_payload e with [] => None | _ => Some tt end.
Definition get_emu_thread (sx : oracle) (st : fstate) (e : emu) : optr := Some tt.
Definition get_emu_loom (sx : oracle) (st : fstate) (e : emu) : optr := Some tt.
Definition get_emu_proc (sx : oracle) (st : fstate) (e : emu) : optr := Some tt.

(* the bytes [off, off + w) belong to the event *)
Definition inb (e : emu) (off w : Z) : bool := (0 <=? off) && (off + w <=? psize e).
Definition byte_at (p : list Z) (n : Z) : Z := nth (Z.to_nat n) p 0.
Fixpoint le_uint (p : list Z) (off : Z) (w : nat) : Z :=
  match w with O => 0 | S k => byte_at p off + 256 * le_uint p (off + 1) k end.
Definition le_sint (p : list Z) (off : Z) (w : nat) : Z :=
  let u := le_uint p off w in if u <? 2 ^ (8 * Z.of_nat w - 1) then u else u - 2 ^ (8 * Z.of_nat w).

Definition rd_ok_i32 (sx : oracle) (st : fstate) (e : emu) (i : Z) : bool := inb e (4 * i) 4.
Definition rd_ok_u32 (sx : oracle) (st : fstate) (e : emu) (i : Z) : bool := inb e (4 * i) 4.
Definition rd_ok_i64 (sx : oracle) (st : fstate) (e : emu) (i : Z) : bool := inb e (8 * i) 8.
Definition rd_ok_u64 (sx : oracle) (st : fstate) (e : emu) (i : Z) : bool := inb e (8 * i) 8.
Definition rd_i32 (sx : oracle) (st : fstate) (e : emu) (i : Z) : Z := le_sint (f_payload e) (4 * i) 4.
Definition rd_u32 (sx : oracle) (st : fstate) (e : emu) (i : Z) : Z := le_uint (f_payload e) (4 * i) 4.
Definition rd_i64 (sx : oracle) (st : fstate) (e : emu) (i : Z) : Z := le_sint (f_payload e) (8 * i) 8.
Definition rd_u64 (sx : oracle) (st : fstate) (e : emu) (i : Z) : Z := le_uint (f_payload e) (8 * i) 8.

(* ---- positions inside the payload (byte offsets): &emu->ev->payload->f[i], p += n, casts between byte pointers *)
Definition pptr := Z.
(* memcpy(&local, p, n): the bytes [p, p + n), little endian *)
Definition rd_ok_bytes (sx : oracle) (st : fstate) (e : emu) (p n : Z) : bool := inb e p n.
Definition rd_bytes_uint32 (sx : oracle) (st : fstate) (e : emu) (p : Z) : Z := le_uint (f_payload e) p 4.
(* memchr(p, c, n) reads the bytes [p, p + n) (up to the first match; the whole range is required to be inside) *)
Definition rd_ok_range (sx : oracle) (st : fstate) (e : emu) (p n : Z) : bool := inb e p n.
Definition mem_has (sx : oracle) (st : fstate) (e : emu) (p c n : Z) : bool :=
  existsb (fun k => byte_at (f_payload e) (p + Z.of_nat k) =? cast_uint8 c) (seq 0 (Z.to_nat n)).
(* an untranslated callee that is given a char * into the payload may read the C string there: a NUL must follow
   inside the payload *)
Definition cstr_ok (sx : oracle) (st : fstate) (e : emu) (p : Z) : bool :=
  (0 <=? p) && existsb (fun k => byte_at (f_payload e) (p + Z.of_nat k) =? 0) (seq 0 (Z.to_nat (psize e - p))).

(* ---- the static tables of the table-driven models (ss_table[c][v] / fn_table[c][v]): in this mode a row is arbitrary,
   three integers given by the oracle for each pair of index bytes (the encoding is injective on bytes) *)
Definition opq_row (sx : oracle) (tbl : nat) (c v : Z) : list Z :=
  let k := Z.to_nat (1000000 + Z.of_nat tbl * 1000000 + Z.abs c * 1000 + Z.abs v * 3) in
  [oz sx k; oz sx (S k); oz sx (S (S k))].
Definition nosv_ss_table (sx : oracle) (st : fstate) (c v : Z) : list Z := opq_row sx 0 c v.
Definition nanos6_ss_table (sx : oracle) (st : fstate) (c v : Z) : list Z := opq_row sx 1 c v.
Definition nodes_ss_table (sx : oracle) (st : fstate) (c v : Z) : list Z := opq_row sx 2 c v.
Definition tampi_ss_table (sx : oracle) (st : fstate) (c v : Z) : list Z := opq_row sx 3 c v.
Definition mpi_fn_table (sx : oracle) (st : fstate) (c v : Z) : list Z := opq_row sx 4 c v.
Definition openmp_fn_table (sx : oracle) (st : fstate) (c v : Z) : list Z := opq_row sx 5 c v.
