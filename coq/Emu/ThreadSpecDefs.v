(* Independent statement of the documented thread state machine and of CPU occupancy
   (doc/user/emulation/ovni.md), used by C04 and C05.  It knows nothing about the emulator's
   per-CPU thread lists: a thread is a (state, bound CPU) pair. *)
From Coq Require Import ZArith List Bool.
From OV Require Import Emu.EmuCoreDefs.
Import ListNotations.
Local Open Scope Z_scope.

Definition sthread := (tst * option nat)%type.

(* the documented transitions; executing a dead thread again is left open by the documentation *)
Definition fsm (s : tst) (e : ohev) : option tst :=
  match e, s with
  | Execute _, Unknown => Some Running
  | Execute _, Dead => Some Running
  | Cool, Running => Some Cooling
  | Pause, Running => Some Paused
  | Pause, Cooling => Some Paused
  | Warm, Paused => Some Warming
  | Resume, Paused => Some Running
  | Resume, Warming => Some Running
  | End_, Running => Some Dead
  | End_, Cooling => Some Dead
  | _, _ => None
  end.

Definition bound_running (c : nat) (p : sthread) : bool :=
  is_running (fst p) && opt_nat_eqb (snd p) (Some c).

(* number of running threads bound to CPU c *)
Definition srunning (ss : list sthread) (c : nat) : nat := length (filter (bound_running c) ss).

(* some physical CPU has more than one running thread *)
Definition s_oversub (sx : static) (ss : list sthread) : bool :=
  existsb (fun c => negb (cpu_is_virtual sx c) && Nat.ltb 1 (srunning ss c)) (seq 0 (length (s_cpus sx))).

Definition check (sx : static) (ss : list sthread) : option (list sthread) :=
  if s_oversub sx ss then None else Some ss.

Definition spec_step (sx : static) (ss : list sthread) (who : nat) (e : ohev) : option (list sthread) :=
  match nth_error ss who with
  | None => None
  | Some (s, c) =>
    match e with
    | Execute idx =>
      match fsm s e, find_cpu sx (thread_loom sx who) idx with
      | Some s', Some c' => check sx (update ss who (s', Some c'))
      | _, _ => None
      end
    | End_ => match fsm s e with Some s' => check sx (update ss who (s', None)) | None => None end
    | Pause | Resume | Cool | Warm =>
      match fsm s e with Some s' => check sx (update ss who (s', c)) | None => None end
    | AffSet idx =>
      (* a bound, active thread moves itself *)
      match c, find_cpu sx (thread_loom sx who) idx with
      | Some _, Some new => if is_active s then check sx (update ss who (s, Some new)) else None
      | _, _ => None
      end
    | AffRemote idx tid =>
      (* another live thread of the loom is moved (the emulator refuses a move to the same CPU) *)
      match find_remote sx who tid with
      | None => None
      | Some r =>
        match nth_error ss r, find_cpu sx (thread_loom sx who) idx with
        | Some (rs, Some old), Some new =>
          match rs with
          | Dead | Unknown => None
          | _ => if Nat.eqb old new then None else check sx (update ss r (rs, Some new))
          end
        | _, _ => None
        end
      end
    end
  end.

Fixpoint spec_run (sx : static) (ss : list sthread) (h : list (nat * ohev)) : option (list sthread) :=
  match h with
  | [] => Some ss
  | (who, e) :: r => match spec_step sx ss who e with Some ss' => spec_run sx ss' r | None => None end
  end.

Definition spec_init (sx : static) : list sthread := map (fun _ => (Unknown, None)) (s_threads sx).

Definition spec_accepts (sx : static) (h : list (nat * ohev)) : bool :=
  match spec_run sx (spec_init sx) h with
  | Some ss => forallb (fun p => tst_eqb (fst p) Dead) ss
  | None => false
  end.

(* the emulator side, handlers only *)
Fixpoint oh_run (sx : static) (st : state) (h : list (nat * ohev)) : result state :=
  match h with
  | [] => Ok st
  | (who, e) :: r => match oh_step sx st who e with Ok st' => oh_run sx st' r | Err x => Err x end
  end.

Definition emu_accepts (sx : static) (h : list (nat * ohev)) : bool :=
  match oh_run sx (init sx) h with
  | Ok st => all_dead st
  | Err _ => false
  end.

Definition proj (st : state) : list sthread := map (fun th => (t_state th, t_cpu th)) (threads st).
