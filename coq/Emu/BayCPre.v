(* Prelude of the generated file Gen/Bay_gen.v (translate/units/bayc.py): the world of src/emu/bay.c.

   The generated file renders cb_chan_is_dirty, bay_find, bay_register, bay_add_cb, bay_enable_cb, bay_disable_cb, bay_init,
   propagate_chan and bay_propagate statement by statement in the reader + state + error monad below (`return -1` /
   `return NULL` after a failure = E_FAIL resp. NULL, die() = E_DIE, a NULL dereference = E_TRAP; the error codes of the
   callbacks are BayDefs' and pass through unchanged).
   The state is a BayDefs bay (channels, the per-channel lists of dirty and emit callbacks, muxes, dirty list) with the
   PRV last-value table and the lines written so far.  Hand-written here (not translated):
     - a channel's NAME is its bay id (the hash table by name = the list of channels); find_bay_chan / HASH_ADD_STR;
     - a pointer to a struct bay_cb is the callback it denotes: (channel, BayDefs.dcb) or (channel, BayDefs.ecb); func / arg
       of a dirty callback are cb_select / cb_reselect + the mux, cb_input + the mux input; of an emit callback cb_prv + its
       registration; `enabled` of an input callback is the mux's mx_en flag (where BayDefs keeps it), of the others their
       presence in the list; the struct being filled between calloc and bay_enable_cb is a register (CbNew);
     - bchan->is_dirty: bay.c tests and clears it but never sets it: always 0;
     - DL_APPEND / DL_DELETE on bchan->cb[type] and on bay->dirty: append / BayDefs.remove_dcb on the BayDefs lists;
     - the call through cur->func: BayDefs.run_dcb (mux.c callbacks, tied by C06_mux_callbacks_from_source) resp.
       EmuCoreDefs.emit on the channel's value (prv.c emit, tied by C06_prv_emit_from_source); chan_flush: BayDefs.flushed
       (tied by C06_bay_channels_from_source);
     - DL_FOREACH(bay->dirty, cur) / DL_FOREACH(bchan->cb[type], cur): LIVE walks (for_next_bay_chan: position i in the
       dirty list as it is after each body, bound = channels + 1 as BayDefs.dirty_phase; for_next_bay_cb: the successor of
       cur in the list as it is after the call, bound = BayDefs.walk_fuel, a vanished cur = E_SELFMOD: BayDefs.walk_from).
   Definitions only; proofs in Proofs/BayCProofs.v. *)
From Coq Require Import ZArith List Bool.
From OV Require Import Base.CInt Emu.EmuCoreDefs.
From OV Require Emu.BayDefs.
Import ListNotations.
Local Open Scope Z_scope.

Module B := BayDefs.

Inductive cbwhat := WD (d : B.dcb) | WE (e : B.ecb).
Inductive cbref := CbNew | CbAt (c : nat) (w : cbwhat).
Inductive bref := BNew | BAt (c : nat).
Inductive cref := CReg (c : nat) | CNewChan (name : nat) (ch : B.chan).
Inductive cbfn := FSelect | FReselect | FInput | FPrv.
Inductive vref := VBchan (b : bref) | VMux (m : nat) | VInput (m i : nat) | VPrv (e : B.ecb).

Definition ptr_bay := option unit.
Definition ptr_bchan := option bref.
Definition ptr_cb := option cbref.
Definition ptr_cbs := list ptr_cb.
Definition ptr_chan := option cref.
Definition ptr_cbfn := option cbfn.
Definition ptr_void := option vref.
Definition ptr_name := option nat.
Definition ptr_ints := option unit.
Inductive dirtyfn := FChanIsDirty.
Definition fn_cb_chan_is_dirty : option dirtyfn := Some FChanIsDirty.

Record newcb := { nc_func : ptr_cbfn; nc_arg : ptr_void; nc_bchan : ptr_bchan; nc_type : Z; nc_enabled : Z }.
Definition newcb0 : newcb := {| nc_func := None; nc_arg := None; nc_bchan := None; nc_type := 0; nc_enabled := 0 |}.

Record bstate := {
  bs_bay : B.bay;
  bs_state : Z;                        (* bay->state *)
  bs_last : B.lastmap;                 (* the PRV last values *)
  bs_lines : list line;                (* PRV lines written, in order *)
  bs_newcb : newcb;                    (* the struct bay_cb being filled *)
  bs_newbchan : ptr_chan;              (* the struct bay_chan being filled: its chan *)
  bs_hooked : list nat                 (* channels whose dirty callback is cb_chan_is_dirty *)
}.
Record benv := { bn_alloc_ok : bool }.

Definition E_FAIL := 120%nat.
Definition E_TRAP := 199%nat.
Definition E_DIE := 198%nat.

Definition M (A : Type) : Type := benv -> bstate -> result (A * bstate).
Definition ret {A} (a : A) : M A := fun _ st => Ok (a, st).
Definition fail {A} (e : nat) : M A := fun _ _ => Err e.
Definition bind {A B} (m : M A) (f : A -> M B) : M B :=
  fun sx st => match m sx st with Ok (a, st') => f a sx st' | Err e => Err e end.
Definition bind_ {A B} (m : M A) (k : M B) : M B := bind m (fun _ => k).
Definition eval {A} (f : benv -> bstate -> A) : M A := fun sx st => Ok (f sx st, st).
Definition ite {A} (c : benv -> bstate -> bool) (a b : M A) : M A :=
  fun sx st => if c sx st then a sx st else b sx st.
Definition need {A} (safe : benv -> bstate -> bool) (k : M A) : M A :=
  fun sx st => if safe sx st then k sx st else Err E_TRAP.

Definition with_bay (st : bstate) (b : B.bay) : bstate :=
  {| bs_bay := b; bs_state := bs_state st; bs_last := bs_last st; bs_lines := bs_lines st; bs_newcb := bs_newcb st;
     bs_newbchan := bs_newbchan st; bs_hooked := bs_hooked st |}.
Definition with_state (st : bstate) (x : Z) : bstate :=
  {| bs_bay := bs_bay st; bs_state := x; bs_last := bs_last st; bs_lines := bs_lines st; bs_newcb := bs_newcb st;
     bs_newbchan := bs_newbchan st; bs_hooked := bs_hooked st |}.
Definition with_emit (st : bstate) (l : B.lastmap) (ls : list line) : bstate :=
  {| bs_bay := bs_bay st; bs_state := bs_state st; bs_last := l; bs_lines := ls; bs_newcb := bs_newcb st;
     bs_newbchan := bs_newbchan st; bs_hooked := bs_hooked st |}.
Definition with_newcb (st : bstate) (x : newcb) : bstate :=
  {| bs_bay := bs_bay st; bs_state := bs_state st; bs_last := bs_last st; bs_lines := bs_lines st; bs_newcb := x;
     bs_newbchan := bs_newbchan st; bs_hooked := bs_hooked st |}.
Definition with_newbchan (st : bstate) (x : ptr_chan) : bstate :=
  {| bs_bay := bs_bay st; bs_state := bs_state st; bs_last := bs_last st; bs_lines := bs_lines st; bs_newcb := bs_newcb st;
     bs_newbchan := x; bs_hooked := bs_hooked st |}.
Definition with_hooked (st : bstate) (x : list nat) : bstate :=
  {| bs_bay := bs_bay st; bs_state := bs_state st; bs_last := bs_last st; bs_lines := bs_lines st; bs_newcb := bs_newcb st;
     bs_newbchan := bs_newbchan st; bs_hooked := x |}.

(* ---- struct bay *)
Definition get_bay__state (sx : benv) (st : bstate) (b : ptr_bay) : Z := bs_state st.
Definition set_bay_state (b : ptr_bay) (v : benv -> bstate -> Z) : M unit :=
  fun sx st => match b with Some _ => Ok (tt, with_state st (v sx st)) | None => Err E_TRAP end.
Definition get_bay__dirty (sx : benv) (st : bstate) (b : ptr_bay) : ptr_bchan :=
  match B.b_dirty (bs_bay st) with c :: _ => Some (BAt c) | [] => None end.
Definition set_bay_dirty (b : ptr_bay) (v : benv -> bstate -> ptr_bchan) : M unit :=
  fun sx st => match b, v sx st with
               | Some _, None => Ok (tt, with_bay st (B.set_dirty_list (bs_bay st) []))
               | _, _ => Err E_TRAP
               end.
Definition zero_bay (b : ptr_bay) : M unit :=
  fun sx st => match b with
               | Some _ => Ok (tt, {| bs_bay := {| B.b_chans := []; B.b_dcbs := []; B.b_ecbs := []; B.b_muxes := B.b_muxes (bs_bay st); B.b_dirty := [] |};
                                      bs_state := 0; bs_last := bs_last st; bs_lines := bs_lines st; bs_newcb := newcb0; bs_newbchan := None; bs_hooked := [] |})
               | None => Err E_TRAP
               end.
Definition sizeof_ (n : Z) : Z := n.

(* ---- struct bay_chan *)
Definition valid_chan (st : bstate) (c : nat) : bool := Nat.ltb c (length (B.b_chans (bs_bay st))).
Definition get_bay_chan__bay (sx : benv) (st : bstate) (p : ptr_bchan) : ptr_bay := Some tt.
Definition get_bay_chan__is_dirty (sx : benv) (st : bstate) (p : ptr_bchan) : Z := 0.
Definition set_bay_chan_is_dirty (p : ptr_bchan) (v : benv -> bstate -> Z) : M unit :=
  fun sx st => match p with Some _ => if v sx st =? 0 then Ok (tt, st) else Err E_TRAP | None => Err E_TRAP end.
Definition get_bay_chan__chan (sx : benv) (st : bstate) (p : ptr_bchan) : ptr_chan :=
  match p with Some (BAt c) => Some (CReg c) | Some BNew => bs_newbchan st | None => None end.
Definition get_bay_chan__cb (sx : benv) (st : bstate) (p : ptr_bchan) : ptr_cbs :=
  match p with
  | Some (BAt c) => [match B.dcbs_of (bs_bay st) c with d :: _ => Some (CbAt c (WD d)) | [] => None end;
                     match B.ecbs_of (bs_bay st) c with e :: _ => Some (CbAt c (WE e)) | [] => None end]
  | _ => [None; None]
  end.
Definition ixp_ptr_cb (l : ptr_cbs) (i : Z) : ptr_cb := nth (Z.to_nat i) l None.
Definition set_bay_chan_chan (p : ptr_bchan) (v : benv -> bstate -> ptr_chan) : M unit :=
  fun sx st => match p with Some BNew => Ok (tt, with_newbchan st (v sx st)) | _ => Err E_TRAP end.
Definition set_bay_chan_bay (p : ptr_bchan) (v : benv -> bstate -> ptr_bay) : M unit :=
  fun sx st => match p with Some BNew => Ok (tt, st) | _ => Err E_TRAP end.
Definition calloc_ptr_bchan (n size : Z) : M ptr_bchan :=
  fun sx st => if bn_alloc_ok sx then Ok (Some BNew, with_newbchan st None) else Ok (None, st).
Definition ptr_bchan_of_void (p : ptr_void) : ptr_bchan := match p with Some (VBchan b) => Some b | _ => None end.
Definition void_of_ptr_bchan (p : ptr_bchan) : ptr_void := option_map VBchan p.
Definition incr_bay_chan_ncallbacks_at (p : ptr_bchan) (i : benv -> bstate -> Z) : M unit :=
  fun sx st => match p with Some _ => Ok (tt, st) | None => Err E_TRAP end.

(* ---- the hash table by name *)
Definition get_chan__name (sx : benv) (st : bstate) (c : ptr_chan) : ptr_name :=
  match c with Some (CReg k) => Some k | Some (CNewChan n _) => Some n | None => None end.
Definition find_bay_chan (sx : benv) (st : bstate) (b : ptr_bay) (name : ptr_name) : ptr_bchan :=
  match name with Some k => if valid_chan st k then Some (BAt k) else None | None => None end.
Definition chan_set_dirty_cb (c : ptr_chan) (f : option dirtyfn) (arg : ptr_void) : M unit :=
  fun sx st => match c, f, arg with
               | Some (CNewChan n _), Some _, Some (VBchan BNew) => Ok (tt, with_hooked st (n :: bs_hooked st))
               | _, _, _ => Err E_TRAP
               end.
(* a new channel's name must be the next id (names are ids): anything else cannot be represented *)
Definition HASH_ADD_STR_bay_channels (b : ptr_bay) (x : ptr_bchan) : M unit :=
  fun sx st => match b, x, bs_newbchan st with
               | Some _, Some BNew, Some (CNewChan n ch) =>
                 let bb := bs_bay st in
                 if Nat.eqb n (length (B.b_chans bb)) then
                   Ok (tt, with_bay st {| B.b_chans := B.b_chans bb ++ [ch]; B.b_dcbs := B.b_dcbs bb ++ [[]]; B.b_ecbs := B.b_ecbs bb ++ [[]];
                                          B.b_muxes := B.b_muxes bb; B.b_dirty := B.b_dirty bb |})
                 else Err E_TRAP
               | _, _, _ => Err E_TRAP
               end.
Definition DL_APPEND_bay_dirty (b : ptr_bay) (x : ptr_bchan) : M unit :=
  fun sx st => match b, x with
               | Some _, Some (BAt c) => Ok (tt, with_bay st (B.set_dirty_list (bs_bay st) (B.b_dirty (bs_bay st) ++ [c])))
               | _, _ => Err E_TRAP
               end.

(* ---- struct bay_cb *)
Definition what_of (f : ptr_cbfn) (a : ptr_void) : option cbwhat :=
  match f, a with
  | Some FSelect, Some (VMux m) => Some (WD (B.DSelect m))
  | Some FReselect, Some (VMux m) => Some (WD (B.DReselect m))
  | Some FInput, Some (VInput m i) => Some (WD (B.DInput m i))
  | Some FPrv, Some (VPrv e) => Some (WE e)
  | _, _ => None
  end.
Definition resolve (st : bstate) (p : ptr_cb) : option (nat * cbwhat) :=
  match p with
  | Some (CbAt c w) => Some (c, w)
  | Some CbNew => match nc_bchan (bs_newcb st), what_of (nc_func (bs_newcb st)) (nc_arg (bs_newcb st)) with
                  | Some (BAt c), Some w => Some (c, w) | _, _ => None end
  | None => None
  end.
Definition type_of (w : cbwhat) : Z := match w with WD _ => 0 | WE _ => 1 end.
Definition ecb_eqb (a b : B.ecb) : bool :=
  Bool.eqb (B.e_cpu a) (B.e_cpu b) && Nat.eqb (B.e_row a) (B.e_row b) && Z.eqb (B.e_type a) (B.e_type b) && Z.eqb (B.e_flags a) (B.e_flags b).
Definition en_of (st : bstate) (c : nat) (w : cbwhat) : Z :=
  match w with
  | WD (B.DInput m i) => match nth_error (B.b_muxes (bs_bay st)) m with
                         | Some mx => b2z (nth i (B.mx_en mx) false) | None => 0 end
  | WD d => b2z (existsb (B.dcb_eqb d) (B.dcbs_of (bs_bay st) c))
  | WE e => b2z (existsb (ecb_eqb e) (B.ecbs_of (bs_bay st) c))
  end.
Definition get_bay_cb__enabled (sx : benv) (st : bstate) (p : ptr_cb) : Z :=
  match p with
  | Some CbNew => nc_enabled (bs_newcb st)
  | Some (CbAt c w) => en_of st c w
  | None => 0
  end.
Definition get_bay_cb__bchan (sx : benv) (st : bstate) (p : ptr_cb) : ptr_bchan :=
  match p with Some CbNew => nc_bchan (bs_newcb st) | Some (CbAt c _) => Some (BAt c) | None => None end.
Definition get_bay_cb__type (sx : benv) (st : bstate) (p : ptr_cb) : Z :=
  match p with Some CbNew => nc_type (bs_newcb st) | Some (CbAt _ w) => type_of w | None => 0 end.
Definition get_bay_cb__arg (sx : benv) (st : bstate) (p : ptr_cb) : ptr_void :=
  match p with
  | Some CbNew => nc_arg (bs_newcb st)
  | Some (CbAt _ (WD (B.DSelect m))) | Some (CbAt _ (WD (B.DReselect m))) => Some (VMux m)
  | Some (CbAt _ (WD (B.DInput m i))) => Some (VInput m i)
  | Some (CbAt _ (WE e)) => Some (VPrv e)
  | None => None
  end.
Definition upd_new (st : bstate) (f : newcb -> newcb) : result (unit * bstate) := Ok (tt, with_newcb st (f (bs_newcb st))).
Definition set_bay_cb_func (p : ptr_cb) (v : benv -> bstate -> ptr_cbfn) : M unit :=
  fun sx st => match p with Some CbNew => upd_new st (fun n => {| nc_func := v sx st; nc_arg := nc_arg n; nc_bchan := nc_bchan n; nc_type := nc_type n; nc_enabled := nc_enabled n |}) | _ => Err E_TRAP end.
Definition set_bay_cb_arg (p : ptr_cb) (v : benv -> bstate -> ptr_void) : M unit :=
  fun sx st => match p with Some CbNew => upd_new st (fun n => {| nc_func := nc_func n; nc_arg := v sx st; nc_bchan := nc_bchan n; nc_type := nc_type n; nc_enabled := nc_enabled n |}) | _ => Err E_TRAP end.
Definition set_bay_cb_bchan (p : ptr_cb) (v : benv -> bstate -> ptr_bchan) : M unit :=
  fun sx st => match p with Some CbNew => upd_new st (fun n => {| nc_func := nc_func n; nc_arg := nc_arg n; nc_bchan := v sx st; nc_type := nc_type n; nc_enabled := nc_enabled n |}) | _ => Err E_TRAP end.
Definition set_bay_cb_type (p : ptr_cb) (v : benv -> bstate -> Z) : M unit :=
  fun sx st => match p with Some CbNew => upd_new st (fun n => {| nc_func := nc_func n; nc_arg := nc_arg n; nc_bchan := nc_bchan n; nc_type := v sx st; nc_enabled := nc_enabled n |}) | _ => Err E_TRAP end.
(* cb->enabled = v: for a mux input callback the flag lives in the mux (mx_en); for the struct being filled, in the register *)
Definition set_bay_cb_enabled (p : ptr_cb) (v : benv -> bstate -> Z) : M unit :=
  fun sx st =>
    match p with
    | None => Err E_TRAP
    | Some r =>
      let st1 := match r with
                 | CbNew => with_newcb st (let n := bs_newcb st in {| nc_func := nc_func n; nc_arg := nc_arg n; nc_bchan := nc_bchan n; nc_type := nc_type n; nc_enabled := v sx st |})
                 | _ => st end in
      match resolve st p with
      | Some (_, WD (B.DInput m i)) =>
        match nth_error (B.b_muxes (bs_bay st1)) m with
        | Some mx => Ok (tt, with_bay st1 (B.set_mux (bs_bay st1) m (B.mux_with_en mx (update (B.mx_en mx) i (negb (v sx st =? 0))))))
        | None => Err B.E_WIRING
        end
      | _ => Ok (tt, st1)
      end
    end.
Definition calloc_ptr_cb (n size : Z) : M ptr_cb :=
  fun sx st => if bn_alloc_ok sx then Ok (Some CbNew, with_newcb st newcb0) else Ok (None, st).

Definition DL_APPEND_bay_chan_cb_at (p : ptr_bchan) (ty : benv -> bstate -> Z) (x : ptr_cb) : M unit :=
  fun sx st =>
    match p, resolve st x with
    | Some (BAt c), Some (c', w) =>
      if Nat.eqb c c' && (ty sx st =? type_of w) then
        match w with
        | WD d => Ok (tt, with_bay st (B.set_dcbs (bs_bay st) c (B.dcbs_of (bs_bay st) c ++ [d])))
        | WE e => let bb := bs_bay st in
                  Ok (tt, with_bay st {| B.b_chans := B.b_chans bb; B.b_dcbs := B.b_dcbs bb; B.b_ecbs := update (B.b_ecbs bb) c (B.ecbs_of bb c ++ [e]);
                                         B.b_muxes := B.b_muxes bb; B.b_dirty := B.b_dirty bb |})
        end
      else Err E_TRAP
    | _, _ => Err E_TRAP
    end.
Definition DL_DELETE_bay_chan_cb_at (p : ptr_bchan) (ty : benv -> bstate -> Z) (x : ptr_cb) : M unit :=
  fun sx st =>
    match p, resolve st x with
    | Some (BAt c), Some (c', WD d) =>
      if Nat.eqb c c' && (ty sx st =? 0) then Ok (tt, with_bay st (B.set_dcbs (bs_bay st) c (B.remove_dcb d (B.dcbs_of (bs_bay st) c))))
      else Err E_TRAP
    | _, _ => Err E_TRAP                       (* emit callbacks are never disabled by the emulator *)
    end.

(* ---- the calls through function pointers, chan_flush *)
Definition call_cb (cur : ptr_cb) (chan : ptr_chan) (arg : ptr_void) : M unit :=
  fun sx st =>
    match cur, chan with
    | Some (CbAt c (WD d)), Some (CReg c') =>
      if Nat.eqb c c' then match B.run_dcb (bs_bay st) d with Ok b' => Ok (tt, with_bay st b') | Err e => Err e end else Err E_TRAP
    | Some (CbAt c (WE e)), Some (CReg c') =>
      if Nat.eqb c c' then
        match B.read_chan (bs_bay st) c with
        | Err er => Err er
        | Ok v => match emit (bs_last st) (B.e_cpu e) (B.e_row e) (B.e_type e) (B.e_flags e) v with
                  | Ok (last1, l1) => Ok (tt, with_emit st last1 (bs_lines st ++ l1))
                  | Err er => Err er
                  end
        end
      else Err E_TRAP
    | _, _ => Err E_TRAP
    end.
Definition chan_flush (c : ptr_chan) : M unit :=
  fun sx st =>
    match c with
    | Some (CReg k) =>
      match nth_error (B.b_chans (bs_bay st)) k with
      | None => Err B.E_WIRING
      | Some ch => if B.c_dirty ch then Ok (tt, with_bay st (B.set_chan (bs_bay st) k (B.flushed ch))) else Err B.E_FLUSH
      end
    | _ => Err E_TRAP
    end.

(* ---- the live walks *)
Fixpoint walk_dirty {A} (fuel : nat) (i : nat) (acc : A) (body : ptr_bchan -> A -> M A) : M A :=
  fun sx st =>
    match fuel with
    | O => Err B.E_FUEL
    | S f =>
      match nth_error (B.b_dirty (bs_bay st)) i with
      | None => Ok (acc, st)
      | Some c => match body (Some (BAt c)) acc sx st with
                  | Err e => Err e
                  | Ok (a, st') => walk_dirty f (S i) a body sx st'
                  end
      end
    end.
Definition for_next_bay_chan {A} (start : benv -> bstate -> ptr_bchan) (acc : A) (body : ptr_bchan -> A -> M A) : M A :=
  fun sx st => match start sx st with
               | None => Ok (acc, st)
               | Some _ => walk_dirty (S (length (B.b_chans (bs_bay st)))) 0 acc body sx st
               end.
Fixpoint walk_cb {A} (fuel : nat) (c : nat) (cur : B.dcb) (acc : A) (body : ptr_cb -> A -> M A) : M A :=
  fun sx st =>
    match fuel with
    | O => Err B.E_FUEL
    | S f =>
      match body (Some (CbAt c (WD cur))) acc sx st with
      | Err e => Err e
      | Ok (a, st') =>
        match B.next_after cur (B.dcbs_of (bs_bay st') c) with
        | None => Err B.E_SELFMOD
        | Some None => Ok (a, st')
        | Some (Some d) => walk_cb f c d a body sx st'
        end
      end
    end.
Fixpoint walk_ecbs {A} (c : nat) (es : list B.ecb) (acc : A) (body : ptr_cb -> A -> M A) : M A :=
  match es with
  | [] => ret acc
  | e :: r => bind (body (Some (CbAt c (WE e))) acc) (fun a => walk_ecbs c r a body)
  end.
Definition for_next_bay_cb {A} (start : benv -> bstate -> ptr_cb) (acc : A) (body : ptr_cb -> A -> M A) : M A :=
  fun sx st => match start sx st with
               | Some (CbAt c (WD d)) => walk_cb (B.walk_fuel (bs_bay st) c) c d acc body sx st
               | Some (CbAt c (WE _)) => walk_ecbs c (B.ecbs_of (bs_bay st) c) acc body sx st
               | Some CbNew => Err E_TRAP
               | None => Ok (acc, st)
               end.
