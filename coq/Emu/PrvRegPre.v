(* Hand-written prelude of Gen/PrvReg_gen.v (unit prvreg): prv_register / check_flags / get_id of src/emu/pv/prv.c.
   State: a BayDefs bay (the emit callback lists of its channels), the ids already in the hash table prv->channels, and the
   struct prv_chan being filled.  Primitives:
     - find_prv_chan (HASH_FIND_LONG) / HASH_ADD_LONG: the hash table by id, as the list of ids it holds;
     - calloc of the struct prv_chan (zeroed), its field setters, value_null();
     - bay_add_cb(bay, BAY_CB_EMIT, chan, cb_prv, rchan, 1): NULL for an unregistered channel or a failed calloc; otherwise the
       emit callback that cb_prv will run on this struct (side of the PRV file, row = row_base1 - 1, type, flags: what
       BayDefs.ecb records) is appended at the END of the channel's emit callbacks (bay.c bay_enable_cb: DL_APPEND).
   `return -1` = E_FAIL, a NULL dereference = E_TRAP.  Definitions only; proofs in Proofs/PrvRegProofs.v. *)
From Coq Require Import ZArith List Bool.
From OV Require Import Base.CInt Emu.EmuCoreDefs.
From OV Require Emu.BayDefs.
Import ListNotations.
Local Open Scope Z_scope.

Module B := BayDefs.

Definition ptr_prv := option unit.
Definition ptr_rchan := option unit.         (* the struct being filled (a found one is never dereferenced) *)
Definition ptr_bay := option unit.
Definition ptr_chan := option nat.           (* a channel by its bay id *)
Definition ptr_cb := option B.ecb.
Definition ptr_void := option unit.
Definition ptr_cbfn := option unit.
Definition cvalue := value.
Definition fn_cb_prv : ptr_cbfn := Some tt.

Record rchanobj := { rc_id : Z; rc_chan : ptr_chan; rc_row_base1 : Z; rc_type : Z; rc_prv : ptr_prv;
                     rc_last : cvalue; rc_last_set : Z; rc_flags : Z }.
Definition rchan0 : rchanobj :=
  {| rc_id := 0; rc_chan := None; rc_row_base1 := 0; rc_type := 0; rc_prv := None; rc_last := None; rc_last_set := 0; rc_flags := 0 |}.

Record rstate := { rs_bay : B.bay; rs_ids : list Z; rs_new : rchanobj }.
Record renv := { rn_cpu : bool;          (* which PRV file this struct prv writes: thread.prv (false) / cpu.prv (true) *)
                 rn_nrows : Z; rn_alloc_ok : bool }.

Definition E_FAIL := 120%nat.
Definition E_TRAP := 199%nat.
Definition E_DIE := 198%nat.

Definition M (A : Type) : Type := renv -> rstate -> result (A * rstate).
Definition ret {A} (a : A) : M A := fun _ st => Ok (a, st).
Definition fail {A} (e : nat) : M A := fun _ _ => Err e.
Definition bind {A B} (m : M A) (f : A -> M B) : M B :=
  fun sx st => match m sx st with Ok (a, st') => f a sx st' | Err e => Err e end.
Definition bind_ {A B} (m : M A) (k : M B) : M B := bind m (fun _ => k).
Definition eval {A} (f : renv -> rstate -> A) : M A := fun sx st => Ok (f sx st, st).
Definition ite {A} (c : renv -> rstate -> bool) (a b : M A) : M A :=
  fun sx st => if c sx st then a sx st else b sx st.
Definition need {A} (safe : renv -> rstate -> bool) (k : M A) : M A :=
  fun sx st => if safe sx st then k sx st else Err E_TRAP.

Definition with_bay (st : rstate) (b : B.bay) : rstate := {| rs_bay := b; rs_ids := rs_ids st; rs_new := rs_new st |}.
Definition with_ids (st : rstate) (l : list Z) : rstate := {| rs_bay := rs_bay st; rs_ids := l; rs_new := rs_new st |}.
Definition with_new (st : rstate) (n : rchanobj) : rstate := {| rs_bay := rs_bay st; rs_ids := rs_ids st; rs_new := n |}.

Definition sizeof_ (n : Z) : Z := n.
Definition get_prv__nrows (sx : renv) (st : rstate) (p : ptr_prv) : Z := rn_nrows sx.
Definition find_prv_chan (sx : renv) (st : rstate) (p : ptr_prv) (id : Z) : ptr_rchan :=
  if existsb (Z.eqb id) (rs_ids st) then Some tt else None.
Definition value_null (sx : renv) (st : rstate) : cvalue := None.
Definition void_of_ptr_rchan (p : ptr_rchan) : ptr_void := p.
Definition calloc_ptr_rchan (n size : Z) : M ptr_rchan :=
  fun sx st => if rn_alloc_ok sx then Ok (Some tt, with_new st rchan0) else Ok (None, st).

Definition upd_new (p : ptr_rchan) (f : rchanobj -> rchanobj) : M unit :=
  fun sx st => match p with Some _ => Ok (tt, with_new st (f (rs_new st))) | None => Err E_TRAP end.
Definition set_prv_chan_id (p : ptr_rchan) (v : renv -> rstate -> Z) : M unit :=
  fun sx st => upd_new p (fun o => {| rc_id := v sx st; rc_chan := rc_chan o; rc_row_base1 := rc_row_base1 o; rc_type := rc_type o; rc_prv := rc_prv o; rc_last := rc_last o; rc_last_set := rc_last_set o; rc_flags := rc_flags o |}) sx st.
Definition set_prv_chan_chan (p : ptr_rchan) (v : renv -> rstate -> ptr_chan) : M unit :=
  fun sx st => upd_new p (fun o => {| rc_id := rc_id o; rc_chan := v sx st; rc_row_base1 := rc_row_base1 o; rc_type := rc_type o; rc_prv := rc_prv o; rc_last := rc_last o; rc_last_set := rc_last_set o; rc_flags := rc_flags o |}) sx st.
Definition set_prv_chan_row_base1 (p : ptr_rchan) (v : renv -> rstate -> Z) : M unit :=
  fun sx st => upd_new p (fun o => {| rc_id := rc_id o; rc_chan := rc_chan o; rc_row_base1 := v sx st; rc_type := rc_type o; rc_prv := rc_prv o; rc_last := rc_last o; rc_last_set := rc_last_set o; rc_flags := rc_flags o |}) sx st.
Definition set_prv_chan_type (p : ptr_rchan) (v : renv -> rstate -> Z) : M unit :=
  fun sx st => upd_new p (fun o => {| rc_id := rc_id o; rc_chan := rc_chan o; rc_row_base1 := rc_row_base1 o; rc_type := v sx st; rc_prv := rc_prv o; rc_last := rc_last o; rc_last_set := rc_last_set o; rc_flags := rc_flags o |}) sx st.
Definition set_prv_chan_prv (p : ptr_rchan) (v : renv -> rstate -> ptr_prv) : M unit :=
  fun sx st => upd_new p (fun o => {| rc_id := rc_id o; rc_chan := rc_chan o; rc_row_base1 := rc_row_base1 o; rc_type := rc_type o; rc_prv := v sx st; rc_last := rc_last o; rc_last_set := rc_last_set o; rc_flags := rc_flags o |}) sx st.
Definition set_prv_chan_last_value (p : ptr_rchan) (v : renv -> rstate -> cvalue) : M unit :=
  fun sx st => upd_new p (fun o => {| rc_id := rc_id o; rc_chan := rc_chan o; rc_row_base1 := rc_row_base1 o; rc_type := rc_type o; rc_prv := rc_prv o; rc_last := v sx st; rc_last_set := rc_last_set o; rc_flags := rc_flags o |}) sx st.
Definition set_prv_chan_last_value_set (p : ptr_rchan) (v : renv -> rstate -> Z) : M unit :=
  fun sx st => upd_new p (fun o => {| rc_id := rc_id o; rc_chan := rc_chan o; rc_row_base1 := rc_row_base1 o; rc_type := rc_type o; rc_prv := rc_prv o; rc_last := rc_last o; rc_last_set := v sx st; rc_flags := rc_flags o |}) sx st.
Definition set_prv_chan_flags (p : ptr_rchan) (v : renv -> rstate -> Z) : M unit :=
  fun sx st => upd_new p (fun o => {| rc_id := rc_id o; rc_chan := rc_chan o; rc_row_base1 := rc_row_base1 o; rc_type := rc_type o; rc_prv := rc_prv o; rc_last := rc_last o; rc_last_set := rc_last_set o; rc_flags := v sx st |}) sx st.

(* the emit callback cb_prv will run on the struct being filled *)
Definition ecb_of (sx : renv) (o : rchanobj) : B.ecb :=
  {| B.e_cpu := rn_cpu sx; B.e_row := Z.to_nat (rc_row_base1 o - 1); B.e_type := rc_type o; B.e_flags := rc_flags o |}.
Definition valid (st : rstate) (c : nat) : bool := Nat.ltb c (length (B.b_chans (rs_bay st))).
Definition set_ecbs (b : B.bay) (c : nat) (l : list B.ecb) : B.bay :=
  {| B.b_chans := B.b_chans b; B.b_dcbs := B.b_dcbs b; B.b_ecbs := update (B.b_ecbs b) c l; B.b_muxes := B.b_muxes b; B.b_dirty := B.b_dirty b |}.
Definition bay_add_cb (b : ptr_bay) (type : Z) (c : ptr_chan) (f : ptr_cbfn) (arg : ptr_void) (enabled : Z) : M ptr_cb :=
  fun sx st =>
    match b, c, f, arg with
    | Some _, Some k, Some _, Some _ =>
      if negb (type =? 1) then Err E_TRAP else
      if negb (valid st k) then Ok (None, st) else
      if negb (rn_alloc_ok sx) then Ok (None, st) else
      let e := ecb_of sx (rs_new st) in
      if enabled =? 0 then Ok (Some e, st)
      else Ok (Some e, with_bay st (set_ecbs (rs_bay st) k (B.ecbs_of (rs_bay st) k ++ [e])))
    | _, _, None, _ => Ok (None, st)
    | _, _, _, _ => Err E_TRAP
    end.
Definition HASH_ADD_LONG_prv_channels (p : ptr_prv) (x : ptr_rchan) : M unit :=
  fun sx st => match p, x with Some _, Some _ => Ok (tt, with_ids st (rc_id (rs_new st) :: rs_ids st)) | _, _ => Err E_TRAP end.
