(* Model of src/emu/stream.c: check_stream_header, load_stream_fd/load_obs and
   stream_step, with the real order of reads and checks, every C integer
   conversion explicit (Base/CInt.v) and explicit outcomes for the things a C
   program can do wrong here: reading outside the loaded buffer (OobRead),
   signed overflow in the `int` event-size arithmetic (SOverflow) and a cursor
   that does not advance (NoProgress, detected by the walk).

   The event-size functions are the Gallina translation of the C
   (Gen/Loader_gen.v: ovni_ev_size, ovni_payload_size, get_jumbo_payload_size).
   stream_step exists twice, sharing everything but the "does the event fit"
   guard:
     - [stream_step]      the REPAIRED code (patches/fix-c19-stream-bounds.diff):
                          guard = next_ev_size(cur_ev, size - offset) < 0,
                          modelled by [ev_size_checked]; Proofs/StreamProofs.v
                          proves it equal to the translation of the C function
                          (Gen/LoaderStep_gen.v);
     - [stream_step_old]  the code as found (Section "Old" at the end), kept
                          only for the refutation lemmas.
   Assumptions of the model: stream->clock_offset = 0 (no clock offset table),
   the file is smaller than 2^63 bytes. *)
From OV Require Import Base.CInt Emu.LoaderPre Gen.Loader_gen.
Local Open Scope Z_scope.

Definition C_INT_MAX : Z := 2147483647.
Definition in_int32 (z : Z) : bool := (- 2147483648 <=? z) && (z <=? C_INT_MAX).

(* ------------------------------------------------------------------ *)
(* positions read by the translated functions (absolute byte positions) *)

Definition span (p : Z) (n : nat) : list Z := map (fun k => p + Z.of_nat k) (seq 0 n).

Definition has_jumbo_flag (ev : evp) : bool :=
  negb (Z.land (get_header_flags ev) c_OVNI_EV_JUMBO =? 0).

(* ovni_ev_size(ev): header.flags, and payload.jumbo.size when the jumbo bit is set *)
Definition reads_ovni_ev_size (ev : evp) : list Z :=
  span (eoff ev + pre_off_flags) 1 ++
  (if has_jumbo_flag ev then span (eoff ev + pre_off_jumbo_size) 4 else []).

(* next_ev_size(ev, left): nothing if left < 12; the flags; the jumbo size only if left >= 16 *)
Definition reads_next_ev_size (ev : evp) (left : Z) : list Z :=
  if left <? c_sizeof_struct_ovni_ev_header then []
  else span (eoff ev + pre_off_flags) 1 ++
       (if has_jumbo_flag ev
        then if left <? c_sizeof_struct_ovni_ev_header + c_sizeof_uint32_t then []
             else span (eoff ev + pre_off_jumbo_size) 4
        else []).

(* ovni_ev_get_clock(ev) *)
Definition reads_clock (ev : evp) : list Z := span (eoff ev + pre_off_clock) 8.

(* first position of the list that is outside the buffer *)
Fixpoint first_oob (bs : bytes) (ps : list Z) : option Z :=
  match ps with
  | [] => None
  | p :: r => if in_buf bs p then first_oob bs r else Some p
  end.

(* ------------------------------------------------------------------ *)
(* loading *)

Inductive load_err :=
| LEmpty                          (* load_stream_fd: st_size == 0 *)
| LShortHeader                    (* check_stream_header: size < sizeof(header) *)
| LBadHeader (magic_bad version_bad : bool)
| LImpossible.                    (* load_obs: offset > size *)

Record stream : Type := mk_stream {
  s_buf : bytes;
  s_junk : Z -> Z;
  s_offset : Z;            (* int64_t offset *)
  s_cur : bool;            (* cur_ev != NULL; then cur_ev = &buf[offset] *)
  s_active : bool;
  s_lastclock : Z;         (* int64_t *)
  s_unsorted : bool;
}.

Definition s_size (st : stream) : Z := blen (s_buf st).   (* int64_t size = st_size *)
Definition view (st : stream) (off : Z) : evp := mk_evp (s_buf st) off (s_junk st).

Definition magic_of (bs : bytes) (junk : Z -> Z) : list Z :=
  map (fun k => rd bs junk (pre_off_magic + Z.of_nat k)) (seq 0 4).

Definition list_eqb (a b : list Z) : bool :=
  (length a =? length b)%nat && forallb (fun p => fst p =? snd p) (combine a b).

Definition check_stream_header (bs : bytes) (junk : Z -> Z) : option load_err :=
  if blen bs <? c_sizeof_struct_ovni_stream_header then Some LShortHeader
  else
    let mbad := negb (list_eqb (magic_of bs junk) c_OVNI_STREAM_MAGIC) in       (* memcmp(h->magic, "ovni", 4) != 0 *)
    let vbad := negb (rd_le bs junk pre_off_version 4 =? c_OVNI_STREAM_VERSION) in
    if mbad || vbad then Some (LBadHeader mbad vbad) else None.

Inductive load_res := LoadErr (e : load_err) | Loaded (st : stream).

Definition load_obs (bs : bytes) (junk : Z -> Z) (unsorted : bool) : load_res :=
  if blen bs =? 0 then LoadErr LEmpty else
  match check_stream_header bs junk with
  | Some e => LoadErr e
  | None =>
    let offset := c_sizeof_struct_ovni_stream_header in
    let size := blen bs in
    if offset <? size then Loaded (mk_stream bs junk offset false true 0 unsorted)
    else if offset =? size then Loaded (mk_stream bs junk offset false false 0 unsorted)
    else LoadErr LImpossible
  end.

(* ------------------------------------------------------------------ *)
(* stream_step *)

Inductive step_err :=
| EInactive               (* "stream is inactive, cannot step" *)
| EExceeds                (* "stream offset exceeds size" *)
| EIncomplete             (* "ends with incomplete event" *)
| EClockBackwards.        (* "clock goes backwards" *)

Inductive step_res :=
| ROk (st : stream)       (* return 0: an event is loaded at s_offset *)
| REnd (st : stream)      (* return +1 *)
| RErr (e : step_err)     (* return -1 *)
| ROob (pos : Z)          (* a read outside the loaded buffer, at absolute position pos *)
| RSOverflow.             (* signed overflow in int arithmetic (undefined behaviour) *)

(* result of the "does the event at the cursor fit" guard *)
Inductive guard_res := GFits | GIncomplete | GOob (pos : Z) | GOverflow.

(* hand-written statement of next_ev_size (repaired stream.c); = the translated C, see StreamProofs.next_ev_size_eq *)
Definition ev_size_checked (ev : evp) (left : Z) : Z :=
  if left <? 12 then -1
  else if has_jumbo_flag ev then
    if left <? 16 then -1
    else let size := 16 + get_payload_jumbo_size ev in
         if size >? C_INT_MAX then -1 else if left <? size then -1 else size
  else let size := 12 + ovni_payload_size ev in
       if left <? size then -1 else size.

Definition guard_new (bs : bytes) (ev : evp) (left : Z) : guard_res :=
  match first_oob bs (reads_next_ev_size ev left) with
  | Some p => GOob p
  | None => if ev_size_checked ev left <? 0 then GIncomplete else GFits
  end.

(* outcome of the block `if (stream->cur_ev != NULL) { offset += ovni_ev_size(cur_ev); ... }` *)
Inductive adv_res := ACont (off : Z) | AEnd (off : Z) | AErr (e : step_err) | AOob (p : Z) | AOverflow.

(* verdict of repeated stepping (see [walk]) *)
Inductive verdict :=
| VEnd | VErr (e : step_err) | VOob (pos : Z) | VSOverflow | VNoProgress (off : Z) | VFuel.

(* trace of the walk: (offset, size, clock) of each event delivered *)
Definition ev_rec : Type := (Z * Z * Z)%type.

Section Step.
  Variable guard : bytes -> evp -> Z -> guard_res.

  Definition advance (st : stream) : adv_res :=
    if s_cur st then
      let ev := view st (s_offset st) in
      match first_oob (s_buf st) (reads_ovni_ev_size ev) with
      | Some p => AOob p
      | None =>
        let sz := ovni_ev_size ev in                              (* int *)
        if negb (in_int32 sz) then AOverflow                      (* 12 + (int) payload size overflowed *)
        else
          let off := cast_int64 (s_offset st + sz) in             (* int64_t += int *)
          if off >? s_size st then AErr EExceeds
          else if off =? s_size st then AEnd off
          else ACont off
      end
    else ACont (s_offset st).

  Definition step_with (st : stream) : step_res :=
    if negb (s_active st) then RErr EInactive else
    match advance st with
    | AOob p => ROob p
    | AOverflow => RSOverflow
    | AErr e => RErr e
    | AEnd off => REnd (mk_stream (s_buf st) (s_junk st) off false false (s_lastclock st) (s_unsorted st))
    | ACont off =>
      let ev := view st off in                                    (* cur_ev = &buf[offset] *)
      let left := cast_int64 (s_size st - off) in
      match guard (s_buf st) ev left with
      | GOob p => ROob p
      | GOverflow => RSOverflow
      | GIncomplete => RErr EIncomplete
      | GFits =>
        match first_oob (s_buf st) (reads_clock ev) with
        | Some p => ROob p
        | None =>
          let clock := cast_int64 (get_header_clock ev) in        (* (int64_t) ovni_ev_get_clock(ev) + 0 *)
          if negb (s_unsorted st) && (clock <? s_lastclock st) then RErr EClockBackwards
          else ROk (mk_stream (s_buf st) (s_junk st) off true true clock (s_unsorted st))
        end
      end
    end.

End Step.

(* Repeated stepping as every consumer does it (player, ovnisort, ovnidump):
   step until End or an error.  An Ok step that does not move the cursor
   forward although an event was loaded is reported as NoProgress: the C
   loop would go on forever (or backwards).  [VFuel] = the bound was not
   enough; the theorems show it never happens with fuel = length + 1. *)
Section Walk.
  Variable step : stream -> step_res.

  Fixpoint walk (fuel : nat) (st : stream) : verdict * list ev_rec :=
    match fuel with
    | O => (VFuel, [])
    | S f =>
      match step st with
      | ROk st' =>
        if s_cur st && (s_offset st' <=? s_offset st) then (VNoProgress (s_offset st'), [])
        else let (v, evs) := walk f st' in
             (v, (s_offset st', ovni_ev_size (view st' (s_offset st')), s_lastclock st') :: evs)
      | REnd _ => (VEnd, [])
      | RErr e => (VErr e, [])
      | ROob p => (VOob p, [])
      | RSOverflow => (VSOverflow, [])
      end
    end.
End Walk.

Definition stream_step : stream -> step_res := step_with guard_new.

Inductive run_res := RunLoadErr (e : load_err) | Run (v : verdict) (evs : list ev_rec).

(* load + walk; a stream without events (inactive after loading) is never stepped *)
Definition run_with (step : stream -> step_res) (fuel : nat) (bs : bytes) (junk : Z -> Z) (unsorted : bool) : run_res :=
  match load_obs bs junk unsorted with
  | LoadErr e => RunLoadErr e
  | Loaded st => if s_active st then let (v, evs) := walk step fuel st in Run v evs else Run VEnd []
  end.

Definition run (bs : bytes) (junk : Z -> Z) (unsorted : bool) : run_res :=
  run_with stream_step (S (length bs)) bs junk unsorted.

(* what ovniemu/ovnidump make of it: exit status 0 only when every stream reached its end *)
Definition accepted (r : run_res) : bool :=
  match r with Run VEnd _ => true | _ => false end.
Definition rejected_cleanly (r : run_res) : bool :=
  match r with RunLoadErr _ => true | Run (VErr _) _ => true | _ => false end.

(* ------------------------------------------------------------------ *)
(* ovnisort's own walks over a region [p, e) of the stream that stream_step has
   already delivered (find_min_clock / count_events / index_events all are
   `while (p < end) p += ovni_ev_size(p)`).  Result: number of events and final
   p, or the same failure outcomes. *)
Inductive region_res := RegDone (n : Z) (p : Z) | RegOob (pos : Z) | RegSOverflow | RegNoProgress (p : Z) | RegFuel.

Fixpoint count_events (fuel : nat) (bs : bytes) (junk : Z -> Z) (p e : Z) (n : Z) : region_res :=
  match fuel with
  | O => RegFuel
  | S f =>
    if p >=? e then RegDone n p
    else
      let ev := mk_evp bs p junk in
      match first_oob bs (reads_ovni_ev_size ev) with
      | Some q => RegOob q
      | None =>
        let sz := ovni_ev_size ev in
        if negb (in_int32 sz) then RegSOverflow
        else if sz <=? 0 then RegNoProgress p
        else count_events f bs junk (p + sz) e (n + 1)
      end
  end.

(* ------------------------------------------------------------------ *)
(* the code as found (before patches/fix-c19-stream-bounds.diff)        *)
Section Old.
  (* `if (stream->offset + ovni_ev_size(stream->cur_ev) > stream->size)`: the flags and the jumbo
     size are read first, whatever the distance to the end of the buffer *)
  Definition guard_old (bs : bytes) (ev : evp) (left : Z) : guard_res :=
    match first_oob bs (reads_ovni_ev_size ev) with
    | Some p => GOob p
    | None =>
      let sz := ovni_ev_size ev in
      if negb (in_int32 sz) then GOverflow
      else if cast_int64 (eoff ev + sz) >? blen bs then GIncomplete else GFits
    end.

  Definition in_int64 (z : Z) : bool := (- 9223372036854775808 <=? z) && (z <=? 9223372036854775807).

  (* `stream->deltaclock = clock - stream->lastclock;` in signed 64-bit arithmetic: with an unsorted
     consumer the difference of two on-disk clocks need not fit (repaired by
     patches/fix-c19-clock-delta-overflow.diff: computed with wrap-around; the field is write-only) *)
  Definition stream_step_old (st : stream) : step_res :=
    match step_with guard_old st with
    | ROk st' => if in_int64 (s_lastclock st' - s_lastclock st) then ROk st' else RSOverflow
    | r => r
    end.

  Definition run_old (bs : bytes) (junk : Z -> Z) (unsorted : bool) : run_res :=
    run_with stream_step_old (S (length bs)) bs junk unsorted.
End Old.
