(* C13: the Paraver WRITER layer of the emulator (src/emu/pv/pcf.c, prf.c, prv.c, pvt.c, recorder.c) and the
   connect-time registration that decides rows, event types and labels (system.c system_connect, thread.c, cpu.c,
   model_pvt.c, ovni/mark.c mark_connect, task.c task_create_pcf_types, <model>/setup.c finish_pvt).
   Files are byte strings (lists of byte values, [str]); [pcf_text], [prf_text] and the PRV header/line
   renderers reproduce the real files byte for byte (compared with ovniemu's files on every run of the C13
   check).  Constant text and tables come from the source by compilation (Gen/Pv_gen.v, translate/units/pv.py).
   Definitions only; executable. *)
From Coq Require Import Strings.String Strings.Ascii.
From Coq Require Import ZArith List Bool.
From OV Require Import Base.CInt Emu.EmuCoreDefs Emu.DecodeDefs Emu.MarkDefs.
From OV Require Gen.Tables_gen Gen.Pv_gen.
Import ListNotations.
Local Open Scope Z_scope.

(* ------------------------------------------------------------------ byte strings *)
Fixpoint zs (s : string) : str :=
  match s with
  | EmptyString => []
  | String a r => Z.of_N (N_of_ascii a) :: zs r
  end.

Definition NL : Z := 10.
Definition SP : Z := 32.
Definition slen (s : str) : Z := Z.of_nat (length s).
Definition no_nl (s : str) : Prop := ~ In NL s.
Definition no_nlb (s : str) : bool := negb (existsb (Z.eqb NL) s).

(* ------------------------------------------------------------------ printf %d and back *)
Fixpoint digits (fuel : nat) (n : Z) : str :=      (* most significant first *)
  match fuel with
  | O => []
  | S f => if n <? 10 then [48 + n] else digits f (n / 10) ++ [48 + n mod 10]
  end.
Definition dec_u (n : Z) : str := digits (S (Z.to_nat (Z.log2 n))) n.
Definition dec (n : Z) : str := if n <? 0 then 45 :: dec_u (- n) else dec_u n.

Definition is_digit (c : Z) : bool := (48 <=? c) && (c <=? 57).
Definition undec_u (l : str) : option Z :=
  match l with
  | [] => None
  | _ => if forallb is_digit l then Some (fold_left (fun a c => a * 10 + (c - 48)) l 0) else None
  end.
Definition undec (l : str) : option Z :=
  match l with
  | 45 :: r => match undec_u r with Some n => Some (- n) | None => None end
  | _ => undec_u l
  end.

(* "%-Nd" / "%Nd" / "%0Nd" *)
Definition pad_right (w : nat) (s : str) : str := s ++ repeat SP (w - length s).
Definition pad_left (w : nat) (c : Z) (s : str) : str := repeat c (w - length s) ++ s.
(* "%020lld": the sign comes before the zeros *)
Definition dec_pad0 (w : nat) (n : Z) : str :=
  if n <? 0 then 45 :: pad_left (w - 1) 48 (dec_u (- n)) else pad_left w 48 (dec_u n).

(* ------------------------------------------------------------------ lines *)
Fixpoint lines (t : str) : list str :=
  match t with
  | [] => [[]]
  | c :: r => if c =? NL then [] :: lines r
              else match lines r with l :: ls => (c :: l) :: ls | [] => [[c]] end
  end.
Definition unlines (ls : list str) : str := concat (map (fun l => l ++ [NL]) ls).

Fixpoint strip_prefix (p t : str) : option str :=
  match p, t with
  | [], _ => Some t
  | a :: p', b :: t' => if a =? b then strip_prefix p' t' else None
  | _ :: _, [] => None
  end.

(* a leading number (optional '-', then digits) and what follows *)
Fixpoint span_digits (l : str) : str * str :=
  match l with
  | c :: r => if is_digit c then let (a, b) := span_digits r in (c :: a, b) else ([], l)
  | [] => ([], [])
  end.
Definition span_num (l : str) : str * str :=
  match l with
  | 45 :: r => let (a, b) := span_digits r in (45 :: a, b)
  | _ => span_digits l
  end.
Fixpoint drop_exact (n : nat) (c : Z) (l : str) : option str :=
  match n with
  | O => Some l
  | S k => match l with x :: r => if x =? c then drop_exact k c r else None | [] => None end
  end.
(* "%-Wd %s" *)
Definition num_label (w : nat) (n : Z) (label : str) : str := pad_right w (dec n) ++ SP :: label.
Definition parse_num_label (w : nat) (l : str) : option (Z * str) :=
  let (num, rest) := span_num l in
  match undec num with
  | None => None
  | Some n =>
    match drop_exact (w - length num) SP rest with
    | Some (c :: lab) => if c =? SP then Some (n, lab) else None
    | _ => None
    end
  end.

(* ------------------------------------------------------------------ errors of the writer layer *)
Definition E_PCF_DUPTYPE := 20%nat.   (* PCF type already defined *)
Definition E_PCF_DUPVAL := 21%nat.    (* PCF value already in type *)
Definition E_PCF_LONG := 22%nat.      (* label too long *)
Definition E_PCF_NOTYPE := 23%nat.    (* cannot find the pcf type *)
Definition E_PRF_BOUNDS := 24%nat.
Definition E_PRF_SET := 25%nat.       (* row already set *)
Definition E_PRF_LONG := 26%nat.
Definition E_PRF_UNSET := 27%nat.     (* row not set at close *)
Definition E_PRV_DUPCHAN := 28%nat.   (* row/type has a channel registered *)
Definition E_PRV_FLAGS := 29%nat.
Definition E_PRV_TIME := 30%nat.      (* cannot move to previous time *)
Definition E_COLLISION := 31%nat.     (* task type labels collide on one gid *)
Definition E_PRV_NOCHAN := 32%nat.    (* a record for a (row,type) nobody registered: cannot happen in the C code *)

Definition bindr {A B} (r : result A) (f : A -> result B) : result B :=
  match r with Ok a => f a | Err e => Err e end.
Fixpoint foldr {A S} (f : A -> S -> result A) (l : list S) (a : A) : result A :=
  match l with
  | [] => Ok a
  | s :: r => match f a s with Ok a' => foldr f r a' | Err e => Err e end
  end.

(* ------------------------------------------------------------------ PCF (pv/pcf.c) *)
Record pcf_type := { pt_id : Z; pt_label : str; pt_values : list (Z * str) }.
Definition pcf := list pcf_type.          (* uthash: iteration order = insertion order *)

Definition MAXL : Z := Pv_gen.c_MAX_PCF_LABEL.

Definition pcf_find_type (p : pcf) (id : Z) : option pcf_type := find (fun t => pt_id t =? id) p.
Definition pcf_find_value (t : pcf_type) (v : Z) : option str :=
  match find (fun x => fst x =? v) (pt_values t) with Some x => Some (snd x) | None => None end.

Definition pcf_add_type (p : pcf) (id : Z) (label : str) : result pcf :=
  match pcf_find_type p id with
  | Some _ => Err E_PCF_DUPTYPE
  | None => if MAXL <=? slen label then Err E_PCF_LONG
            else Ok (p ++ [{| pt_id := id; pt_label := label; pt_values := [] |}])
  end.

(* the C function takes the struct pcf_type pointer; the model names the type by its id *)
Fixpoint pcf_add_value (p : pcf) (id v : Z) (label : str) : result pcf :=
  match p with
  | [] => Err E_PCF_NOTYPE
  | t :: r =>
    if pt_id t =? id then
      match pcf_find_value t v with
      | Some _ => Err E_PCF_DUPVAL
      | None => if MAXL <=? slen label then Err E_PCF_LONG
                else Ok ({| pt_id := pt_id t; pt_label := pt_label t; pt_values := pt_values t ++ [(v, label)] |} :: r)
      end
    else match pcf_add_value r id v label with Ok r' => Ok (t :: r') | Err e => Err e end
  end.

Definition S_EVENT_TYPE : str := Eval vm_compute in zs "EVENT_TYPE".
Definition S_VALUES : str := Eval vm_compute in zs "VALUES".
Definition S_STATES_COLOR : str := Eval vm_compute in zs "STATES_COLOR".

(* write_colors: "%-3d {%3d, %3d, %3d}\n" *)
Definition color_line (i : Z) (col : Z) : str :=
  let r := (col / 65536) mod 256 in let g := (col / 256) mod 256 in let b := col mod 256 in
  pad_right 3 (dec i) ++ [SP; 123] ++ pad_left 3 SP (dec r) ++ [44; SP] ++ pad_left 3 SP (dec g) ++ [44; SP] ++
  pad_left 3 SP (dec b) ++ [125].
Definition colors_lines : list str :=
  [[]; []; S_STATES_COLOR] ++ map (fun x => color_line (Z.of_nat (fst x)) (snd x)) (combine (seq 0 (length Pv_gen.pcf_palette)) Pv_gen.pcf_palette).

(* write_type: "\n\nEVENT_TYPE\n0 %-10d %s\nVALUES\n" then "%-4d %s\n" per value *)
Definition type_line (t : pcf_type) : str := [48; SP] ++ num_label 10 (pt_id t) (pt_label t).
Definition value_line (x : Z * str) : str := num_label 4 (fst x) (snd x).
Definition type_lines (t : pcf_type) : list str :=
  [[]; []; S_EVENT_TYPE; type_line t; S_VALUES] ++ map value_line (pt_values t).

Definition pcf_preamble : str := Pv_gen.pcf_def_header ++ unlines colors_lines.
Definition pcf_text (p : pcf) : str := pcf_preamble ++ unlines (flat_map type_lines p).

(* reading it back: a pass over the lines that follow the preamble *)
Inductive pst :=
| PIdle (acc : list pcf_type)
| PWantType (acc : list pcf_type)
| PWantValues (acc : list pcf_type) (id : Z) (label : str)
| PInValues (acc : list pcf_type) (id : Z) (label : str) (vals : list (Z * str))
| PFail.

Definition str_eq (a b : str) : bool := str_eqb a b.

Definition pstep (s : pst) (l : str) : pst :=
  match s with
  | PIdle acc =>
    match l with
    | [] => PIdle acc
    | _ => if str_eq l S_EVENT_TYPE then PWantType acc else PFail
    end
  | PWantType acc =>
    match l with
    | 48 :: 32 :: r => match parse_num_label 10 r with Some (id, lab) => PWantValues acc id lab | None => PFail end
    | _ => PFail
    end
  | PWantValues acc id lab => if str_eq l S_VALUES then PInValues acc id lab [] else PFail
  | PInValues acc id lab vals =>
    match l with
    | [] => PIdle ({| pt_id := id; pt_label := lab; pt_values := rev vals |} :: acc)
    | _ => match parse_num_label 4 l with Some x => PInValues acc id lab (x :: vals) | None => PFail end
    end
  | PFail => PFail
  end.

Definition parse_pcf (text : str) : option pcf :=
  match strip_prefix pcf_preamble text with
  | None => None
  | Some rest =>
    match fold_left pstep (lines rest) (PIdle []) with
    | PIdle acc => Some (rev acc)
    | _ => None
    end
  end.

Definition pcf_wf (p : pcf) : Prop :=
  forall t, In t p -> no_nl (pt_label t) /\ forall x, In x (pt_values t) -> no_nl (snd x).

(* what a reader of the FILE sees: type id declared / value labelled under a type *)
Definition text_declares (text : str) (ty : Z) : Prop :=
  exists p t, parse_pcf text = Some p /\ In t p /\ pt_id t = ty.
Definition text_labels (text : str) (ty v : Z) : Prop :=
  exists p t l, parse_pcf text = Some p /\ In t p /\ pt_id t = ty /\ In (v, l) (pt_values t).

(* ------------------------------------------------------------------ ROW (pv/prf.c) *)
Definition prf := list (option str).      (* one slot per row; nrows = length *)
Definition MAXR : Z := Pv_gen.c_MAX_PRF_LABEL.

Definition prf_open (nrows : nat) : prf := repeat None nrows.

Definition prf_add (p : prf) (index : Z) (label : str) : result prf :=
  if (index <? 0) || (Z.of_nat (length p) <=? index) then Err E_PRF_BOUNDS else
  match nth (Z.to_nat index) p None with
  | Some _ => Err E_PRF_SET
  | None => if MAXR <=? slen label then Err E_PRF_LONG else Ok (update p (Z.to_nat index) (Some label))
  end.

Definition S_ROW_HEAD : str := Eval vm_compute in zs "LEVEL NODE SIZE 1
hostname

LEVEL THREAD SIZE ".

Definition prf_text (labels : list str) : str :=
  S_ROW_HEAD ++ unlines (dec (Z.of_nat (length labels)) :: labels).

Fixpoint all_set (p : prf) : option (list str) :=
  match p with
  | [] => Some []
  | Some l :: r => match all_set r with Some ls => Some (l :: ls) | None => None end
  | None :: _ => None
  end.

Definition prf_close (p : prf) : result str :=
  match all_set p with Some ls => Ok (prf_text ls) | None => Err E_PRF_UNSET end.

Fixpoint split_last (l : list str) : option (list str * str) :=
  match l with
  | [] => None
  | [x] => Some ([], x)
  | x :: r => match split_last r with Some (a, z) => Some (x :: a, z) | None => None end
  end.

(* -> the row names, when the file is well formed and names exactly the declared number of rows *)
Definition parse_prf (text : str) : option (list str) :=
  match strip_prefix S_ROW_HEAD text with
  | None => None
  | Some rest =>
    match lines rest with
    | num :: ls =>
      match undec num, split_last ls with
      | Some n, Some (labels, []) => if n =? Z.of_nat (length labels) then Some labels else None
      | _, _ => None
      end
    | [] => None
    end
  end.

(* ------------------------------------------------------------------ PRV (pv/prv.c) *)
Record prv_chan := { pc_id : Z; pc_row1 : Z; pc_type : Z; pc_flags : Z }.
Record prv := { pv_nrows : Z; pv_time : Z; pv_chans : list prv_chan; pv_file : str }.

Definition S_PRV_HEAD : str := Eval vm_compute in zs "#Paraver (19/01/38 at 03:14):".
Definition S_PRV_MID : str := Eval vm_compute in zs "_ns:0:1:1(".
Definition S_PRV_END : str := Eval vm_compute in zs ":1)".
Definition S_PRV_REC : str := Eval vm_compute in zs "2:0:1:1:".

(* write_header: "#Paraver (19/01/38 at 03:14):%020lld_ns:0:1:1(%d:1)\n" with (int) nrows *)
Definition prv_header (duration nrows : Z) : str :=
  S_PRV_HEAD ++ dec_pad0 20 duration ++ S_PRV_MID ++ dec (cast_int32 nrows) ++ S_PRV_END ++ [NL].

(* write_line: "2:0:1:1:%ld:%PRIi64:%PRIi64:%PRIi64\n" *)
Definition prv_line (row1 time type value : Z) : str :=
  S_PRV_REC ++ dec row1 ++ [58] ++ dec time ++ [58] ++ dec type ++ [58] ++ dec value ++ [NL].

Definition prv_open (nrows : Z) : prv :=
  {| pv_nrows := nrows; pv_time := 0; pv_chans := []; pv_file := prv_header 0 nrows |}.

Definition check_flags (flags : Z) : bool :=
  negb ((has_flag flags PRV_EMITDUP && has_flag flags PRV_SKIPDUPNULL) ||
        (has_flag flags PRV_EMITDUP && has_flag flags PRV_SKIPDUP) ||
        (has_flag flags PRV_SKIPDUP && has_flag flags PRV_SKIPDUPNULL)).

Definition prv_get_id (pv : prv) (type row : Z) : Z := type * pv_nrows pv + row.
Definition prv_find (pv : prv) (id : Z) : option prv_chan := find (fun c => pc_id c =? id) (pv_chans pv).

Definition prv_register (pv : prv) (row type flags : Z) : result prv :=
  let id := prv_get_id pv type row in
  match prv_find pv id with
  | Some _ => Err E_PRV_DUPCHAN
  | None =>
    if negb (check_flags flags) then Err E_PRV_FLAGS else
    Ok {| pv_nrows := pv_nrows pv; pv_time := pv_time pv;
          pv_chans := pv_chans pv ++ [{| pc_id := id; pc_row1 := row + 1; pc_type := type; pc_flags := flags |}];
          pv_file := pv_file pv |}
  end.

Definition prv_advance (pv : prv) (time : Z) : result prv :=
  if time <? pv_time pv then Err E_PRV_TIME
  else Ok {| pv_nrows := pv_nrows pv; pv_time := time; pv_chans := pv_chans pv; pv_file := pv_file pv |}.

(* the emit callback of a registered channel: one record at the current time (the flag rules that decide
   whether and what is written are EmuCoreDefs.emit) *)
Definition prv_write (pv : prv) (row type value : Z) : result prv :=
  match prv_find pv (prv_get_id pv type row) with
  | None => Err E_PRV_NOCHAN
  | Some c =>
    Ok {| pv_nrows := pv_nrows pv; pv_time := pv_time pv; pv_chans := pv_chans pv;
          pv_file := pv_file pv ++ prv_line (pc_row1 c) (pv_time pv) (pc_type c) value |}
  end.

(* fseek(0) + write_header: overwrites the first bytes of the file *)
Definition overwrite (new old : str) : str := new ++ skipn (length new) old.
Definition prv_close (pv : prv) : str := overwrite (prv_header (pv_time pv) (pv_nrows pv)) (pv_file pv).

(* header back to (duration, rows) *)
Definition parse_prv_header (l : str) : option (Z * Z) :=
  match strip_prefix S_PRV_HEAD l with
  | None => None
  | Some r =>
    let (d, r1) := span_num r in
    match strip_prefix S_PRV_MID r1 with
    | None => None
    | Some r2 =>
      let (n, r3) := span_num r2 in
      match undec d, undec n with
      | Some dv, Some nv => if str_eq r3 S_PRV_END && Nat.eqb (length d) 20 then Some (dv, nv) else None
      | _, _ => None
      end
    end
  end.

(* a record line back to (row, time, type, value) *)
Definition parse_prv_line (l : str) : option (Z * Z * Z * Z) :=
  match strip_prefix S_PRV_REC l with
  | None => None
  | Some r =>
    let (a, r1) := span_num r in
    match r1 with
    | 58 :: r1' =>
      let (b, r2) := span_num r1' in
      match r2 with
      | 58 :: r2' =>
        let (c, r3) := span_num r2' in
        match r3 with
        | 58 :: r3' =>
          let (d, r4) := span_num r3' in
          match r4, undec a, undec b, undec c, undec d with
          | [], Some av, Some bv, Some cv, Some dv => Some (av, bv, cv, dv)
          | _, _, _, _, _ => None
          end
        | _ => None
        end
      | _ => None
      end
    | _ => None
    end
  end.

(* ------------------------------------------------------------------ pvt.c / recorder.c: the two traces *)
Record pvt := { v_prv : prv; v_pcf : pcf; v_prf : prf }.
Definition pvt_open (nrows : nat) : pvt :=
  {| v_prv := prv_open (Z.of_nat nrows); v_pcf := []; v_prf := prf_open nrows |}.
Definition set_prv (v : pvt) (x : prv) : pvt := {| v_prv := x; v_pcf := v_pcf v; v_prf := v_prf v |}.
Definition set_pcf (v : pvt) (x : pcf) : pvt := {| v_prv := v_prv v; v_pcf := x; v_prf := v_prf v |}.
Definition set_prf (v : pvt) (x : prf) : pvt := {| v_prv := v_prv v; v_pcf := v_pcf v; v_prf := x |}.

Definition pvt_register (v : pvt) (row type flags : Z) : result pvt :=
  bindr (prv_register (v_prv v) row type flags) (fun x => Ok (set_prv v x)).
Definition pvt_add_type (v : pvt) (id : Z) (label : str) : result pvt :=
  bindr (pcf_add_type (v_pcf v) id label) (fun x => Ok (set_pcf v x)).
Definition pvt_add_value (v : pvt) (id val : Z) (label : str) : result pvt :=
  bindr (pcf_add_value (v_pcf v) id val label) (fun x => Ok (set_pcf v x)).
Definition pvt_add_row (v : pvt) (index : Z) (label : str) : result pvt :=
  bindr (prf_add (v_prf v) index label) (fun x => Ok (set_prf v x)).

(* the files pvt_close leaves on disk *)
Record pvfiles := { f_prv : str; f_pcf : str; f_row : str }.
Definition pvt_close (v : pvt) : result pvfiles :=
  bindr (prf_close (v_prf v)) (fun row => Ok {| f_prv := prv_close (v_prv v); f_pcf := pcf_text (v_pcf v); f_row := row |}).

Record recorder := { rc_th : pvt; rc_cpu : pvt }.
Definition on_th (r : recorder) (f : pvt -> result pvt) : result recorder :=
  bindr (f (rc_th r)) (fun v => Ok {| rc_th := v; rc_cpu := rc_cpu r |}).
Definition on_cpu (r : recorder) (f : pvt -> result pvt) : result recorder :=
  bindr (f (rc_cpu r)) (fun v => Ok {| rc_th := rc_th r; rc_cpu := v |}).
Definition on_side (cpu : bool) := if cpu then on_cpu else on_th.

(* ------------------------------------------------------------------ registration *)
Definition int (x : Z) : Z := cast_int32 x.          (* the (int) casts at the call sites *)

(* system.c: "TH %d.%d" ; cpu.c set_name: " CPU %zu.%zu" / "vCPU %zu.*" *)
Definition S_TH : str := Eval vm_compute in zs "TH ".
Definition S_CPU : str := Eval vm_compute in zs " CPU ".
Definition S_VCPU : str := Eval vm_compute in zs "vCPU ".
Definition th_label (ti : thread_info) : str := S_TH ++ dec (int (ti_appid ti)) ++ [46] ++ dec (int (ti_tid ti)).
Definition cpu_name (ci : cpu_info) (phy : Z) : str :=
  if ci_virtual ci then S_VCPU ++ dec (Z.of_nat (ci_loom ci)) ++ [46; 42]
  else S_CPU ++ dec (Z.of_nat (ci_loom ci)) ++ [46] ++ dec phy.

Definition number {A} (l : list A) : list (Z * A) := combine (map Z.of_nat (seq 0 (length l))) l.

(* the PRV type of the thread's CPU-affinity channel (thread_get_affinity_pcf_type) *)
Definition th_sys_type (i : Z) : Z :=
  match nth_error Pv_gen.th_sys (Z.to_nat i) with Some (ty, _, _, _) => ty | None => -1 end.
Definition affinity_type : Z := th_sys_type Pv_gen.c_TH_CHAN_CPU.

(* thread_connect + the prf_add of system_connect *)
Definition connect_thread (r : recorder) (x : Z * thread_info) : result recorder :=
  let (g, ti) := x in
  bindr (foldr (fun r' (e : Z * Z * str * list (Z * str)) => let '(ty, fl, _, _) := e in on_th r' (fun v => pvt_register v g ty fl)) Pv_gen.th_sys r)
        (fun r1 => on_th r1 (fun v => pvt_add_row v g (th_label ti))).

(* thread_create_pcf_types *)
(* the value type of pcf_add_value is int64_t; the table-driven callers pass an int *)
Definition add_values_c (cast : Z -> Z) (id : Z) (v : pvt) (labs : list (Z * str)) : result pvt :=
  foldr (fun v' (x : Z * str) => pvt_add_value v' id (cast (fst x)) (snd x)) labs v.
Definition add_values := add_values_c int.
Definition thread_create_pcf_types (v : pvt) : result pvt :=
  foldr (fun v' (e : Z * Z * str * list (Z * str)) => let '(ty, _, name, labs) := e in
           if ty =? -1 then Ok v' else bindr (pvt_add_type v' (int ty) name) (fun v1 => add_values (int ty) v1 labs))
        Pv_gen.th_sys v.
(* cpu_create_pcf_types *)
Definition cpu_create_pcf_types (v : pvt) : result pvt :=
  foldr (fun v' (e : Z * Z * str) => let '(ty, _, name) := e in
           if ty =? -1 then Ok v' else pvt_add_type v' (int ty) name) Pv_gen.cpu_sys v.

(* cpu_connect, prf_add, cpu_add_to_pcf_type *)
Definition connect_cpu (r : recorder) (x : Z * (cpu_info * Z)) : result recorder :=
  let '(g, (ci, phy)) := x in
  bindr (foldr (fun r' (e : Z * Z * str) => let '(ty, fl, _) := e in
                  if ty <? 0 then Ok r' else on_cpu r' (fun v => pvt_register v g ty fl)) Pv_gen.cpu_sys r)
  (fun r1 => bindr (on_cpu r1 (fun v => pvt_add_row v g (cpu_name ci phy)))
  (fun r2 => on_th r2 (fun v => pvt_add_value v (int affinity_type) (int g + 1) (cpu_name ci phy)))).

Definition system_connect (sx : static) (phy : list Z) : result recorder :=
  let r0 := {| rc_th := pvt_open (length (s_threads sx)); rc_cpu := pvt_open (length (s_cpus sx)) |} in
  bindr (foldr connect_thread (number (s_threads sx)) r0)
  (fun r1 => bindr (on_th r1 thread_create_pcf_types)
  (fun r2 => bindr (on_cpu r2 cpu_create_pcf_types)
  (fun r3 => foldr connect_cpu (number (combine (s_cpus sx) phy)) r3))).

(* model_pvt.c: one side (thread or CPU) of one model *)
Definition pvspec := (Z * bool * Z * Z * Z * Z * str * list (Z * str))%type.
Definition ps_model (s : pvspec) : Z := let '(m, _, _, _, _, _, _, _) := s in m.
Definition ps_cpu (s : pvspec) : bool := let '(_, c, _, _, _, _, _, _) := s in c.
Definition ps_index (s : pvspec) : Z := let '(_, _, i, _, _, _, _, _) := s in i.
Definition ps_type (s : pvspec) : Z := let '(_, _, _, ty, _, _, _, _) := s in ty.
Definition ps_flags (s : pvspec) : Z := let '(_, _, _, _, fl, _, _, _) := s in fl.
Definition ps_track (s : pvspec) : Z := let '(_, _, _, _, _, tr, _, _) := s in tr.
Definition ps_prefix (s : pvspec) : str := let '(_, _, _, _, _, _, p, _) := s in p.
Definition ps_labels (s : pvspec) : list (Z * str) := let '(_, _, _, _, _, _, _, l) := s in l.

Definition side_specs (all : list pvspec) (m : Z) (cpu : bool) : list pvspec :=
  filter (fun s => (ps_model s =? m) && Bool.eqb (ps_cpu s) cpu) all.

(* create_type: "%s %s" of the prefix and the suffix of the tracking mode *)
Definition spec_label (s : pvspec) : str := ps_prefix s ++ SP :: nth (Z.to_nat (ps_track s)) Pv_gen.pcf_suffix [].
Definition create_type (v : pvt) (s : pvspec) : result pvt :=
  if ps_type s =? -1 then Ok v else
  if MAXL <=? slen (spec_label s) then Err E_PCF_LONG else
  bindr (pvt_add_type v (int (ps_type s)) (spec_label s)) (fun v1 => add_values (int (ps_type s)) v1 (ps_labels s)).

(* connect_*_prv over all rows, then init_pcf *)
Definition connect_side (nrows : nat) (specs : list pvspec) (v : pvt) : result pvt :=
  bindr (foldr (fun v' g => foldr (fun v'' s => pvt_register v'' g (ps_type s) (ps_flags s)) specs v')
               (map Z.of_nat (seq 0 nrows)) v)
        (fun v1 => foldr create_type specs v1).

(* ovni/mark.c connect_thread / connect_cpu *)
Definition mark_side (nrows : nat) (ms : list mtype) (v : pvt) : result pvt :=
  bindr (foldr (fun v' g => foldr (fun v'' m => pvt_register v'' g (100 + mt_type m) PRV_SKIPDUPNULL) ms v')
               (map Z.of_nat (seq 0 nrows)) v)
        (fun v1 => foldr (fun v' m => bindr (pvt_add_type v' (int (100 + mt_type m)) (mt_title m))
                                            (fun v2 => add_values_c cast_int64 (int (100 + mt_type m)) v2 (mt_labels m))) ms v1).

Definition model_connect (all : list pvspec) (sx : static) (ms : list mtype) (r : recorder) (m : Z) : result recorder :=
  bindr (on_th r (connect_side (length (s_threads sx)) (side_specs all m false)))
  (fun r1 => bindr (on_cpu r1 (connect_side (length (s_cpus sx)) (side_specs all m true)))
  (fun r2 => if (m =? M_OVNI) && negb (Nat.eqb (length ms) 0) then
               bindr (on_th r2 (mark_side (length (s_threads sx)) ms))
                     (fun r3 => on_cpu r3 (mark_side (length (s_cpus sx)) ms))
             else Ok r2)).

(* model.c model_connect: enabled models in increasing id order *)
Fixpoint zinsert (x : Z) (l : list Z) : list Z :=
  match l with [] => [x] | y :: r => if x <=? y then x :: l else y :: zinsert x r end.
Definition zsort (l : list Z) : list Z := fold_right zinsert [] l.
Definition model_order : list Z := zsort (map (fun x => let '(id, _, _, _) := x in id) Tables_gen.models).
Definition enabled_order (en : list Z) : list Z := filter (fun m => memz m en) model_order.

Definition connect_gen (all : list pvspec) (sx : static) (phy : list Z) (en : list Z) (ms : list mtype) : result recorder :=
  bindr (system_connect sx phy) (fun r => foldr (model_connect all sx ms) (enabled_order en) r).
Definition connect := connect_gen Pv_gen.pv_chans.

(* ------------------------------------------------------------------ finish: task types (task.c, <model>/setup.c finish_pvt) *)
Definition tkey := (nat * Z * Z * Z)%type.        (* loom, pid, model, type id *)
Definition tkey_eqb (a b : tkey) : bool :=
  let '(l1, p1, m1, i1) := a in let '(l2, p2, m2, i2) := b in Nat.eqb l1 l2 && (p1 =? p2) && (m1 =? m2) && (i1 =? i2).
Fixpoint tlabel (tl : list (tkey * str)) (k : tkey) : str :=
  match tl with [] => [] | (k', s) :: r => if tkey_eqb k k' then s else tlabel r k end.

(* processes in global order = order of first appearance in the thread list (threads are sorted by loom, process, tid) *)
Fixpoint procs_of (ths : list thread_info) (seen : list (nat * Z)) : list (nat * Z) :=
  match ths with
  | [] => []
  | ti :: r =>
    if existsb (fun p => Nat.eqb (fst p) (ti_loom ti) && (snd p =? ti_pid ti)) seen then procs_of r seen
    else (ti_loom ti, ti_pid ti) :: procs_of r ((ti_loom ti, ti_pid ti) :: seen)
  end.

(* (gid, label) of every task type of the model, process by process, in creation order *)
Definition task_values (sx : static) (tys : list ttype) (tl : list (tkey * str)) (mdl : Z) : list (Z * str) :=
  flat_map (fun p : nat * Z =>
    flat_map (fun ty => if Nat.eqb (ty_loom ty) (fst p) && (ty_pid ty =? snd p) && (ty_model ty =? mdl)
                        then [(ty_gid ty, tlabel tl (ty_loom ty, ty_pid ty, ty_model ty, ty_id ty))] else []) tys)
    (procs_of (s_threads sx) []).

(* task_create_pcf_types *)
Definition add_task_value (id : Z) (v : pvt) (x : Z * str) : result pvt :=
  match pcf_find_type (v_pcf v) id with
  | None => Err E_PCF_NOTYPE
  | Some t =>
    match pcf_find_value t (int (fst x)) with
    | Some l => if str_eq l (snd x) then Ok v else Err E_COLLISION
    | None => pvt_add_value v id (int (fst x)) (snd x)
    end
  end.

(* the PRV type of the task-type channel of a model with tasks *)
Definition task_model_chan (m : Z) : option Z :=
  if m =? M_NOSV then Some Tables_gen.c_nosv_CH_TYPE
  else if m =? M_NANOS6 then Some Tables_gen.c_nanos6_CH_TYPE else None.
Definition type_of_chan (all : list pvspec) (m i : Z) : Z :=
  match find (fun s => (ps_model s =? m) && (ps_index s =? i)) all with Some s => ps_type s | None => -1 end.

Definition finish_pvt (all : list pvspec) (sx : static) (tys : list ttype) (tl : list (tkey * str)) (m : Z) (v : pvt) : result pvt :=
  match task_model_chan m with
  | None => Ok v
  | Some ch =>
    let id := int (type_of_chan all m ch) in
    match pcf_find_type (v_pcf v) id with
    | None => Err E_PCF_NOTYPE
    | Some _ => foldr (add_task_value id) (task_values sx tys tl m) v
    end
  end.

Definition finish_gen (all : list pvspec) (sx : static) (en : list Z) (tys : list ttype) (tl : list (tkey * str)) (r : recorder) : result recorder :=
  foldr (fun r' m => bindr (on_th r' (finish_pvt all sx tys tl m)) (fun r1 => on_cpu r1 (finish_pvt all sx tys tl m)))
        (enabled_order en) r.
Definition finish := finish_gen Pv_gen.pv_chans.

(* labels of the task types, from the type-creation events of the trace (nosv/event.c, nanos6/event.c:
   the jumbo payload is size(4) typeid(4) label NUL; task_type_create names an empty label) *)
Fixpoint cstr (l : list Z) : str :=
  match l with [] => [] | c :: r => if c =? 0 then [] else c :: cstr r end.
Definition S_UNLABELED : str := Eval vm_compute in zs "(unlabeled task type ".
Definition type_label (typeid : Z) (payload : list Z) : str :=
  match cstr (skipn 8 payload) with
  | [] => S_UNLABELED ++ dec typeid ++ [41]
  | l => l
  end.
Definition raw_ev := (Z * nat * (Z * Z * Z) * list Z * bool * Z)%type.   (* time, thread, (m,c,v), payload, jumbo, aux *)
Definition tlabels_of (sx : static) (revs : list raw_ev) : list (tkey * str) :=
  flat_map (fun e : raw_ev =>
    let '(_, who, (m, c, v), p, _, _) := e in
    if ((m =? M_NOSV) || (m =? M_NANOS6)) && (c =? 89) && (v =? 99) then
      match nth_opt (s_threads sx) who with
      | Some ti => [((ti_loom ti, ti_pid ti, m, le_u32 p 4), type_label (le_u32 p 4) p)]
      | None => []
      end
    else []) revs.

(* ------------------------------------------------------------------ the run: recorder_advance, handlers, emit callbacks *)
Definition rec_advance (r : recorder) (t : Z) : result recorder :=
  bindr (on_th r (fun v => bindr (prv_advance (v_prv v) t) (fun x => Ok (set_prv v x))))
        (fun r1 => on_cpu r1 (fun v => bindr (prv_advance (v_prv v) t) (fun x => Ok (set_prv v x)))).

Definition rec_write (r : recorder) (l : line) : result recorder :=
  on_side (l_cpu l) r (fun v => bindr (prv_write (v_prv v) (Z.of_nat (l_row l)) (l_type l) (l_val l)) (fun x => Ok (set_prv v x))).

Fixpoint pv_run_from (sx : static) (st : state) (r : recorder) (t0 : Z) (evs : list (Z * nat * event)) : result (state * recorder) :=
  match evs with
  | [] => Ok (st, r)
  | (tm, who, ev) :: rest =>
    match rec_advance r (tm - t0) with
    | Err e => Err e
    | Ok r1 =>
      match step sx st who ev with
      | Err e => Err e
      | Ok (st1, ls) =>
        match foldr rec_write ls r1 with
        | Err e => Err e
        | Ok r2 => pv_run_from sx st1 r2 t0 rest
        end
      end
    end
  end.

Definition ev_t0 (evs : list (Z * nat * event)) : Z := match evs with (tm, _, _) :: _ => tm | [] => 0 end.

Record outfiles := { o_th : pvfiles; o_cpu : pvfiles }.

(* ovniemu on a trace: connect, replay, end-of-trace checks, finish, close *)
Definition emulate (sx : static) (phy : list Z) (en : list Z) (ms : list mtype) (lintchans : list nat)
           (tl : list (tkey * str)) (evs : list (Z * nat * event)) : result outfiles :=
  bindr (connect sx phy en ms) (fun r0 =>
  match pv_run_from sx (init sx) r0 (ev_t0 evs) evs with
  | Err e => Err e
  | Ok (st, r1) =>
    if negb (all_dead st) then Err E_END
    else if s_lint sx && negb (lint_ok sx lintchans st) then Err E_END
    else
      bindr (finish sx en (types st) tl r1) (fun r2 =>
      bindr (pvt_close (rc_th r2)) (fun fth =>
      bindr (pvt_close (rc_cpu r2)) (fun fcpu => Ok {| o_th := fth; o_cpu := fcpu |})))
  end).
