(* Prelude of the generated file Gen/Stepper_gen.v (translate/units/stepper.py): the world of the stream
   cursor (src/emu/stream.c) and of the player's stepping logic (src/emu/player.c).

   The generated file renders stream_ev, stream_evclock, stream_lastclock, stream_allow_unsorted,
   stream_clkoff_set, stream_step, step_stream, update_clocks and player_step statement by statement in the
   reader + state + error monad below.  `return -1` = Fail E_FAIL, a NULL dereference = Fail E_TRAP, and
   - new for these functions, which return -1 / 0 / +1 - `return +1` = Stop (the state is kept).

   Hand-written here (not translated):
     - the state: the streams of the trace (a list; `struct stream *` = NULL or an index) and the one player;
       only the fields the translated functions touch are represented;
     - the mmap'ed buffer of a stream is LoaderPre's byte-buffer view: `struct ovni_ev *` / `uint8_t *` are
       NULL or (stream, position in its buffer); what lies outside the buffer is the stream's junk function;
     - ovni_ev_size and next_ev_size are the functions ALREADY generated from the C (Gen/Loader_gen.v,
       Gen/LoaderStep_gen.v) applied to the view of the event; ovni_ev_get_clock (ovni.c, `return
       ev->header.clock`) is LoaderPre.get_header_clock;
     - heap_insert / heap_pop_max (src/include/heap.h) are primitives with the meaning Emu/HeapDefs.v gives
       them: `insert stream_cmp` / `pop_max stream_cmp` on an array heap of (key, stream) where the key is the
       stream's lastclock when it is inserted (player.c never steps a stream that is in the heap); the
       comparison function passed (stream_cmp) is tied to PlayerDefs.stream_cmp by unit cmp_player;
       heap_elem(node, struct stream, hh) / &stream->hh convert between a stream and its heap node;
     - emu_ev(&player->ev, oev, sclock, dclock) records its arguments (the decoded event is EmuDefs' business);
     - err(...) logging is dropped (arguments checked to be free of side effects by the translator).
   Second half: the hand-written reading of the same functions (names m_...), proved equal to the generated ones
   in Proofs/StepperProofs.v and related there to Emu/StreamDefs.v and Emu/PlayerDefs.v.
   Definitions only. *)
From Coq Require Import ZArith List Bool Arith.
From OV Require Import Base.CInt Emu.LoaderPre Emu.HeapDefs Emu.PlayerDefs.
From OV Require Gen.Loader_gen Gen.LoaderStep_gen.
Import ListNotations.
Local Open Scope Z_scope.

(* ------------------------------------------------------------------ state *)

Definition ptr_stream := option nat.
Definition ptr_player := option unit.
Definition ptr_ev := option (nat * Z)%type.          (* stream, position in its buffer *)
Definition ptr_byte := option (nat * Z)%type.
Definition ptr_heap := option unit.
Definition ptr_node := option nat.                   (* &stream->hh *)
Definition ptr_emu_ev := option unit.
Inductive fnptr := FnStreamCmp.
Definition fn_stream_cmp : fnptr := FnStreamCmp.

Record gstream := mk_gstream {
  g_buf : bytes;            (* uint8_t *buf: the mapped file *)
  g_junk : Z -> Z;          (* what lies outside of it *)
  g_cur : ptr_ev;           (* cur_ev *)
  g_size : Z;
  g_lastclock : Z;
  g_deltaclock : Z;
  g_clkoff : Z;             (* clock_offset *)
  g_active : Z;             (* int *)
  g_unsorted : Z;           (* int *)
  g_offset : Z
}.
Definition g0 : gstream := mk_gstream [] (fun _ => 0) None 0 0 0 0 0 0 0.

Record gplayer := mk_gplayer {
  q_heap : list hnode;      (* heap_head_t heap: (stream.lastclock at insertion, stream) *)
  q_firstclock : Z;
  q_lastclock : Z;
  q_deltaclock : Z;
  q_nprocessed : Z;
  q_first_event : Z;        (* int *)
  q_unsorted : Z;           (* int *)
  q_stream : ptr_stream;
  q_ev : option (ptr_ev * Z * Z)     (* the arguments of the last emu_ev(&player->ev, oev, sclock, dclock) *)
}.

Record pstate := mk_pstate { streams : list gstream; pl : gplayer }.
Definition penv := unit.

Definition E_FAIL := 20%nat.
Definition E_TRAP := 99%nat.

(* ------------------------------------------------------------------ monad *)

Inductive res (A : Type) : Type :=
| Done (a : A) (st : pstate)        (* the statement sequence goes on / `return 0` *)
| Stop (st : pstate)                (* `return +1` *)
| Fail (e : nat).                   (* `return -1` (E_FAIL) or a trap *)
Arguments Done {A} a st.
Arguments Stop {A} st.
Arguments Fail {A} e.

Definition M (A : Type) : Type := penv -> pstate -> res A.
Definition ret {A} (a : A) : M A := fun _ st => Done a st.
Definition fail {A} (e : nat) : M A := fun _ _ => Fail e.
Definition stop1 {A} : M A := fun _ st => Stop st.
Definition bind {A B} (m : M A) (f : A -> M B) : M B :=
  fun sx st => match m sx st with Done a st' => f a sx st' | Stop st' => Stop st' | Fail e => Fail e end.
Definition bind_ {A B} (m : M A) (k : M B) : M B := bind m (fun _ => k).
Definition eval {A} (f : penv -> pstate -> A) : M A := fun sx st => Done (f sx st) st.
Definition ite {A} (c : penv -> pstate -> bool) (a b : M A) : M A :=
  fun sx st => if c sx st then a sx st else b sx st.
Definition need {A} (safe : penv -> pstate -> bool) (k : M A) : M A :=
  fun sx st => if safe sx st then k sx st else Fail E_TRAP.
(* `int ret = f(..)` with f returning -1 / 0 / +1 (after -1 the caller only fails: the state is not looked at) *)
Definition status (m : M unit) : M Z :=
  fun sx st => match m sx st with
               | Done _ st' => Done 0 st'
               | Stop st' => Done 1 st'
               | Fail e => if (e =? E_FAIL)%nat then Done (-1) st else Fail e
               end.
(* `return ret;` *)
Definition ret_status (r : Z) : M unit :=
  if r =? 0 then ret tt else if r <? 0 then fail E_FAIL else stop1.
(* `if (P && f(..) < 0) fail;`: f ran, +1 and 0 both go on *)
Definition nonneg (m : M unit) : M unit :=
  fun sx st => match m sx st with Done _ st' => Done tt st' | Stop st' => Done tt st' | Fail e => Fail e end.

(* ------------------------------------------------------------------ streams *)

Definition gs (st : pstate) (p : ptr_stream) : gstream :=
  match p with Some i => nth i (streams st) g0 | None => g0 end.
Definition put (st : pstate) (i : nat) (g : gstream) : pstate := mk_pstate (upd (streams st) i g) (pl st).
Definition putp (p : ptr_stream) (f : gstream -> gstream) : M unit :=
  fun sx st => match p with
               | Some i => if (i <? length (streams st))%nat then Done tt (put st i (f (nth i (streams st) g0))) else Fail E_TRAP
               | None => Fail E_TRAP
               end.

Definition get_stream_cur_ev (sx : penv) (st : pstate) (p : ptr_stream) : ptr_ev := g_cur (gs st p).
Definition get_stream_size (sx : penv) (st : pstate) (p : ptr_stream) : Z := g_size (gs st p).
Definition get_stream_lastclock (sx : penv) (st : pstate) (p : ptr_stream) : Z := g_lastclock (gs st p).
Definition get_stream_clock_offset (sx : penv) (st : pstate) (p : ptr_stream) : Z := g_clkoff (gs st p).
Definition get_stream_active (sx : penv) (st : pstate) (p : ptr_stream) : Z := g_active (gs st p).
Definition get_stream_unsorted (sx : penv) (st : pstate) (p : ptr_stream) : Z := g_unsorted (gs st p).
Definition get_stream_offset (sx : penv) (st : pstate) (p : ptr_stream) : Z := g_offset (gs st p).

Definition w_cur (v : ptr_ev) (g : gstream) : gstream :=
  mk_gstream (g_buf g) (g_junk g) v (g_size g) (g_lastclock g) (g_deltaclock g) (g_clkoff g) (g_active g) (g_unsorted g) (g_offset g).
Definition w_lastclock (v : Z) (g : gstream) : gstream :=
  mk_gstream (g_buf g) (g_junk g) (g_cur g) (g_size g) v (g_deltaclock g) (g_clkoff g) (g_active g) (g_unsorted g) (g_offset g).
Definition w_deltaclock (v : Z) (g : gstream) : gstream :=
  mk_gstream (g_buf g) (g_junk g) (g_cur g) (g_size g) (g_lastclock g) v (g_clkoff g) (g_active g) (g_unsorted g) (g_offset g).
Definition w_clkoff (v : Z) (g : gstream) : gstream :=
  mk_gstream (g_buf g) (g_junk g) (g_cur g) (g_size g) (g_lastclock g) (g_deltaclock g) v (g_active g) (g_unsorted g) (g_offset g).
Definition w_active (v : Z) (g : gstream) : gstream :=
  mk_gstream (g_buf g) (g_junk g) (g_cur g) (g_size g) (g_lastclock g) (g_deltaclock g) (g_clkoff g) v (g_unsorted g) (g_offset g).
Definition w_unsorted (v : Z) (g : gstream) : gstream :=
  mk_gstream (g_buf g) (g_junk g) (g_cur g) (g_size g) (g_lastclock g) (g_deltaclock g) (g_clkoff g) (g_active g) v (g_offset g).
Definition w_offset (v : Z) (g : gstream) : gstream :=
  mk_gstream (g_buf g) (g_junk g) (g_cur g) (g_size g) (g_lastclock g) (g_deltaclock g) (g_clkoff g) (g_active g) (g_unsorted g) v.

Definition set_stream_cur_ev (p : ptr_stream) (v : penv -> pstate -> ptr_ev) : M unit := fun sx st => putp p (w_cur (v sx st)) sx st.
Definition set_stream_lastclock (p : ptr_stream) (v : penv -> pstate -> Z) : M unit := fun sx st => putp p (w_lastclock (v sx st)) sx st.
Definition set_stream_deltaclock (p : ptr_stream) (v : penv -> pstate -> Z) : M unit := fun sx st => putp p (w_deltaclock (v sx st)) sx st.
Definition set_stream_clock_offset (p : ptr_stream) (v : penv -> pstate -> Z) : M unit := fun sx st => putp p (w_clkoff (v sx st)) sx st.
Definition set_stream_active (p : ptr_stream) (v : penv -> pstate -> Z) : M unit := fun sx st => putp p (w_active (v sx st)) sx st.
Definition set_stream_unsorted (p : ptr_stream) (v : penv -> pstate -> Z) : M unit := fun sx st => putp p (w_unsorted (v sx st)) sx st.
Definition set_stream_offset (p : ptr_stream) (v : penv -> pstate -> Z) : M unit := fun sx st => putp p (w_offset (v sx st)) sx st.

(* address of stream->buf[i], its conversion to an event pointer, address of stream->hh, heap_elem(node, struct stream, hh) *)
Definition addr_stream_buf_at (p : ptr_stream) (i : Z) : ptr_byte := match p with Some id => Some (id, i) | None => None end.
Definition ev_of_byte (b : ptr_byte) : ptr_ev := b.
Definition addr_stream_hh (p : ptr_stream) : ptr_node := p.
Definition stream_of_node (n : ptr_node) : ptr_stream := n.

(* the event a pointer designates, as LoaderPre sees it *)
Definition evview (st : pstate) (p : ptr_ev) : evp :=
  match p with
  | Some (id, pos) => mk_evp (g_buf (nth id (streams st) g0)) pos (g_junk (nth id (streams st) g0))
  | None => mk_evp [] 0 (fun _ => 0)
  end.
Definition ovni_ev_size (sx : penv) (st : pstate) (p : ptr_ev) : Z := Loader_gen.ovni_ev_size (evview st p).
Definition next_ev_size (sx : penv) (st : pstate) (p : ptr_ev) (left : Z) : Z := LoaderStep_gen.next_ev_size (evview st p) left.
Definition ovni_ev_get_clock (sx : penv) (st : pstate) (p : ptr_ev) : Z := get_header_clock (evview st p).

(* ------------------------------------------------------------------ loading (check_stream_header, load_obs) *)
(* g_buf / g_junk of a stream are the file on disk from the start: open / fstat / mmap only "deliver" it.
   load_stream_fd (fstat + mmap, NOT translated: struct stat by value, MAP_FAILED) refuses an empty file and
   otherwise sets size := the length of the file; open always succeeds (fd 3), close succeeds; usize (read only by
   stream_progress, not translated) is not represented: its setter only checks the pointer. *)
Definition ptr_hdr := option (nat * Z)%type.
Definition ptr_str := option unit.
Definition get_stream_buf (sx : penv) (st : pstate) (p : ptr_stream) : ptr_byte := match p with Some id => Some (id, 0) | None => None end.
Definition hdr_of_byte (b : ptr_byte) : ptr_hdr := b.
Definition get_ovni_stream_header_magic (sx : penv) (st : pstate) (h : ptr_hdr) : list Z :=
  match h with
  | Some (id, pos) => let g := nth id (streams st) g0 in
                      map (fun k => rd (g_buf g) (g_junk g) (pos + pre_off_magic + Z.of_nat k)) (seq 0 4)
  | None => []
  end.
Definition get_ovni_stream_header_version (sx : penv) (st : pstate) (h : ptr_hdr) : Z :=
  match h with
  | Some (id, pos) => let g := nth id (streams st) g0 in rd_le (g_buf g) (g_junk g) (pos + pre_off_version) 4
  | None => 0
  end.
Fixpoint leqb (a b : list Z) : bool :=
  match a, b with
  | [], [] => true
  | x :: a', y :: b' => (x =? y) && leqb a' b'
  | _, _ => false
  end.
(* memcmp(a, "literal", n): 0 iff the first n bytes agree (only that is used) *)
Definition memcmp_lit (a lit : list Z) (n : Z) : Z :=
  if leqb (firstn (Z.to_nat n) a) (firstn (Z.to_nat n) lit) then 0 else 1.
Definition w_size (v : Z) (g : gstream) : gstream :=
  mk_gstream (g_buf g) (g_junk g) (g_cur g) v (g_lastclock g) (g_deltaclock g) (g_clkoff g) (g_active g) (g_unsorted g) (g_offset g).
Definition set_stream_usize (p : ptr_stream) (v : penv -> pstate -> Z) : M unit := fun sx st => putp p (fun g => g) sx st.
Definition open (path : ptr_str) (flags : Z) : M Z := ret 3.
Definition close (fd : Z) : M unit := ret tt.
Definition load_stream_fd (p : ptr_stream) (fd : Z) : M unit :=
  fun sx st => if blen (g_buf (gs st p)) =? 0 then Fail E_FAIL else putp p (fun g => w_size (blen (g_buf g)) g) sx st.

(* ------------------------------------------------------------------ player *)

Definition get_player_firstclock (sx : penv) (st : pstate) (p : ptr_player) : Z := q_firstclock (pl st).
Definition get_player_lastclock (sx : penv) (st : pstate) (p : ptr_player) : Z := q_lastclock (pl st).
Definition get_player_deltaclock (sx : penv) (st : pstate) (p : ptr_player) : Z := q_deltaclock (pl st).
Definition get_player_nprocessed (sx : penv) (st : pstate) (p : ptr_player) : Z := q_nprocessed (pl st).
Definition get_player_first_event (sx : penv) (st : pstate) (p : ptr_player) : Z := q_first_event (pl st).
Definition get_player_unsorted (sx : penv) (st : pstate) (p : ptr_player) : Z := q_unsorted (pl st).
Definition get_player_stream (sx : penv) (st : pstate) (p : ptr_player) : ptr_stream := q_stream (pl st).

Definition putq {X} (p : option X) (f : gplayer -> gplayer) : M unit :=
  fun sx st => match p with Some _ => Done tt (mk_pstate (streams st) (f (pl st))) | None => Fail E_TRAP end.

Definition w_heap (v : list hnode) (q : gplayer) : gplayer :=
  mk_gplayer v (q_firstclock q) (q_lastclock q) (q_deltaclock q) (q_nprocessed q) (q_first_event q) (q_unsorted q) (q_stream q) (q_ev q).
Definition w_firstclock (v : Z) (q : gplayer) : gplayer :=
  mk_gplayer (q_heap q) v (q_lastclock q) (q_deltaclock q) (q_nprocessed q) (q_first_event q) (q_unsorted q) (q_stream q) (q_ev q).
Definition w_qlastclock (v : Z) (q : gplayer) : gplayer :=
  mk_gplayer (q_heap q) (q_firstclock q) v (q_deltaclock q) (q_nprocessed q) (q_first_event q) (q_unsorted q) (q_stream q) (q_ev q).
Definition w_qdeltaclock (v : Z) (q : gplayer) : gplayer :=
  mk_gplayer (q_heap q) (q_firstclock q) (q_lastclock q) v (q_nprocessed q) (q_first_event q) (q_unsorted q) (q_stream q) (q_ev q).
Definition w_nprocessed (v : Z) (q : gplayer) : gplayer :=
  mk_gplayer (q_heap q) (q_firstclock q) (q_lastclock q) (q_deltaclock q) v (q_first_event q) (q_unsorted q) (q_stream q) (q_ev q).
Definition w_first_event (v : Z) (q : gplayer) : gplayer :=
  mk_gplayer (q_heap q) (q_firstclock q) (q_lastclock q) (q_deltaclock q) (q_nprocessed q) v (q_unsorted q) (q_stream q) (q_ev q).
Definition w_stream (v : ptr_stream) (q : gplayer) : gplayer :=
  mk_gplayer (q_heap q) (q_firstclock q) (q_lastclock q) (q_deltaclock q) (q_nprocessed q) (q_first_event q) (q_unsorted q) v (q_ev q).
Definition w_ev (v : option (ptr_ev * Z * Z)) (q : gplayer) : gplayer :=
  mk_gplayer (q_heap q) (q_firstclock q) (q_lastclock q) (q_deltaclock q) (q_nprocessed q) (q_first_event q) (q_unsorted q) (q_stream q) v.

Definition set_player_firstclock (p : ptr_player) (v : penv -> pstate -> Z) : M unit := fun sx st => putq p (w_firstclock (v sx st)) sx st.
Definition set_player_lastclock (p : ptr_player) (v : penv -> pstate -> Z) : M unit := fun sx st => putq p (w_qlastclock (v sx st)) sx st.
Definition set_player_deltaclock (p : ptr_player) (v : penv -> pstate -> Z) : M unit := fun sx st => putq p (w_qdeltaclock (v sx st)) sx st.
Definition set_player_nprocessed (p : ptr_player) (v : penv -> pstate -> Z) : M unit := fun sx st => putq p (w_nprocessed (v sx st)) sx st.
Definition set_player_first_event (p : ptr_player) (v : penv -> pstate -> Z) : M unit := fun sx st => putq p (w_first_event (v sx st)) sx st.
Definition set_player_stream (p : ptr_player) (v : penv -> pstate -> ptr_stream) : M unit := fun sx st => putq p (w_stream (v sx st)) sx st.

Definition addr_player_heap (p : ptr_player) : ptr_heap := p.
Definition addr_player_ev (p : ptr_player) : ptr_emu_ev := p.

(* heap.h, with the meaning of Emu/HeapDefs.v *)
Definition heap_insert (h : ptr_heap) (n : ptr_node) (f : fnptr) : M unit :=
  fun sx st => match n with
               | Some id => putq h (fun q => w_heap (insert stream_cmp (q_heap q) (g_lastclock (nth id (streams st) g0), id)) q) sx st
               | None => Fail E_TRAP
               end.
Definition heap_pop_max (h : ptr_heap) (f : fnptr) : M ptr_node :=
  fun sx st => match h with
               | None => Fail E_TRAP
               | Some _ =>
                 match pop_max stream_cmp (q_heap (pl st)) with
                 | None => Done None st
                 | Some ((_, id), h') => Done (Some id) (mk_pstate (streams st) (w_heap h' (pl st)))
                 end
               end.
Definition emu_ev (e : ptr_emu_ev) (oev : ptr_ev) (sclock dclock : Z) : M unit :=
  putq e (w_ev (Some (oev, sclock, dclock))).

(* ------------------------------------------------------------------ player_init / check_clock_gate *)
(* DL_FOREACH(trace->streams, stream): the streams of the trace in list order (the list is the state's, sorted by
   trace_load: unit cmp_player); the body is translated, the iteration is this primitive.  memset(player, 0, ..)
   and heap_init reset the player; player->trace is not represented (its setter only checks the pointer). *)
Definition ptr_trace := option unit.
Fixpoint foreach_ids {C} (ids : list nat) (body : ptr_stream -> C -> M C) (c : C) : M C :=
  fun sx st =>
    match ids with
    | [] => Done c st
    | i :: t => match body (Some i) c sx st with
                | Done c' st' => foreach_ids t body c' sx st'
                | Stop s => Stop s
                | Fail e => Fail e
                end
    end.
Definition foreach_stream {C} (tr : ptr_trace) (body : ptr_stream -> C -> M C) (c : C) : M C :=
  fun sx st => match tr with
               | Some _ => foreach_ids (seq 0 (length (streams st))) body c sx st
               | None => Fail E_TRAP
               end.
Definition q0 : gplayer := mk_gplayer [] 0 0 0 0 0 0 None None.
Definition zero_player (p : ptr_player) : M unit := putq p (fun _ => q0).
Definition heap_init (h : ptr_heap) : M unit := putq h (w_heap []).
Definition set_player_trace (p : ptr_player) (v : penv -> pstate -> ptr_trace) : M unit := putq p (fun q => q).
Definition w_qunsorted (v : Z) (q : gplayer) : gplayer :=
  mk_gplayer (q_heap q) (q_firstclock q) (q_lastclock q) (q_deltaclock q) (q_nprocessed q) (q_first_event q) v (q_stream q) (q_ev q).
Definition set_player_unsorted (p : ptr_player) (v : penv -> pstate -> Z) : M unit := fun sx st => putq p (w_qunsorted (v sx st)) sx st.
Definition llabs (sx : penv) (st : pstate) (z : Z) : Z := Z.abs z.

(* ================================================================== hand-written reading (names m_...) *)

(* stream_step on stream id: None = return -1; Some (false, g) = return +1; Some (true, g) = return 0 *)
Definition m_stream_step (st : pstate) (id : nat) : option (bool * gstream) :=
  let g := nth id (streams st) g0 in
  if g_active g =? 0 then None else
  let adv := negb (is_null (g_cur g)) in
  let off := if adv then g_offset g + Loader_gen.ovni_ev_size (evview st (g_cur g)) else g_offset g in
  if adv && (off >? g_size g) then None
  else if adv && (off =? g_size g) then Some (false, w_cur None (w_active 0 (w_offset off g)))
  else
    let ev := mk_evp (g_buf g) off (g_junk g) in
    if LoaderStep_gen.next_ev_size ev (g_size g - off) <? 0 then None
    else
      let clock := cast_int64 (get_header_clock ev) + g_clkoff g in
      if (g_unsorted g =? 0) && (clock <? g_lastclock g) then None
      else Some (true, w_lastclock clock
                         (w_deltaclock (cast_int64 (cast_uint64 (cast_uint64 clock - cast_uint64 (g_lastclock g))))
                            (w_cur (Some (id, off)) (w_offset off g)))).

Definition lift_step (st : pstate) (id : nat) (r : option (bool * gstream)) : res unit :=
  match r with
  | None => Fail E_FAIL
  | Some (true, g) => Done tt (put st id g)
  | Some (false, g) => Stop (put st id g)
  end.

(* step_stream(player, stream id) *)
Definition m_step_stream (st : pstate) (id : nat) : res unit :=
  if g_active (nth id (streams st) g0) =? 0 then Stop st
  else match m_stream_step st id with
       | None => Fail E_FAIL
       | Some (false, g) => Stop (put st id g)
       | Some (true, g) =>
         Done tt (mk_pstate (upd (streams st) id g)
                    (w_nprocessed (q_nprocessed (pl st) + 1) (w_heap (insert stream_cmp (q_heap (pl st)) (g_lastclock g, id)) (pl st))))
       end.

(* update_clocks(player, stream) with sclock = stream_lastclock(stream): None = return -1 *)
Definition m_update_clocks (q : gplayer) (sclock : Z) : option gplayer :=
  let first := negb (q_first_event q =? 0) in
  let fc := if first then sclock else q_firstclock q in
  let lc := if first then sclock else q_lastclock q in
  if (sclock <? lc) && (q_unsorted q =? 0) then None
  else Some (w_qdeltaclock (cast_int64 (cast_uint64 (cast_uint64 sclock - cast_uint64 fc)))
               (w_qlastclock sclock (if first then w_qlastclock sclock (w_firstclock sclock (w_first_event 0 q)) else q))).

(* second half of player_step: pop the stream with the smallest lastclock, update the clocks, emit *)
Definition m_pop_emit (st1 : pstate) : res unit :=
  match pop_max stream_cmp (q_heap (pl st1)) with
  | None => Stop st1
  | Some ((_, id), h') =>
    match m_update_clocks (w_heap h' (pl st1)) (g_lastclock (nth id (streams st1) g0)) with
    | None => Fail E_FAIL
    | Some q =>
      Done tt (mk_pstate (streams st1)
                 (w_ev (Some (g_cur (nth id (streams st1) g0), q_lastclock q, q_deltaclock q)) (w_stream (Some id) q)))
    end
  end.

(* player_step(player): step the stream delivered last (re-inserting it), then the second half *)
Definition m_player_step (st : pstate) : res unit :=
  match q_stream (pl st) with
  | None => m_pop_emit st
  | Some id => match m_step_stream st id with Done _ s | Stop s => m_pop_emit s | Fail e => Fail e end
  end.

(* player_init: one stream of the loop, the loop, the whole function (readings) *)
Definition m_init_stream (unsorted : Z) (st : pstate) (id : nat) : res unit :=
  let st1 := if negb (unsorted =? 0) then put st id (w_unsorted 1 (nth id (streams st) g0)) else st in
  match m_step_stream st1 id with Done _ s | Stop s => Done tt s | Fail e => Fail e end.
Fixpoint m_init_all (unsorted : Z) (ids : list nat) (st : pstate) : res unit :=
  match ids with
  | [] => Done tt st
  | i :: t => match m_init_stream unsorted st i with Done _ s | Stop s => m_init_all unsorted t s | Fail e => Fail e end
  end.
