(* Prelude of the generated file Gen/MarkRead_gen.v (translate/units/markread.py): the readers of the mark metadata in
   src/emu/ovni/mark.c - parse_number, find_label, add_label, parse_labels, find_mark_type, create_mark_type, parse_mark,
   scan_thread.

   The generated file renders them statement by statement in the state + error monad below (`return -1` = fail E_FAIL).
   State: the type table of struct ovni_mark_emu as an insertion-ordered list of MarkDefs.mtype (uthash iterates in
   insertion order; the labels of a type likewise), the object calloc has handed out and HASH_ADD has not yet linked (one
   pending type, one pending label: the C fills an object before it adds it), errno and the output cell of parse_number.

   Hand-written here (not translated):
     - parson's look-ups with the meaning of Rt/RtMetaDefs.v (json_object_get_count / get_name / get_value_at: the i-th
       member; json_value_get_string / get_object; json_object_get_string / get_object / has_value; dotget_object);
     - strtol / strtoll: VParsePre.strtol_c (the ONE model of strtol, built from VersionDefs), errno;
     - uthash: HASH_FIND = first entry with that key, HASH_ADD = append the pending object; calloc = a fresh zeroed pending
       object; snprintf(d, N, "%s", s) into a field = copy at most N-1 bytes, return the length of s; strcmp;
     - pointers: `struct mark_type *` = NULL, the pending type, or the table entry of a type number; `struct mark_label *` =
       NULL, the pending label, or (type handle, value); a field access through NULL is E_TRAP;
     - the counted loop for (size_t i = 0; i < n; i++) as a fold over 0 .. n-1 with the translated body.
   Definitions only; proofs in Proofs/MarkReadProofs.v. *)
From Coq Require Import ZArith List Bool.
From OV Require Import Base.CInt Emu.VersionDefs Emu.MarkDefs Rt.RtMetaDefs.
From OV Require Emu.VParsePre.
Import ListNotations.
Local Open Scope Z_scope.

Definition ptr_str := option (list Z).
Definition ptr_jobj := option fields.
Definition ptr_jval := option json.
Definition ptr_memu := unit.
Definition ptr_thread := ptr_jobj.                 (* a thread, as far as scan_thread looks at it: its metadata object *)

Inductive thandle := TTab (ty : Z) | TPend.
Definition ptr_mtype := option thandle.
Inductive lhandle := LTab (t : thandle) (v : Z) | LPend.
Definition ptr_mlabel := option lhandle.

Record mrstate := mkR {
  r_tbl : list mtype;                  (* m->types, insertion order *)
  r_pt : mtype;                        (* the calloc'ed struct mark_type being filled *)
  r_pl : Z * list Z;                   (* the calloc'ed struct mark_label being filled *)
  r_errno : Z;
  r_out : Z;                           (* *result of parse_number *)
  r_n : Z;                             (* m->ntypes *)
  r_lk : bool                          (* the calloc'ed struct mark_type has been linked into the table (HASH_ADD) *)
}.
Definition mt0 : mtype := {| mt_type := 0; mt_title := []; mt_stack := false; mt_labels := [] |}.
Definition r0 : mrstate := mkR [] mt0 (0, []) 0 0 0 false.

Definition E_FAIL := 20%nat.
Definition E_TRAP := 99%nat.
Inductive rres (A : Type) : Type := ROk (a : A) | RErr (e : nat).
Arguments ROk {A} a.
Arguments RErr {A} e.
Definition M (A : Type) : Type := mrstate -> rres (A * mrstate).
Definition ret {A} (a : A) : M A := fun st => ROk (a, st).
Definition fail {A} (e : nat) : M A := fun _ => RErr e.
Definition bind {A B} (m : M A) (f : A -> M B) : M B :=
  fun st => match m st with ROk (a, st') => f a st' | RErr e => RErr e end.
Definition bind_ {A B} (m : M A) (k : M B) : M B := bind m (fun _ => k).
Definition ite {A} (c : bool) (a b : M A) : M A := if c then a else b.

(* strings, parson *)
Definition str_lit (l : list Z) : ptr_str := Some l.
Fixpoint str_cmp (a b : list Z) : Z :=
  match a, b with
  | [], [] => 0
  | [], _ :: _ => -1
  | _ :: _, [] => 1
  | x :: a', y :: b' => if x <? y then -1 else if y <? x then 1 else str_cmp a' b'
  end.
Definition strcmp_c (a b : ptr_str) : Z := match a, b with Some x, Some y => str_cmp x y | _, _ => 0 end.

Definition jv_string (v : ptr_jval) : ptr_str := match v with Some (jstr s) => Some s | _ => None end.
Definition jv_object (v : ptr_jval) : ptr_jobj := match v with Some (jobj fs) => Some fs | _ => None end.
Definition nth_member (o : ptr_jobj) (i : Z) : option (str * json) :=
  match o with Some fs => if i <? 0 then None else nth_error fs (Z.to_nat i) | None => None end.
Definition json_object_get_count_c (o : ptr_jobj) : Z := match o with Some fs => Z.of_nat (length fs) | None => 0 end.
Definition json_object_get_name_c (o : ptr_jobj) (i : Z) : ptr_str := match nth_member o i with Some kv => Some (fst kv) | None => None end.
Definition json_object_get_value_at_c (o : ptr_jobj) (i : Z) : ptr_jval := match nth_member o i with Some kv => Some (snd kv) | None => None end.
Definition json_value_get_string_c (v : ptr_jval) : ptr_str := jv_string v.
Definition json_value_get_object_c (v : ptr_jval) : ptr_jobj := jv_object v.
Definition obj_get (o : ptr_jobj) (k : ptr_str) : ptr_jval := match o, k with Some fs, Some key => fget fs key | _, _ => None end.
Definition json_object_get_string_c (o : ptr_jobj) (k : ptr_str) : ptr_str := jv_string (obj_get o k).
Definition json_object_get_object_c (o : ptr_jobj) (k : ptr_str) : ptr_jobj := jv_object (obj_get o k).
Definition json_object_has_value_c (o : ptr_jobj) (k : ptr_str) : Z := match obj_get o k with Some _ => 1 | None => 0 end.
Definition json_object_dotget_object_c (o : ptr_jobj) (k : ptr_str) : ptr_jobj :=
  jv_object (match o, k with Some fs, Some key => dotget fs key | _, _ => None end).
Definition get_thread_meta (t : ptr_thread) : ptr_jobj := t.

(* errno, strtol (VParsePre's model), the out cell *)
Definition get_errno : M Z := fun st => ROk (r_errno st, st).
Definition set_errno (e : Z) : M unit := fun st => ROk (tt, mkR (r_tbl st) (r_pt st) (r_pl st) e (r_out st) (r_n st) (r_lk st)).
Definition cptr := ptr_str.
Definition as_vptr (p : cptr) : VParsePre.cptr := match p with Some s => Some (0, s) | None => None end.
Definition of_vptr (p : VParsePre.cptr) : option (Z * list Z) := p.
Definition eptr := option (Z * list Z).             (* the end pointer of strtol: (address, rest) *)
Definition strtol_c (s : cptr) (base : Z) : M (Z * eptr) :=
  fun st =>
    match VParsePre.strtol_c (as_vptr s) base (VParsePre.mkV (r_errno st) None []) with
    | VParsePre.VOk ((v, e), vs) => ROk ((v, e), mkR (r_tbl st) (r_pt st) (r_pl st) (VParsePre.v_errno vs) (r_out st) (r_n st) (r_lk st))
    | VParsePre.VErr e => RErr e
    end.
Definition ptr_eqb (e : eptr) (s : cptr) : bool := VParsePre.ptr_eqb e (as_vptr s).
Definition char_at (e : eptr) (i : Z) : Z := VParsePre.char_at e i.
Definition set_out (v : Z) : M unit := fun st => ROk (tt, mkR (r_tbl st) (r_pt st) (r_pl st) (r_errno st) v (r_n st) (r_lk st)).
Definition get_out : M Z := fun st => ROk (r_out st, st).

(* the tables *)
Definition upd_labels (m : mtype) (ls : list (Z * list Z)) : mtype :=
  {| mt_type := mt_type m; mt_title := mt_title m; mt_stack := mt_stack m; mt_labels := ls |}.
Definition with_tbl (st : mrstate) (t : list mtype) : mrstate := mkR t (r_pt st) (r_pl st) (r_errno st) (r_out st) (r_n st) (r_lk st).
Definition with_pt (st : mrstate) (m : mtype) : mrstate := mkR (r_tbl st) m (r_pl st) (r_errno st) (r_out st) (r_n st) (r_lk st).
Definition with_pl (st : mrstate) (l : Z * list Z) : mrstate := mkR (r_tbl st) (r_pt st) l (r_errno st) (r_out st) (r_n st) (r_lk st).

(* the pending object, once linked, IS the table entry of its type number *)
Definition type_of (st : mrstate) (h : thandle) : option mtype :=
  match h with
  | TPend => if r_lk st then find_mt (r_tbl st) (mt_type (r_pt st)) else Some (r_pt st)
  | TTab ty => find_mt (r_tbl st) ty
  end.
Definition set_type (st : mrstate) (h : thandle) (m : mtype) : mrstate :=
  match h with
  | TPend => if r_lk st then with_tbl st (replace_mt (r_tbl st) m) else with_pt st m
  | TTab _ => with_tbl st (replace_mt (r_tbl st) m)
  end.

Definition hash_find_type (m : ptr_memu) (ty : Z) : M ptr_mtype :=
  fun st => ROk (match find_mt (r_tbl st) ty with Some _ => Some (TTab ty) | None => None end, st).
Definition hash_add_type (m : ptr_memu) (t : ptr_mtype) : M unit :=
  fun st => match t with
            | Some TPend => if r_lk st then RErr E_TRAP else ROk (tt, mkR (r_tbl st ++ [r_pt st]) (r_pt st) (r_pl st) (r_errno st) (r_out st) (r_n st) true)
            | _ => RErr E_TRAP
            end.
Definition calloc_mark_type : M ptr_mtype :=
  fun st => ROk (Some TPend, mkR (r_tbl st) mt0 (r_pl st) (r_errno st) (r_out st) (r_n st) false).
Definition calloc_mark_label : M ptr_mlabel := fun st => ROk (Some LPend, with_pl st (0, [])).

Definition hash_find_label (t : ptr_mtype) (v : Z) : M ptr_mlabel :=
  fun st => match t with
            | Some h => match type_of st h with
                        | Some m => ROk (match lookup_label (mt_labels m) v with Some _ => Some (LTab h v) | None => None end, st)
                        | None => RErr E_TRAP
                        end
            | None => RErr E_TRAP
            end.
Definition hash_add_label (t : ptr_mtype) (l : ptr_mlabel) : M unit :=
  fun st => match t, l with
            | Some h, Some LPend =>
              match type_of st h with
              | Some m => ROk (tt, set_type st h (upd_labels m (mt_labels m ++ [r_pl st])))
              | None => RErr E_TRAP
              end
            | _, _ => RErr E_TRAP
            end.

(* field reads / stores through the handles *)
Definition rd_type (t : ptr_mtype) {A} (f : mtype -> A) : M A :=
  fun st => match t with Some h => match type_of st h with Some m => ROk (f m, st) | None => RErr E_TRAP end | None => RErr E_TRAP end.
(* enum chan_type: CHAN_SINGLE = 0, CHAN_STACK = 1 (the generated file carries the values the compiler reports; the proofs
   compare them with these) *)
Definition CODE_STACK : Z := 1.
Definition code_of_stack (b : bool) : Z := if b then 1 else 0.
Definition rd_mark_type_title (t : ptr_mtype) : M ptr_str := rd_type t (fun m => Some (mt_title m)).
Definition rd_mark_type_ctype (t : ptr_mtype) : M Z := rd_type t (fun m => code_of_stack (mt_stack m)).
Definition rd_mark_label_label (l : ptr_mlabel) : M ptr_str :=
  fun st => match l with
            | Some LPend => ROk (Some (snd (r_pl st)), st)
            | Some (LTab h v) => match type_of st h with
                                 | Some m => match lookup_label (mt_labels m) v with Some s => ROk (Some s, st) | None => RErr E_TRAP end
                                 | None => RErr E_TRAP
                                 end
            | None => RErr E_TRAP
            end.
Definition wr_pend_type (t : ptr_mtype) (f : mtype -> mtype) : M unit :=
  fun st => match t with Some TPend => if r_lk st then RErr E_TRAP else ROk (tt, with_pt st (f (r_pt st))) | _ => RErr E_TRAP end.
Definition set_mark_type_type (t : ptr_mtype) (v : Z) : M unit :=
  wr_pend_type t (fun m => {| mt_type := v; mt_title := mt_title m; mt_stack := mt_stack m; mt_labels := mt_labels m |}).
Definition set_mark_type_ctype (t : ptr_mtype) (v : Z) : M unit :=
  wr_pend_type t (fun m => {| mt_type := mt_type m; mt_title := mt_title m; mt_stack := (v =? CODE_STACK); mt_labels := mt_labels m |}).
(* prvtype and index are functions of the type number and of the position in the table: not stored *)
Definition set_mark_type_prvtype (t : ptr_mtype) (v : Z) : M unit := wr_pend_type t (fun m => m).
Definition set_mark_type_index (t : ptr_mtype) (v : Z) : M unit := wr_pend_type t (fun m => m).
Definition snprintf_mark_type_title (t : ptr_mtype) (size : Z) (s : ptr_str) : M Z :=
  fun st => match t, s with
            | Some TPend, Some x =>
              if r_lk st then RErr E_TRAP else
              ROk (Z.of_nat (length x), with_pt st {| mt_type := mt_type (r_pt st); mt_title := firstn (Z.to_nat (size - 1)) x;
                                                       mt_stack := mt_stack (r_pt st); mt_labels := mt_labels (r_pt st) |})
            | _, _ => RErr E_TRAP
            end.
Definition set_mark_label_value (l : ptr_mlabel) (v : Z) : M unit :=
  fun st => match l with Some LPend => ROk (tt, with_pl st (v, snd (r_pl st))) | _ => RErr E_TRAP end.
Definition snprintf_mark_label_label (l : ptr_mlabel) (size : Z) (s : ptr_str) : M Z :=
  fun st => match l, s with
            | Some LPend, Some x => ROk (Z.of_nat (length x), with_pl st (fst (r_pl st), firstn (Z.to_nat (size - 1)) x))
            | _, _ => RErr E_TRAP
            end.
Definition rd_ovni_mark_emu_ntypes (m : ptr_memu) : M Z := fun st => ROk (r_n st, st).
Definition set_ovni_mark_emu_ntypes (m : ptr_memu) (v : Z) : M unit :=
  fun st => ROk (tt, mkR (r_tbl st) (r_pt st) (r_pl st) (r_errno st) (r_out st) v (r_lk st)).

(* for (size_t i = 0; i < n; i++) body *)
Fixpoint for_count_n (k : nat) (i : Z) (body : Z -> M unit) : M unit :=
  match k with
  | O => ret tt
  | S k' => bind_ (body i) (for_count_n k' (i + 1) body)
  end.
Definition for_count (lo hi : Z) (body : Z -> M unit) : M unit := for_count_n (Z.to_nat (hi - lo)) lo body.
