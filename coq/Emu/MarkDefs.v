(* C17: the mark API.  Runtime side (src/rt/ovni.c ovni_mark_type, _label, _push, _pop, _set): calls -> per-thread metadata + events.
   Emulator side (src/emu/ovni/mark.c): merging the definitions of all threads, one channel per type
   (stack or single, duplicates allowed), tracked ACTIVE on thread rows and RUNNING on CPU rows,
   PRV type 100 + mark type, flag SKIPDUPNULL. *)
From Coq Require Import ZArith List Bool.
From OV Require Import Base.CInt Emu.EmuCoreDefs Emu.DecodeDefs.
Import ListNotations.
Local Open Scope Z_scope.

Definition str := list Z.
Definition str_eqb (a b : str) : bool := if list_eq_dec Z.eq_dec a b then true else false.

(* ---------------------------------------------------------------- metadata of one thread *)
Record mdef := { md_type : Z; md_title : str; md_stack : bool; md_labels : list (Z * str) }.

(* ---------------------------------------------------------------- runtime *)
Record rtm := { rt_defs : list mdef;            (* "ovni.mark" of this thread, in definition order *)
                rt_events : list (Z * Z * Z) }. (* (kind '[' ']' '=', value, type), newest last *)

Definition rtm_init : rtm := {| rt_defs := []; rt_events := [] |}.

Fixpoint find_def (l : list mdef) (t : Z) : option mdef :=
  match l with [] => None | d :: r => if md_type d =? t then Some d else find_def r t end.

Fixpoint add_label_def (l : list mdef) (t v : Z) (lab : str) : list mdef :=
  match l with
  | [] => []
  | d :: r => if md_type d =? t
              then {| md_type := md_type d; md_title := md_title d; md_stack := md_stack d; md_labels := md_labels d ++ [(v, lab)] |} :: r
              else d :: add_label_def r t v lab
  end.

Definition has_label_def (d : mdef) (v : Z) : bool := existsb (fun p => fst p =? v) (md_labels d).

Inductive mcall :=
| MType (t : Z) (stack : bool) (title : option str)
| MLabel (t v : Z) (label : option str)
| MPush (t v : Z) | MPop (t v : Z) | MSet (t v : Z).

(* one call of the mark API on a thread; Die = the library aborts *)
Definition rt_call (s : rtm) (c : mcall) : res rtm :=
  match c with
  | MType t stack title =>
    if (t <? 0) || (100 <=? t) then Die else
    match title with
    | None | Some [] => Die
    | Some ti =>
      match find_def (rt_defs s) t with
      | Some _ => Die
      | None => Ret {| rt_defs := rt_defs s ++ [{| md_type := t; md_title := ti; md_stack := stack; md_labels := [] |}];
                       rt_events := rt_events s |}
      end
    end
  | MLabel t v label =>
    if (t <? 0) || (100 <=? t) then Die else
    if v <=? 0 then Die else
    match label with
    | None | Some [] => Die
    | Some la =>
      match find_def (rt_defs s) t with
      | None => Die
      | Some d => if has_label_def d v then Die
                  else Ret {| rt_defs := add_label_def (rt_defs s) t v la; rt_events := rt_events s |}
      end
    end
  | MPush t v => if v =? 0 then Die else Ret {| rt_defs := rt_defs s; rt_events := rt_events s ++ [(91, v, t)] |}
  | MPop t v => if v =? 0 then Die else Ret {| rt_defs := rt_defs s; rt_events := rt_events s ++ [(93, v, t)] |}
  | MSet t v => if v =? 0 then Die else Ret {| rt_defs := rt_defs s; rt_events := rt_events s ++ [(61, v, t)] |}
  end.

(* ---------------------------------------------------------------- emulator: merging definitions *)
Record mtype := { mt_type : Z; mt_title : str; mt_stack : bool; mt_labels : list (Z * str) }.

Fixpoint find_mt (l : list mtype) (t : Z) : option mtype :=
  match l with [] => None | d :: r => if mt_type d =? t then Some d else find_mt r t end.

Fixpoint lookup_label (l : list (Z * str)) (v : Z) : option str :=
  match l with [] => None | (v', s) :: r => if v' =? v then Some s else lookup_label r v end.

(* add_label: same value with another label is a conflict *)
Fixpoint merge_labels (have : list (Z * str)) (new : list (Z * str)) : option (list (Z * str)) :=
  match new with
  | [] => Some have
  | (v, s) :: r =>
    match lookup_label have v with
    | Some s' => if str_eqb s s' then merge_labels have r else None
    | None => merge_labels (have ++ [(v, s)]) r
    end
  end.

Fixpoint replace_mt (l : list mtype) (m : mtype) : list mtype :=
  match l with [] => [] | d :: r => if mt_type d =? mt_type m then m :: r else d :: replace_mt r m end.

(* parse_mark *)
Definition merge_def (acc : list mtype) (d : mdef) : option (list mtype) :=
  if (md_type d <? 0) || (100 <=? md_type d) then None else
  match find_mt acc (md_type d) with
  | None =>
    match merge_labels [] (md_labels d) with
    | None => None
    | Some ls => Some (acc ++ [{| mt_type := md_type d; mt_title := md_title d; mt_stack := md_stack d; mt_labels := ls |}])
    end
  | Some m =>
    if negb (str_eqb (mt_title m) (md_title d)) then None else
    if negb (Bool.eqb (mt_stack m) (md_stack d)) then None else
    match merge_labels (mt_labels m) (md_labels d) with
    | None => None
    | Some ls => Some (replace_mt acc {| mt_type := mt_type m; mt_title := mt_title m; mt_stack := mt_stack m; mt_labels := ls |})
    end
  end.

Fixpoint merge_defs (acc : list mtype) (ds : list mdef) : option (list mtype) :=
  match ds with
  | [] => Some acc
  | d :: r => match merge_def acc d with Some acc' => merge_defs acc' r | None => None end
  end.

(* mark_create: all threads in gindex order *)
Definition merge_threads (ths : list (list mdef)) : option (list mtype) := merge_defs [] (concat ths).

(* ---------------------------------------------------------------- emulator: channels and events *)
Definition MARK_MODEL : Z := 1000.   (* a model id of its own for the mark channels in s_chans *)

Definition mark_chans (ms : list mtype) : list chanspec :=
  map (fun m => {| cs_model := MARK_MODEL; cs_index := mt_type m; cs_stack := mt_stack m; cs_dup := true;
                   cs_thtrack := TRACK_ACT; cs_cputrack := TRACK_RUN; cs_type := 100 + mt_type m;
                   cs_flags := PRV_SKIPDUPNULL; cs_init := None; cs_cpudef := None |}) ms.

(* little-endian signed 64-bit *)
Definition le_i64 (p : list Z) (off : nat) : Z :=
  let u := le_u32 p off + 4294967296 * le_u32 p (off + 4) in
  if u <? 9223372036854775808 then u else u - 18446744073709551616.

(* mark_event: cs = all channels of the trace (model channels then mark channels) *)
Definition decode_mark (cs : list chanspec) (v : Z) (p : list Z) : event :=
  if negb (Nat.eqb (length p) 12) then EvBad E_PAYLOAD else
  let value := le_i64 p 0 in
  let type := le_i32 p 8 in
  match chan_pos cs MARK_MODEL type with
  | None => EvBad E_UNKNOWN                      (* cannot find mark with that type *)
  | Some k =>
    if value =? 0 then EvBad E_PAYLOAD else
    if v =? 91 then EvChan k PUSH (Some value) 3
    else if v =? 93 then EvChan k POP (Some value) 3
    else if v =? 61 then EvChan k SET (Some value) 3
    else EvBad E_UNKNOWN
  end.

Definition decode_all (enabled : list Z) (cs : list chanspec) (m c v : Z) (p : list Z) (jumbo : bool) (aux : Z) : event :=
  if (m =? M_OVNI) && (c =? 77) then (if memz M_OVNI enabled then decode_mark cs v p else EvBad E_UNKNOWN)
  else decode_full enabled cs m c v p jumbo aux.
