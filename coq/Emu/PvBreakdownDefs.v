(* C13 / C20: the breakdown trace of `ovniemu -b` (src/emu/nosv/breakdown.c, src/emu/nanos6/breakdown.c): a third Paraver
   trace <model>-breakdown.{prv,pcf,row} with one row per PHYSICAL CPU, whose row k shows the k-th smallest per-CPU
   breakdown value.  The model is the sort module of SortDefs (C20: sm_init / sm_run, rows = sorted per-CPU values) feeding
   the writer of PvDefs:
     create   recorder_add_pvt(rec, "<model>-breakdown", nphycpus); sort_init
     connect  for i < nphycpus: prv_register(prv, i, PRV_<MODEL>_BREAKDOWN, bay, sort output i, PRV_SKIPDUP | PRV_ZERO)
     replay   per event: the PRV clock advances (recorder_advance moves every trace of the recorder); the changes of the
              sort inputs (the per-CPU `tri` channels, C20_wiring) run sort_cb_input; at the end of the propagation every
              output channel whose value differs from the last one written is emitted (SKIPDUP: an output written back to its
              old value is not; ZERO: 0 may be written - the first sort writes 0 on the still-null other rows)
     finish   pcf_add_type(PRV_<MODEL>_BREAKDOWN, "CPU: <Model> Runtime/Idle/Task breakdown"), the labels of the subsystem
              channel, then those of the idle channel, then task_create_pcf_types per process; prf_add(row, "~CPU %4d" of
              nphycpus - row)
     close    pvt_close
   Definitions only; executable (extracted into oracle/pv_drv.ml, compared byte for byte with the files of ovniemu -b). *)
From Coq Require Import Strings.String Strings.Ascii.
From Coq Require Import ZArith List Bool.
From OV Require Import Base.CInt Emu.EmuCoreDefs Emu.DecodeDefs Emu.MarkDefs Emu.PvDefs.
From OV Require Emu.SortDefs Gen.Tables_gen Gen.Pv_gen.
Import ListNotations.
Local Open Scope Z_scope.

Definition E_BD_SORT := 33%nat.      (* sort_cb_input failed (input out of range / sort_replace left its domain) *)

Definition PRV_NOSV_BREAKDOWN : Z := 17.       (* emu_prv.h *)
Definition PRV_NANOS6_BREAKDOWN : Z := 41.
Definition bd_flags : Z := Z.lor PRV_SKIPDUP PRV_ZERO.

Definition S_BD_NOSV : str := Eval vm_compute in zs "CPU: nOS-V Runtime/Idle/Task breakdown"%string.
Definition S_BD_NANOS6 : str := Eval vm_compute in zs "CPU: Nanos6 Runtime/Idle/Task breakdown"%string.
Definition S_BD_ROW : str := Eval vm_compute in zs "~CPU "%string.

(* what one model contributes: PRV type, type label, labels of its subsystem and idle channels (pcf_labels[CH_*]) *)
Record bd_cfg := { bd_model : Z; bd_type : Z; bd_label : str; bd_ss : list (Z * str); bd_idle : list (Z * str) }.

Definition labels_of (all : list pvspec) (m i : Z) : list (Z * str) :=
  match find (fun s => (ps_model s =? m) && (ps_index s =? i)) all with Some s => ps_labels s | None => [] end.

Definition bd_nosv : bd_cfg :=
  {| bd_model := M_NOSV; bd_type := PRV_NOSV_BREAKDOWN; bd_label := S_BD_NOSV;
     bd_ss := labels_of Pv_gen.pv_chans M_NOSV Tables_gen.c_nosv_CH_SUBSYSTEM;
     bd_idle := labels_of Pv_gen.pv_chans M_NOSV Tables_gen.c_nosv_CH_IDLE |}.
Definition bd_nanos6 : bd_cfg :=
  {| bd_model := M_NANOS6; bd_type := PRV_NANOS6_BREAKDOWN; bd_label := S_BD_NANOS6;
     bd_ss := labels_of Pv_gen.pv_chans M_NANOS6 Tables_gen.c_nanos6_CH_SUBSYSTEM;
     bd_idle := labels_of Pv_gen.pv_chans M_NANOS6 Tables_gen.c_nanos6_CH_IDLE |}.

(* "~CPU %4d" of nphycpus - row *)
Definition bd_row_name (n : nat) (row : nat) : str := S_BD_ROW ++ pad_left 4 SP (dec (Z.of_nat n - Z.of_nat row)).

(* create + connect *)
Definition bd_connect (c : bd_cfg) (n : nat) : result pvt :=
  foldr (fun v (i : nat) => pvt_register v (Z.of_nat i) (bd_type c) bd_flags) (seq 0 n) (pvt_open n).

(* the emit callback of output row k *)
Definition bd_write (c : bd_cfg) (v : pvt) (w : nat * Z) : result pvt :=
  bindr (prv_write (v_prv v) (Z.of_nat (fst w)) (bd_type c) (snd w)) (fun x => Ok (set_prv v x)).

(* one event: its clock, and the callbacks of the sort inputs during its propagation *)
Definition bd_step := (Z * list (nat * SortDefs.value))%type.

Fixpoint bd_run (c : bd_cfg) (sm : SortDefs.sortmod) (v : pvt) (steps : list bd_step) : result (SortDefs.sortmod * pvt) :=
  match steps with
  | [] => Ok (sm, v)
  | (t, h) :: r =>
    bindr (prv_advance (v_prv v) t) (fun p =>
    match SortDefs.sm_run sm h with
    | None => Err E_BD_SORT
    | Some sm' =>
      bindr (foldr (bd_write c) (SortDefs.diff_rows 0 (SortDefs.m_outputs sm) (SortDefs.m_outputs sm')) (set_prv v p))
            (fun v' => bd_run c sm' v' r)
    end)
  end.

(* finish: the PCF type with its three groups of values, then the row names *)
Definition bd_finish (c : bd_cfg) (n : nat) (taskvals : list (Z * str)) (v : pvt) : result pvt :=
  bindr (pvt_add_type v (bd_type c) (bd_label c)) (fun v1 =>
  bindr (add_values (bd_type c) v1 (bd_ss c)) (fun v2 =>
  bindr (add_values (bd_type c) v2 (bd_idle c)) (fun v3 =>
  bindr (foldr (add_task_value (bd_type c)) taskvals v3) (fun v4 =>
  foldr (fun v' (row : nat) => pvt_add_row v' (Z.of_nat row) (bd_row_name n row)) (seq 0 n) v4)))).

(* the three files of <model>-breakdown; [steps] carry clocks relative to the first event, as in PvDefs.pv_run_from *)
Definition bd_emulate (c : bd_cfg) (n : nat) (taskvals : list (Z * str)) (steps : list bd_step) : result pvfiles :=
  bindr (bd_connect c n) (fun v0 =>
  bindr (bd_run c (SortDefs.sm_init n) v0 steps) (fun smv =>
  bindr (bd_finish c n taskvals (snd smv)) pvt_close)).

(* with the task types of the run: the values of task_create_pcf_types, process by process *)
Definition bd_emulate_sys (c : bd_cfg) (sx : static) (tys : list ttype) (tl : list (tkey * str)) (steps : list bd_step) : result pvfiles :=
  bd_emulate c (length (filter (fun ci => negb (ci_virtual ci)) (s_cpus sx))) (task_values sx tys tl (bd_model c)) steps.
