(* C07: the documented life-cycle of task bodies, stated over observations of the emulator state
   (doc/user/emulation/nosv.md, nanos6.md; src/emu/body.c is the implementation being specified). *)
From Coq Require Import ZArith List Bool.
From OV Require Import Emu.EmuCoreDefs.
Import ListNotations.
Local Open Scope Z_scope.

Definition K_EXEC : Z := 120.   (* 'x' *)
Definition K_END : Z := 101.    (* 'e' *)
Definition K_PAUSE : Z := 112.  (* 'p' *)
Definition K_RESUME : Z := 114. (* 'r' *)

(* the body (task tid, body bid) may take the transition `kind` on thread who *)
Definition legal (st : state) (who : nat) (th : thread) (loom : nat) (pid mdl kind tid bid : Z) : Prop :=
  exists ti tk, find_task st loom pid mdl tid = Some (ti, tk) /\
  ((kind = K_EXEC /\
    (* created -> running (a fresh body; only parallel tasks have more than one), or dead -> running for
       resurrectable tasks; never a body that is on some stack *)
    match find_body tk bid with
    | None => tk_par tk = true \/ tk_bodies tk = []
    | Some (_, b) => (b_state b = BCreated \/ (b_state b = BDead /\ tk_res tk = true)) /\ b_on b = None
    end /\
    (* nested only over a paused body, unless the task on top relaxes this *)
    match running_top st loom pid th mdl with
    | None => True
    | Some (tk', _) => tk_relax tk' = true
    end)
   \/
   (exists bi b, find_body tk bid = Some (bi, b) /\ b_on b = Some who /\ is_top th mdl tid bid = true /\
      ((kind = K_PAUSE /\ b_state b = BRunning /\ tk_pause tk = true) \/
       (kind = K_RESUME /\ b_state b = BPaused) \/
       (kind = K_END /\ b_state b = BRunning)))).

(* state of a body after the transition *)
Definition next_bstate (kind : Z) : bstate :=
  if kind =? K_EXEC then BRunning else if kind =? K_PAUSE then BPaused else if kind =? K_RESUME then BRunning else BDead.
