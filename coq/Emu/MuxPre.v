(* Prelude of the generated file Gen/Mux_gen.v (translate/units/mux.py): the world of src/emu/mux.c.

   The generated file renders default_select, select_input, cb_select, cb_reselect, cb_input, mux_get_input
   and mux_set_default statement by statement in the reader + state + error monad below (`return -1` =
   fail E_FAIL, a NULL / wild dereference = E_TRAP).

   The state is a whole BayDefs bay (channels, callback lists, muxes, dirty list) plus what only the C
   keeps: the per-input `selected` ints and the cell a `struct mux_input **` points to.  The environment
   names THE mux the callbacks are about (`void *ptr` designates it or one of its inputs) and gives the
   custom select function (thread.c, breakdown.c) as a function of the bay (it may read the input channels),
   the number of inputs and the key.

   Hand-written here (not translated), with the meaning coq/Emu/BayDefs.v gives them:
     - the fields of struct mux / struct mux_input are read off the BayDefs mux record m:
       selected (-1 = None), ninputs, def, select, output, select_func (NULL for the default select),
       inputs[i].chan / .output / .index (= i: mux_set_input stores it, not translated) / .cb;
     - `&mux->inputs[i]` is the index i; an index outside the array is a wild pointer: every access through it traps;
     - bay_enable_cb / bay_disable_cb (bay.c) on the callback of input i = BayDefs.enable_input / disable_input;
     - chan_read / chan_set (chan.c, tied to the source by C06_bay_channels_from_source) = BayDefs.read_chan / chan_set;
     - `struct value` = ChanPre.cvalue; values that are neither null nor int64 do not occur (chan_set on one traps);
     - mux->select_func(mux, key, &input): the environment's pure select function, storing its result.
   Definitions only; proofs in Proofs/BayMuxGenProofs.v. *)
From Coq Require Import ZArith List Bool.
From OV Require Import Base.CInt Emu.EmuCoreDefs Emu.ChanPre.
From OV Require Emu.BayDefs.
Import ListNotations.
Local Open Scope Z_scope.

Module B := BayDefs.

Definition cvalue := ChanPre.cvalue.
Definition inj (o : value) : cvalue := match o with None => vnull | Some z => {| vt := 1; vi := z |} end.
Definition uninj (v : cvalue) : option value :=
  if vt v =? 0 then (if vi v =? 0 then Some None else None) else if vt v =? 1 then Some (Some (vi v)) else None.

Definition fld_cvalue_type (v : cvalue) : Z := vt v.
Definition fld_cvalue_i (v : cvalue) : Z := vi v.

Record mstate := {
  ms_bay : B.bay;
  ms_isel : list Z;            (* inputs[i].selected *)
  ms_cell : option Z           (* the struct mux_input * a struct mux_input ** points to *)
}.
Record menv := {
  me_m : nat;                                        (* the mux *)
  me_custom : B.bay -> Z -> cvalue -> result (option Z)   (* mux->select_func: it may read the input channels; ninputs, key -> chosen input / NULL *)
}.

Definition E_FAIL := 20%nat.
Definition E_TRAP := 99%nat.

Definition M (A : Type) : Type := menv -> mstate -> result (A * mstate).
Definition ret {A} (a : A) : M A := fun _ st => Ok (a, st).
Definition fail {A} (e : nat) : M A := fun _ _ => Err e.
Definition bind {A B} (m : M A) (f : A -> M B) : M B :=
  fun sx st => match m sx st with Ok (a, st') => f a sx st' | Err e => Err e end.
Definition bind_ {A B} (m : M A) (k : M B) : M B := bind m (fun _ => k).
Definition eval {A} (f : menv -> mstate -> A) : M A := fun sx st => Ok (f sx st, st).
Definition ite {A} (c : menv -> mstate -> bool) (a b : M A) : M A :=
  fun sx st => if c sx st then a sx st else b sx st.
Definition need {A} (safe : menv -> mstate -> bool) (k : M A) : M A :=
  fun sx st => if safe sx st then k sx st else Err E_TRAP.
Definition exec (m : M unit) (sx : menv) (st : mstate) : result mstate :=
  match m sx st with Ok (_, st') => Ok st' | Err e => Err e end.
(* if (P && f(a, &x) != 0) fail:  x := P ? what f stores : x *)
Definition ite_out {A} (c : menv -> mstate -> bool) (call : M A) (old : A) : M A :=
  fun sx st => if c sx st then call sx st else Ok (old, st).

(* pointers *)
Definition ptr_mux := option unit.
Definition ptr_input := option Z.             (* &mux->inputs[i] *)
Definition ptr_pinput := option unit.         (* the address of the cell *)
Definition ptr_chan := option nat.
Definition ptr_cb := option Z.                (* inputs[i].cb *)
Definition ptr_fn := option unit.
Inductive vobj := VMux | VInput (i : Z).
Definition ptr_void := option vobj.

Definition ptr_mux_of_void (p : ptr_void) : ptr_mux := match p with Some VMux => Some tt | _ => None end.
Definition ptr_input_of_void (p : ptr_void) : ptr_input := match p with Some (VInput i) => Some i | _ => None end.
Definition void_of_ptr_mux (p : ptr_mux) : ptr_void := match p with Some _ => Some VMux | None => None end.

Definition the_mux (sx : menv) (st : mstate) : option B.mux := nth_error (B.b_muxes (ms_bay st)) (me_m sx).
Definition dmux : B.mux :=
  {| B.mx_init := false; B.mx_sel := 0; B.mx_out := 0; B.mx_fun := B.SelDefault; B.mx_def := None; B.mx_ins := [];
     B.mx_en := []; B.mx_selected := None |}.
Definition mx (sx : menv) (st : mstate) : B.mux := match the_mux sx st with Some m => m | None => dmux end.

Definition in_inputs (sx : menv) (st : mstate) (i : Z) : bool := (0 <=? i) && (i <? Z.of_nat (length (B.mx_ins (mx sx st)))).

(* getters of struct mux *)
Definition get_mux_selected (sx : menv) (st : mstate) (m : ptr_mux) : Z :=
  match B.mx_selected (mx sx st) with Some i => Z.of_nat i | None => -1 end.
Definition get_mux_ninputs (sx : menv) (st : mstate) (m : ptr_mux) : Z := Z.of_nat (length (B.mx_ins (mx sx st))).
Definition get_mux_def (sx : menv) (st : mstate) (m : ptr_mux) : cvalue := inj (B.mx_def (mx sx st)).
Definition get_mux_output (sx : menv) (st : mstate) (m : ptr_mux) : ptr_chan := Some (B.mx_out (mx sx st)).
Definition get_mux_select (sx : menv) (st : mstate) (m : ptr_mux) : ptr_chan := Some (B.mx_sel (mx sx st)).
Definition get_mux_select_func (sx : menv) (st : mstate) (m : ptr_mux) : ptr_fn :=
  match B.mx_fun (mx sx st) with B.SelDefault => None | _ => Some tt end.
Definition addr_mux_inputs_at (m : ptr_mux) (i : Z) : ptr_input := match m with Some _ => Some i | None => None end.

(* getters of struct mux_input; through a wild pointer they give NULL / a wild callback, so that the use traps *)
Definition get_mux_input_cb (sx : menv) (st : mstate) (p : ptr_input) : ptr_cb := p.
Definition get_mux_input_index (sx : menv) (st : mstate) (p : ptr_input) : Z := match p with Some i => i | None => 0 end.
Definition get_mux_input_chan (sx : menv) (st : mstate) (p : ptr_input) : ptr_chan :=
  match p with Some i => if in_inputs sx st i then nth_error (B.mx_ins (mx sx st)) (Z.to_nat i) else None | None => None end.
Definition get_mux_input_output (sx : menv) (st : mstate) (p : ptr_input) : ptr_chan :=
  match p with Some i => if in_inputs sx st i then Some (B.mx_out (mx sx st)) else None | None => None end.

Definition with_bay (st : mstate) (b : B.bay) : mstate := {| ms_bay := b; ms_isel := ms_isel st; ms_cell := ms_cell st |}.

(* setters *)
Definition set_mux_selected (m : ptr_mux) (v : menv -> mstate -> Z) : M unit :=
  fun sx st => match m, the_mux sx st with
               | Some _, Some _ =>
                 Ok (tt, with_bay st (B.set_selected (ms_bay st) (me_m sx) (if v sx st <? 0 then None else Some (Z.to_nat (v sx st)))))
               | _, _ => Err E_TRAP
               end.
Definition set_mux_def (m : ptr_mux) (v : menv -> mstate -> cvalue) : M unit :=
  fun sx st => match m, the_mux sx st, uninj (v sx st) with
               | Some _, Some x, Some d =>
                 Ok (tt, with_bay st (B.set_mux (ms_bay st) (me_m sx)
                       {| B.mx_init := B.mx_init x; B.mx_sel := B.mx_sel x; B.mx_out := B.mx_out x; B.mx_fun := B.mx_fun x; B.mx_def := d;
                          B.mx_ins := B.mx_ins x; B.mx_en := B.mx_en x; B.mx_selected := B.mx_selected x |}))
               | _, _, _ => Err E_TRAP
               end.
Definition set_mux_input_selected (p : ptr_input) (v : menv -> mstate -> Z) : M unit :=
  fun sx st => match p with
               | Some i => if in_inputs sx st i
                           then Ok (tt, {| ms_bay := ms_bay st; ms_isel := update (ms_isel st) (Z.to_nat i) (v sx st); ms_cell := ms_cell st |})
                           else Err E_TRAP
               | None => Err E_TRAP
               end.
Definition store_ptr_pinput (p : ptr_pinput) (v : menv -> mstate -> ptr_input) : M unit :=
  fun sx st => match p with
               | Some _ => Ok (tt, {| ms_bay := ms_bay st; ms_isel := ms_isel st; ms_cell := v sx st |})
               | None => Err E_TRAP
               end.
(* struct mux_input *input = NULL; f(.., &input): run f on the cell, give back what it holds *)
Definition with_out_pinput (f : ptr_pinput -> M unit) : M ptr_input :=
  fun sx st => match f (Some tt) sx {| ms_bay := ms_bay st; ms_isel := ms_isel st; ms_cell := None |} with
               | Ok (_, st') => Ok (ms_cell st', st')
               | Err e => Err e
               end.

(* bay.c *)
Definition lift_bay (st : mstate) (r : result B.bay) : result (unit * mstate) :=
  match r with Ok b => Ok (tt, with_bay st b) | Err _ => Err E_TRAP end.
Definition bay_disable_cb (cb : ptr_cb) : M unit :=
  fun sx st => match cb with
               | Some i => if in_inputs sx st i then lift_bay st (B.disable_input (ms_bay st) (me_m sx) (Z.to_nat i)) else Err E_TRAP
               | None => Err E_TRAP
               end.
Definition bay_enable_cb (cb : ptr_cb) : M unit :=
  fun sx st => match cb with
               | Some i => if in_inputs sx st i then lift_bay st (B.enable_input (ms_bay st) (me_m sx) (Z.to_nat i)) else Err E_TRAP
               | None => Err E_TRAP
               end.

(* chan.c *)
Definition chan_read (c : ptr_chan) : M cvalue :=
  fun sx st => match c with
               | Some k => match B.read_chan (ms_bay st) k with Ok v => Ok (inj v, st) | Err _ => Err E_TRAP end
               | None => Err E_TRAP
               end.
Definition chan_set (c : ptr_chan) (v : cvalue) : M unit :=
  fun sx st => match c, uninj v with
               | Some k, Some x =>
                 match nth_error (B.b_chans (ms_bay st)) k with
                 | None => Err E_TRAP
                 | Some _ => match B.chan_set (ms_bay st) k x with Ok b => Ok (tt, with_bay st b) | Err _ => Err E_FAIL end
                 end
               | _, _ => Err E_TRAP
               end.

(* mux->select_func(mux, key, pinput) *)
Definition call_select_func (holder : ptr_mux) (m : ptr_mux) (key : cvalue) (pinput : ptr_pinput) : M unit :=
  fun sx st => match holder, get_mux_select_func sx st m with
               | Some _, Some _ =>
                 match me_custom sx (ms_bay st) (get_mux_ninputs sx st m) key with
                 | Ok p => store_ptr_pinput pinput (fun _ _ => p) sx st
                 | Err _ => Err E_FAIL
                 end
               | _, _ => Err E_TRAP
               end.
