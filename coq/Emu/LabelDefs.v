(* C13: which values of which channels have a label in the PCF. *)
From Coq Require Import ZArith List Bool.
From OV Require Import Emu.EmuCoreDefs Emu.DecodeDefs Emu.MarkDefs.
From OV Require Gen.Tables_gen.
Import ListNotations.
Local Open Scope Z_scope.

(* static labels: the value tables of the models (pcf_labels of src/emu/*/setup.c, dumped) *)
Definition static_labelled (m i x : Z) : bool :=
  existsb (fun '(m', i', x') => (m =? m') && (i =? i') && (x =? x')) Tables_gen.labels.
(* a channel with a value table is a state type *)
Definition static_chan (m i : Z) : bool :=
  existsb (fun '(m', i', _) => (m =? m') && (i =? i')) Tables_gen.labels.
(* task-type timelines: labelled with the task types the trace creates *)
Definition type_chan (m i : Z) : bool :=
  ((m =? M_NOSV) && (i =? Tables_gen.c_nosv_CH_TYPE)) || ((m =? M_NANOS6) && (i =? Tables_gen.c_nanos6_CH_TYPE)).

Definition val_ok (sx : static) (tys : list ttype) (k : nat) (x : Z) : Prop :=
  let sp := spec_of sx k in
  (static_chan (cs_model sp) (cs_index sp) = true -> static_labelled (cs_model sp) (cs_index sp) x = true) /\
  (type_chan (cs_model sp) (cs_index sp) = true -> exists ty, In ty tys /\ ty_gid ty = x).

(* a value an event may write whatever the task types are *)
Definition chan_static_ok (sx : static) (k : nat) (x : Z) : Prop :=
  let sp := spec_of sx k in
  type_chan (cs_model sp) (cs_index sp) = false /\
  (static_chan (cs_model sp) (cs_index sp) = true -> static_labelled (cs_model sp) (cs_index sp) x = true).

Definition plain_chan (sx : static) (k : nat) : Prop :=
  let sp := spec_of sx k in
  type_chan (cs_model sp) (cs_index sp) = false /\ static_chan (cs_model sp) (cs_index sp) = false.

Definition cfg_ok (sx : static) (cfg : taskcfg) : Prop :=
  chan_static_ok sx (tc_ss cfg) (tc_ssval cfg) /\
  forall f k, In (f, k) (tc_chans cfg) ->
    match f with
    | FType => static_chan (cs_model (spec_of sx k)) (cs_index (spec_of sx k)) = false
    | _ => plain_chan sx k
    end.

Definition ev_ok (sx : static) (e : event) : Prop :=
  match e with
  | EvChan k a (Some x) _ => a = IGN \/ chan_static_ok sx k x      (* an ignored event writes nothing *)
  | EvOoc k _ x => chan_static_ok sx k x
  | EvTask cfg _ _ _ _ => cfg_ok sx cfg
  | _ => True
  end.

Definition contents (r : raw) : list Z := r_stk r ++ match r_val r with Some v => [v] | None => [] end.

(* what a slot may show: 0 (nothing), or a labelled value *)
Definition slot_labelled (sx : static) (tys : list ttype) (s : slot) (v : Z) : Prop :=
  v = 0 \/
  match s with
  | STh _ 0 => 1 <= v <= Z.of_nat (length (s_cpus sx))     (* CPU affinity: the CPUs are the labels *)
  | STh _ 1 => True                                          (* TID: a number *)
  | STh _ _ => 1 <= v <= 5                                   (* thread state *)
  | SCpu _ _ => True                                         (* TID, PID, number of running threads *)
  | STr _ k | SCr _ k => val_ok sx tys k v
  end.
