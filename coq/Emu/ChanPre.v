(* Prelude of the generated file Gen/Chan_gen.v (translate/units/chan.py): the world of src/emu/chan.c.

   The generated file renders set_dirty, chan_set, chan_push, chan_pop, get_value, chan_read, chan_flush,
   chan_dirty, chan_prop_set, chan_prop_get statement by statement in the reader + state + error monad
   below (same conventions as Emu/GuardsPre.v: `return -1` = fail E_FAIL, a NULL dereference = E_TRAP).
   The state is ONE channel (the functions touch no other), the `struct value` a caller of chan_read
   passes, and the number of times the dirty callback was called.

   Hand-written here (not translated):
     - struct value = (type tag, 64-bit payload); value_is_equal is the memcmp of the two 8-byte fields
       (value.h: "no padding holes"); value_null() = (VALUE_NULL, 0);
     - the channel record; `union chan_data` is kept as two separate fields (data.value, data.stack): the
       functions check chan->type before touching either, and the type never changes after chan_init;
     - data.stack.values is a list (the C array has MAX_CHAN_STACK elements; entries at and above n are stale);
       a store outside the list is E_TRAP;
     - chan->dirty_cb(chan, chan->dirty_arg): the callback is not part of chan.c; its status is an input
       (cb_ret), a call is counted (ncb);
     - pointers: there is one channel, so `struct chan *`/`struct chan_stack *` are NULL or "the channel";
       `struct value *` is a location: the channel's last_value, an element of the stack array, or the caller's
       output cell.
   Definitions only; proofs in Proofs/ChanProofs.v. *)
From Coq Require Import ZArith List Bool.
From OV Require Import Base.CInt Emu.EmuCoreDefs.
Import ListNotations.
Local Open Scope Z_scope.

Record cvalue := { vt : Z; vi : Z }.
Definition vnull : cvalue := {| vt := 0; vi := 0 |}.

Record chan := {
  is_dirty : Z;
  prop : list Z;            (* int prop[CHAN_MAXPROP] *)
  has_cb : bool;            (* dirty_cb != NULL *)
  last_value : cvalue;
  ctype : Z;                (* enum chan_type *)
  dvalue : cvalue;          (* data.value *)
  sn : Z;                   (* data.stack.n *)
  svalues : list cvalue     (* data.stack.values *)
}.

Record cstate := { ch : chan; out : cvalue; ncb : nat }.
Record cenv := { cb_ret : Z }.

Definition E_FAIL := 20%nat.
Definition E_TRAP := 99%nat.
Definition E_CB := 22%nat.

Definition M (A : Type) : Type := cenv -> cstate -> result (A * cstate).
Definition ret {A} (a : A) : M A := fun _ st => Ok (a, st).
Definition fail {A} (e : nat) : M A := fun _ _ => Err e.
Definition bind {A B} (m : M A) (f : A -> M B) : M B :=
  fun sx st => match m sx st with Ok (a, st') => f a sx st' | Err e => Err e end.
Definition bind_ {A B} (m : M A) (k : M B) : M B := bind m (fun _ => k).
Definition eval {A} (f : cenv -> cstate -> A) : M A := fun sx st => Ok (f sx st, st).
Definition ite {A} (c : cenv -> cstate -> bool) (a b : M A) : M A :=
  fun sx st => if c sx st then a sx st else b sx st.
Definition need {A} (safe : cenv -> cstate -> bool) (k : M A) : M A :=
  fun sx st => if safe sx st then k sx st else Err E_TRAP.
Definition exec (m : M unit) (sx : cenv) (st : cstate) : result cstate :=
  match m sx st with Ok (_, st') => Ok st' | Err e => Err e end.

(* pointers *)
Definition ptr_chan := option unit.
Definition ptr_chan_stack := option unit.
Definition ptr_cb := option unit.
Definition ptr_void := option unit.
Inductive vloc := LLast | LStackAt (i : Z) | LOut.
Definition ptr_value := option vloc.

Definition with_ch (st : cstate) (c : chan) : cstate := {| ch := c; out := out st; ncb := ncb st |}.

Definition ix_cvalue (l : list cvalue) (i : Z) : cvalue := nth (Z.to_nat i) l vnull.

(* getters *)
Definition get_chan_is_dirty (sx : cenv) (st : cstate) (c : ptr_chan) : Z := is_dirty (ch st).
Definition get_chan_prop (sx : cenv) (st : cstate) (c : ptr_chan) : list Z := prop (ch st).
Definition get_chan_dirty_cb (sx : cenv) (st : cstate) (c : ptr_chan) : ptr_cb := if has_cb (ch st) then Some tt else None.
Definition get_chan_dirty_arg (sx : cenv) (st : cstate) (c : ptr_chan) : ptr_void := Some tt.
Definition get_chan_last_value (sx : cenv) (st : cstate) (c : ptr_chan) : cvalue := last_value (ch st).
Definition get_chan_type (sx : cenv) (st : cstate) (c : ptr_chan) : Z := ctype (ch st).
Definition get_chan_data_value (sx : cenv) (st : cstate) (c : ptr_chan) : cvalue := dvalue (ch st).
Definition get_chan_stack_n (sx : cenv) (st : cstate) (s : ptr_chan_stack) : Z := sn (ch st).
Definition get_chan_stack_values (sx : cenv) (st : cstate) (s : ptr_chan_stack) : list cvalue := svalues (ch st).

(* addresses *)
Definition addr_chan_data_stack (c : ptr_chan) : ptr_chan_stack := c.
Definition addr_chan_last_value (c : ptr_chan) : ptr_value := match c with Some _ => Some LLast | None => None end.
Definition addr_chan_stack_values_at (s : ptr_chan_stack) (i : Z) : ptr_value :=
  match s with Some _ => Some (LStackAt i) | None => None end.

Definition load_ptr_value (sx : cenv) (st : cstate) (p : ptr_value) : cvalue :=
  match p with
  | Some LLast => last_value (ch st)
  | Some (LStackAt i) => ix_cvalue (svalues (ch st)) i
  | Some LOut => out st
  | None => vnull
  end.

(* value.h *)
Definition value_is_equal (sx : cenv) (st : cstate) (a b : cvalue) : Z := b2z ((vt a =? vt b) && (vi a =? vi b)).
Definition value_null (sx : cenv) (st : cstate) : cvalue := vnull.

(* setters *)
Definition upd_ch (c : ptr_chan) (f : chan -> chan) : M unit :=
  fun sx st => match c with Some _ => Ok (tt, with_ch st (f (ch st))) | None => Err E_TRAP end.

Definition set_chan_is_dirty (c : ptr_chan) (v : cenv -> cstate -> Z) : M unit :=
  fun sx st => upd_ch c (fun x => {| is_dirty := v sx st; prop := prop x; has_cb := has_cb x; last_value := last_value x;
                                     ctype := ctype x; dvalue := dvalue x; sn := sn x; svalues := svalues x |}) sx st.
Definition set_chan_data_value (c : ptr_chan) (v : cenv -> cstate -> cvalue) : M unit :=
  fun sx st => upd_ch c (fun x => {| is_dirty := is_dirty x; prop := prop x; has_cb := has_cb x; last_value := last_value x;
                                     ctype := ctype x; dvalue := v sx st; sn := sn x; svalues := svalues x |}) sx st.
Definition set_chan_stack_n (c : ptr_chan_stack) (v : cenv -> cstate -> Z) : M unit :=
  fun sx st => upd_ch c (fun x => {| is_dirty := is_dirty x; prop := prop x; has_cb := has_cb x; last_value := last_value x;
                                     ctype := ctype x; dvalue := dvalue x; sn := v sx st; svalues := svalues x |}) sx st.
Definition set_last (x : chan) (v : cvalue) : chan :=
  {| is_dirty := is_dirty x; prop := prop x; has_cb := has_cb x; last_value := v;
     ctype := ctype x; dvalue := dvalue x; sn := sn x; svalues := svalues x |}.
Definition set_svalues (x : chan) (l : list cvalue) : chan :=
  {| is_dirty := is_dirty x; prop := prop x; has_cb := has_cb x; last_value := last_value x;
     ctype := ctype x; dvalue := dvalue x; sn := sn x; svalues := l |}.
Definition in_range {A} (l : list A) (i : Z) : bool := (0 <=? i) && (i <? Z.of_nat (length l)).
(* stack->values[i] = v *)
Definition set_chan_stack_values_at (c : ptr_chan_stack) (i : cenv -> cstate -> Z) (v : cenv -> cstate -> cvalue) : M unit :=
  fun sx st =>
    if in_range (svalues (ch st)) (i sx st)
    then upd_ch c (fun x => set_svalues x (update (svalues x) (Z.to_nat (i sx st)) (v sx st))) sx st
    else Err E_TRAP.
(* chan->prop[i] = v *)
Definition set_chan_prop_at (c : ptr_chan) (i : cenv -> cstate -> Z) (v : cenv -> cstate -> Z) : M unit :=
  fun sx st =>
    if in_range (prop (ch st)) (i sx st)
    then upd_ch c (fun x => {| is_dirty := is_dirty x; prop := update (prop x) (Z.to_nat (i sx st)) (v sx st); has_cb := has_cb x;
                               last_value := last_value x; ctype := ctype x; dvalue := dvalue x; sn := sn x; svalues := svalues x |}) sx st
    else Err E_TRAP.
(* *p = v *)
Definition store_ptr_value (p : ptr_value) (v : cenv -> cstate -> cvalue) : M unit :=
  fun sx st =>
    match p with
    | None => Err E_TRAP
    | Some LLast => Ok (tt, with_ch st (set_last (ch st) (v sx st)))
    | Some LOut => Ok (tt, {| ch := ch st; out := v sx st; ncb := ncb st |})
    | Some (LStackAt i) =>
      if in_range (svalues (ch st)) i
      then Ok (tt, with_ch st (set_svalues (ch st) (update (svalues (ch st)) (Z.to_nat i) (v sx st))))
      else Err E_TRAP
    end.

(* chan->dirty_cb(chan, chan->dirty_arg): status from the environment, one more call *)
Definition call_dirty_cb (holder : ptr_chan) (c : ptr_chan) (arg : ptr_void) : M unit :=
  fun sx st =>
    match holder with
    | None => Err E_TRAP
    | Some _ => if has_cb (ch st)
                then (if cb_ret sx =? 0 then Ok (tt, {| ch := ch st; out := out st; ncb := S (ncb st) |}) else Err E_CB)
                else Err E_TRAP    (* call through a NULL function pointer *)
    end.
