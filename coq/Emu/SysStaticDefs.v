(* The static description of a trace (EmuCoreDefs.static: what the emulator core and the Paraver writer work on) computed
   from the system the metadata merge builds (MetaDefs.system, C15's model of system_init): threads in
   MetaDefs.thread_list order, CPUs in MetaDefs.cpu_list order (the CPUs of a loom by physical id, then its virtual CPU),
   the channels of the enabled models followed by one per mark type.  Definitions only. *)
From Coq Require Import ZArith List Bool.
From OV Require Import Emu.EmuCoreDefs Emu.DecodeDefs Emu.MarkDefs.
From OV Require Emu.MetaDefs.
Import ListNotations.
Local Open Scope Z_scope.

Definition sys_threads (sys : MetaDefs.system) (rankf : MetaDefs.pkey -> Z) : list thread_info :=
  flat_map (fun gl : Z * MetaDefs.sloom => let '(g, (l, ps, _)) := gl in
    flat_map (fun sp : MetaDefs.sproc => let '(p, a, ts) := sp in
      map (fun t => {| ti_tid := t; ti_pid := p; ti_loom := Z.to_nat g; ti_appid := a; ti_rank := rankf (l, p) |}) ts) ps)
    (MetaDefs.number sys).

Definition sys_cpus (sys : MetaDefs.system) : list cpu_info :=
  flat_map (fun gl : Z * MetaDefs.sloom => let '(g, (_, _, cs)) := gl in
    map (fun c : Z * Z => {| ci_virtual := false; ci_loom := Z.to_nat g; ci_index := fst c |}) cs ++
    [{| ci_virtual := true; ci_loom := Z.to_nat g; ci_index := -1 |}]) (MetaDefs.number sys).

(* physical ids, CPU by CPU (0 for the virtual CPUs: not used) *)
Definition sys_phy (sys : MetaDefs.system) : list Z :=
  flat_map (fun gl : Z * MetaDefs.sloom => let '(_, (_, _, cs)) := gl in map (fun c : Z * Z => snd c) cs ++ [0]) (MetaDefs.number sys).

Definition static_of_system (sys : MetaDefs.system) (rankf : MetaDefs.pkey -> Z) (en : list Z) (ms : list mtype) (lint : bool) : static :=
  {| s_threads := sys_threads sys rankf; s_cpus := sys_cpus sys; s_chans := mk_chans en ++ mark_chans ms; s_lint := lint |}.

(* proc->rank as the merge leaves it: -1 when the process has none *)
Definition rank_of_metas (m : list MetaDefs.stream_meta) (k : MetaDefs.pkey) : Z :=
  match MetaDefs.raw m with MetaDefs.Ok st => MetaDefs.rank_of st k | _ => -1 end.
