(* The whole emulator as a COMPOSITION of the models of this tree: what ovniemu makes of a trace directory.
     input : for every stream its relative path, the bytes of stream.obs and the content of stream.json in the abstract
             forms the existing models read (LoaderMetaDefs.meta: the loader's gates; MetaDefs.stream_meta: what the
             merge reads; VersionDefs.thread_req: ovni.require; the JSON tree for ovni.mark); the optional bytes of
             clock-offsets.txt; the options -l and -a; the gid of each task-type label (the hash is not modelled);
     output: Refused reason | Files (the six byte strings thread.{prv,pcf,row}, cpu.{prv,pcf,row}).
   Nothing new is modelled here: StreamDefs (load and step every stream), LoaderMetaDefs.meta_check, MetaDefs.build
   (system, rows, order), VersionDefs.model_probe (enabled models), MarkJsonDefs.emu_types_of_trees (mark types),
   SysStaticDefs.static_of_system, ClkoffDefs.run_emu_table (clock offsets, then PlayerDefs: merge, gate, backwards
   clocks), DecodeDefs/MarkDefs.decode_all per delivered event, PvDefs.emulate (core step + Paraver writer).
   Left out: the breakdown model (-b), cfg generation, ovnidump/ovnisort, linter messages, partial output on errors. *)
From Coq Require Import ZArith List Bool.
From OV Require Import Emu.EmuCoreDefs Emu.DecodeDefs Emu.MarkDefs Emu.PvDefs Emu.SysStaticDefs.
From OV Require Emu.StreamDefs Emu.LoaderMetaDefs Emu.MetaDefs Emu.VersionDefs Emu.ClkoffDefs Emu.PlayerDefs Rt.RtMetaDefs Rt.MarkJsonDefs
  Gen.Version_gen Gen.Tables_gen.
Import ListNotations.
Local Open Scope Z_scope.

Record stream_in := {
  si_path : list Z;                       (* relative path of the stream directory (trace_load sorts by it) *)
  si_obs : list Z;                        (* bytes of stream.obs *)
  si_meta : LoaderMetaDefs.meta;          (* stream.json as the loader's gates see it *)
  si_smeta : MetaDefs.stream_meta;        (* ... as the metadata merge reads it *)
  si_req : VersionDefs.thread_req;        (* ... ovni.require *)
  si_json : RtMetaDefs.json               (* ... the tree (ovni.mark is read from it) *)
}.

Record trace_input := {
  in_streams : list stream_in;            (* in any enumeration order *)
  in_clkoff : option (list Z);            (* bytes of clock-offsets.txt *)
  in_lint : bool;                         (* -l *)
  in_all : bool;                          (* -a *)
  in_gids : list (list Z * Z)             (* task_get_type_gid of the task-type labels of the trace *)
}.

Inductive reason :=
| RMeta (path : list Z)      (* stream.json refused by the loader's gates *)
| RStream (path : list Z)    (* stream.obs does not load, or a step fails *)
| RMerge                     (* the metadata merge refuses (or crashes) *)
| RModels                    (* model_probe fails (unusable requirement) *)
| RMarks                     (* inconsistent or malformed mark definitions *)
| RClock                     (* clock-offsets.txt refused, or outside the modelled domain *)
| RPlayer                    (* gate, clock going backwards *)
| RInternal                  (* a delivered event that cannot be traced back: impossible *)
| REmu (code : nat).         (* the emulator core or the writer refuses: code of EmuCoreDefs / PvDefs *)

Inductive emu_output := Refused (why : reason) | Files (out : outfiles).

Definition junk0 (_ : Z) : Z := 0.

(* trace_load order *)
Definition sorted_streams (inp : trace_input) : list stream_in :=
  map snd (ClkoffDefs.sort_by_path (map (fun s => (si_path s, s)) (in_streams inp))).

Definition skey_of (s : stream_in) : MetaDefs.key := MetaDefs.skey (si_smeta s).

(* proc->appid is set by any stream of the process *)
Definition proc_has_app (ss : list stream_in) (s : stream_in) : bool :=
  existsb (fun s' => MetaDefs.pkey_eqb (MetaDefs.spkey (si_smeta s')) (MetaDefs.spkey (si_smeta s)) &&
                     match MetaDefs.s_app (si_smeta s') with Some _ => true | None => false end) ss.

Fixpoint first_bad_meta (all ss : list stream_in) : option (list Z) :=
  match ss with
  | [] => None
  | s :: r => if LoaderMetaDefs.meta_rejected (LoaderMetaDefs.meta_check (si_meta s) (proc_has_app all s)) then Some (si_path s)
              else first_bad_meta all r
  end.

(* the (offset, size, clock) records of every stream, or the first stream that is not structurally valid *)
Fixpoint load_all (ss : list stream_in) : list Z + list (list (Z * Z * Z)) :=
  match ss with
  | [] => inr []
  | s :: r =>
    match StreamDefs.run (si_obs s) junk0 false with
    | StreamDefs.Run StreamDefs.VEnd recs => match load_all r with inr l => inr (recs :: l) | inl p => inl p end
    | _ => inl (si_path s)
    end
  end.

Definition models_by_id : list (Z * list Z * list Z) :=
  map (fun id => match find (fun x : Z * list Z * list Z * bool => let '(i, _, _, _) := x in i =? id) Tables_gen.models with
                 | Some (i, n, v, _) => (i, n, v) | None => (id, [], []) end) model_order.

Definition enabled_models (ss : list stream_in) (all : bool) : option (list Z) :=
  VersionDefs.model_probe Version_gen.version_is_compatible (fun id => id =? M_OVNI) models_by_id (map si_req ss) all.

(* position of a thread in the global thread list = its row *)
Fixpoint index_of (k : MetaDefs.key) (l : list (MetaDefs.name * Z * Z * Z)) (i : nat) : option nat :=
  match l with
  | [] => None
  | (lo, p, t, _) :: r => if MetaDefs.key_dec (lo, p, t) k then Some i else index_of k r (S i)
  end.
Definition gindex_of (sys : MetaDefs.system) (s : stream_in) : option nat := index_of (skey_of s) (MetaDefs.thread_list sys) 0.

(* the streams in thread (gindex) order: mark_create scans the threads in that order *)
Definition streams_by_gindex (sys : MetaDefs.system) (ss : list stream_in) : list stream_in :=
  flat_map (fun x : MetaDefs.name * Z * Z * Z => let '(lo, p, t, _) := x in
     match find (fun s => if MetaDefs.key_dec (skey_of s) (lo, p, t) then true else false) ss with Some s => [s] | None => [] end)
    (MetaDefs.thread_list sys).

Fixpoint gid_lookup (tab : list (list Z * Z)) (label : list Z) : Z :=
  match tab with [] => 0 | (l, g) :: r => if str_eqb l label then g else gid_lookup r label end.

(* the event record idx of a stream as the models receive it *)
Definition raw_event_of (gids : list (list Z * Z)) (s : stream_in) (recs : list (Z * Z * Z)) (who : nat) (tm : Z) (idx : Z) : option raw_ev :=
  match nth_error recs (Z.to_nat idx) with
  | None => None
  | Some (off, sz, _) =>
    let bs := si_obs s in
    let byte := fun o => nth (Z.to_nat o) bs 0 mod 256 in
    let payload := map (fun b => b mod 256) (firstn (Z.to_nat (sz - 12)) (skipn (Z.to_nat (off + 12)) bs)) in
    let aux := gid_lookup gids (type_label (le_u32 payload 4) payload) in
    Some (tm, who, (byte (off + 1), byte (off + 2), byte (off + 3)), payload, Z.testbit (byte off) 4, aux)
  end.

Fixpoint all_some {A} (l : list (option A)) : option (list A) :=
  match l with
  | [] => Some []
  | Some x :: r => match all_some r with Some t => Some (x :: t) | None => None end
  | None :: _ => None
  end.

Definition ovniemu_model (inp : trace_input) : emu_output :=
  let ss := sorted_streams inp in
  match first_bad_meta ss ss with
  | Some p => Refused (RMeta p)
  | None =>
    match load_all ss with
    | inl p => Refused (RStream p)
    | inr recss =>
      match MetaDefs.build (map si_smeta ss) with
      | MetaDefs.Ok sys =>
        match enabled_models ss (in_all inp) with
        | None => Refused RModels
        | Some en =>
          match MarkJsonDefs.emu_types_of_trees (map si_json (streams_by_gindex sys ss)) with
          | None => Refused RMarks
          | Some ms =>
            let sx := static_of_system sys (rank_of_metas (map si_smeta ss)) en ms (in_lint inp) in
            let enum := map (fun sr : stream_in * list (Z * Z * Z) =>
                         (si_path (fst sr),
                          ClkoffDefs.mktstrm (MetaDefs.s_loom (si_smeta (fst sr)))
                            (map (fun ir : Z * (Z * Z * Z) => (snd (snd ir), fst ir)) (number (snd sr))))) (combine ss recss) in
            match ClkoffDefs.run_emu_table (in_clkoff inp) enum with
            | ClkoffDefs.OOk (oevs, PlayerDefs.VOk) =>
              let revs := all_some (map (fun e : PlayerDefs.oev =>
                            match nth_error ss (PlayerDefs.o_id e), nth_error recss (PlayerDefs.o_id e) with
                            | Some s, Some recs =>
                              match gindex_of sys s with
                              | Some who => raw_event_of (in_gids inp) s recs who (PlayerDefs.o_sclock e) (PlayerDefs.o_pay e)
                              | None => None
                              end
                            | _, _ => None
                            end) oevs) in
              match revs with
              | None => Refused RInternal
              | Some revs =>
                let evs := map (fun r : raw_ev => let '(tm, who, (m, c, v), p, j, aux) := r in
                                  (tm, who, decode_all en (s_chans sx) m c v p j aux)) revs in
                match emulate sx (sys_phy sys) en ms (lint_chans (mk_chans en)) (tlabels_of sx revs) evs with
                | Ok out => Files out
                | Err e => Refused (REmu e)
                end
              end
            | ClkoffDefs.OOk (_, _) => Refused RPlayer
            | _ => Refused RClock
            end
          end
        end
      | _ => Refused RMerge
      end
    end
  end.
