(* The per-CPU breakdown pipeline of src/emu/nosv/breakdown.c (and nanos6/breakdown.c) as a wiring of the bay model:
   connect_cpu builds mux0 (select = the CPU's subsystem channel, inputs subsystem / task type, custom select
   select_tr, default "unknown subsystem", mux_add_reselect on the task type when fx) -> tr, mux1 (select = idle,
   inputs tr / idle, custom select select_idle) -> tri, and the sort module's callback on tri.
   The sort callback `values[i] = value of tri` is rendered as an always-enabled input callback that copies tri into
   a sink channel (what it does with the value afterwards is SortDefs.input_changed, outside this pipeline).
   Definitions only. *)
From Coq Require Import ZArith List Bool.
From OV Require Import Emu.EmuCoreDefs Emu.BayDefs.
Import ListNotations.
Local Open Scope Z_scope.

Section BdWiring.
  Variable fx : bool.
  Variables BODY UNKNOWN PROG : Z.

  Definition cSS := 0%nat. Definition cTT := 1%nat. Definition cIDLE := 2%nat.
  Definition cTR := 3%nat. Definition cTRI := 4%nat. Definition cSINK := 5%nat.

  (* breakdown.c:select_tr: key = the subsystem; it reads the task type through input 1 and the subsystem through input 0 *)
  Definition g_tr (vals : list value) (key : value) : result (option nat) :=
    let in_body := match key with Some i => i =? BODY | None => false end in
    let in_body := if in_body then (match nth 1 vals None with None => false | Some _ => true end) else false in
    if in_body then Ok (Some 1%nat)
    else match nth 0 vals None with None => Ok None | Some _ => Ok (Some 0%nat) end.

  (* breakdown.c:select_idle *)
  Definition g_idle (vals : list value) (key : value) : result (option nat) :=
    match key with
    | Some i => if i =? PROG then Ok (Some 0%nat) else Ok (Some 1%nat)
    | None => Ok (Some 1%nat)
    end.

  (* a CPU track output / a mux output: single, DIRTY_WRITE + ALLOW_DUP (mux_init) *)
  Definition bd_chan (v last : value) (dirty : bool) : chan :=
    {| c_stack := false; c_val := v; c_stk := []; c_last := last; c_dirty := dirty; c_dw := true; c_allow := true; c_ign := false |}.

  Definition en_of (s : option bool) : list bool :=
    match s with None => [false; false] | Some false => [true; false] | Some true => [false; true] end.

  Definition bd_mux0 (sel0 : option bool) (s0 : option nat) : mux :=
    {| mx_init := true; mx_sel := cSS; mx_out := cTR; mx_fun := SelCustom g_tr; mx_def := Some UNKNOWN;
       mx_ins := [cSS; cTT]; mx_en := en_of sel0; mx_selected := s0 |}.
  Definition bd_mux1 (sel1 : option bool) (s1 : option nat) : mux :=
    {| mx_init := true; mx_sel := cIDLE; mx_out := cTRI; mx_fun := SelCustom g_idle; mx_def := None;
       mx_ins := [cTR; cIDLE]; mx_en := en_of sel1; mx_selected := s1 |}.
  (* the sort input: sort_cb_input on tri *)
  Definition bd_sort : mux :=
    {| mx_init := true; mx_sel := cSINK; mx_out := cSINK; mx_fun := SelDefault; mx_def := None;
       mx_ins := [cTRI]; mx_en := [true]; mx_selected := Some 0%nat |}.

  Definition opt (b : bool) (d : dcb) : list dcb := if b then [d] else [].
  Definition is_sel (s : option bool) (x : bool) : bool := match s with Some y => Bool.eqb x y | None => false end.

  (* callback lists: cb_select / cb_reselect registered at connect time stay at the head; the enabled cb_input
     of an input (at most one per mux) was appended by bay_enable_cb *)
  Definition bd_dcbs (sel0 sel1 : option bool) : list (list dcb) :=
    [ [DSelect 0] ++ opt (is_sel sel0 false) (DInput 0 0);
      (if fx then [DReselect 0] else []) ++ opt (is_sel sel0 true) (DInput 0 1);
      [DSelect 1] ++ opt (is_sel sel1 true) (DInput 1 1);
      opt (is_sel sel1 false) (DInput 1 0);
      [DInput 2 0];
      [] ].

  Record bdst := {
    v_ss : value; v_tt : value; v_idle : value; v_tr : value; v_tri : value; v_sink : value;
    l_ss : value; l_tt : value; l_idle : value; l_tr : value; l_tri : value; l_sink : value;   (* last_value *)
    d_ss : bool; d_tt : bool; d_idle : bool; d_tr : bool; d_tri : bool; d_sink : bool;        (* is_dirty *)
    e_sel0 : option bool; e_sel1 : option bool;   (* which input callback of mux0 / mux1 is enabled *)
    m_s0 : option nat; m_s1 : option nat;         (* mux->selected *)
    q_dirty : list nat
  }.

  Definition bd_bay (s : bdst) : bay :=
    {| b_chans := [bd_chan (v_ss s) (l_ss s) (d_ss s); bd_chan (v_tt s) (l_tt s) (d_tt s); bd_chan (v_idle s) (l_idle s) (d_idle s);
                   bd_chan (v_tr s) (l_tr s) (d_tr s); bd_chan (v_tri s) (l_tri s) (d_tri s); bd_chan (v_sink s) (l_sink s) (d_sink s)];
       b_dcbs := bd_dcbs (e_sel0 s) (e_sel1 s);
       b_ecbs := [[]; []; []; []; []; []];
       b_muxes := [bd_mux0 (e_sel0 s) (m_s0 s); bd_mux1 (e_sel1 s) (m_s1 s); bd_sort];
       b_dirty := q_dirty s |}.

  (* the wiring after connect_cpu and the first propagate: everything null, nothing selected *)
  Definition bd_init : bdst :=
    {| v_ss := None; v_tt := None; v_idle := None; v_tr := None; v_tri := None; v_sink := None;
       l_ss := None; l_tt := None; l_idle := None; l_tr := None; l_tri := None; l_sink := None;
       d_ss := false; d_tt := false; d_idle := false; d_tr := false; d_tri := false; d_sink := false;
       e_sel0 := None; e_sel1 := None; m_s0 := Some 0%nat; m_s1 := Some 0%nat; q_dirty := [] |}.

  (* one emulator event as seen by this CPU: chan_set on the written CPU channels, then bay_propagate *)
  Definition bd_event (s : bdst) (ws : list wop) : result (bay * lastmap * list line) :=
    match apply_writes (bd_bay s) ws with
    | Err e => Err e
    | Ok b => propagate b []
    end.
End BdWiring.
