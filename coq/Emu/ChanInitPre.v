(* Hand-written prelude of Gen/ChanInit_gen.v (unit prvreg): chan_init of src/emu/chan.c on ONE struct chan, the record of
   Emu/ChanPre.v.  memset(chan, 0, sizeof(struct chan)) = zero_chan (every field 0: no dirty callback, NULL values, an
   empty stack); vsnprintf(chan->name, n, fmt, ap) returns the length the formatted name needs (ie_len: names are not
   modelled; ARRAYLEN(chan->name) = MAX_CHAN_NAME = 512); die() = E_DIE.  Definitions only. *)
From Coq Require Import ZArith List Bool String.
From OV Require Import Base.CInt Emu.EmuCoreDefs.
From OV Require Emu.ChanPre.
Import ListNotations.
Local Open Scope Z_scope.

Module CP := ChanPre.

Definition ptr_chan := option unit.
Definition ptr_str := option string.
Definition va_list_t := unit.
Definition va_args : va_list_t := tt.
Definition c_arraylen : Z := 512.

Record istate := { ic : CP.chan }.
Record ienv := { ie_len : Z }.

Definition E_FAIL := 120%nat.
Definition E_TRAP := 199%nat.
Definition E_DIE := 198%nat.

Definition M (A : Type) : Type := ienv -> istate -> result (A * istate).
Definition ret {A} (a : A) : M A := fun _ st => Ok (a, st).
Definition fail {A} (e : nat) : M A := fun _ _ => Err e.
Definition bind {A B} (m : M A) (f : A -> M B) : M B :=
  fun sx st => match m sx st with Ok (a, st') => f a sx st' | Err e => Err e end.
Definition bind_ {A B} (m : M A) (k : M B) : M B := bind m (fun _ => k).
Definition eval {A} (f : ienv -> istate -> A) : M A := fun sx st => Ok (f sx st, st).
Definition ite {A} (c : ienv -> istate -> bool) (a b : M A) : M A :=
  fun sx st => if c sx st then a sx st else b sx st.
Definition need {A} (safe : ienv -> istate -> bool) (k : M A) : M A :=
  fun sx st => if safe sx st then k sx st else Err E_TRAP.

Definition chan_zero : CP.chan :=
  {| CP.is_dirty := 0; CP.prop := [0; 0; 0]; CP.has_cb := false; CP.last_value := CP.vnull; CP.ctype := 0;
     CP.dvalue := CP.vnull; CP.sn := 0; CP.svalues := repeat CP.vnull MAX_CHAN_STACK |}.
Definition zero_chan (c : ptr_chan) : M unit :=
  fun sx st => match c with Some _ => Ok (tt, {| ic := chan_zero |}) | None => Err E_TRAP end.
Definition get_chan__name (sx : ienv) (st : istate) (c : ptr_chan) : ptr_str := Some ""%string.
Definition vsnprintf (dst : ptr_str) (n : Z) (fmt : ptr_str) (ap : va_list_t) : M Z := fun sx st => Ok (ie_len sx, st).
Definition set_chan_type (c : ptr_chan) (v : ienv -> istate -> Z) : M unit :=
  fun sx st => match c with
               | Some _ => let x := ic st in
                           Ok (tt, {| ic := {| CP.is_dirty := CP.is_dirty x; CP.prop := CP.prop x; CP.has_cb := CP.has_cb x; CP.last_value := CP.last_value x;
                                               CP.ctype := v sx st; CP.dvalue := CP.dvalue x; CP.sn := CP.sn x; CP.svalues := CP.svalues x |} |})
               | None => Err E_TRAP
               end.
