(* The metadata gates a stream.json goes through before any event is emulated, as a
   decision function over an ABSTRACT metadata record: parson (parsing and look-up) is an
   oracle, the record holds what its look-ups return for the paths the emulator asks for.
   Order as executed: stream.c:load_json/check_version (for every stream, while the trace
   is loaded), then system.c:create_system -> is_thread_stream, loom_name (create_loom),
   proc_stream_get_pid + load_appid (create_proc), thread_stream_get_tid +
   thread_load_metadata (create_thread), report_libovni_version, proc_init_end (app id
   set by some thread of the process), model.c:should_enable ("ovni.require" present).
   Numbers are the integers the code obtains with `(int) json_number(..)`. *)
From OV Require Import Base.CInt.
Local Open Scope Z_scope.

(* what a look-up of a (dotted) path yields *)
Inductive jval :=
| JMissing                (* no such key *)
| JNum (z : Z)            (* a number (as converted to int by the code) *)
| JStr (s : list Z)       (* a string *)
| JObj                    (* an object *)
| JOther.                 (* any other JSON type (array, boolean, null) *)

(* json_object_dotget_number: 0 unless the value is a number *)
Definition j_number (j : jval) : Z := match j with JNum z => z | _ => 0 end.
(* json_object_dotget_string: NULL unless the value is a string *)
Definition j_string (j : jval) : option (list Z) := match j with JStr s => Some s | _ => None end.
Definition j_present (j : jval) : bool := match j with JMissing => false | _ => true end.
Definition j_is_object (j : jval) : bool := match j with JObj => true | _ => false end.

Record meta : Type := mk_meta {
  m_parses : bool;          (* json_parse_file_with_comments() != NULL *)
  m_is_object : bool;       (* the top-level value is an object *)
  m_version : jval;         (* "version" *)
  m_part : jval;            (* "ovni.part" *)
  m_loom : jval;            (* "ovni.loom" *)
  m_pid : jval;             (* "ovni.pid" *)
  m_tid : jval;             (* "ovni.tid" *)
  m_app_id : jval;          (* "ovni.app_id" *)
  m_finished : jval;        (* "ovni.finished" *)
  m_require : jval;         (* "ovni.require" *)
  m_lib_version : jval;     (* "ovni.lib.version" *)
  m_lib_commit : jval;      (* "ovni.lib.commit" *)
}.

Inductive meta_err :=
| MUnparsable | MNotObject | MNoVersion | MVersionMismatch
| MNoPart | MNoLoom | MBadLoomName | MNoPid | MBadAppId | MNoTid | MNotFinished
| MNoLibVersion | MNoLibCommit | MNoAppId | MNoRequire.

Inductive meta_res := MetaOk | MetaIgnored (* ovni.part is not "thread": the stream is skipped with a warning *)
                    | MetaErr (e : meta_err).

Definition METADATA_VERSION : Z := 3.
Definition str_thread : list Z := [116; 104; 114; 101; 97; 100].
Definition SLASH : Z := 47.

Definition list_Z_eqb (a b : list Z) : bool :=
  (length a =? length b)%nat && forallb (fun p => fst p =? snd p) (combine a b).

(* [proc_has_app_id]: some stream of the same process carries ovni.app_id (it "may not be present in
   all thread streams"); for a single-threaded process this is j_present (m_app_id m) *)
Definition meta_check (m : meta) (proc_has_app_id : bool) : meta_res :=
  (* stream.c: load_json *)
  if negb (m_parses m) then MetaErr MUnparsable else
  if negb (m_is_object m) then MetaErr MNotObject else
  if negb (j_present (m_version m)) then MetaErr MNoVersion else
  if negb (j_number (m_version m) =? METADATA_VERSION) then MetaErr MVersionMismatch else
  (* system.c: is_thread_stream *)
  match j_string (m_part m) with
  | None => MetaErr MNoPart
  | Some part =>
    if negb (list_Z_eqb part str_thread) then MetaIgnored else
    (* loom.c: loom_name, loom_init_begin *)
    match j_string (m_loom m) with
    | None => MetaErr MNoLoom
    | Some loom =>
      if existsb (Z.eqb SLASH) loom then MetaErr MBadLoomName else
      (* proc.c: proc_stream_get_pid: 0 is the error value, negative pids are refused as well *)
      if j_number (m_pid m) <=? 0 then MetaErr MNoPid else
      (* proc.c: load_appid *)
      if j_present (m_app_id m) && (j_number (m_app_id m) <=? 0) then MetaErr MBadAppId else
      (* thread.c: thread_stream_get_tid *)
      if j_number (m_tid m) <=? 0 then MetaErr MNoTid else
      (* thread.c: thread_load_metadata *)
      if negb (j_number (m_finished m) =? 1) then MetaErr MNotFinished else
      (* system.c: report_libovni_version *)
      match j_string (m_lib_version m), j_string (m_lib_commit m) with
      | None, _ => MetaErr MNoLibVersion
      | _, None => MetaErr MNoLibCommit
      | Some _, Some _ =>
        (* proc.c: proc_init_end *)
        if negb proc_has_app_id then MetaErr MNoAppId else
        (* model.c: should_enable (every model's probe asks for the object) *)
        if negb (j_is_object (m_require m)) then MetaErr MNoRequire else MetaOk
      end
    end
  end.

Definition meta_rejected (r : meta_res) : bool := match r with MetaErr _ => true | _ => false end.

(* a complete thread metadata, for the non-vacuity examples *)
Definition meta_example : meta :=
  mk_meta true true (JNum 3) (JStr str_thread) (JStr [110; 48]) (JNum 100) (JNum 101) (JNum 1) (JNum 1) JObj
          (JStr [49; 46; 49; 49; 46; 48]) (JStr [120]).
