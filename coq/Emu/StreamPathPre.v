(* C03, unit traceload (second output): the hand-written prelude under coq/Gen/StreamPath_gen.v
   (src/emu/stream.c:stream_load as a syntax tree): the paths stream_load builds in struct stream.

   Primitives (NOT read from the source here): memset, snprintf("%s/%s") and snprintf("%s") into an array
   member (refused when the result does not fit), path.c:path_remove_trailing and path.c:path_append as list
   functions, load_json (parson + the metadata checks: the environment y_json) and stream.c:load_obs (the
   environment y_obs; load_obs itself is generated from the source by unit stepper, C12_stream_load_from_source).
   Definitions only. *)
From Coq Require Import ZArith List Bool.
From OV Require Import Base.CInt.
Import ListNotations.
Local Open Scope Z_scope.

Definition cstr := list Z.
Definition ptr_stream := option unit.
Definition ptr_json := option unit.

Record lstate := mk_lstate {
  l_path : cstr; l_relpath : cstr; l_jsonpath : cstr; l_obspath : cstr;   (* the char[PATH_MAX] members *)
  l_meta : ptr_json;                                                      (* stream->meta *)
  l_obs : bool                                                            (* load_obs has mapped the file *)
}.
Record lenv := mk_lenv {
  y_json : cstr -> bool;        (* load_json(path) != NULL *)
  y_obs : cstr -> bool          (* load_obs(stream, path) == 0 *)
}.

Definition E_FAIL := 20%nat.
Definition E_TRAP := 99%nat.
Inductive res (A : Type) : Type :=
| Ok (a : A) (st : lstate)
| Err (e : nat).
Arguments Ok {A} a st.
Arguments Err {A} e.
Definition M (A : Type) : Type := lenv -> lstate -> res A.
Definition ret {A} (a : A) : M A := fun _ st => Ok a st.
Definition fail {A} (e : nat) : M A := fun _ _ => Err e.
Definition bind {A B} (m : M A) (f : A -> M B) : M B :=
  fun sx st => match m sx st with Ok a st' => f a sx st' | Err e => Err e end.
Definition bind_ {A B} (m : M A) (k : M B) : M B := bind m (fun _ => k).
Definition eval {A} (f : lenv -> lstate -> A) : M A := fun sx st => Ok (f sx st) st.
Definition ite {A} (c : lenv -> lstate -> bool) (a b : M A) : M A :=
  fun sx st => if c sx st then a sx st else b sx st.
Definition need {A} (safe : lenv -> lstate -> bool) (k : M A) : M A :=
  fun sx st => if safe sx st then k sx st else Err E_TRAP.

Definition slash : Z := 47.
Definition is_slash (c : Z) : bool := c =? slash.
Fixpoint drop_while (f : Z -> bool) (l : list Z) : list Z :=
  match l with [] => [] | c :: t => if f c then drop_while f t else l end.
Definition path_remove_trailing_v (p : cstr) : cstr := rev (drop_while is_slash (rev p)).
Definition join (a b : cstr) : cstr := a ++ slash :: b.
Definition fits (s : cstr) (n : Z) : bool := Z.of_nat (length s) <? n.

Definition upd (p : ptr_stream) (f : lstate -> lstate) : M unit :=
  fun sx st => match p with Some _ => Ok tt (f st) | None => Err E_TRAP end.
Definition w_path v st := mk_lstate v (l_relpath st) (l_jsonpath st) (l_obspath st) (l_meta st) (l_obs st).
Definition w_relpath v st := mk_lstate (l_path st) v (l_jsonpath st) (l_obspath st) (l_meta st) (l_obs st).
Definition w_jsonpath v st := mk_lstate (l_path st) (l_relpath st) v (l_obspath st) (l_meta st) (l_obs st).
Definition w_obspath v st := mk_lstate (l_path st) (l_relpath st) (l_jsonpath st) v (l_meta st) (l_obs st).
Definition w_meta v st := mk_lstate (l_path st) (l_relpath st) (l_jsonpath st) (l_obspath st) v (l_obs st).
Definition w_obs v st := mk_lstate (l_path st) (l_relpath st) (l_jsonpath st) (l_obspath st) (l_meta st) v.

Definition zero_stream (p : ptr_stream) : M unit := upd p (fun _ => mk_lstate [] [] [] [] None false).
Definition get_stream_path (sx : lenv) (st : lstate) (p : ptr_stream) : cstr := l_path st.
Definition get_stream_jsonpath (sx : lenv) (st : lstate) (p : ptr_stream) : cstr := l_jsonpath st.
Definition get_stream_obspath (sx : lenv) (st : lstate) (p : ptr_stream) : cstr := l_obspath st.
Definition set_stream_path (p : ptr_stream) (v : lenv -> lstate -> cstr) : M unit :=
  fun sx st => upd p (w_path (v sx st)) sx st.
Definition set_stream_meta (p : ptr_stream) (v : lenv -> lstate -> ptr_json) : M unit :=
  fun sx st => upd p (w_meta (v sx st)) sx st.
(* if (snprintf(dst, n, ..) >= n) return -1 *)
Definition store (p : ptr_stream) (w : cstr -> lstate -> lstate) (n : Z) (s : cstr) : M unit :=
  fun sx st => if fits s n then upd p (w s) sx st else match p with Some _ => Err E_FAIL | None => Err E_TRAP end.
Definition str_join_stream_path (p : ptr_stream) (n : Z) (a b : lenv -> lstate -> cstr) : M unit :=
  fun sx st => store p w_path n (join (a sx st) (b sx st)) sx st.
Definition str_copy_stream_relpath (p : ptr_stream) (n : Z) (a : lenv -> lstate -> cstr) : M unit :=
  fun sx st => store p w_relpath n (a sx st) sx st.
(* path.c:path_append(dst, src, extra): snprintf(dst, PATH_MAX, "%s/%s", src, extra) *)
Definition path_append_stream_jsonpath (p : ptr_stream) (src : lenv -> lstate -> cstr) (extra : cstr) : M unit :=
  fun sx st => store p w_jsonpath 4096 (join (src sx st) extra) sx st.
Definition path_append_stream_obspath (p : ptr_stream) (src : lenv -> lstate -> cstr) (extra : cstr) : M unit :=
  fun sx st => store p w_obspath 4096 (join (src sx st) extra) sx st.
Definition load_json (path : cstr) : M ptr_json :=
  fun sx st => Ok (if y_json sx path then Some tt else None) st.
Definition load_obs (p : ptr_stream) (path : cstr) : M unit :=
  fun sx st => if y_obs sx path then upd p (w_obs true) sx st else Err E_FAIL.
