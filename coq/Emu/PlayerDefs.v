(* Model of the stream player of the emulator (definitions only).
     src/emu/player.c   player_init / step_stream / check_clock_gate / update_clocks / player_step
     src/emu/stream.c   stream_step (clock check against stream.lastclock, which starts at 0),
                        stream_evclock (clock + clock_offset)
     src/emu/trace.c    trace_load: DL_SORT of the streams by strcmp(relpath)
     src/emu/system.c   init_offsets: stream.clock_offset := offset of the stream's loom
   Clocks are mathematical integers: the C computes in int64_t, where overflow is undefined
   behaviour; the inputs of the correspondence check stay far below 2^62. *)
From Coq Require Import ZArith List Bool Arith Permutation Sorted.
From OV Require Import Emu.HeapDefs.
Import ListNotations.
Local Open Scope Z_scope.

(* ------------------------------------------------------------------ input *)

Definition ev := (Z * Z)%type.                       (* raw clock of the event, payload id *)
Record strm := mkstrm { s_off : Z; s_evs : list ev }. (* clock offset of the stream's loom, events in file order *)
Definition no_strm : strm := mkstrm 0 [].

(* ------------------------------------------------------------------ heap instance *)

Definition hnode := (Z * nat)%type.                   (* stream.lastclock at insertion, stream id *)

(* player.c stream_cmp: inverted, so that the max-heap pops the smallest clock *)
Definition stream_cmp (a b : hnode) : Z :=
  if fst a <? fst b then 1 else if fst b <? fst a then -1 else 0.

(* ------------------------------------------------------------------ output *)

Record oev := mkoev {
  o_id : nat;        (* stream (index in relpath order) *)
  o_rclock : Z;      (* emu_ev.rclock: raw clock *)
  o_pay : Z;         (* payload id *)
  o_sclock : Z;      (* emu_ev.sclock: corrected clock = player.lastclock *)
  o_dclock : Z       (* emu_ev.dclock: player.deltaclock, the Paraver time *)
}.

Inductive verdict :=
| VOk                     (* player_step returned +1: all streams consumed *)
| VBackStream (id : nat)  (* stream_step: "clock goes backwards" *)
| VBackPlayer             (* update_clocks: "backwards jump in time" *)
| VGate                   (* check_clock_gate failed *)
| VFuel                   (* model artefact: fuel exhausted (proved impossible) *)
| VInternal.              (* model artefact: popped stream without event (proved impossible) *)

(* ------------------------------------------------------------------ player state *)

Record pst := mkpst {
  p_heap : list hnode;          (* player.heap *)
  p_rem  : list (list ev);      (* per stream: events not yet delivered *)
  p_cur  : option (nat * Z);    (* player.stream and its stream.lastclock *)
  p_clk  : option (Z * Z)       (* None: first_event = 1; Some (firstclock, lastclock) *)
}.

Inductive sres := SDone | SErr (v : verdict) | SEmit (e : oev) (st : pst).

Definition MAXGATE : Z := 3600 * 1000 * 1000 * 1000.

Section Player.
  Variable sorted : bool.         (* true: ovniemu (unsorted = 0); false: ovnidump (unsorted = 1) *)
  Variable offs : list Z.         (* clock offset per stream *)

  Definition corr (id : nat) (e : ev) : Z := fst e + nth id offs 0.

  (* step_stream(player, player->stream) at the top of player_step *)
  Definition restep (st : pst) : verdict + pst :=
    match p_cur st with
    | None => inr st
    | Some (id, slast) =>
      match nth id (p_rem st) [] with
      | [] => inr st                                   (* stream ended: inactive, not reinserted *)
      | e :: _ =>
        let k := corr id e in
        if sorted && (k <? slast) then inl (VBackStream id)
        else inr (mkpst (insert stream_cmp (p_heap st) (k, id)) (p_rem st) (p_cur st) (p_clk st))
      end
    end.

  Definition pstep (st : pst) : sres :=
    match restep st with
    | inl v => SErr v
    | inr st1 =>
      match pop_max stream_cmp (p_heap st1) with
      | None => SDone
      | Some ((k, id), h') =>
        (* update_clocks *)
        let first := match p_clk st1 with None => k | Some (f, _) => f end in
        let last := match p_clk st1 with None => k | Some (_, l) => l end in
        if sorted && (k <? last) then SErr VBackPlayer
        else
          match nth id (p_rem st1) [] with
          | [] => SErr VInternal
          | e :: r =>
            SEmit (mkoev id (fst e) (snd e) k (k - first))
                  (mkpst h' (upd (p_rem st1) id r) (Some (id, k)) (Some (first, k)))
          end
      end
    end.

  Fixpoint ploop (fuel : nat) (st : pst) : list oev * verdict :=
    match fuel with
    | O => ([], VFuel)
    | S f =>
      match pstep st with
      | SDone => ([], VOk)
      | SErr v => ([], v)
      | SEmit e st' => let (l, v) := ploop f st' in (e :: l, v)
      end
    end.

  (* the DL_FOREACH of player_init: first stream_step of every stream (stream.lastclock = 0) *)
  Fixpoint pinit (id : nat) (rem : list (list ev)) (h : list hnode) : verdict + list hnode :=
    match rem with
    | [] => inr h
    | [] :: t => pinit (S id) t h                      (* zero events: inactive *)
    | (e :: _) :: t =>
      let k := corr id e in
      if sorted && (k <? 0) then inl (VBackStream id)
      else pinit (S id) t (insert stream_cmp h (k, id))
    end.
End Player.

Definition first_clocks (ss : list strm) : list Z :=
  flat_map (fun s => match s_evs s with [] => [] | e :: _ => [fst e + s_off s] end) ss.

(* check_clock_gate: every active stream within one hour of the first active stream *)
Definition gate_ok (ss : list strm) : bool :=
  match first_clocks ss with
  | [] => true
  | t0 :: _ => forallb (fun c => Z.abs (t0 - c) <=? MAXGATE) (first_clocks ss)
  end.

Definition total_events (ss : list strm) : nat := length (concat (map s_evs ss)).

(* player_init followed by player_step until it returns non-zero, on streams in trace order *)
Definition run (sorted : bool) (ss : list strm) : list oev * verdict :=
  let offs := map s_off ss in
  let rem := map s_evs ss in
  match pinit sorted offs 0 rem [] with
  | inl v => ([], v)
  | inr h =>
    if sorted && negb (gate_ok ss) then ([], VGate)
    else ploop sorted offs (S (total_events ss)) (mkpst h rem None None)
  end.

(* ------------------------------------------------------------------ trace_load order *)

(* strcmp(a, b) <= 0 on byte strings *)
Fixpoint str_le (a b : list Z) : bool :=
  match a, b with
  | [], _ => true
  | _ :: _, [] => false
  | x :: a', y :: b' => if x <? y then true else if y <? x then false else str_le a' b'
  end.

Fixpoint ins_stream (x : list Z * strm) (l : list (list Z * strm)) : list (list Z * strm) :=
  match l with
  | [] => [x]
  | y :: t => if str_le (fst x) (fst y) then x :: y :: t else y :: ins_stream x t
  end.

(* DL_SORT(trace->streams, cmp_streams): relative paths of distinct directories are distinct,
   so any sorting algorithm yields this list *)
Definition sort_streams (enum : list (list Z * strm)) : list (list Z * strm) :=
  fold_right ins_stream [] enum.

(* the emulator: streams as enumerated by nftw, with the offsets set by system_init *)
Definition run_emu (enum : list (list Z * strm)) : list oev * verdict :=
  run true (map snd (sort_streams enum)).

(* ovnidump: player_init(..., unsorted = 1) without system_init, so clock_offset = 0 everywhere *)
Definition zero_off (x : list Z * strm) : list Z * strm := (fst x, mkstrm 0 (s_evs (snd x))).
Definition run_dump (enum : list (list Z * strm)) : list oev * verdict :=
  run false (map snd (sort_streams (map zero_off enum))).

(* ------------------------------------------------------------------ Spec *)
(* Independent statement of C03 over the observable output; mentions no heap. *)
Section Spec.
  Definition tagged_ev := (nat * Z * Z)%type.          (* stream, raw clock, payload *)

  Fixpoint tagged (id : nat) (ss : list strm) : list tagged_ev :=
    match ss with
    | [] => []
    | s :: t => map (fun e => (id, fst e, snd e)) (s_evs s) ++ tagged (S id) t
    end.

  Definition untime (o : oev) : tagged_ev := (o_id o, o_rclock o, o_pay o).
  Definition from (id : nat) (o : oev) : bool := (o_id o =? id)%nat.
  Definition as_ev (o : oev) : ev := (o_rclock o, o_pay o).

  (* every event of every stream exactly once *)
  Definition spec_complete (ss : list strm) (out : list oev) : Prop :=
    Permutation (map untime out) (tagged 0 ss).

  (* the order inside each stream is preserved *)
  Definition spec_stream_order (ss : list strm) (out : list oev) : Prop :=
    forall id, map as_ev (filter (from id) out) = s_evs (nth id ss no_strm).

  (* corrected time = stream clock + clock offset of the stream *)
  Definition spec_corrected (ss : list strm) (out : list oev) : Prop :=
    Forall (fun o => o_sclock o = o_rclock o + s_off (nth (o_id o) ss no_strm)) out.

  (* non-decreasing in corrected time *)
  Definition spec_sorted (out : list oev) : Prop := Sorted Z.le (map o_sclock out).

  (* Paraver time = corrected time - corrected time of the first event *)
  Definition spec_dclock (out : list oev) : Prop :=
    match out with
    | [] => True
    | o0 :: _ => Forall (fun o => o_dclock o = o_sclock o - o_sclock o0) out
    end.

  Definition spec_all (ss : list strm) (out : list oev) : Prop :=
    spec_complete ss out /\ spec_stream_order ss out /\ spec_corrected ss out /\
    spec_sorted out /\ spec_dclock out.

  (* side conditions on the input *)
  (* lo <= x1 <= x2 <= ... *)
  Fixpoint chainb (lo : Z) (l : list Z) : bool :=
    match l with
    | [] => true
    | x :: t => (lo <=? x) && chainb x t
    end.
  Definition sortedb (l : list Z) : bool :=
    match l with [] => true | x :: t => chainb x t end.

  Definition sclocks (s : strm) : list Z := map (fun e => fst e + s_off s) (s_evs s).

  (* "sorted stream": corrected clocks non-decreasing *)
  Definition stream_sorted (s : strm) : bool := sortedb (sclocks s).
  (* what stream_step accepts: additionally the first corrected clock is not below the
     initial stream.lastclock = 0 *)
  Definition stream_ok (s : strm) : bool := chainb 0 (sclocks s).
End Spec.
