(* Hand model of src/include/version.h:version_parse (strtok_r/strtol semantics)
   and of the model enabling logic of src/emu/model.c.
   C strings are [option (list Z)]: None = NULL, Some bytes (no NUL inside). *)
From OV Require Import Base.CInt.
Local Open Scope Z_scope.

Definition cstring := option (list Z).

Definition is_digit (c : Z) : bool := (48 <=? c) && (c <=? 57).
(* isspace in the C locale *)
Definition is_space (c : Z) : bool := (c =? 32) || ((9 <=? c) && (c <=? 13)).
Definition mem (c : Z) (l : list Z) : bool := existsb (Z.eqb c) l.

(* --- strtok_r ------------------------------------------------------------ *)
Fixpoint skip_delims (delim : list Z) (s : list Z) : list Z :=
  match s with
  | c :: r => if mem c delim then skip_delims delim r else s
  | [] => []
  end.

(* token = longest prefix without delimiters; rest = what follows the
   delimiter that ended it (that delimiter is overwritten with NUL) *)
Fixpoint take_token (delim : list Z) (s : list Z) : list Z * list Z :=
  match s with
  | c :: r => if mem c delim then ([], r)
              else let (t, rest) := take_token delim r in (c :: t, rest)
  | [] => ([], [])
  end.

Definition strtok (delim : list Z) (s : list Z) : option (list Z * list Z) :=
  match skip_delims delim s with
  | [] => None
  | s' => Some (take_token delim s')
  end.

(* --- strtol(num, &end, 10) followed by the checks of version_parse -------- *)
Fixpoint skip_space (s : list Z) : list Z :=
  match s with
  | c :: r => if is_space c then skip_space r else s
  | [] => []
  end.

Fixpoint span_digits (s : list Z) : list Z * list Z :=
  match s with
  | c :: r => if is_digit c then let (d, rest) := span_digits r in (c :: d, rest) else ([], s)
  | [] => ([], [])
  end.

Definition digits_value (ds : list Z) : Z :=
  fold_left (fun acc c => acc * 10 + (c - 48)) ds 0.

Definition LONG_MAX : Z := 2 ^ 63 - 1.
Definition LONG_MIN : Z := - 2 ^ 63.
Definition INT_MAX : Z := 2 ^ 31 - 1.

Definition strip_sign (s : list Z) : bool * list Z :=
  match s with
  | c :: r => if c =? 45 then (true, r) else if c =? 43 then (false, r) else (false, s)
  | [] => (false, s)
  end.

(* Some v: the component parsed to the int v >= 0; None: version_parse fails *)
Definition parse_num (tok : list Z) : option Z :=
  let s := skip_space tok in
  let '(neg, s1) :=
    strip_sign s in
  let '(ds, rest) := span_digits s1 in
  match ds with
  | [] => None                                  (* endptr == num *)
  | _ =>
    match rest with
    | _ :: _ => None                            (* endptr[0] != '\0' *)
    | [] =>
      let v := if neg then - digits_value ds else digits_value ds in
      if (v >? LONG_MAX) || (v <? LONG_MIN) then None     (* ERANGE *)
      else if v <? 0 then None                             (* negative *)
      else if v >? INT_MAX then None                       (* does not fit an int *)
      else Some v
    end
  end.

Definition DOT : Z := 46.
Definition DASH : Z := 45.

Definition version_parse (v : cstring) : option (list Z) :=
  match v with
  | None => None
  | Some s =>
    if 64 <=? Z.of_nat (length s) then None else
    match strtok [DOT] s with
    | None => None
    | Some (t0, r0) =>
      match parse_num t0 with
      | None => None
      | Some a =>
        match strtok [DOT] r0 with
        | None => None
        | Some (t1, r1) =>
          match parse_num t1 with
          | None => None
          | Some b =>
            match strtok [DOT; DASH] r1 with
            | None => None
            | Some (t2, _) =>
              match parse_num t2 with
              | None => None
              | Some c => Some [a; b; c]
              end
            end
          end
        end
      end
    end
  end.

(* --- decimal rendering (what snprintf("%d.%d.%d") / the version macros give) *)
Fixpoint digits_of (fuel : nat) (n : Z) (acc : list Z) : list Z :=
  match fuel with
  | O => acc
  | S f => let acc' := (48 + n mod 10) :: acc in
           if n <? 10 then acc' else digits_of f (n / 10) acc'
  end.

Definition render_num (n : Z) : list Z := digits_of 20 n [].
Definition render (a b c : Z) : list Z :=
  render_num a ++ [DOT] ++ render_num b ++ [DOT] ++ render_num c.

(* --- src/emu/model.c ----------------------------------------------------- *)
(* A thread's metadata as far as model enabling is concerned:
   None = no "ovni.require" object; Some l = its string-valued entries. *)
Definition thread_req := option (list (list Z * list Z)).

Fixpoint lookup (name : list Z) (l : list (list Z * list Z)) : option (list Z) :=
  match l with
  | (k, v) :: r => if list_eq_dec Z.eq_dec k name then Some v else lookup name r
  | [] => None
  end.

Inductive probe := PErr | POff | POn.

Section WithCompat.
  (* version_is_compatible comes from the generated file *)
  Variable compatible : list Z -> list Z -> Z.

  Definition should_enable (have : list Z) (name : list Z) (t : thread_req) : probe :=
    match t with
    | None => PErr
    | Some req =>
      match lookup name req with
      | None => POff
      | Some v =>
        match version_parse (Some v) with
        | None => PErr
        | Some want => if compatible want have =? 0 then PErr else POn
        end
      end
    end.

  Fixpoint probe_threads (have name : list Z) (ts : list thread_req) (enable : bool) : probe :=
    match ts with
    | [] => if enable then POn else POff
    | t :: r =>
      match should_enable have name t with
      | PErr => PErr
      | POn => probe_threads have name r true
      | POff => probe_threads have name r enable
      end
    end.

  Definition model_version_probe (name version : list Z) (ts : list thread_req) : probe :=
    match version_parse (Some version) with
    | None => PErr
    | Some have => probe_threads have name ts false
    end.

  (* models: (id char, name, version) in increasing id order as model_probe scans them.
     Result: None = emulation fails; Some ids = the enabled model ids *)
  (* always: models whose probe function returns 1 whenever it does not fail
     (model_ovni_probe: "The ovni model is always enabled") *)
  Variable always : Z -> bool.

  Fixpoint model_probe (models : list (Z * list Z * list Z)) (ts : list thread_req) (all : bool)
    : option (list Z) :=
    match models with
    | [] => Some []
    | (id, name, ver) :: r =>
      match model_version_probe name ver ts with
      | PErr => None
      | p =>
        match model_probe r ts all with
        | None => None
        | Some en => Some (if (match p with POn => true | _ => false end) || all || always id then id :: en else en)
        end
      end
    end.

  (* model_event: dispatch on the model byte of the event *)
  Definition model_event_admitted (registered enabled : list Z) (m : Z) : bool :=
    mem m registered && mem m enabled.
End WithCompat.
