(* Model of src/emu/emu_ev.c (decoding of a stream event into struct emu_ev), of the
   dispatch in src/emu/model.c:model_event and of what ovniemu's main makes of
   the result.

   struct emu_ev lives in the player and is REUSED for every event: emu_ev()
   overwrites its fields, so a field it does not write keeps the value of the
   previous event.  The decode function therefore takes the previous value.
     - [emu_ev]      the REPAIRED code (patches/fix-c12-is-jumbo.diff): is_jumbo is
                     assigned from the flags of this event whenever a payload is present;
     - [emu_ev_old]  the code as found: is_jumbo is only ever SET (to 1) when a payload
                     is present, so it is carried over from the previous event.
   Event handlers are not modelled here (the event catalogue belongs to another engine);
   they appear as a parameter [handler], of which only the checks named in the
   property are assumed where a theorem needs them. *)
From OV Require Import Base.CInt Emu.LoaderPre Gen.Loader_gen Emu.StreamDefs Emu.VersionDefs.
Local Open Scope Z_scope.

Record emu_ev_t : Type := mk_emu_ev {
  e_m : Z; e_c : Z; e_v : Z;
  e_rclock : Z;                 (* (int64_t) header.clock *)
  e_has_payload : bool;
  e_payload_size : Z;           (* size_t *)
  e_is_jumbo : bool;
  e_payload_null : bool;        (* payload == NULL *)
}.

Definition emu_ev_zero : emu_ev_t := mk_emu_ev 0 0 0 0 false 0 false true.   (* calloc'ed player *)

Section Decode.
  (* value given to is_jumbo in the branch `payload_size > 0` *)
  Variable jumbo_when_payload : emu_ev_t -> evp -> bool.

  Definition emu_ev_with (prev : emu_ev_t) (oev : evp) : emu_ev_t :=
    let psize := cast_uint64 (ovni_payload_size oev) in     (* (size_t) ovni_payload_size(oev) *)
    if psize >? 0 then
      mk_emu_ev (get_header_model oev) (get_header_category oev) (get_header_value oev)
                (cast_int64 (get_header_clock oev)) true psize (jumbo_when_payload prev oev) false
    else
      mk_emu_ev (get_header_model oev) (get_header_category oev) (get_header_value oev)
                (cast_int64 (get_header_clock oev)) false psize false true.
End Decode.

(* repaired: ev->is_jumbo = (oev->header.flags & OVNI_EV_JUMBO) ? 1 : 0; *)
Definition emu_ev : emu_ev_t -> evp -> emu_ev_t :=
  emu_ev_with (fun _ oev => has_jumbo_flag oev).

(* as found: if (oev->header.flags & OVNI_EV_JUMBO) ev->is_jumbo = 1;   -- otherwise untouched *)
Definition emu_ev_old : emu_ev_t -> evp -> emu_ev_t :=
  emu_ev_with (fun prev oev => if has_jumbo_flag oev then true else e_is_jumbo prev).

(* ---- model.c: model_event --------------------------------------------------------------- *)
Inductive ev_verdict := EvOk | EvNotRegistered | EvNotEnabled | EvHandlerErr.

Definition model_event (registered enabled : list Z) (handler : emu_ev_t -> bool) (e : emu_ev_t) : ev_verdict :=
  if negb (mem (e_m e) registered) then EvNotRegistered
  else if negb (mem (e_m e) enabled) then EvNotEnabled
  else if handler e then EvOk else EvHandlerErr.

(* the check the handlers of the task-type-create events make (nosv/event.c:pre_type,
   nanos6/event.c:pre_type): `if (!emu->ev->is_jumbo) { err("expecting a jumbo event"); return -1; }` *)
Definition V_MODEL : Z := 86.    (* 'V' nosv *)
Definition N6_MODEL : Z := 54.   (* '6' nanos6 *)
Definition is_type_create (e : emu_ev_t) : bool :=
  ((e_m e =? V_MODEL) || (e_m e =? N6_MODEL)) && (e_c e =? 89) && (e_v e =? 99).   (* ?Yc *)

Definition handler_checks_jumbo (handler : emu_ev_t -> bool) : Prop :=
  forall e, is_type_create e = true -> e_is_jumbo e = false -> handler e = false.

(* the smallest handler that makes that check and nothing else *)
Definition jumbo_checking_handler (e : emu_ev_t) : bool :=
  if is_type_create e then e_is_jumbo e else true.

(* ---- one stream through the emulator ---------------------------------------------------- *)
(* events as the stream layer delivers them (offsets), decoded one after the other into the
   same struct emu_ev, each given to model_event; the first failure stops the emulation *)
(* ovniemu's last line: "emulation finished ok" / "emulation finished with errors" (or an earlier exit 1) *)
Inductive final := FinishedOk | FinishedWithErrors.

Section Emulate.
  Variable decode : emu_ev_t -> evp -> emu_ev_t.
  Variables registered enabled : list Z.
  Variable handler : emu_ev_t -> bool.

  Fixpoint emu_events (bs : bytes) (junk : Z -> Z) (prev : emu_ev_t) (evs : list ev_rec) : ev_verdict :=
    match evs with
    | [] => EvOk
    | (off, _, _) :: r =>
      let e := decode prev (mk_evp bs off junk) in
      match model_event registered enabled handler e with
      | EvOk => emu_events bs junk e r
      | bad => bad
      end
    end.

  Definition emulate (bs : bytes) (junk : Z -> Z) : final :=
    match run bs junk false with
    | Run VEnd evs =>
      match emu_events bs junk emu_ev_zero evs with
      | EvOk => FinishedOk
      | _ => FinishedWithErrors
      end
    | _ => FinishedWithErrors
    end.
End Emulate.
