(* What relates the bay wiring of the breakdown pipeline (BayBreakdownDefs) to the special-purpose model of the same
   pipeline in SortDefs (section Breakdown): how a wiring state is read as a SortDefs.wires record, how a batch of
   CPU-channel writes is rendered on each side, and the iteration of events.  Definitions only. *)
From Coq Require Import ZArith List Bool.
From OV Require Import Emu.EmuCoreDefs Emu.BayDefs Emu.BayBreakdownDefs.
From OV Require Emu.SortDefs.
Import ListNotations.
Local Open Scope Z_scope.

Module SD := SortDefs.

(* values: the pipeline only carries null and integers *)
Definition emb (v : value) : SD.value := match v with None => SD.VNull | Some z => SD.VInt z end.
Definition unemb (x : SD.value) : value := match x with SD.VInt i => Some i | _ => None end.

Definition chn_of (c : nat) : SD.chn :=
  match c with 0%nat => SD.SS | 1%nat => SD.TT | 2%nat => SD.IDLE | 3%nat => SD.TR | _ => SD.TRI end.

Definition idx (s : option bool) : option nat := match s with None => None | Some false => Some 0%nat | Some true => Some 1%nat end.

(* mux->selected agrees with the enabled callback; with none enabled it may still hold the memset value *)
Definition okS (sel : option bool) (s : option nat) : Prop :=
  match sel with
  | Some false => s = Some 0%nat
  | Some true => s = Some 1%nat
  | None => s = None \/ s = Some 0%nat \/ s = Some 1%nat
  end.
Definition OKs (s : bdst) : Prop := okS (e_sel0 s) (m_s0 s) /\ okS (e_sel1 s) (m_s1 s).

(* the SortDefs view of a wiring state: channel values, which input callback is enabled, the value the sort
   callback last copied *)
Definition wires_of (s : bdst) : SD.wires :=
  {| SD.w_ss := emb (v_ss s); SD.w_tt := emb (v_tt s); SD.w_idle := emb (v_idle s);
     SD.w_tr := emb (v_tr s); SD.w_tri := emb (v_tri s);
     SD.w_sel0 := e_sel0 s; SD.w_sel1 := e_sel1 s;
     SD.w_sval := match v_sink s with Some z => z | None => 0 end |}.

Definition dflag (s : bdst) (c : nat) : bool :=
  match c with 0%nat => d_ss s | 1%nat => d_tt s | 2%nat => d_idle s | 3%nat => d_tr s | 4%nat => d_tri s | _ => d_sink s end.

(* between two events: nothing dirty *)
Definition Canon (s : bdst) : Prop := q_dirty s = [] /\ forall c, (c < 6)%nat -> dflag s c = false.

(* one write of a batch, on each side *)
Definition nat_of_cin (c : SD.cin) : nat := match c with SD.CSS => 0%nat | SD.CTT => 1%nat | SD.CIDLE => 2%nat end.
Definition wop_of (w : SD.cin * value) : wop := WSet (nat_of_cin (fst w)) (snd w).
Definition emb_w (w : SD.cin * value) : SD.cin * SD.value := (fst w, emb (snd w)).

(* a history of events on a bay: chan_set for the writes, then bay_propagate *)
Fixpoint bd_run (b : bay) (h : list (list wop)) : result bay :=
  match h with
  | [] => Ok b
  | ws :: r =>
    match apply_writes b ws with
    | Err e => Err e
    | Ok b1 => match propagate b1 [] with Err e => Err e | Ok (b2, _, _) => bd_run b2 r end
    end
  end.
