(* How the state of the generated writer primitives (Emu/PvWPre.v) is read as the tables of the hand model Emu/PvDefs.v.
   Definitions only; proofs in Proofs/PvWProofs.v. *)
From Coq Require Import ZArith List Bool.
From OV Require Import Base.CInt Emu.EmuCoreDefs Emu.MarkDefs Emu.PvDefs Emu.PvWPre.
Import ListNotations.
Local Open Scope Z_scope.

Definition abs_type (o : ctype) : pcf_type := {| pt_id := ct_id o; pt_label := ct_label o; pt_values := ct_values o |}.
Definition abs_pcf (st : wstate) : pcf := map abs_type (w_types st).

(* a row that is not set has no label yet (what label[] holds then is irrelevant) *)
Definition abs_row (r : crow) : option str := if r_set r =? 0 then None else Some (r_label r).
Definition abs_prf (st : wstate) : prf := match w_rows st with Some l => map abs_row l | None => [] end.

Definition abs_chan (c : cchan) : prv_chan :=
  {| pc_id := cc_id c; pc_row1 := cc_row1 c; pc_type := cc_type c; pc_flags := cc_flags c |}.
Definition abs_prv (st : wstate) : prv :=
  {| pv_nrows := w_prv_nrows st; pv_time := w_time st; pv_chans := map abs_chan (w_chans st);
     pv_file := file_bytes st (w_prv_file st) |}.

(* allocation, fopen and bay_add_cb succeed *)
Definition env_ok : wenv := {| e_calloc_ok := true; e_fopen_ok := true; e_bay_ok := true |}.

(* struct prf after a successful prf_open: the array is allocated with nrows elements *)
Definition prf_ready (st : wstate) : Prop :=
  exists l, w_rows st = Some l /\ w_nrows st = Z.of_nat (length l).

(* what the functions of one file leave alone *)
Definition same_pcf (a b : wstate) : Prop := w_pcf_f b = w_pcf_f a /\ w_types b = w_types a.
Definition same_prf (a b : wstate) : Prop := w_prf_f b = w_prf_f a /\ w_nrows b = w_nrows a /\ w_rows b = w_rows a.
Definition same_prv (a b : wstate) : Prop :=
  w_prv_file b = w_prv_file a /\ w_time b = w_time a /\ w_prv_nrows b = w_prv_nrows a /\ w_chans b = w_chans a.
