(* C18: the event catalogue.  listed = the events the tools list (the evlist of each model, dumped from the
   compiled source); recognised = the events the handler of the model does not answer "unknown" to. *)
From Coq Require Import ZArith List Bool.
From OV Require Import Emu.EmuCoreDefs Emu.DecodeDefs Emu.MarkDefs Emu.TableFactsDefs.
From OV Require Gen.Tables_gen.
Import ListNotations.
Local Open Scope Z_scope.

Definition sig_mcv (sig : list Z) : Z * Z * Z := (nth 0 sig 0, nth 1 sig 0, nth 2 sig 0).

Definition listed (m c v : Z) : bool :=
  existsb (fun '(m', sig) => let '(sm, sc, sv) := sig_mcv sig in (m =? m') && (sm =? m) && (sc =? c) && (sv =? v)) Tables_gen.evdecls.

(* channel specs with every model enabled and mark type 0 defined (so that OM events can be placed) *)
Definition cs_cat : list chanspec :=
  chans_all ++ mark_chans [{| mt_type := 0; mt_title := [109]; mt_stack := true; mt_labels := [] |}].

(* payloads tried: none, 4, 8, 12 bytes (the last one is a mark payload: value 1, type 0), and a jumbo one *)
Definition probe_payloads : list (list Z * bool) :=
  [([], false); ([1; 0; 0; 0], false); ([1; 0; 0; 0; 1; 0; 0; 0], false);
   ([1; 0; 0; 0; 0; 0; 0; 0; 0; 0; 0; 0], false); ([5; 0; 0; 0; 1; 0; 0; 0; 0], true)].

Definition is_unknown (e : event) : bool :=
  match e with EvBad w => Nat.eqb w E_UNKNOWN | _ => false end.

(* the base model ignores the value byte of its burst (B) and unordered-region (U) categories *)
Definition value_blind (m c : Z) : bool := (m =? M_OVNI) && ((c =? 66) || (c =? 85)).

Definition is_bad (e : event) : bool := match e with EvBad _ => true | _ => false end.

(* recognised: some payload makes the handler go past its dispatch and payload checks *)
Definition recognised (m c v : Z) : bool :=
  existsb (fun '(p, j) => negb (is_bad (decode_all all_models cs_cat m c v p j 7))) probe_payloads.

(* legacy code: the old Nanos6 task-create event 6TC is accepted with a warning and not listed
   (the other legacy event, OCn, is listed) *)
Definition legacy (m c v : Z) : bool := (m =? M_NANOS6) && (c =? 84) && (v =? 67).

(* the codes a handler can let through, read off the dispatch code: hand-written switches of the base, kernel
   and task handlers, plus the rows of the dumped tables *)
Definition hand_codes : list (Z * Z * Z) :=
  map (fun v => (M_OVNI, 72, v)) [120; 101; 112; 114; 99; 119; 67] ++
  map (fun v => (M_OVNI, 65, v)) [115; 114] ++ [(M_OVNI, 67, 110)] ++
  map (fun v => (M_OVNI, 70, v)) [91; 93] ++ map (fun v => (M_OVNI, 77, v)) [91; 93; 61] ++
  map (fun v => (M_KERNEL, 67, v)) [79; 73] ++
  map (fun v => (M_NOSV, 84, v)) [99; 67; 120; 101; 114; 112] ++ [(M_NOSV, 89, 99)] ++
  map (fun v => (M_NANOS6, 84, v)) [67; 99; 120; 101; 114; 112] ++ [(M_NANOS6, 89, 99)].

Definition table_codes : list (Z * Z * Z) := map (fun '(m, c, v, _, _, _) => (m, c, v)) Tables_gen.table.

Definition accepted_codes : list (Z * Z * Z) := hand_codes ++ table_codes.

Definition code_eqb (a b : Z * Z * Z) : bool :=
  let '(m, c, v) := a in let '(m', c', v') := b in (m =? m') && (c =? c') && (v =? v').
Definition code_in (a : Z * Z * Z) (l : list (Z * Z * Z)) : bool := existsb (code_eqb a) l.

Definition accepted_listed_ok : bool :=
  forallb (fun '(m, c, v) => listed m c v || legacy m c v) accepted_codes.

Definition printable : list Z := map Z.of_nat (seq 32 95).
Definition model_ids : list Z := map (fun '(id, _, _, _) => id) Tables_gen.models.

(* every disagreement between the two sets outside the value-blind categories *)
Definition catalogue_diff : list (Z * Z * Z * bool * bool) :=
  flat_map (fun m => flat_map (fun c => flat_map (fun v =>
    let l := listed m c v in let r := recognised m c v in
    if value_blind m c then (if r then [] else [(m, c, v, l, r)])
    else if legacy m c v then (if r && negb l then [] else [(m, c, v, l, r)])
    else if Bool.eqb l r then [] else [(m, c, v, l, r)]) printable) printable) model_ids.

(* in the value-blind categories every value is recognised and at least one is listed *)
Definition value_blind_ok : bool :=
  forallb (fun c => existsb (fun v => listed M_OVNI c v) printable) [66; 85].
