(* Prelude of the generated file Gen/Loader_gen.v: the loader's view of an event.

   A stream is a byte buffer (list Z, every element 0..255).  An event pointer
   (`struct ovni_ev *` into the mapped stream) is a position in that buffer.
   What lies outside the buffer is not defined by the trace; it is made an
   explicit component `ejunk` of the view so that "the code read outside the
   loaded stream" is expressible: a function of an event pointer performed an
   out-of-bounds read that mattered iff its result depends on `ejunk`.
   The accessors below are what the translated C member chains
   (`ev->header.flags`, `ev->payload.jumbo.size`) become; their byte offsets are
   proved equal to the compiler's layout in Gen/Loader_gen.v
   (layout_matches_prelude). *)
From OV Require Import Base.CInt.
Local Open Scope Z_scope.

Definition bytes := list Z.

Definition blen (bs : bytes) : Z := Z.of_nat (length bs).

Record evp : Type := mk_evp {
  ebuf : bytes;          (* the loaded stream *)
  eoff : Z;              (* position of the event in it (may be anything: the old code can go negative) *)
  ejunk : Z -> Z;        (* bytes of the address space outside the buffer *)
}.

Definition in_buf (bs : bytes) (i : Z) : bool := (0 <=? i) && (i <? blen bs).

(* one byte (uint8_t) at absolute position i; whatever the list or junk hold is reduced to a byte *)
Definition rd (bs : bytes) (junk : Z -> Z) (i : Z) : Z :=
  (if in_buf bs i then nth (Z.to_nat i) bs 0 else junk i) mod 256.

(* little-endian unsigned integer of n bytes at position i *)
Fixpoint rd_le (bs : bytes) (junk : Z -> Z) (i : Z) (n : nat) : Z :=
  match n with
  | O => 0
  | S k => rd bs junk i + 256 * rd_le bs junk (i + 1) k
  end.

(* layout of struct ovni_ev / struct ovni_stream_header (packed), checked against the compiler *)
Definition pre_off_flags : Z := 0.
Definition pre_off_model : Z := 1.
Definition pre_off_category : Z := 2.
Definition pre_off_value : Z := 3.
Definition pre_off_clock : Z := 4.
Definition pre_sizeof_clock : Z := 8.
Definition pre_off_payload : Z := 12.
Definition pre_off_jumbo_size : Z := 12.
Definition pre_sizeof_jumbo_size : Z := 4.
Definition pre_off_jumbo_data : Z := 16.
Definition pre_off_magic : Z := 0.
Definition pre_sizeof_magic : Z := 4.
Definition pre_off_version : Z := 4.
Definition pre_sizeof_version : Z := 4.

Definition ev_rd (ev : evp) (rel : Z) : Z := rd (ebuf ev) (ejunk ev) (eoff ev + rel).
Definition ev_rd_le (ev : evp) (rel : Z) (n : nat) : Z := rd_le (ebuf ev) (ejunk ev) (eoff ev + rel) n.

(* ev->header.flags, ev->payload.jumbo.size : names fixed by translate/c2gallina.py *)
Definition get_header_flags (ev : evp) : Z := ev_rd ev pre_off_flags.
Definition get_payload_jumbo_size (ev : evp) : Z := ev_rd_le ev pre_off_jumbo_size 4.
Definition get_header_model (ev : evp) : Z := ev_rd ev pre_off_model.
Definition get_header_category (ev : evp) : Z := ev_rd ev pre_off_category.
Definition get_header_value (ev : evp) : Z := ev_rd ev pre_off_value.
Definition get_header_clock (ev : evp) : Z := ev_rd_le ev pre_off_clock 8.

(* [readable bs off n]: the n bytes at off are inside the buffer *)
Definition readable (bs : bytes) (off n : Z) : bool := (0 <=? off) && (off + n <=? blen bs).

(* a byte buffer proper: every element is a byte *)
Definition is_byte (b : Z) : bool := (0 <=? b) && (b <? 256).
Definition wf_bytes (bs : bytes) : bool := forallb is_byte bs.
