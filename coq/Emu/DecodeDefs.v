(* From raw events (model, category, value bytes + payload) to the events of the
   emulator-core model, using the tables dumped from the compiled source
   (Gen/Tables_gen.v).  Mirrors the dispatch code of src/emu/*/event.c. *)
From Coq Require Import ZArith List Bool.
From OV Require Import Emu.EmuCoreDefs.
From OV Require Gen.Tables_gen.
Import ListNotations.
Local Open Scope Z_scope.


Definition conv_action (a : Tables_gen.action) : action :=
  match a with Tables_gen.PUSH => PUSH | Tables_gen.POP => POP | Tables_gen.SET => SET | Tables_gen.IGN => IGN end.

(* model ids *)
Definition M_OVNI : Z := 79.    (* 'O' *)
Definition M_NANOS6 : Z := 54.  (* '6' *)
Definition M_NOSV : Z := 86.    (* 'V' *)
Definition M_NODES : Z := 68.   (* 'D' *)
Definition M_TAMPI : Z := 84.   (* 'T' *)
Definition M_MPI : Z := 77.     (* 'M' *)
Definition M_KERNEL : Z := 75.  (* 'K' *)
Definition M_OPENMP : Z := 80.  (* 'P' *)

Definition memz (x : Z) (l : list Z) : bool := existsb (Z.eqb x) l.

(* connect-time value and CPU default of a channel (nOS-V / Nanos6 idle) *)
Definition chan_init (m i : Z) : value :=
  if (m =? M_NOSV) && (i =? Tables_gen.c_nosv_CH_IDLE) then Some Tables_gen.c_nosv_ST_PROGRESSING
  else if (m =? M_NANOS6) && (i =? Tables_gen.c_nanos6_CH_IDLE) then Some Tables_gen.c_nanos6_ST_PROGRESSING
  else None.
Definition chan_cpudef (m i : Z) : value :=
  if (m =? M_NOSV) && (i =? Tables_gen.c_nosv_CH_IDLE) then Some Tables_gen.c_nosv_ST_RESTING
  else if (m =? M_NANOS6) && (i =? Tables_gen.c_nanos6_CH_IDLE) then Some Tables_gen.c_nanos6_ST_RESTING
  else None.

(* channels of the enabled models, in the order of the dumped table *)
Definition mk_chans (enabled : list Z) : list chanspec :=
  flat_map (fun '(m, i, stk, dup, tht, cput, ty, fl) =>
    if memz m enabled then
      [{| cs_model := m; cs_index := i; cs_stack := stk; cs_dup := dup; cs_thtrack := tht; cs_cputrack := cput;
          cs_type := ty; cs_flags := fl; cs_init := chan_init m i; cs_cpudef := chan_cpudef m i |}]
    else []) Tables_gen.chanspecs.

Fixpoint chan_pos_from (cs : list chanspec) (m i : Z) (k : nat) : option nat :=
  match cs with
  | [] => None
  | sp :: r => if (cs_model sp =? m) && (cs_index sp =? i) then Some k else chan_pos_from r m i (S k)
  end.
Definition chan_pos (cs : list chanspec) (m i : Z) : option nat := chan_pos_from cs m i 0.

Fixpoint table_lookup (tb : list (Z * Z * Z * Z * Tables_gen.action * Z)) (m c v : Z) : option (Z * Tables_gen.action * Z) :=
  match tb with
  | [] => None
  | (m', c', v', ch, a, x) :: r =>
    if (m =? m') && (c =? c') && (v =? v') then Some (ch, a, x) else table_lookup r m c v
  end.

(* little-endian signed 32-bit integer at byte offset off of the payload *)
Definition byte_at (p : list Z) (n : nat) : Z := nth n p 0.
Definition le_u32 (p : list Z) (off : nat) : Z :=
  byte_at p off + 256 * byte_at p (off + 1) + 65536 * byte_at p (off + 2) + 16777216 * byte_at p (off + 3).
Definition le_i32 (p : list Z) (off : nat) : Z :=
  let u := le_u32 p off in if u <? 2147483648 then u else u - 4294967296.

(* categories each handler passes to its table (switch (emu->ev->c) in process_ev) *)
Definition cats (m : Z) : option (list Z) :=
  if m =? M_NOSV then Some [83; 85; 77; 72; 65; 80]                         (* S U M H A P *)
  else if m =? M_NANOS6 then Some [67; 83; 85; 70; 79; 116; 72; 68; 66; 87; 77; 80]  (* C S U F O t H D B W M P *)
  else if m =? M_NODES then Some [82; 85; 87; 73; 84; 67; 83; 80]          (* R U W I T C S P *)
  else None.                                                                (* mpi, tampi, openmp: table only *)

(* thread-state requirement of each model: 1 running, 2 active, 4 active and not out of CPU *)
Definition need_of (m : Z) : Z :=
  if m =? M_NOSV then 4 else if m =? M_NANOS6 then 2 else 1.

Definition decode_ovni (cs : list chanspec) (c v : Z) (p : list Z) : event :=
  let n := length p in
  if c =? 72 then (* H *)
    if v =? 120 then (if Nat.ltb n 4 then EvBad E_PAYLOAD else EvOvni (Execute (le_i32 p 0)))
    else if v =? 101 then EvOvni End_
    else if v =? 112 then EvOvni Pause
    else if v =? 114 then EvOvni Resume
    else if v =? 99 then EvOvni Cool
    else if v =? 119 then EvOvni Warm
    else if v =? 67 then EvNop                   (* OHC: create, only logged *)
    else EvBad E_UNKNOWN
  else if c =? 65 then (* A *)
    if v =? 115 then (if Nat.eqb n 4 then EvOvni (AffSet (le_i32 p 0)) else EvBad E_PAYLOAD)
    else if v =? 114 then (if Nat.eqb n 8 then EvOvni (AffRemote (le_i32 p 0) (le_i32 p 4)) else EvBad E_PAYLOAD)
    else EvBad E_UNKNOWN
  else if c =? 66 then EvNop                     (* B: burst, value byte ignored *)
  else if c =? 85 then EvNop                     (* U: unordered region markers, ignored *)
  else if c =? 67 then (if v =? 110 then EvNop else EvBad E_UNKNOWN)   (* OCn legacy *)
  else if c =? 70 then (* F *)
    match chan_pos cs M_OVNI Tables_gen.c_ovni_CH_FLUSH with
    | None => EvBad E_UNKNOWN
    | Some k =>
      if v =? 91 then EvChan k SET (Some Tables_gen.c_ovni_ST_FLUSHING) 3
      else if v =? 93 then EvChan k SET None 3
      else EvBad E_UNKNOWN
    end
  else EvBad E_UNKNOWN.                          (* M (marks) is handled by the mark engine *)

(* task events: nOS-V (VT*, VYc) and Nanos6 (6T*, 6Yc).  aux = gid of the label of a type-create event
   (the hash of the label is computed outside the model); jumbo = the event carries the jumbo flag *)
Definition chan_of (cs : list chanspec) (m i : Z) : nat := match chan_pos cs m i with Some k => k | None => 0%nat end.

Definition nosv_cfg (cs : list chanspec) : taskcfg :=
  {| tc_need := 4; tc_bodyrule := true;
     tc_ss := chan_of cs M_NOSV Tables_gen.c_nosv_CH_SUBSYSTEM; tc_ssval := Tables_gen.c_nosv_ST_TASK_BODY;
     tc_chans := [(FBody, chan_of cs M_NOSV Tables_gen.c_nosv_CH_BODYID); (FTask, chan_of cs M_NOSV Tables_gen.c_nosv_CH_TASKID);
                  (FType, chan_of cs M_NOSV Tables_gen.c_nosv_CH_TYPE); (FApp, chan_of cs M_NOSV Tables_gen.c_nosv_CH_APPID);
                  (FRank, chan_of cs M_NOSV Tables_gen.c_nosv_CH_RANK)];
     tc_appid_checked := true |}.

Definition nanos6_cfg (cs : list chanspec) : taskcfg :=
  {| tc_need := 2; tc_bodyrule := false;
     tc_ss := chan_of cs M_NANOS6 Tables_gen.c_nanos6_CH_SUBSYSTEM; tc_ssval := Tables_gen.c_nanos6_ST_TASK_BODY;
     tc_chans := [(FTask, chan_of cs M_NANOS6 Tables_gen.c_nanos6_CH_TASKID); (FType, chan_of cs M_NANOS6 Tables_gen.c_nanos6_CH_TYPE);
                  (FRank, chan_of cs M_NANOS6 Tables_gen.c_nanos6_CH_RANK)];
     tc_appid_checked := false |}.

Definition decode_task (cs : list chanspec) (m c v : Z) (p : list Z) (jumbo : bool) (aux : Z) : option event :=
  let n := length p in
  if m =? M_NOSV then
    if c =? 84 then (* T *)
      if (v =? 99) || (v =? 67) then (* c C *)
        Some (if Nat.ltb n 8 then EvBad E_PAYLOAD
              else EvTaskCreate 4 M_NOSV (le_u32 p 0) (le_u32 p 4) (v =? 67) (negb (v =? 67)) (negb (v =? 67)) false)
      else if (v =? 120) || (v =? 101) || (v =? 114) || (v =? 112) then
        Some (if Nat.ltb n 8 then EvBad E_PAYLOAD else EvTask (nosv_cfg cs) M_NOSV v (le_u32 p 0) (le_u32 p 4))
      else Some (EvBad E_UNKNOWN)
    else if c =? 89 then (* Y *)
      Some (if negb (v =? 99) then EvBad E_UNKNOWN else if negb jumbo then EvBad E_PAYLOAD
            else EvTypeCreate 4 M_NOSV (le_u32 p 4) aux)     (* payload = jumbo size (4 bytes) then typeid *)
    else None
  else if m =? M_NANOS6 then
    if c =? 84 then
      if v =? 67 then Some (EvChan 0 IGN None 2)          (* old 6TC: ignored with a warning *)
      else if v =? 99 then Some (if Nat.eqb n 8 then EvTaskCreate 2 M_NANOS6 (le_u32 p 0) (le_u32 p 4) false false true true else EvBad E_PAYLOAD)
      else if (v =? 120) || (v =? 101) || (v =? 114) || (v =? 112) then
        Some (if Nat.ltb n 4 then EvBad E_PAYLOAD else EvTask (nanos6_cfg cs) M_NANOS6 v (le_u32 p 0) 0)
      else Some (EvBad E_UNKNOWN)
    else if c =? 89 then
      Some (if negb (v =? 99) then EvBad E_UNKNOWN else if negb jumbo then EvBad E_PAYLOAD
            else EvTypeCreate 2 M_NANOS6 (le_u32 p 4) aux)
    else None
  else None.

Definition decode (enabled : list Z) (cs : list chanspec) (m c v : Z) (p : list Z) : event :=
  if negb (memz m enabled) then EvBad E_UNKNOWN
  else if m =? M_OVNI then decode_ovni cs c v p
  else if m =? M_KERNEL then
    if c =? 67 then
      match chan_pos cs M_KERNEL Tables_gen.c_kernel_CH_CS with
      | None => EvBad E_UNKNOWN
      | Some k => if v =? 79 then EvOoc k true Tables_gen.c_kernel_ST_CSOUT
                  else if v =? 73 then EvOoc k false Tables_gen.c_kernel_ST_CSOUT
                  else EvBad E_UNKNOWN
      end
    else EvBad E_UNKNOWN
  else
    let cat_ok := match cats m with Some l => memz c l | None => true end in
    (* an unknown category or table entry is an error whatever the thread state *)
    if negb cat_ok then EvBad E_UNKNOWN
    else
    match table_lookup Tables_gen.table m c v with
    | None => EvBad E_UNKNOWN
    | Some (ch, a, x) =>
      match chan_pos cs m ch with
      | None => EvBad E_UNKNOWN
      | Some k => EvChan k (conv_action a) (Some x) (need_of m)
      end
    end.

Definition decode_full (enabled : list Z) (cs : list chanspec) (m c v : Z) (p : list Z) (jumbo : bool) (aux : Z) : event :=
  if negb (memz m enabled) then EvBad E_UNKNOWN
  else match decode_task cs m c v p jumbo aux with
       | Some e => e
       | None => decode enabled cs m c v p
       end.

(* channels checked by end_lint of the models that have one (subsystem / function stacks) *)
Definition lint_chans (cs : list chanspec) : list nat :=
  flat_map (fun '(k, sp) =>
    if cs_stack sp && negb (cs_model sp =? M_KERNEL) && negb (cs_model sp =? M_OVNI) &&
       negb ((cs_model sp =? M_NANOS6) && negb (cs_index sp =? Tables_gen.c_nanos6_CH_SUBSYSTEM))
    then [k] else []) (combine (seq 0 (length cs)) cs).
