(* Prelude of the generated file Gen/Sys_gen.v (translate/units/sys.py): the world of src/emu/thread.c and cpu.c.

   Threads and CPUs with the C fields the translated functions touch, and their system channels as C channels
   (Emu/ChanPre.v records).  `chan_set` on one of these channels is NOT modelled here: it is the function generated
   from chan.c (Gen/Chan_gen.v) run on that channel, so every refusal of a channel write (duplicate of the value at
   the last flush, "cannot modify dirty channel") is the C's own.
   Hand-written here: pointers as indices (NULL = None); the intrusive list cpu->threads as a list of thread
   indices (find_thread = membership, DL_APPEND2 = append, DL_DELETE2 = remove the first occurrence: utlist is not
   translated); value_int64 / value_null; th->proc->pid as a field of the thread.
   Definitions only; proofs in Proofs/SysProofs.v. *)
From Coq Require Import ZArith List Bool.
From OV Require Import Base.CInt Emu.EmuCoreDefs.
From OV Require Emu.ChanPre Gen.Chan_gen Emu.GuardsPre.
Import ListNotations.
Local Open Scope Z_scope.

Definition cvalue := ChanPre.cvalue.

Record sthread := {
  s_state : Z; s_isrun : Z; s_isact : Z; s_cpu : option nat;
  s_tid : Z; s_pid : Z; s_gindex : Z; s_ooc : Z;
  s_chans : list ChanPre.chan          (* chan[TH_CHAN_MAX] *)
}.
Record scpu := {
  c_threads : list nat;                (* cpu->threads, in list order *)
  c_nthreads : Z; c_nrun : Z; c_nact : Z;
  c_thrun : option nat; c_thact : option nat;
  c_virtual : Z; c_gindex : Z;
  c_chans : list ChanPre.chan          (* chan[CPU_CHAN_MAX] *)
}.
Record sys := { sths : list sthread; scps : list scpu; sncb : nat }.
(* environment: the status of the channels' dirty callbacks, and the static description of the trace *)
Record senv := { se_cb : ChanPre.cenv; se_sx : static }.

Definition E_FAIL := 20%nat.
Definition E_TRAP := 99%nat.

Definition M (A : Type) : Type := senv -> sys -> result (A * sys).
Definition ret {A} (a : A) : M A := fun _ st => Ok (a, st).
Definition fail {A} (e : nat) : M A := fun _ _ => Err e.
Definition bind {A B} (m : M A) (f : A -> M B) : M B :=
  fun sx st => match m sx st with Ok (a, st') => f a sx st' | Err e => Err e end.
Definition bind_ {A B} (m : M A) (k : M B) : M B := bind m (fun _ => k).
Definition eval {A} (f : senv -> sys -> A) : M A := fun sx st => Ok (f sx st, st).
Definition ite {A} (c : senv -> sys -> bool) (a b : M A) : M A :=
  fun sx st => if c sx st then a sx st else b sx st.
Definition need {A} (safe : senv -> sys -> bool) (k : M A) : M A :=
  fun sx st => if safe sx st then k sx st else Err E_TRAP.
Definition exec (m : M unit) (sx : senv) (st : sys) : result sys :=
  match m sx st with Ok (_, st') => Ok st' | Err e => Err e end.

(* pointers *)
Definition ptr_thread := option nat.
Definition ptr_cpu := option nat.
Definition ptr_proc := option nat.
Inductive cid := ThC (t : nat) (k : Z) | CpC (c : nat) (k : Z).
Definition ptr_chan := option cid.

Definition dthread : sthread :=
  {| s_state := 0; s_isrun := 0; s_isact := 0; s_cpu := None; s_tid := 0; s_pid := 0; s_gindex := 0; s_ooc := 0; s_chans := [] |}.
Definition dcpu : scpu :=
  {| c_threads := []; c_nthreads := 0; c_nrun := 0; c_nact := 0; c_thrun := None; c_thact := None; c_virtual := 0;
     c_gindex := 0; c_chans := [] |}.
Definition sth (st : sys) (t : nat) : sthread := nth t (sths st) dthread.
Definition scp (st : sys) (c : nat) : scpu := nth c (scps st) dcpu.

(* the event and the lookups of the handlers: as in Emu/GuardsPre.v *)
Definition emu := GuardsPre.emu.
Definition ptr_emu_ev := GuardsPre.emu.
Definition ptr_payload := option unit.
Definition ptr_loom := nat.
Definition get_emu_ev (sx : senv) (st : sys) (e : emu) : ptr_emu_ev := e.
Definition get_emu_ev_m (sx : senv) (st : sys) (e : emu) : Z := GuardsPre.e_m e.
Definition get_emu_ev_c (sx : senv) (st : sys) (e : emu) : Z := GuardsPre.e_c e.
Definition get_emu_ev_v (sx : senv) (st : sys) (e : emu) : Z := GuardsPre.e_v e.
Definition get_emu_ev_payload_size (sx : senv) (st : sys) (e : emu) : Z := Z.of_nat (length (GuardsPre.e_payload e)).
Definition get_emu_ev_payload_i32 (sx : senv) (st : sys) (e : emu) : list Z :=
  [GuardsPre.pl_i32 (GuardsPre.e_payload e) 0; GuardsPre.pl_i32 (GuardsPre.e_payload e) 4;
   GuardsPre.pl_i32 (GuardsPre.e_payload e) 8; GuardsPre.pl_i32 (GuardsPre.e_payload e) 12].
Definition get_emu_ev_payload (sx : senv) (st : sys) (e : emu) : ptr_payload :=
  match GuardsPre.e_payload e with [] => None | _ => Some tt end.
Definition get_emu_thread (sx : senv) (st : sys) (e : emu) : option nat := Some (GuardsPre.e_who e).
Definition get_emu_loom (sx : senv) (st : sys) (e : emu) : ptr_loom := thread_loom (se_sx sx) (GuardsPre.e_who e).
Definition get_emu_proc (sx : senv) (st : sys) (e : emu) : (nat * Z) :=
  match nth_opt (s_threads (se_sx sx)) (GuardsPre.e_who e) with Some ti => (ti_loom ti, ti_pid ti) | None => (0%nat, 0) end.
Definition loom_get_cpu (sx : senv) (st : sys) (loom : ptr_loom) (index : Z) : option nat := find_cpu (se_sx sx) loom index.
Definition proc_find_thread (sx : senv) (st : sys) (p : nat * Z) (tid : Z) : option nat :=
  find_tid_from (s_threads (se_sx sx)) (fun ti => Nat.eqb (ti_loom ti) (fst p) && (ti_pid ti =? snd p)) tid 0.
Definition loom_find_thread (sx : senv) (st : sys) (loom : ptr_loom) (tid : Z) : option nat :=
  find_tid_from (s_threads (se_sx sx)) (fun ti => Nat.eqb (ti_loom ti) loom) tid 0.
Definition ptr_eqb_cpu (a b : option nat) : bool := GuardsPre.opt_eqb_nat a b.

(* getters *)
Definition get_thread_state (sx : senv) (st : sys) (p : ptr_thread) : Z := match p with Some t => s_state (sth st t) | None => 0 end.
Definition get_emu_thread_is_out_of_cpu (sx : senv) (st : sys) (e : emu) : Z := match nth_opt (sths st) (GuardsPre.e_who e) with Some x => s_ooc x | None => 0 end.
Definition get_thread_is_active (sx : senv) (st : sys) (p : ptr_thread) : Z := match p with Some t => s_isact (sth st t) | None => 0 end.
Definition get_thread_cpu (sx : senv) (st : sys) (p : ptr_thread) : ptr_cpu := match p with Some t => s_cpu (sth st t) | None => None end.
Definition get_thread_tid (sx : senv) (st : sys) (p : ptr_thread) : Z := match p with Some t => s_tid (sth st t) | None => 0 end.
Definition get_thread_proc_pid (sx : senv) (st : sys) (p : ptr_thread) : Z := match p with Some t => s_pid (sth st t) | None => 0 end.
Definition get_thread_gindex (sx : senv) (st : sys) (p : ptr_thread) : Z := match p with Some t => s_gindex (sth st t) | None => 0 end.
Definition get_cpu_gindex (sx : senv) (st : sys) (p : ptr_cpu) : Z := match p with Some c => c_gindex (scp st c) | None => 0 end.
Definition get_cpu_is_virtual (sx : senv) (st : sys) (p : ptr_cpu) : Z := match p with Some c => c_virtual (scp st c) | None => 0 end.
Definition get_cpu_nth_running (sx : senv) (st : sys) (p : ptr_cpu) : Z := match p with Some c => c_nrun (scp st c) | None => 0 end.
Definition get_cpu_nthreads (sx : senv) (st : sys) (p : ptr_cpu) : Z := match p with Some c => c_nthreads (scp st c) | None => 0 end.
(* the elements DL_FOREACH2(cpu->threads, el, cpu_next) visits *)
Definition list_cpu_threads_cpu_next (sx : senv) (st : sys) (p : ptr_cpu) : list ptr_thread :=
  match p with Some c => map Some (c_threads (scp st c)) | None => [] end.

Definition addr_thread_chan_at (p : ptr_thread) (k : Z) : ptr_chan := match p with Some t => Some (ThC t k) | None => None end.
Definition addr_cpu_chan_at (p : ptr_cpu) (k : Z) : ptr_chan := match p with Some c => Some (CpC c k) | None => None end.

Definition value_int64 (sx : senv) (st : sys) (i : Z) : cvalue := {| ChanPre.vt := 1; ChanPre.vi := i |}.
Definition value_null (sx : senv) (st : sys) : cvalue := ChanPre.vnull.

(* find_thread(cpu, thread): a search loop with an early return (not the translated loop form) *)
Definition find_thread (sx : senv) (st : sys) (c : ptr_cpu) (t : ptr_thread) : ptr_thread :=
  match c, t with
  | Some c', Some t' => if mem_nat t' (c_threads (scp st c')) then Some t' else None
  | _, _ => None
  end.

(* setters *)
Definition upd_th (p : ptr_thread) (f : sthread -> sthread) : M unit :=
  fun sx st => match p with
               | Some t => match nth_opt (sths st) t with
                           | Some x => Ok (tt, {| sths := update (sths st) t (f x); scps := scps st; sncb := sncb st |})
                           | None => Err E_TRAP
                           end
               | None => Err E_TRAP
               end.
Definition upd_cp (p : ptr_cpu) (f : scpu -> scpu) : M unit :=
  fun sx st => match p with
               | Some c => match nth_opt (scps st) c with
                           | Some x => Ok (tt, {| sths := sths st; scps := update (scps st) c (f x); sncb := sncb st |})
                           | None => Err E_TRAP
                           end
               | None => Err E_TRAP
               end.
Definition th_with_chans (x : sthread) (l : list ChanPre.chan) : sthread :=
  {| s_state := s_state x; s_isrun := s_isrun x; s_isact := s_isact x; s_cpu := s_cpu x; s_tid := s_tid x; s_pid := s_pid x;
     s_gindex := s_gindex x; s_ooc := s_ooc x; s_chans := l |}.
Definition cp_with_chans (x : scpu) (l : list ChanPre.chan) : scpu :=
  {| c_threads := c_threads x; c_nthreads := c_nthreads x; c_nrun := c_nrun x; c_nact := c_nact x; c_thrun := c_thrun x;
     c_thact := c_thact x; c_virtual := c_virtual x; c_gindex := c_gindex x; c_chans := l |}.
Definition cp_with_threads (x : scpu) (l : list nat) : scpu :=
  {| c_threads := l; c_nthreads := c_nthreads x; c_nrun := c_nrun x; c_nact := c_nact x; c_thrun := c_thrun x;
     c_thact := c_thact x; c_virtual := c_virtual x; c_gindex := c_gindex x; c_chans := c_chans x |}.

Definition set_thread_state (p : ptr_thread) (v : senv -> sys -> Z) : M unit :=
  fun sx st => upd_th p (fun x => {| s_state := v sx st; s_isrun := s_isrun x; s_isact := s_isact x; s_cpu := s_cpu x; s_tid := s_tid x;
                                     s_pid := s_pid x; s_gindex := s_gindex x; s_ooc := s_ooc x; s_chans := s_chans x |}) sx st.
Definition set_thread_is_running (p : ptr_thread) (v : senv -> sys -> Z) : M unit :=
  fun sx st => upd_th p (fun x => {| s_state := s_state x; s_isrun := v sx st; s_isact := s_isact x; s_cpu := s_cpu x; s_tid := s_tid x;
                                     s_pid := s_pid x; s_gindex := s_gindex x; s_ooc := s_ooc x; s_chans := s_chans x |}) sx st.
Definition set_thread_is_active (p : ptr_thread) (v : senv -> sys -> Z) : M unit :=
  fun sx st => upd_th p (fun x => {| s_state := s_state x; s_isrun := s_isrun x; s_isact := v sx st; s_cpu := s_cpu x; s_tid := s_tid x;
                                     s_pid := s_pid x; s_gindex := s_gindex x; s_ooc := s_ooc x; s_chans := s_chans x |}) sx st.
Definition set_thread_cpu (p : ptr_thread) (v : senv -> sys -> ptr_cpu) : M unit :=
  fun sx st => upd_th p (fun x => {| s_state := s_state x; s_isrun := s_isrun x; s_isact := s_isact x; s_cpu := v sx st; s_tid := s_tid x;
                                     s_pid := s_pid x; s_gindex := s_gindex x; s_ooc := s_ooc x; s_chans := s_chans x |}) sx st.
Definition set_cpu_nth_running (p : ptr_cpu) (v : senv -> sys -> Z) : M unit :=
  fun sx st => upd_cp p (fun x => {| c_threads := c_threads x; c_nthreads := c_nthreads x; c_nrun := v sx st; c_nact := c_nact x;
                                     c_thrun := c_thrun x; c_thact := c_thact x; c_virtual := c_virtual x; c_gindex := c_gindex x;
                                     c_chans := c_chans x |}) sx st.
Definition set_cpu_nth_active (p : ptr_cpu) (v : senv -> sys -> Z) : M unit :=
  fun sx st => upd_cp p (fun x => {| c_threads := c_threads x; c_nthreads := c_nthreads x; c_nrun := c_nrun x; c_nact := v sx st;
                                     c_thrun := c_thrun x; c_thact := c_thact x; c_virtual := c_virtual x; c_gindex := c_gindex x;
                                     c_chans := c_chans x |}) sx st.
Definition set_cpu_nthreads (p : ptr_cpu) (v : senv -> sys -> Z) : M unit :=
  fun sx st => upd_cp p (fun x => {| c_threads := c_threads x; c_nthreads := v sx st; c_nrun := c_nrun x; c_nact := c_nact x;
                                     c_thrun := c_thrun x; c_thact := c_thact x; c_virtual := c_virtual x; c_gindex := c_gindex x;
                                     c_chans := c_chans x |}) sx st.
Definition set_cpu_th_running (p : ptr_cpu) (v : senv -> sys -> ptr_thread) : M unit :=
  fun sx st => upd_cp p (fun x => {| c_threads := c_threads x; c_nthreads := c_nthreads x; c_nrun := c_nrun x; c_nact := c_nact x;
                                     c_thrun := v sx st; c_thact := c_thact x; c_virtual := c_virtual x; c_gindex := c_gindex x;
                                     c_chans := c_chans x |}) sx st.
Definition set_cpu_th_active (p : ptr_cpu) (v : senv -> sys -> ptr_thread) : M unit :=
  fun sx st => upd_cp p (fun x => {| c_threads := c_threads x; c_nthreads := c_nthreads x; c_nrun := c_nrun x; c_nact := c_nact x;
                                     c_thrun := c_thrun x; c_thact := v sx st; c_virtual := c_virtual x; c_gindex := c_gindex x;
                                     c_chans := c_chans x |}) sx st.

(* utlist *)
Definition DL_APPEND2_cpu_threads_cpu_prev_cpu_next (c : ptr_cpu) (t : ptr_thread) : M unit :=
  fun sx st => match t with
               | Some t' => upd_cp c (fun x => cp_with_threads x (c_threads x ++ [t'])) sx st
               | None => Err E_TRAP
               end.
Definition DL_DELETE2_cpu_threads_cpu_prev_cpu_next (c : ptr_cpu) (t : ptr_thread) : M unit :=
  fun sx st => match t with
               | Some t' => upd_cp c (fun x => cp_with_threads x (remove_nat t' (c_threads x))) sx st
               | None => Err E_TRAP
               end.

(* the channel a handle designates, and the generated chan_set run on it *)
Definition chan_at (st : sys) (h : cid) : option ChanPre.chan :=
  match h with
  | ThC t k => match nth_opt (sths st) t with Some x => nth_opt (s_chans x) (Z.to_nat k) | None => None end
  | CpC c k => match nth_opt (scps st) c with Some x => nth_opt (c_chans x) (Z.to_nat k) | None => None end
  end.
Definition put_chan (st : sys) (h : cid) (ch : ChanPre.chan) (n : nat) : sys :=
  match h with
  | ThC t k => {| sths := update (sths st) t (th_with_chans (sth st t) (update (s_chans (sth st t)) (Z.to_nat k) ch));
                  scps := scps st; sncb := (sncb st + n)%nat |}
  | CpC c k => {| sths := sths st;
                  scps := update (scps st) c (cp_with_chans (scp st c) (update (c_chans (scp st c)) (Z.to_nat k) ch));
                  sncb := (sncb st + n)%nat |}
  end.
Definition chan_set (p : ptr_chan) (v : cvalue) : M unit :=
  fun sx st =>
    match p with
    | None => Err E_TRAP
    | Some h =>
      if match h with ThC _ k | CpC _ k => k <? 0 end then Err E_TRAP else
      match chan_at st h with
      | None => Err E_TRAP
      | Some ch =>
        match Chan_gen.chan_set (Some tt) v (se_cb sx) {| ChanPre.ch := ch; ChanPre.out := ChanPre.vnull; ChanPre.ncb := 0 |} with
        | Ok (_, r) => Ok (tt, put_chan st h (ChanPre.ch r) (ChanPre.ncb r))
        | Err e => Err e
        end
      end
    end.

(* the other categories of model_ovni_event: outside this translation unit *)
Definition E_OTHER := 21%nat.
Definition pre_burst (e : emu) : M unit := fail E_OTHER.
Definition pre_cpu (e : emu) : M unit := fail E_OTHER.
Definition pre_flush (e : emu) : M unit := fail E_OTHER.
Definition mark_event (e : emu) : M unit := fail E_OTHER.
