(* Semantic layer of the emulator core (DESIGN.md section 5 "emucore"):
   thread life-cycle, CPU thread lists and affinity (src/emu/ovni/event.c, thread.c, cpu.c),
   the per-thread model channels driven by the event tables (src/emu/*/event.c, chan.c),
   the tracking views (track.c, mux.c, model_thread.c, model_cpu.c) as an emission rule,
   and the PRV flag rules (pv/prv.c).  Definitions only; executable. *)
From Coq Require Import ZArith List Bool.
Import ListNotations.
Local Open Scope Z_scope.

Definition value := option Z.                   (* None = null *)
Definition value_eqb (a b : value) : bool :=
  match a, b with
  | None, None => true
  | Some x, Some y => x =? y
  | _, _ => false
  end.

(* ------------------------------------------------------------------ *)
(* thread states (enum thread_state)                                   *)
Inductive tst := Unknown | Running | Paused | Dead | Cooling | Warming.
Definition tst_code (s : tst) : Z :=
  match s with Unknown => 0 | Running => 1 | Paused => 2 | Dead => 3 | Cooling => 4 | Warming => 5 end.
Definition tst_eqb (a b : tst) : bool := tst_code a =? tst_code b.
Definition is_running (s : tst) : bool := match s with Running => true | _ => false end.
Definition is_active (s : tst) : bool :=
  match s with Running | Cooling | Warming => true | _ => false end.

(* tracking modes (enum track_th) *)
Definition TRACK_ANY : Z := 0.
Definition TRACK_RUN : Z := 1.
Definition TRACK_ACT : Z := 2.
Definition mode_ok (mode : Z) (s : tst) : bool :=
  if mode =? TRACK_ANY then true
  else if mode =? TRACK_RUN then is_running s
  else is_active s.

(* PRV flags (enum prv_flags) *)
Definition PRV_EMITDUP : Z := 1.
Definition PRV_SKIPDUP : Z := 2.
Definition PRV_NEXT : Z := 4.
Definition PRV_ZERO : Z := 8.
Definition PRV_SKIPDUPNULL : Z := 16.
Definition has_flag (flags f : Z) : bool := negb (Z.land flags f =? 0).

(* PRV types of the system channels (emu_prv.h) *)
Definition PRV_CPU_PID : Z := 1.
Definition PRV_CPU_TID : Z := 2.
Definition PRV_CPU_NRUN : Z := 3.
Definition PRV_THREAD_TID : Z := 2.
Definition PRV_THREAD_STATE : Z := 4.
Definition PRV_THREAD_CPU : Z := 6.

Definition MAX_CHAN_STACK : nat := 512.

(* ------------------------------------------------------------------ *)
(* static description of a trace                                       *)

Record chanspec := {
  cs_model : Z; cs_index : Z; cs_stack : bool; cs_dup : bool;
  cs_thtrack : Z; cs_cputrack : Z; cs_type : Z; cs_flags : Z;
  cs_init : value;         (* value written at connect time (nOS-V / Nanos6 idle = Progressing) *)
  cs_cpudef : value        (* default of the CPU mux (idle = Resting) *)
}.

Record thread_info := { ti_tid : Z; ti_pid : Z; ti_loom : nat; ti_appid : Z; ti_rank : Z (* -1: the process has no rank *) }.
Record cpu_info := { ci_virtual : bool; ci_loom : nat; ci_index : Z (* index inside the loom, -1 for the vCPU *) }.

Record static := {
  s_threads : list thread_info;        (* position = gindex *)
  s_cpus : list cpu_info;              (* position = gindex *)
  s_chans : list chanspec;             (* enabled models' channels, in a fixed order *)
  s_lint : bool                        (* -l *)
}.

(* ------------------------------------------------------------------ *)
(* dynamic state                                                       *)

Record raw := { r_stk : list Z; r_val : value }.
Definition raw_read (sp : chanspec) (r : raw) : value :=
  if cs_stack sp then match r_stk r with x :: _ => Some x | [] => None end else r_val r.

Record thread := {
  t_state : tst;
  t_cpu : option nat;
  t_ooc : bool;                         (* is_out_of_cpu *)
  t_raw : list raw;                     (* one per s_chans entry *)
  t_bstack : list (Z * Z * Z)           (* task bodies on this thread: (model, task id, body id), top first *)
}.

(* tasks and bodies (src/emu/task.c, body.c) *)
Inductive bstate := BCreated | BRunning | BPaused | BDead.
Record body := { b_id : Z; b_state : bstate; b_on : option nat (* thread whose stack holds it *) }.
Record task := {
  tk_loom : nat; tk_pid : Z; tk_model : Z; tk_id : Z; tk_gid : Z;
  tk_par : bool; tk_res : bool; tk_pause : bool; tk_relax : bool;
  tk_bodies : list body
}.
Record ttype := { ty_loom : nat; ty_pid : Z; ty_model : Z; ty_id : Z; ty_gid : Z }.

Record state := {
  threads : list thread;
  cpu_threads : list (list nat);        (* per CPU: threads bound to it, in DL_APPEND order *)
  cpu_touched : list bool;              (* per CPU: cpu_update() has run at least once (its channels hold values, not null) *)
  tasks : list task;
  types : list ttype;
  prv_last : list ((bool * nat * Z) * value)   (* (is cpu file, row, type) -> last emitted value (when duplicates matter) *)
}.

(* a PRV line: file (false = thread.prv, true = cpu.prv), row (0-based gindex), type, printed value *)
Record line := { l_cpu : bool; l_row : nat; l_type : Z; l_val : Z }.

Inductive result (A : Type) := Ok (a : A) | Err (why : nat).
Arguments Ok {A} a.
Arguments Err {A} why.

(* error codes, only used to explain disagreements *)
Definition E_STATE := 1%nat.      (* illegal thread transition *)
Definition E_CPU := 2%nat.        (* no such CPU / thread has no CPU / already has a CPU *)
Definition E_OVERSUB := 3%nat.
Definition E_DUP := 4%nat.        (* duplicate or double write refused by a channel *)
Definition E_STACK := 5%nat.      (* bad pop / full stack *)
Definition E_UNKNOWN := 6%nat.    (* unknown event for the model *)
Definition E_THSTATE := 7%nat.    (* thread not in the state the model requires *)
Definition E_PRV := 8%nat.        (* PRV refuses the value (duplicate / zero) *)
Definition E_PAYLOAD := 9%nat.
Definition E_END := 10%nat.       (* end-of-trace checks *)
Definition E_OOC := 11%nat.

(* ------------------------------------------------------------------ *)
(* list helpers                                                        *)

Fixpoint update {A} (l : list A) (n : nat) (x : A) : list A :=
  match l, n with
  | [], _ => []
  | _ :: t, O => x :: t
  | h :: t, S k => h :: update t k x
  end.

Definition nth_opt {A} (l : list A) (n : nat) : option A := nth_error l n.

Fixpoint remove_nat (x : nat) (l : list nat) : list nat :=
  match l with
  | [] => []
  | y :: t => if Nat.eqb x y then t else y :: remove_nat x t
  end.

Definition mem_nat (x : nat) (l : list nat) : bool := existsb (Nat.eqb x) l.

(* ------------------------------------------------------------------ *)
(* CPU view: cpu_update()                                              *)

Definition dummy_thread : thread := {| t_state := Unknown; t_cpu := None; t_ooc := false; t_raw := []; t_bstack := [] |}.
Definition thread_state_of (st : state) (t : nat) : tst := t_state (nth t (threads st) dummy_thread).

Definition running_on (st : state) (c : nat) : list nat :=
  filter (fun t => is_running (thread_state_of st t)) (nth c (cpu_threads st) []).

Definition nrunning (st : state) (c : nat) : nat := length (running_on st c).

(* unique running thread of the CPU (th_running channel), None otherwise *)
Definition th_running (st : state) (c : nat) : option nat :=
  match running_on st c with [t] => Some t | _ => None end.

Definition cpu_is_virtual (sx : static) (c : nat) : bool :=
  match nth_opt (s_cpus sx) c with Some ci => ci_virtual ci | None => false end.

Definition oversubscribed (sx : static) (st : state) (c : nat) : bool :=
  negb (cpu_is_virtual sx c) && Nat.ltb 1 (nrunning st c).

(* loom_get_cpu(loom, index) *)
Fixpoint find_cpu_from (cpus : list cpu_info) (loom : nat) (index : Z) (g : nat) : option nat :=
  match cpus with
  | [] => None
  | ci :: r => if Nat.eqb (ci_loom ci) loom && (ci_index ci =? index) then Some g
               else find_cpu_from r loom index (S g)
  end.
Definition find_cpu (sx : static) (loom : nat) (index : Z) : option nat :=
  find_cpu_from (s_cpus sx) loom index 0.

Definition thread_loom (sx : static) (t : nat) : nat :=
  match nth_opt (s_threads sx) t with Some ti => ti_loom ti | None => 0%nat end.

(* proc_find_thread, then loom_find_thread: a thread of the same loom with that tid;
   the process of the caller is searched first *)
Fixpoint find_tid_from (l : list thread_info) (p : thread_info -> bool) (tid : Z) (g : nat) : option nat :=
  match l with
  | [] => None
  | ti :: r => if p ti && (ti_tid ti =? tid) then Some g else find_tid_from r p tid (S g)
  end.
Definition find_remote (sx : static) (who : nat) (tid : Z) : option nat :=
  match nth_opt (s_threads sx) who with
  | None => None
  | Some me =>
    match find_tid_from (s_threads sx) (fun ti => Nat.eqb (ti_loom ti) (ti_loom me) && (ti_pid ti =? ti_pid me)) tid 0 with
    | Some g => Some g
    | None => find_tid_from (s_threads sx) (fun ti => Nat.eqb (ti_loom ti) (ti_loom me)) tid 0
    end
  end.

(* ------------------------------------------------------------------ *)
(* thread / affinity events (src/emu/ovni/event.c)                     *)

Inductive ohev :=
| Execute (cpuidx : Z)         (* OHx *)
| End_                         (* OHe *)
| Pause | Resume | Cool | Warm (* OHp OHr OHc OHw *)
| AffSet (cpuidx : Z)          (* OAs *)
| AffRemote (cpuidx : Z) (tid : Z).  (* OAr *)

Definition set_thread (st : state) (t : nat) (th : thread) : state :=
  {| threads := update (threads st) t th; cpu_threads := cpu_threads st; cpu_touched := cpu_touched st;
     tasks := tasks st; types := types st; prv_last := prv_last st |}.

Definition set_cpu_threads (st : state) (c : nat) (l : list nat) : state :=
  {| threads := threads st; cpu_threads := update (cpu_threads st) c l; cpu_touched := cpu_touched st;
     tasks := tasks st; types := types st; prv_last := prv_last st |}.

(* cpu_update(c) ran *)
Definition touch (st : state) (c : nat) : state :=
  {| threads := threads st; cpu_threads := cpu_threads st; cpu_touched := update (cpu_touched st) c true;
     tasks := tasks st; types := types st; prv_last := prv_last st |}.

Definition set_tasks (st : state) (tk : list task) : state :=
  {| threads := threads st; cpu_threads := cpu_threads st; cpu_touched := cpu_touched st;
     tasks := tk; types := types st; prv_last := prv_last st |}.
Definition set_types (st : state) (ty : list ttype) : state :=
  {| threads := threads st; cpu_threads := cpu_threads st; cpu_touched := cpu_touched st;
     tasks := tasks st; types := ty; prv_last := prv_last st |}.
Definition set_last (st : state) (l : list ((bool * nat * Z) * value)) : state :=
  {| threads := threads st; cpu_threads := cpu_threads st; cpu_touched := cpu_touched st;
     tasks := tasks st; types := types st; prv_last := l |}.

Definition with_state (th : thread) (s : tst) : thread :=
  {| t_state := s; t_cpu := t_cpu th; t_ooc := t_ooc th; t_raw := t_raw th; t_bstack := t_bstack th |}.
Definition with_cpu (th : thread) (c : option nat) : thread :=
  {| t_state := t_state th; t_cpu := c; t_ooc := t_ooc th; t_raw := t_raw th; t_bstack := t_bstack th |}.
Definition with_ooc (th : thread) (b : bool) : thread :=
  {| t_state := t_state th; t_cpu := t_cpu th; t_ooc := b; t_raw := t_raw th; t_bstack := t_bstack th |}.
Definition with_raw (th : thread) (r : list raw) : thread :=
  {| t_state := t_state th; t_cpu := t_cpu th; t_ooc := t_ooc th; t_raw := r; t_bstack := t_bstack th |}.
Definition with_bstack (th : thread) (b : list (Z * Z * Z)) : thread :=
  {| t_state := t_state th; t_cpu := t_cpu th; t_ooc := t_ooc th; t_raw := t_raw th; t_bstack := b |}.

(* a plain state change of a thread that keeps its CPU: guard, thread_set_state, cpu_update *)
Definition change_state (sx : static) (st : state) (who : nat) (th : thread) (ok : bool) (new : tst)
  : result state :=
  if negb ok then Err E_STATE else
  match t_cpu th with
  | None => Err E_CPU
  | Some c =>
    let st' := touch (set_thread st who (with_state th new)) c in
    if oversubscribed sx st' c then Err E_OVERSUB else Ok st'
  end.

(* cpu_migrate_thread + thread_migrate_cpu of thread t (bound to cpu old) to cpu new, old <> new *)
Definition migrate (sx : static) (st : state) (t : nat) (th : thread) (old new : nat) : result state :=
  let st1 := touch (set_cpu_threads st old (remove_nat t (nth old (cpu_threads st) []))) old in
  if mem_nat t (nth new (cpu_threads st1) []) then Err E_CPU else
  let st2 := touch (set_cpu_threads st1 new (nth new (cpu_threads st1) [] ++ [t])) new in
  if oversubscribed sx st2 new then Err E_OVERSUB else
  Ok (set_thread st2 t (with_cpu th (Some new))).

Definition oh_step (sx : static) (st : state) (who : nat) (e : ohev) : result state :=
  match nth_opt (threads st) who with
  | None => Err E_UNKNOWN
  | Some th =>
    if t_ooc th then Err E_OOC else
    match e with
    | Execute idx =>
      if is_running (t_state th) then Err E_STATE else
      match find_cpu sx (thread_loom sx who) idx with
      | None => Err E_CPU
      | Some c =>
        match t_cpu th with
        | Some _ => Err E_CPU                       (* thread_set_cpu: already has a CPU *)
        | None =>
          if mem_nat who (nth c (cpu_threads st) []) then Err E_CPU else
          let st1 := set_thread st who (with_state (with_cpu th (Some c)) Running) in
          let st2 := touch (set_cpu_threads st1 c (nth c (cpu_threads st1) [] ++ [who])) c in
          if oversubscribed sx st2 c then Err E_OVERSUB else Ok st2
        end
      end
    | End_ =>
      match t_state th with
      | Running | Cooling =>
        match t_cpu th with
        | None => Err E_CPU
        | Some c =>
          let st1 := set_thread st who (with_cpu (with_state th Dead) None) in
          Ok (touch (set_cpu_threads st1 c (remove_nat who (nth c (cpu_threads st1) []))) c)
        end
      | _ => Err E_STATE
      end
    | Pause => change_state sx st who th (match t_state th with Running | Cooling => true | _ => false end) Paused
    | Resume => change_state sx st who th (match t_state th with Paused | Warming => true | _ => false end) Running
    | Cool => change_state sx st who th (match t_state th with Running => true | _ => false end) Cooling
    | Warm => change_state sx st who th (match t_state th with Paused => true | _ => false end) Warming
    | AffSet idx =>
      match t_cpu th with
      | None => Err E_CPU
      | Some old =>
        if negb (is_active (t_state th)) then Err E_THSTATE else
        match find_cpu sx (thread_loom sx who) idx with
        | None => Err E_CPU
        | Some new => if Nat.eqb old new then Ok st else migrate sx st who th old new
        end
      end
    | AffRemote idx tid =>
      match find_remote sx who tid with
      | None => Err E_CPU
      | Some r =>
        match nth_opt (threads st) r with
        | None => Err E_CPU
        | Some rth =>
          match t_state rth with
          | Dead | Unknown => Err E_STATE
          | _ =>
            match t_cpu rth with
            | None => Err E_CPU
            | Some old =>
              match find_cpu sx (thread_loom sx who) idx with
              | None => Err E_CPU
              | Some new =>
                (* to the CPU it is already on: the CPU channels would be written twice
                   and the thread's CPU channel would repeat its value: refused *)
                if Nat.eqb old new then Err E_DUP else migrate sx st r rth old new
              end
            end
          end
        end
      end
    end
  end.

(* ------------------------------------------------------------------ *)
(* model channels: chan_push / chan_pop / chan_set                     *)

Inductive action := PUSH | POP | SET | IGN.

(* result: new raw value and whether the channel became dirty *)
Definition raw_apply (sp : chanspec) (r : raw) (a : action) (ov : value) : result (raw * bool) :=
  match a, ov with
  | IGN, _ => Ok (r, false)
  | PUSH, Some v =>
    if negb (cs_stack sp) then Err E_STACK else
    if negb (cs_dup sp) && value_eqb (raw_read sp r) (Some v) then Err E_DUP else
    if Nat.leb MAX_CHAN_STACK (length (r_stk r)) then Err E_STACK else
    Ok ({| r_stk := v :: r_stk r; r_val := r_val r |}, true)
  | POP, Some v =>
    if negb (cs_stack sp) then Err E_STACK else
    match r_stk r with
    | [] => Err E_STACK
    | x :: rest => if x =? v then Ok ({| r_stk := rest; r_val := r_val r |}, true) else Err E_STACK
    end
  | SET, _ =>
    if cs_stack sp then Err E_STACK else
    if negb (cs_dup sp) && value_eqb (r_val r) ov then Err E_DUP else
    Ok ({| r_stk := r_stk r; r_val := ov |}, true)
  | _, None => Err E_STACK
  end.

(* ------------------------------------------------------------------ *)
(* PRV emission (pv/prv.c emit)                                        *)

Definition key_eqb (a b : bool * nat * Z) : bool :=
  let '(c1, r1, t1) := a in let '(c2, r2, t2) := b in
  Bool.eqb c1 c2 && Nat.eqb r1 r2 && (t1 =? t2).

Fixpoint last_get (m : list ((bool * nat * Z) * value)) (k : bool * nat * Z) : option value :=
  match m with
  | [] => None
  | (k', v) :: r => if key_eqb k k' then Some v else last_get r k
  end.

Fixpoint last_set (m : list ((bool * nat * Z) * value)) (k : bool * nat * Z) (v : value) :=
  match m with
  | [] => [(k, v)]
  | (k', v') :: r => if key_eqb k k' then (k, v) :: r else (k', v') :: last_set r k v
  end.

(* emit one value on (file,row,type) with flags: error, or new last-map and the lines written (0 or 1) *)
Definition emit (last : list ((bool * nat * Z) * value)) (cpu : bool) (row : nat) (type flags : Z) (v : value)
  : result (list ((bool * nat * Z) * value) * list line) :=
  let k := (cpu, row, type) in
  let dup := match last_get last k with Some v0 => value_eqb v v0 | None => false end in
  let care := negb (has_flag flags PRV_EMITDUP) in
  if care && dup && has_flag flags PRV_SKIPDUP then Ok (last, []) else
  if care && dup && has_flag flags PRV_SKIPDUPNULL && (match v with None => true | _ => false end) then Ok (last, []) else
  if care && dup && negb (has_flag flags PRV_SKIPDUP) && negb (has_flag flags PRV_SKIPDUPNULL) then Err E_PRV else
  let last' := if care then last_set last k v else last in
  match v with
  | None => Ok (last', [{| l_cpu := cpu; l_row := row; l_type := type; l_val := 0 |}])
  | Some x =>
    let x' := if has_flag flags PRV_NEXT then x + 1 else x in
    if negb (has_flag flags PRV_ZERO) && (x' =? 0) then Err E_PRV
    else Ok (last', [{| l_cpu := cpu; l_row := row; l_type := type; l_val := x' |}])
  end.

(* ------------------------------------------------------------------ *)
(* views of the system channels                                        *)

Definition v_state (th : thread) : value := Some (tst_code (t_state th)).
Definition v_tid (ti : thread_info) (th : thread) : value :=
  if is_active (t_state th) then Some (ti_tid ti) else None.
Definition v_cpu (th : thread) : value :=
  match t_cpu th with Some c => Some (Z.of_nat c) | None => None end.

Definition v_nrun (st : state) (c : nat) : value :=
  if nth c (cpu_touched st) false then Some (Z.of_nat (nrunning st c)) else None.
Definition v_cputid (sx : static) (st : state) (c : nat) : value :=
  match th_running st c with
  | Some t => match nth_opt (s_threads sx) t with Some ti => Some (ti_tid ti) | None => None end
  | None => None
  end.
Definition v_cpupid (sx : static) (st : state) (c : nat) : value :=
  match th_running st c with
  | Some t => match nth_opt (s_threads sx) t with Some ti => Some (ti_pid ti) | None => None end
  | None => None
  end.

(* Every registered (file,row,type) of the two PRV files is a slot. *)
Inductive slot :=
| STh (t : nat) (which : nat)     (* thread.prv system channel: 0 CPU, 1 TID, 2 state *)
| STr (t : nat) (k : nat)         (* thread.prv, tracked model channel k *)
| SCpu (c : nat) (which : nat)    (* cpu.prv system channel: 0 TID, 1 PID, 2 nrunning *)
| SCr (c : nat) (k : nat).        (* cpu.prv, tracked model channel k *)

Definition key := (bool * nat * Z)%type.

Definition null_spec : chanspec :=
  {| cs_model := 0; cs_index := 0; cs_stack := false; cs_dup := false; cs_thtrack := 0; cs_cputrack := 0;
     cs_type := 0; cs_flags := 0; cs_init := None; cs_cpudef := None |}.
Definition spec_of (sx : static) (k : nat) : chanspec := nth k (s_chans sx) null_spec.

Definition key_of (sx : static) (s : slot) : key :=
  match s with
  | STh t w => (false, t, match w with O => PRV_THREAD_CPU | S O => PRV_THREAD_TID | _ => PRV_THREAD_STATE end)
  | STr t k => (false, t, cs_type (spec_of sx k))
  | SCpu c w => (true, c, match w with O => PRV_CPU_TID | S O => PRV_CPU_PID | _ => PRV_CPU_NRUN end)
  | SCr c k => (true, c, cs_type (spec_of sx k))
  end.

Definition flags_of (sx : static) (s : slot) : Z :=
  match s with
  | STh _ w => match w with O => PRV_NEXT | S O => 0 | _ => PRV_SKIPDUP end
  | SCpu _ w => match w with O => 0 | S O => 0 | _ => PRV_ZERO end
  | STr _ k | SCr _ k => cs_flags (spec_of sx k)
  end.

Definition empty_raw : raw := {| r_stk := []; r_val := None |}.
Definition raw_of (st : state) (t : nat) (k : nat) : raw :=
  nth k (t_raw (nth t (threads st) dummy_thread)) empty_raw.

Definition dummy_info : thread_info := {| ti_tid := 0; ti_pid := 0; ti_loom := 0; ti_appid := 0; ti_rank := -1 |}.

(* what each slot displays: the value of the channel behind it *)
Definition view (sx : static) (st : state) (s : slot) : value :=
  match s with
  | STh t w =>
    let th := nth t (threads st) dummy_thread in
    match w with O => v_cpu th | S O => v_tid (nth t (s_threads sx) dummy_info) th | _ => v_state th end
  | STr t k =>
    let sp := spec_of sx k in
    if mode_ok (cs_thtrack sp) (thread_state_of st t) then raw_read sp (raw_of st t k) else None
  | SCpu c w =>
    match w with O => v_cputid sx st c | S O => v_cpupid sx st c | _ => v_nrun st c end
  | SCr c k =>
    let sp := spec_of sx k in
    match th_running st c with
    | Some t => raw_read sp (raw_of st t k)
    | None => cs_cpudef sp
    end
  end.

Definition changed (a b : value) : bool := negb (value_eqb a b).

Definition opt_nat_eqb (a b : option nat) : bool :=
  match a, b with Some x, Some y => Nat.eqb x y | None, None => true | _, _ => false end.

Definition is_dirty (dirty : list (nat * nat)) (t k : nat) : bool :=
  existsb (fun '(t', k') => Nat.eqb t t' && Nat.eqb k k') dirty.

(* The emission rule: is the channel behind the slot written (hence offered to the PRV) in the
   event that takes old to new and writes the raw channel `dirty`?
   - system channels refuse or ignore equal values: written iff their value changes;
   - a thread tracking mux writes its output when its select (the thread state) changes or when its
     selected input (the raw channel, selected iff the mode allows the state) is written;
     mode ANY has no mux: the raw channel itself is registered;
   - a CPU tracking mux writes when its select (the unique running thread) changes or when the raw
     channel of that thread is written. *)
Definition requested (sx : static) (old new : state) (dirty : list (nat * nat)) (s : slot) : bool :=
  match s with
  | STh _ _ | SCpu _ _ => changed (view sx old s) (view sx new s)
  | STr t k =>
    let sp := spec_of sx k in
    if cs_thtrack sp =? TRACK_ANY then is_dirty dirty t k
    else negb (tst_eqb (thread_state_of old t) (thread_state_of new t))
         || (is_dirty dirty t k && mode_ok (cs_thtrack sp) (thread_state_of new t))
  | SCr c k =>
    negb (opt_nat_eqb (th_running old c) (th_running new c))
    || match th_running new c with Some t => is_dirty dirty t k | None => false end
  end.

Definition slots (sx : static) : list slot :=
  flat_map (fun t => [STh t 0; STh t 1; STh t 2] ++ map (STr t) (seq 0 (length (s_chans sx)))) (seq 0 (length (s_threads sx))) ++
  flat_map (fun c => [SCpu c 0; SCpu c 1; SCpu c 2] ++ map (SCr c) (seq 0 (length (s_chans sx)))) (seq 0 (length (s_cpus sx))).

(* a request to emit: (key, flags, value) *)
Definition req := (key * Z * value)%type.

Definition all_reqs (sx : static) (old new : state) (dirty : list (nat * nat)) : list req :=
  flat_map (fun s => if requested sx old new dirty s then [(key_of sx s, flags_of sx s, view sx new s)] else []) (slots sx).

Fixpoint emit_all (last : list (key * value)) (rs : list req) : result (list (key * value) * list line) :=
  match rs with
  | [] => Ok (last, [])
  | ((cpu, row, type), flags, v) :: r =>
    match emit last cpu row type flags v with
    | Err e => Err e
    | Ok (last1, l1) =>
      match emit_all last1 r with
      | Err e => Err e
      | Ok (last2, l2) => Ok (last2, l1 ++ l2)
      end
    end
  end.

(* ------------------------------------------------------------------ *)
(* events                                                              *)

Definition chan_step (sx : static) (st : state) (who : nat) (k : nat) (a : action) (v : value)
  : result (state * list (nat * nat)) :=
  match nth_opt (threads st) who, nth_opt (s_chans sx) k with
  | Some th, Some sp =>
    match raw_apply sp (nth k (t_raw th) empty_raw) a v with
    | Err e => Err e
    | Ok (r', dirty) =>
      Ok (set_thread st who (with_raw th (update (t_raw th) k r')), if dirty then [(who, k)] else [])
    end
  | _, _ => Err E_UNKNOWN
  end.

(* ------------------------------------------------------------------ *)
(* tasks and bodies: src/emu/task.c, body.c and the update_task() of nosv/event.c, nanos6/event.c *)

Definition E_TASK := 12%nat.

Definition bstate_eqb (a b : bstate) : bool :=
  match a, b with BCreated, BCreated | BRunning, BRunning | BPaused, BPaused | BDead, BDead => true | _, _ => false end.

Fixpoint find_task_from (l : list task) (loom : nat) (pid mdl id : Z) (i : nat) : option (nat * task) :=
  match l with
  | [] => None
  | tk :: r => if Nat.eqb (tk_loom tk) loom && (tk_pid tk =? pid) && (tk_model tk =? mdl) && (tk_id tk =? id)
               then Some (i, tk) else find_task_from r loom pid mdl id (S i)
  end.
Definition find_task (st : state) (loom : nat) (pid mdl id : Z) := find_task_from (tasks st) loom pid mdl id 0.

Fixpoint find_body_from (l : list body) (id : Z) (i : nat) : option (nat * body) :=
  match l with
  | [] => None
  | b :: r => if b_id b =? id then Some (i, b) else find_body_from r id (S i)
  end.
Definition find_body (tk : task) (id : Z) := find_body_from (tk_bodies tk) id 0.

Fixpoint find_type (l : list ttype) (loom : nat) (pid mdl id : Z) : option ttype :=
  match l with
  | [] => None
  | ty :: r => if Nat.eqb (ty_loom ty) loom && (ty_pid ty =? pid) && (ty_model ty =? mdl) && (ty_id ty =? id)
               then Some ty else find_type r loom pid mdl id
  end.

Definition set_bodies (tk : task) (bs : list body) : task :=
  {| tk_loom := tk_loom tk; tk_pid := tk_pid tk; tk_model := tk_model tk; tk_id := tk_id tk; tk_gid := tk_gid tk;
     tk_par := tk_par tk; tk_res := tk_res tk; tk_pause := tk_pause tk; tk_relax := tk_relax tk; tk_bodies := bs |}.

(* state of a body given (model, task id, body id) as stored in a thread's stack; the task is looked up in the
   process of that thread *)
Definition body_state_of (st : state) (loom : nat) (pid : Z) (e : Z * Z * Z) : option (task * body) :=
  let '(mdl, tid, bid) := e in
  match find_task st loom pid mdl tid with
  | Some (_, tk) => match find_body tk bid with Some (_, b) => Some (tk, b) | None => None end
  | None => None
  end.

(* the stack of one model on a thread *)
Definition model_stack (th : thread) (mdl : Z) : list (Z * Z * Z) :=
  filter (fun '(m, _, _) => m =? mdl) (t_bstack th).

(* body_get_running: the top of the stack if it is running *)
Definition running_top (st : state) (loom : nat) (pid : Z) (th : thread) (mdl : Z) : option (task * body) :=
  match model_stack th mdl with
  | e :: _ => match body_state_of st loom pid e with
              | Some (tk, b) => if bstate_eqb (b_state b) BRunning then Some (tk, b) else None
              | None => None
              end
  | [] => None
  end.

Definition is_top (th : thread) (mdl tid bid : Z) : bool :=
  match model_stack th mdl with
  | (_, t, b) :: _ => (t =? tid) && (b =? bid)
  | [] => false
  end.

Fixpoint remove_entry (l : list (Z * Z * Z)) (mdl tid bid : Z) : list (Z * Z * Z) :=
  match l with
  | [] => []
  | (m, t, b) :: r => if (m =? mdl) && (t =? tid) && (b =? bid) then r else (m, t, b) :: remove_entry r mdl tid bid
  end.

(* task_execute/pause/resume/end on body `bid` of task index ti; returns new state *)
Definition store_body (st : state) (ti : nat) (tk : task) (bi : option nat) (b : body) : state :=
  let bs := match bi with Some i => update (tk_bodies tk) i b | None => tk_bodies tk ++ [b] end in
  set_tasks st (update (tasks st) ti (set_bodies tk bs)).

Definition task_op (st : state) (who : nat) (th : thread) (loom : nat) (pid : Z) (mdl : Z) (kind : Z) (tid bid : Z)
  : result state :=
  match find_task st loom pid mdl tid with
  | None => Err E_TASK
  | Some (ti, tk) =>
    let fb := find_body tk bid in
    if kind =? 120 then (* x : task_execute *)
      (* create the body if needed: one body only for non-parallel tasks *)
      match (match fb with
             | Some (i, b) => Some (Some i, b)
             | None => if negb (tk_par tk) && negb (Nat.eqb (length (tk_bodies tk)) 0) then None
                       else Some (None, {| b_id := bid; b_state := BCreated; b_on := None |})
             end) with
      | None => Err E_TASK
      | Some (bi, b) =>
        (* body_execute *)
        let st0 := match b_state b with BDead => if tk_res tk then Some BCreated else None | s => Some s end in
        match st0 with
        | None => Err E_TASK
        | Some BCreated =>
          match b_on b with
          | Some _ => Err E_TASK
          | None =>
            match running_top st loom pid th mdl with
            | Some (tk', _) => if tk_relax tk' then
                                 Ok (set_thread (store_body st ti tk bi {| b_id := bid; b_state := BRunning; b_on := Some who |})
                                                who (with_bstack th ((mdl, tid, bid) :: t_bstack th)))
                               else Err E_TASK
            | None => Ok (set_thread (store_body st ti tk bi {| b_id := bid; b_state := BRunning; b_on := Some who |})
                                     who (with_bstack th ((mdl, tid, bid) :: t_bstack th)))
            end
          end
        | Some _ => Err E_TASK
        end
      end
    else
      match fb with
      | None => Err E_TASK
      | Some (bi, b) =>
        let on_me := match b_on b with Some w => Nat.eqb w who | None => false end in
        if kind =? 112 then (* p *)
          if negb (tk_pause tk) then Err E_TASK else
          if negb (bstate_eqb (b_state b) BRunning) then Err E_TASK else
          if negb on_me then Err E_TASK else
          if negb (is_top th mdl tid bid) then Err E_TASK else
          Ok (store_body st ti tk (Some bi) {| b_id := bid; b_state := BPaused; b_on := b_on b |})
        else if kind =? 114 then (* r *)
          if negb (bstate_eqb (b_state b) BPaused) then Err E_TASK else
          if negb on_me then Err E_TASK else
          if negb (is_top th mdl tid bid) then Err E_TASK else
          Ok (store_body st ti tk (Some bi) {| b_id := bid; b_state := BRunning; b_on := b_on b |})
        else if kind =? 101 then (* e *)
          if negb (bstate_eqb (b_state b) BRunning) then Err E_TASK else
          if negb on_me then Err E_TASK else
          if negb (is_top th mdl tid bid) then Err E_TASK else
          Ok (set_thread (store_body st ti tk (Some bi) {| b_id := bid; b_state := BDead; b_on := None |})
                         who (with_bstack th (remove_entry (t_bstack th) mdl tid bid)))
        else Err E_TASK
      end
  end.

(* channel fields written when a body starts/stops running *)
Inductive tfield := FBody | FTask | FType | FApp | FRank.

Record taskcfg := {
  tc_need : Z;                     (* thread-state requirement, as for EvChan *)
  tc_bodyrule : bool;              (* nOS-V: body id 0 <-> non-parallel (stored as 1), >0 <-> parallel; Nanos6: always 1 *)
  tc_ss : nat; tc_ssval : Z;       (* subsystem channel and the "task body" value pushed on x / popped on e *)
  tc_chans : list (tfield * nat);  (* which channel shows which field *)
  tc_appid_checked : bool          (* chan_body_running refuses appid <= 0 (nOS-V) *)
}.

Fixpoint set_chans (sx : static) (st : state) (who : nat) (ws : list (nat * value)) (dirty : list (nat * nat))
  : result (state * list (nat * nat)) :=
  match ws with
  | [] => Ok (st, dirty)
  | (k, v) :: r =>
    match chan_step sx st who k SET v with
    | Err e => Err e
    | Ok (st', d) => set_chans sx st' who r (dirty ++ d)
    end
  end.

Definition field_value (ti : thread_info) (tk : task) (b : body) (f : tfield) : value :=
  match f with
  | FBody => Some (b_id b) | FTask => Some (tk_id tk) | FType => Some (tk_gid tk)
  | FApp => Some (ti_appid ti) | FRank => Some (ti_rank ti + 1)
  end.

Definition task_event (sx : static) (st : state) (who : nat) (cfg : taskcfg) (mdl kind tid rawbid : Z)
  : result (state * list (nat * nat)) :=
  match nth_opt (threads st) who, nth_opt (s_threads sx) who with
  | Some th, Some ti =>
    let loom := ti_loom ti in let pid := ti_pid ti in
    match find_task st loom pid mdl tid with
    | None => Err E_TASK
    | Some (_, tk0) =>
      (* body id rule *)
      let obid := if tc_bodyrule cfg then
                    (if tk_par tk0 then (if rawbid =? 0 then None else Some rawbid)
                     else (if rawbid =? 0 then Some 1 else None))
                  else Some 1 in
      match obid with
      | None => Err E_TASK
      | Some bid =>
        let prev := running_top st loom pid th mdl in
        match task_op st who th loom pid mdl kind tid bid with
        | Err e => Err e
        | Ok st1 =>
          let th1 := nth who (threads st1) dummy_thread in
          let next := running_top st1 loom pid th1 mdl in
          (* subsystem channel: pushed on x, popped on e *)
          let ssr := if kind =? 120 then chan_step sx st1 who (tc_ss cfg) PUSH (Some (tc_ssval cfg))
                     else if kind =? 101 then chan_step sx st1 who (tc_ss cfg) POP (Some (tc_ssval cfg))
                     else Ok (st1, []) in
          match ssr with
          | Err e => Err e
          | Ok (st2, d1) =>
            let was := match prev with Some _ => true | None => false end in
            let now := match next with Some _ => true | None => false end in
            (* x over a running body = X (nested); e that uncovers a running body = E *)
            let nested := ((kind =? 120) && was) || ((kind =? 101) && now) in
            let fields := filter (fun '(f, _) => match f with FRank => 0 <=? ti_rank ti | _ => true end) (tc_chans cfg) in
            let writes : result (list (nat * value)) :=
              if nested then
                match prev, next with
                | Some (tp, bp), Some (tn, bn) =>
                  (* cannot switch to the same body (nOS-V) / task (Nanos6) *)
                  if (tk_id tp =? tk_id tn) && (if tc_bodyrule cfg then b_id bp =? b_id bn else true) then Err E_TASK
                  else if (tk_id tn =? 0) || (tk_gid tn =? 0) then Err E_TASK
                  else Ok (map (fun '(f, k) => (k, field_value ti tn bn f)) fields)
                | _, _ => Err E_TASK
                end
              else if (kind =? 120) || (kind =? 114) then
                match next with
                | Some (tn, bn) =>
                  if (tk_id tn =? 0) || (tk_gid tn =? 0) || (tc_appid_checked cfg && (ti_appid ti <=? 0)) then Err E_TASK
                  else Ok (map (fun '(f, k) => (k, field_value ti tn bn f)) fields)
                | None => Err E_TASK
                end
              else Ok (map (fun '(f, k) => (k, None)) fields) in
            match writes with
            | Err e => Err e
            | Ok ws =>
              match set_chans sx st2 who ws d1 with
              | Err e => Err e
              | Ok (st3, d) =>
                (* enforce_task_rules: after x the innermost subsystem is the task body *)
                if kind =? 120 then
                  match raw_read (spec_of sx (tc_ss cfg)) (raw_of st3 who (tc_ss cfg)) with
                  | Some v => if v =? tc_ssval cfg then Ok (st3, d) else Err E_TASK
                  | None => Ok (st3, d)
                  end
                else Ok (st3, d)
              end
            end
          end
        end
      end
    end
  | _, _ => Err E_UNKNOWN
  end.

Definition task_create (sx : static) (st : state) (who : nat) (mdl tid typeid : Z) (par res pause relax : bool) : result state :=
  match nth_opt (s_threads sx) who with
  | None => Err E_UNKNOWN
  | Some ti =>
    match find_task st (ti_loom ti) (ti_pid ti) mdl tid with
    | Some _ => Err E_TASK
    | None =>
      match find_type (types st) (ti_loom ti) (ti_pid ti) mdl typeid with
      | None => Err E_TASK
      | Some ty =>
        Ok (set_tasks st (tasks st ++ [{| tk_loom := ti_loom ti; tk_pid := ti_pid ti; tk_model := mdl; tk_id := tid; tk_gid := ty_gid ty;
                                          tk_par := par; tk_res := res; tk_pause := pause; tk_relax := relax; tk_bodies := [] |}]))
      end
    end
  end.

Definition type_create (sx : static) (st : state) (who : nat) (mdl typeid gid : Z) : result state :=
  match nth_opt (s_threads sx) who with
  | None => Err E_UNKNOWN
  | Some ti =>
    match find_type (types st) (ti_loom ti) (ti_pid ti) mdl typeid with
    | Some _ => Err E_TASK
    | None => if typeid =? 0 then Err E_TASK
              else Ok (set_types st (types st ++ [{| ty_loom := ti_loom ti; ty_pid := ti_pid ti; ty_model := mdl; ty_id := typeid; ty_gid := gid |}]))
    end
  end.

Definition need_ok (need : Z) (th : thread) : bool :=
  negb (((need =? 1) && negb (is_running (t_state th))) ||
        ((need =? 2) && negb (is_active (t_state th))) ||
        ((need =? 3) && t_ooc th) ||
        ((need =? 4) && (negb (is_active (t_state th)) || t_ooc th))).

Inductive event :=
| EvOvni (e : ohev)
| EvChan (k : nat) (a : action) (v : value) (need : Z)   (* table-driven model event on channel k; need: 0 none, 1 running, 2 active; *)
| EvOoc (k : nat) (out : bool) (v : Z)               (* kernel context switch: KCO / KCI on channel k *)
| EvTask (cfg : taskcfg) (mdl kind tid bid : Z)      (* VTx VTe VTp VTr / 6Tx ... *)
| EvTaskCreate (need mdl tid typeid : Z) (par res pause relax : bool)
| EvTypeCreate (need mdl typeid gid : Z)
| EvNop                                              (* accepted and ignored (OU[, OU], OB., OCn) *)
| EvBad (why : nat).                                 (* decoder could not place it: rejected *)

(* the handler of one event: new semantic state and the raw channel it wrote, if any *)
Definition core_step (sx : static) (st : state) (who : nat) (ev : event) : result (state * list (nat * nat)) :=
  match ev with
  | EvBad why => Err why
  | EvNop =>
    match nth_opt (threads st) who with
    | Some th => if t_ooc th then Err E_OOC else Ok (st, [])
    | None => Err E_UNKNOWN
    end
  | EvOvni e => match oh_step sx st who e with Ok s => Ok (s, []) | Err e => Err e end
  | EvChan k a v need =>
    match nth_opt (threads st) who with
    | None => Err E_UNKNOWN
    | Some th =>
      if (need =? 1) && negb (is_running (t_state th)) then Err E_THSTATE else
      if (need =? 2) && negb (is_active (t_state th)) then Err E_THSTATE else
      if (need =? 3) && t_ooc th then Err E_OOC else      (* ovni flush: only the out-of-CPU guard *)
      if (need =? 4) && (negb (is_active (t_state th)) || t_ooc th) then Err E_THSTATE else  (* nOS-V: active and in CPU *)
      chan_step sx st who k a v
    end
  | EvOoc k out v =>
    match nth_opt (threads st) who with
    | None => Err E_UNKNOWN
    | Some th => chan_step sx (set_thread st who (with_ooc th out)) who k (if out then PUSH else POP) (Some v)
    end
  | EvTask cfg mdl kind tid bid =>
    match nth_opt (threads st) who with
    | None => Err E_UNKNOWN
    | Some th => if need_ok (tc_need cfg) th then task_event sx st who cfg mdl kind tid bid else Err E_THSTATE
    end
  | EvTaskCreate need mdl tid typeid par res pause relax =>
    match nth_opt (threads st) who with
    | None => Err E_UNKNOWN
    | Some th => if need_ok need th then
                   match task_create sx st who mdl tid typeid par res pause relax with Ok s => Ok (s, []) | Err e => Err e end
                 else Err E_THSTATE
    end
  | EvTypeCreate need mdl typeid gid =>
    match nth_opt (threads st) who with
    | None => Err E_UNKNOWN
    | Some th => if need_ok need th then
                   match type_create sx st who mdl typeid gid with Ok s => Ok (s, []) | Err e => Err e end
                 else Err E_THSTATE
    end
  end.

(* handler, then propagation: every written channel is offered to the PRV *)
Definition step (sx : static) (st : state) (who : nat) (ev : event) : result (state * list line) :=
  match core_step sx st who ev with
  | Err e => Err e
  | Ok (st1, dirty) =>
    match emit_all (prv_last st1) (all_reqs sx st st1 dirty) with
    | Err e => Err e
    | Ok (last', ls) =>
      Ok (set_last st1 last', ls)
    end
  end.

(* ------------------------------------------------------------------ *)
(* whole run                                                           *)

Definition init_thread (sx : static) : thread :=
  {| t_state := Unknown; t_cpu := None; t_ooc := false;
     t_raw := map (fun sp => {| r_stk := []; r_val := cs_init sp |}) (s_chans sx); t_bstack := [] |}.

Definition init (sx : static) : state :=
  {| threads := map (fun _ => init_thread sx) (s_threads sx);
     cpu_threads := map (fun _ => []) (s_cpus sx);
     cpu_touched := map (fun _ => false) (s_cpus sx);
     tasks := []; types := [];
     prv_last := [] |}.

(* timed events: (time, thread gindex, event); output lines carry the time *)
Fixpoint run_from (sx : static) (st : state) (evs : list (Z * nat * event)) : result (state * list (Z * line)) :=
  match evs with
  | [] => Ok (st, [])
  | (tm, who, ev) :: r =>
    match step sx st who ev with
    | Err e => Err e
    | Ok (st1, ls) =>
      match run_from sx st1 r with
      | Err e => Err e
      | Ok (st2, ls2) => Ok (st2, map (fun l => (tm, l)) ls ++ ls2)
      end
    end
  end.

(* end of trace: every thread dead; in lint mode no open stack region on the listed channels *)
Definition all_dead (st : state) : bool := forallb (fun th => tst_eqb (t_state th) Dead) (threads st).

Definition lint_ok (sx : static) (lintchans : list nat) (st : state) : bool :=
  forallb (fun th => forallb (fun k => match r_stk (nth k (t_raw th) {| r_stk := []; r_val := None |}) with [] => true | _ => false end) lintchans)
          (threads st).

Definition run (sx : static) (lintchans : list nat) (evs : list (Z * nat * event)) : result (list (Z * line)) :=
  match run_from sx (init sx) evs with
  | Err e => Err e
  | Ok (st, ls) =>
    if negb (all_dead st) then Err E_END
    else if s_lint sx && negb (lint_ok sx lintchans st) then Err E_END
    else Ok ls
  end.
