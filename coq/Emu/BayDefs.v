(* Mechanical layer of the emulator core (DESIGN.md section 5 "emucore", bay layer):
   channels (src/emu/chan.c), the bay with its per-channel callback lists, dirty list and the
   three-phase bay_propagate (bay.c), muxes (mux.c: cb_select, cb_input, cb_reselect, the default
   select and thread_select_running / thread_select_active of thread.c), the tracking wiring built
   by track.c + model_thread.c + model_cpu.c + thread_connect / cpu_connect + model_pvt.c, and a
   mechanical event step (handler channel writes, then bay_propagate) whose PRV output goes through
   the same `emit` as the semantic layer (pv/prv.c).  Definitions only; executable.

   Not modelled: VALUE_DOUBLE (the tracked channels carry null / int64 only), channel names and the
   uthash tables (a channel is its index), the `(enum thread_state) value.i` truncation of the
   custom select functions (thread states are small), bay_remove (never called while emulating),
   struct bay_chan.is_dirty (no statement of bay.c ever sets it, so the two die() calls of
   bay_enable_cb / bay_disable_cb and the "already on dirty list" test are dead code). *)
From Coq Require Import ZArith List Bool.
From OV Require Import Emu.EmuCoreDefs.
Import ListNotations.
Local Open Scope Z_scope.

(* error codes of the mechanical layer (the semantic ones are < 20) *)
Definition E_FUEL := 20%nat.      (* worklist fuel exhausted: excluded by BayProofs.propagate_fuel *)
Definition E_WIRING := 21%nat.    (* reference to a channel / mux / input that does not exist *)
Definition E_SELFMOD := 22%nat.   (* a callback changed the callback list that is being walked *)
Definition E_DIRTY := 23%nat.     (* chan.c: "cannot modify dirty channel" / "already dirty" *)
Definition E_SELECT := 24%nat.    (* select function failed (index out of bounds, ninputs <> 1) *)
Definition E_FLUSH := 25%nat.     (* chan_flush on a clean channel *)

(* ------------------------------------------------------------------ *)
(* chan.c                                                              *)

Record chan := {
  c_stack : bool;            (* type == CHAN_STACK *)
  c_val : value;             (* data.value *)
  c_stk : list value;        (* data.stack, top first *)
  c_last : value;            (* last_value: the value at the last flush *)
  c_dirty : bool;            (* is_dirty *)
  c_dw : bool;               (* prop[CHAN_DIRTY_WRITE] *)
  c_allow : bool;            (* prop[CHAN_ALLOW_DUP] *)
  c_ign : bool               (* prop[CHAN_IGNORE_DUP] *)
}.

Definition mk_chan (stack dw allow ign : bool) : chan :=
  {| c_stack := stack; c_val := None; c_stk := []; c_last := None; c_dirty := false;
     c_dw := dw; c_allow := allow; c_ign := ign |}.

(* chan_read / get_value *)
Definition chan_read (c : chan) : value :=
  if c_stack c then match c_stk c with v :: _ => v | [] => None end else c_val c.

Definition with_val (c : chan) (v : value) : chan :=
  {| c_stack := c_stack c; c_val := v; c_stk := c_stk c; c_last := c_last c; c_dirty := c_dirty c;
     c_dw := c_dw c; c_allow := c_allow c; c_ign := c_ign c |}.
Definition with_stk (c : chan) (s : list value) : chan :=
  {| c_stack := c_stack c; c_val := c_val c; c_stk := s; c_last := c_last c; c_dirty := c_dirty c;
     c_dw := c_dw c; c_allow := c_allow c; c_ign := c_ign c |}.
Definition with_dirty (c : chan) (d : bool) : chan :=
  {| c_stack := c_stack c; c_val := c_val c; c_stk := c_stk c; c_last := c_last c; c_dirty := d;
     c_dw := c_dw c; c_allow := c_allow c; c_ign := c_ign c |}.
(* chan_flush: last_value := current value, is_dirty := 0 *)
Definition flushed (c : chan) : chan :=
  {| c_stack := c_stack c; c_val := c_val c; c_stk := c_stk c; c_last := chan_read c; c_dirty := false;
     c_dw := c_dw c; c_allow := c_allow c; c_ign := c_ign c |}.

(* ------------------------------------------------------------------ *)
(* mux.c, bay.c                                                        *)

(* SelCustom g: a select function given by the model (breakdown.c select_tr / select_idle); it gets the current
   values of the mux's input channels (it reads them through mux_get_input(mux, i)->chan) and the select value *)
Inductive selfun := SelDefault | SelRunning | SelActive | SelCustom (g : list value -> value -> result (option nat)).

(* a dirty callback: identity = (function, argument) *)
Inductive dcb :=
| DSelect (m : nat)          (* cb_select of mux m, on its select channel; always enabled *)
| DInput (m i : nat)         (* cb_input of input i of mux m, on that input's channel *)
| DReselect (m : nat).       (* cb_reselect of mux m (mux_add_reselect); always enabled *)

Definition dcb_eqb (a b : dcb) : bool :=
  match a, b with
  | DSelect m, DSelect m' => Nat.eqb m m'
  | DInput m i, DInput m' i' => Nat.eqb m m' && Nat.eqb i i'
  | DReselect m, DReselect m' => Nat.eqb m m'
  | _, _ => false
  end.

Fixpoint dcbs_eqb (a b : list dcb) : bool :=
  match a, b with
  | [], [] => true
  | x :: a', y :: b' => dcb_eqb x y && dcbs_eqb a' b'
  | _, _ => false
  end.

(* an emit callback: cb_prv with its struct prv_chan (file, row, type, flags) *)
Record ecb := { e_cpu : bool; e_row : nat; e_type : Z; e_flags : Z }.

Record mux := {
  mx_init : bool;              (* mux_init ran (struct track embeds a zeroed, unused mux for TRACK_TH_ANY) *)
  mx_sel : nat;                (* select channel *)
  mx_out : nat;                (* output channel *)
  mx_fun : selfun;
  mx_def : value;              (* mux->def *)
  mx_ins : list nat;           (* inputs[i].chan *)
  mx_en : list bool;           (* inputs[i].cb->enabled *)
  mx_selected : option nat     (* mux->selected (None = -1); 0 after mux_init's memset *)
}.

Record bay := {
  b_chans : list chan;
  b_dcbs : list (list dcb);    (* per channel: bchan->cb[BAY_CB_DIRTY], the ENABLED callbacks in list order *)
  b_ecbs : list (list ecb);    (* per channel: bchan->cb[BAY_CB_EMIT] *)
  b_muxes : list mux;
  b_dirty : list nat           (* bay->dirty *)
}.

Definition set_chan (b : bay) (c : nat) (ch : chan) : bay :=
  {| b_chans := update (b_chans b) c ch; b_dcbs := b_dcbs b; b_ecbs := b_ecbs b; b_muxes := b_muxes b; b_dirty := b_dirty b |}.
Definition set_dcbs (b : bay) (c : nat) (l : list dcb) : bay :=
  {| b_chans := b_chans b; b_dcbs := update (b_dcbs b) c l; b_ecbs := b_ecbs b; b_muxes := b_muxes b; b_dirty := b_dirty b |}.
Definition set_mux (b : bay) (m : nat) (mx : mux) : bay :=
  {| b_chans := b_chans b; b_dcbs := b_dcbs b; b_ecbs := b_ecbs b; b_muxes := update (b_muxes b) m mx; b_dirty := b_dirty b |}.
Definition set_dirty_list (b : bay) (l : list nat) : bay :=
  {| b_chans := b_chans b; b_dcbs := b_dcbs b; b_ecbs := b_ecbs b; b_muxes := b_muxes b; b_dirty := l |}.

Definition mux_with_en (mx : mux) (en : list bool) : mux :=
  {| mx_init := mx_init mx; mx_sel := mx_sel mx; mx_out := mx_out mx; mx_fun := mx_fun mx; mx_def := mx_def mx;
     mx_ins := mx_ins mx; mx_en := en; mx_selected := mx_selected mx |}.
Definition mux_with_selected (mx : mux) (s : option nat) : mux :=
  {| mx_init := mx_init mx; mx_sel := mx_sel mx; mx_out := mx_out mx; mx_fun := mx_fun mx; mx_def := mx_def mx;
     mx_ins := mx_ins mx; mx_en := mx_en mx; mx_selected := s |}.

Definition dcbs_of (b : bay) (c : nat) : list dcb := nth c (b_dcbs b) [].
Definition ecbs_of (b : bay) (c : nat) : list ecb := nth c (b_ecbs b) [].

(* set_dirty(): the channel `ch` (already holding its new data) becomes dirty; the first time, the
   bay's cb_chan_is_dirty appends it to the dirty list *)
Definition mark_dirty (b : bay) (c : nat) (ch : chan) : result bay :=
  if c_dirty ch then
    if c_dw ch then Ok (set_chan b c ch) else Err E_DIRTY
  else
    let b1 := set_chan b c (with_dirty ch true) in
    Ok (set_dirty_list b1 (b_dirty b1 ++ [c])).

(* the common prefix of chan_set / chan_push: Some r = return r now *)
Definition dup_check (ch : chan) (v : value) : option (result unit) :=
  if negb (c_allow ch) && value_eqb (c_last ch) v then
    Some (if c_ign ch then Ok tt else Err E_DUP)
  else None.

Definition chan_set (b : bay) (c : nat) (v : value) : result bay :=
  match nth_error (b_chans b) c with
  | None => Err E_WIRING
  | Some ch =>
    if c_stack ch then Err E_STACK else
    if c_dirty ch && negb (c_dw ch) then Err E_DIRTY else
    match dup_check ch v with
    | Some (Ok _) => Ok b
    | Some (Err e) => Err e
    | None => mark_dirty b c (with_val ch v)
    end
  end.

Definition chan_push (b : bay) (c : nat) (v : value) : result bay :=
  match nth_error (b_chans b) c with
  | None => Err E_WIRING
  | Some ch =>
    if negb (c_stack ch) then Err E_STACK else
    if c_dirty ch && negb (c_dw ch) then Err E_DIRTY else
    match dup_check ch v with
    | Some (Ok _) => Ok b
    | Some (Err e) => Err e
    | None =>
      if Nat.leb MAX_CHAN_STACK (length (c_stk ch)) then Err E_STACK
      else mark_dirty b c (with_stk ch (v :: c_stk ch))
    end
  end.

Definition chan_pop (b : bay) (c : nat) (v : value) : result bay :=
  match nth_error (b_chans b) c with
  | None => Err E_WIRING
  | Some ch =>
    if negb (c_stack ch) then Err E_STACK else
    if c_dirty ch && negb (c_dw ch) then Err E_DIRTY else
    match c_stk ch with
    | [] => Err E_STACK
    | x :: rest => if value_eqb x v then mark_dirty b c (with_stk ch rest) else Err E_STACK
    end
  end.

(* ---- select functions: Ok None = no input selected *)
Definition run_select (f : selfun) (ninputs : nat) (v : value) : result (option nat) :=
  match v with
  | None => Ok None
  | Some x =>
    match f with
    | SelDefault =>                       (* mux.c default_select *)
      if (x <? 0) || (Z.of_nat ninputs <=? x) then Err E_SELECT else Ok (Some (Z.to_nat x))
    | SelRunning =>                       (* thread.c thread_select_running *)
      if negb (Nat.eqb ninputs 1) then Err E_SELECT
      else Ok (if x =? 1 then Some 0%nat else None)
    | SelActive =>                        (* thread.c thread_select_active *)
      if negb (Nat.eqb ninputs 1) then Err E_SELECT
      else Ok (if (x =? 1) || (x =? 4) || (x =? 5) then Some 0%nat else None)
    | SelCustom _ => Err E_SELECT         (* needs the input values: run_select_in *)
    end
  end.

(* the select function of a mux on bay b *)
Definition input_values (b : bay) (mx : mux) : list value :=
  map (fun c => match nth_error (b_chans b) c with Some ch => chan_read ch | None => None end) (mx_ins mx).
Definition run_select_in (b : bay) (mx : mux) (v : value) : result (option nat) :=
  match mx_fun mx with
  | SelCustom g =>
    match g (input_values b mx) v with
    | Ok (Some i) => if Nat.ltb i (length (mx_ins mx)) then Ok (Some i) else Err E_SELECT
    | Ok None => Ok None
    | Err _ => Err E_SELECT
    end
  | f => run_select f (length (mx_ins mx)) v
  end.

(* bay_enable_cb / bay_disable_cb on the cb_input of input i of mux m *)
Fixpoint remove_dcb (d : dcb) (l : list dcb) : list dcb :=
  match l with
  | [] => []
  | x :: r => if dcb_eqb d x then r else x :: remove_dcb d r
  end.

Definition enable_input (b : bay) (m i : nat) : result bay :=
  match nth_error (b_muxes b) m with
  | None => Err E_WIRING
  | Some mx =>
    match nth_error (mx_en mx) i, nth_error (mx_ins mx) i with
    | Some en, Some c =>
      if en then Ok b
      else Ok (set_dcbs (set_mux b m (mux_with_en mx (update (mx_en mx) i true))) c (dcbs_of b c ++ [DInput m i]))
    | _, _ => Err E_WIRING
    end
  end.

Definition disable_input (b : bay) (m i : nat) : result bay :=
  match nth_error (b_muxes b) m with
  | None => Err E_WIRING
  | Some mx =>
    match nth_error (mx_en mx) i, nth_error (mx_ins mx) i with
    | Some en, Some c =>
      if en then Ok (set_dcbs (set_mux b m (mux_with_en mx (update (mx_en mx) i false))) c (remove_dcb (DInput m i) (dcbs_of b c)))
      else Ok b
    | _, _ => Err E_WIRING
    end
  end.

Definition set_selected (b : bay) (m : nat) (s : option nat) : bay :=
  match nth_error (b_muxes b) m with
  | Some mx => set_mux b m (mux_with_selected mx s)
  | None => b
  end.

Definition read_chan (b : bay) (c : nat) : result value :=
  match nth_error (b_chans b) c with Some ch => Ok (chan_read ch) | None => Err E_WIRING end.

(* mux.c cb_select *)
Definition cb_select (b : bay) (m : nat) : result bay :=
  match nth_error (b_muxes b) m with
  | None => Err E_WIRING
  | Some mx =>
    if negb (mx_init mx) then Err E_WIRING else
    match read_chan b (mx_sel mx) with
    | Err e => Err e
    | Ok selv =>
      (* clear previous selected input *)
      match (match mx_selected mx with
             | Some old => match disable_input b m old with Ok b1 => Ok (set_selected b1 m None) | Err e => Err e end
             | None => Ok b
             end) with
      | Err e => Err e
      | Ok b1 =>
        match run_select_in b1 mx selv with
        | Err e => Err e
        | Ok None => chan_set b1 (mx_out mx) (mx_def mx)
        | Ok (Some i) =>
          match enable_input b1 m i with
          | Err e => Err e
          | Ok b2 =>
            let b3 := set_selected b2 m (Some i) in
            match nth_error (mx_ins mx) i with
            | None => Err E_WIRING
            | Some ic =>
              match read_chan b3 ic with
              | Err e => Err e
              | Ok v => chan_set b3 (mx_out mx) v
              end
            end
          end
        end
      end
    end
  end.

(* mux.c cb_input of input i of mux m, called on the input's channel *)
Definition cb_input (b : bay) (m i : nat) : result bay :=
  match nth_error (b_muxes b) m with
  | None => Err E_WIRING
  | Some mx =>
    match nth_error (mx_ins mx) i with
    | None => Err E_WIRING
    | Some ic =>
      match read_chan b ic with
      | Err e => Err e
      | Ok v => chan_set b (mx_out mx) v
      end
    end
  end.

Definition run_dcb (b : bay) (d : dcb) : result bay :=
  match d with
  | DSelect m => cb_select b m
  | DReselect m => cb_select b m          (* cb_reselect: cb_select(mux->select, mux) *)
  | DInput m i => cb_input b m i
  end.

(* propagate_chan(bchan, BAY_CB_DIRTY): DL_FOREACH over the channel's callback list,
       for (cur = head; cur; cur = cur->next) cur->func(...)
   on the LIVE list: a callback may append to the list being walked (cb_select enabling the cb_input of an input
   that sits on the select channel itself: breakdown.c) or delete other elements of it; the walk goes on with
   the successor of `cur` in the list as it is after the call.  A callback that removes ITSELF from the list is
   reported as E_SELFMOD (the C would follow the stale cur->next; no callback of the emulator does it). *)
Fixpoint next_after (d : dcb) (l : list dcb) : option (option dcb) :=      (* None: d is not in l *)
  match l with
  | [] => None
  | x :: r => if dcb_eqb d x then Some (match r with y :: _ => Some y | [] => None end) else next_after d r
  end.

Fixpoint walk_from (fuel : nat) (b : bay) (c : nat) (cur : dcb) : result bay :=
  match fuel with
  | O => Err E_FUEL
  | S f =>
    match run_dcb b cur with
    | Err e => Err e
    | Ok b' =>
      match next_after cur (dcbs_of b' c) with
      | None => Err E_SELFMOD
      | Some None => Ok b'
      | Some (Some d) => walk_from f b' c d
      end
    end
  end.

(* enough for a list that only grows by enabling input callbacks, each at most once *)
Definition walk_fuel (b : bay) (c : nat) : nat :=
  S (length (dcbs_of b c) + fold_right (fun mx n => (length (mx_ins mx) + n)%nat) 0%nat (b_muxes b)).

Definition run_cbs (b : bay) (c : nat) : result bay :=
  match dcbs_of b c with
  | [] => Ok b
  | d :: _ => walk_from (walk_fuel b c) b c d
  end.

(* bay_propagate, first DL_FOREACH(bay->dirty): position i in a list that grows while walked *)
Fixpoint dirty_phase (fuel : nat) (i : nat) (b : bay) : result bay :=
  match fuel with
  | O => Err E_FUEL
  | S f =>
    match nth_error (b_dirty b) i with
    | None => Ok b
    | Some c =>
      match run_cbs b c with
      | Err e => Err e
      | Ok b' => dirty_phase f (S i) b'
      end
    end
  end.

Definition lastmap := list (key * value).

(* cb_prv for each emit callback of one channel *)
Fixpoint emit_cbs (last : lastmap) (v : value) (es : list ecb) : result (lastmap * list line) :=
  match es with
  | [] => Ok (last, [])
  | e :: r =>
    match emit last (e_cpu e) (e_row e) (e_type e) (e_flags e) v with
    | Err er => Err er
    | Ok (last1, l1) =>
      match emit_cbs last1 v r with
      | Err er => Err er
      | Ok (last2, l2) => Ok (last2, l1 ++ l2)
      end
    end
  end.

(* second DL_FOREACH: the emit callbacks (they write no channel) *)
Fixpoint emit_phase (b : bay) (last : lastmap) (ds : list nat) : result (lastmap * list line) :=
  match ds with
  | [] => Ok (last, [])
  | c :: r =>
    match nth_error (b_chans b) c with
    | None => Err E_WIRING
    | Some ch =>
      match emit_cbs last (chan_read ch) (ecbs_of b c) with
      | Err e => Err e
      | Ok (last1, l1) =>
        match emit_phase b last1 r with
        | Err e => Err e
        | Ok (last2, l2) => Ok (last2, l1 ++ l2)
        end
      end
    end
  end.

(* third DL_FOREACH: chan_flush *)
Fixpoint flush_all (b : bay) (ds : list nat) : result bay :=
  match ds with
  | [] => Ok b
  | c :: r =>
    match nth_error (b_chans b) c with
    | None => Err E_WIRING
    | Some ch => if c_dirty ch then flush_all (set_chan b c (flushed ch)) r else Err E_FLUSH
    end
  end.

Definition propagate (b : bay) (last : lastmap) : result (bay * lastmap * list line) :=
  match dirty_phase (S (length (b_chans b))) 0 b with
  | Err e => Err e
  | Ok b1 =>
    match emit_phase b1 last (b_dirty b1) with
    | Err e => Err e
    | Ok (last', ls) =>
      match flush_all b1 (b_dirty b1) with
      | Err e => Err e
      | Ok b2 => Ok (set_dirty_list b2 [], last', ls)
      end
    end
  end.

(* ------------------------------------------------------------------ *)
(* channel writes of a handler                                         *)

Inductive wop := WSet (c : nat) (v : value) | WPush (c : nat) (v : value) | WPop (c : nat) (v : value).

Definition apply_wop (b : bay) (w : wop) : result bay :=
  match w with
  | WSet c v => chan_set b c v
  | WPush c v => chan_push b c v
  | WPop c v => chan_pop b c v
  end.

Fixpoint apply_writes (b : bay) (ws : list wop) : result bay :=
  match ws with
  | [] => Ok b
  | w :: r => match apply_wop b w with Err e => Err e | Ok b' => apply_writes b' r end
  end.

(* ------------------------------------------------------------------ *)
(* the wiring of a trace: system_connect (thread_connect, cpu_connect), model_thread_create /
   model_cpu_create (channels, track_init), model_thread_connect / model_cpu_connect
   (track_connect_thread, connect_cpu), model_pvt_connect_thread / _cpu (prv_register).

   Channel numbering (a channel's number is only its name here; what matters for behaviour is the
   ORDER of callbacks inside each channel's list, which is the registration order of the C):
     thread t, block of 3 + 2K channels:  cpu_gindex, tid_active, state, raw 0..K-1, track 0..K-1
     cpu c,    block of 5 + K channels:   nrunning, pid_running, tid_running, th_running, th_active, track 0..K-1
   Mux numbering = track numbering: thread t channel k is mux t*K+k, cpu c channel k is mux T*K+c*K+k. *)

Section Wiring.
  Variable sx : static.
  Let T := length (s_threads sx).
  Let C := length (s_cpus sx).
  Let K := length (s_chans sx).

  Definition th_block : nat := (3 + 2 * K)%nat.
  Definition cpu_block : nat := (5 + K)%nat.
  Definition ch_th (t w : nat) : nat := (t * th_block + w)%nat.
  Definition ch_raw (t k : nat) : nat := (t * th_block + 3 + k)%nat.
  Definition ch_trk (t k : nat) : nat := (t * th_block + 3 + K + k)%nat.
  Definition ch_cpu (c w : nat) : nat := (T * th_block + c * cpu_block + w)%nat.
  Definition ch_ctrk (c k : nat) : nat := (T * th_block + c * cpu_block + 5 + k)%nat.
  Definition mx_th (t k : nat) : nat := (t * K + k)%nat.
  Definition mx_cpu (c k : nat) : nat := (T * K + c * K + k)%nat.

  (* TH_CHAN_CPU TH_CHAN_TID TH_CHAN_STATE *)
  Definition W_CPU := 0%nat. Definition W_TID := 1%nat. Definition W_STATE := 2%nat.
  (* CPU_CHAN_NRUN CPU_CHAN_PID CPU_CHAN_TID CPU_CHAN_THRUN CPU_CHAN_THACT *)
  Definition X_NRUN := 0%nat. Definition X_PID := 1%nat. Definition X_TID := 2%nat.
  Definition X_THRUN := 3%nat. Definition X_THACT := 4%nat.

  Definition tracked (sp : chanspec) : bool := negb (cs_thtrack sp =? TRACK_ANY).

  (* thread_init_end: tid_active has CHAN_IGNORE_DUP; model_thread.c init_chan: raw channels with
     ALLOW_DUP from ch_dup; track_init: a scratch single channel per track; mux_init gives the
     output DIRTY_WRITE and ALLOW_DUP (only when a mux is created: not for TRACK_TH_ANY) *)
  Definition thread_chans : list chan :=
    [mk_chan false false false false; mk_chan false false false true; mk_chan false false false false] ++
    map (fun sp => mk_chan (cs_stack sp) false (cs_dup sp) false) (s_chans sx) ++
    map (fun sp => mk_chan false (tracked sp) (tracked sp) false) (s_chans sx).

  (* cpu_init_end: all five CPU channels have CHAN_IGNORE_DUP; the CPU tracks always have a mux *)
  Definition cpu_chans : list chan :=
    repeat (mk_chan false false false true) 5 ++ map (fun _ => mk_chan false true true false) (s_chans sx).

  Definition ecb_of (s : slot) : ecb :=
    let '(cpu, row, ty) := key_of sx s in
    {| e_cpu := cpu; e_row := row; e_type := ty; e_flags := flags_of sx s |}.

  Definition seqK := seq 0 K.

  (* dirty callbacks at connect time: only the cb_select's (the cb_input's start disabled);
     on a thread's state channel one per tracked channel, in s_chans order *)
  Definition thread_dcbs (t : nat) : list (list dcb) :=
    [[]; []; flat_map (fun k => if tracked (spec_of sx k) then [DSelect (mx_th t k)] else []) seqK] ++
    map (fun _ => []) (s_chans sx) ++ map (fun _ => []) (s_chans sx).
  Definition cpu_dcbs (c : nat) : list (list dcb) :=
    [[]; []; []; map (fun k => DSelect (mx_cpu c k)) seqK; []] ++ map (fun _ => []) (s_chans sx).

  (* emit callbacks: thread_connect registers the three thread channels; model_pvt_connect_thread the
     track output = the raw channel itself for TRACK_TH_ANY, else the track channel *)
  Definition thread_ecbs (t : nat) : list (list ecb) :=
    [[ecb_of (STh t 0)]; [ecb_of (STh t 1)]; [ecb_of (STh t 2)]] ++
    map (fun k => if tracked (spec_of sx k) then [] else [ecb_of (STr t k)]) seqK ++
    map (fun k => if tracked (spec_of sx k) then [ecb_of (STr t k)] else []) seqK.
  (* cpu_connect: nrunning, pid_running, tid_running (th_running / th_active have type -1) *)
  Definition cpu_ecbs (c : nat) : list (list ecb) :=
    [[ecb_of (SCpu c 2)]; [ecb_of (SCpu c 1)]; [ecb_of (SCpu c 0)]; []; []] ++
    map (fun k => [ecb_of (SCr c k)]) seqK.

  (* track_th_input_chan: select = the thread's state channel, one input = the raw channel *)
  Definition thread_mux (t k : nat) : mux :=
    let sp := spec_of sx k in
    {| mx_init := tracked sp; mx_sel := ch_th t W_STATE; mx_out := ch_trk t k;
       mx_fun := if cs_thtrack sp =? TRACK_RUN then SelRunning else SelActive;
       mx_def := None; mx_ins := [ch_raw t k]; mx_en := [false]; mx_selected := Some 0%nat |}.
  (* connect_cpu: select = the CPU's th_running channel, default select, one input per thread = the
     thread's raw channel; mux_set_default from the model's connect *)
  Definition cpu_mux (c k : nat) : mux :=
    {| mx_init := true; mx_sel := ch_cpu c X_THRUN; mx_out := ch_ctrk c k; mx_fun := SelDefault;
       mx_def := cs_cpudef (spec_of sx k);
       mx_ins := map (fun t => ch_raw t k) (seq 0 T); mx_en := map (fun _ => false) (seq 0 T);
       mx_selected := Some 0%nat |}.

  Definition wire : bay :=
    {| b_chans := concat (map (fun _ => thread_chans) (seq 0 T)) ++ concat (map (fun _ => cpu_chans) (seq 0 C));
       b_dcbs := concat (map thread_dcbs (seq 0 T)) ++ concat (map cpu_dcbs (seq 0 C));
       b_ecbs := concat (map thread_ecbs (seq 0 T)) ++ concat (map cpu_ecbs (seq 0 C));
       b_muxes := flat_map (fun t => map (thread_mux t) seqK) (seq 0 T) ++
                  flat_map (fun c => map (cpu_mux c) seqK) (seq 0 C);
       b_dirty := [] |}.

  (* the models' connect functions end with chan_set(initial value) on some raw channels (nOS-V /
     Nanos6 idle = Progressing); emu_connect then runs bay_propagate once *)
  Definition init_writes : list wop :=
    flat_map (fun k => match cs_init (spec_of sx k) with
                       | Some v => map (fun t => WSet (ch_raw t k) (Some v)) (seq 0 T)
                       | None => []
                       end) seqK.

  Definition wire_init : result (bay * lastmap * list line) :=
    match apply_writes wire init_writes with
    | Err e => Err e
    | Ok b => propagate b []
    end.

  (* ---------------------------------------------------------------- *)
  (* the channel writes of the handlers                                *)

  Definition thr_of (st : state) (t : nat) : thread := nth t (threads st) dummy_thread.

  (* thread_set_state: state, then tid_active *)
  Definition w_state (st : state) (t : nat) : list wop :=
    [WSet (ch_th t W_STATE) (Some (tst_code (t_state (thr_of st t))));
     WSet (ch_th t W_TID) (v_tid (nth t (s_threads sx) dummy_info) (thr_of st t))].

  Definition active_on (st : state) (c : nat) : list nat :=
    filter (fun t => is_active (thread_state_of st t)) (nth c (cpu_threads st) []).
  Definition th_active (st : state) (c : nat) : option nat :=
    match active_on st c with [t] => Some t | _ => None end.
  Definition v_gid (o : option nat) : value := match o with Some t => Some (Z.of_nat t) | None => None end.

  (* cpu_update: tid_running, pid_running, th_running, nrunning, th_active *)
  Definition w_cpu_update (st : state) (c : nat) : list wop :=
    [WSet (ch_cpu c X_TID) (v_cputid sx st c);
     WSet (ch_cpu c X_PID) (v_cpupid sx st c);
     WSet (ch_cpu c X_THRUN) (v_gid (th_running st c));
     WSet (ch_cpu c X_NRUN) (Some (Z.of_nat (nrunning st c)));
     WSet (ch_cpu c X_THACT) (v_gid (th_active st c))].

  Definition w_cpu (st : state) (t : nat) : list wop := [WSet (ch_th t W_CPU) (v_cpu (thr_of st t))].

  Definition cpu_of (st : state) (t : nat) : nat := match t_cpu (thr_of st t) with Some c => c | None => 0%nat end.

  (* src/emu/ovni/event.c, in the order of the calls; `old` / `new` are the emulator's structures
     before / after the handler (cpu_update reads the thread lists and states, all of which have
     their final value for the CPU concerned when it is called) *)
  Definition oh_writes (old new : state) (who : nat) (e : ohev) : list wop :=
    match e with
    | Execute _ =>      (* thread_set_cpu, thread_set_state, cpu_add_thread *)
      w_cpu new who ++ w_state new who ++ w_cpu_update new (cpu_of new who)
    | End_ =>           (* thread_set_state, cpu_remove_thread, thread_unset_cpu *)
      w_state new who ++ w_cpu_update new (cpu_of old who) ++ w_cpu new who
    | Pause | Resume | Cool | Warm =>   (* thread_set_state, cpu_update *)
      w_state new who ++ w_cpu_update new (cpu_of new who)
    | AffSet _ =>       (* same CPU: nothing; else cpu_migrate_thread (remove, add), thread_migrate_cpu *)
      if Nat.eqb (cpu_of old who) (cpu_of new who) then []
      else w_cpu_update new (cpu_of old who) ++ w_cpu_update new (cpu_of new who) ++ w_cpu new who
    | AffRemote _ tid =>
      match find_remote sx who tid with
      | Some r => w_cpu_update new (cpu_of old r) ++ w_cpu_update new (cpu_of new r) ++ w_cpu new r
      | None => []
      end
    end.

  (* a model channel written by the handler: chan_push / chan_pop / chan_set, read off the change *)
  Definition raw_wop (old new : state) (d : nat * nat) : wop :=
    let '(t, k) := d in
    let sp := spec_of sx k in
    let r0 := raw_of old t k in
    let r1 := raw_of new t k in
    if cs_stack sp then
      if Nat.ltb (length (r_stk r0)) (length (r_stk r1)) then
        WPush (ch_raw t k) (match r_stk r1 with x :: _ => Some x | [] => None end)
      else
        WPop (ch_raw t k) (match r_stk r0 with x :: _ => Some x | [] => None end)
    else WSet (ch_raw t k) (r_val r1).

  Definition handler_writes (old new : state) (who : nat) (ev : event) (dirty : list (nat * nat)) : list wop :=
    match ev with
    | EvOvni e => oh_writes old new who e
    | _ => map (raw_wop old new) dirty
    end.

  (* One event, mechanically: the handler (guards and structure updates are those of core_step; the
     channel writes are replayed on the real channel model, which may refuse them), then
     bay_propagate.  The emulator's structures + its PRV last-value tables are `state`; the bay
     holds every channel, mux and callback. *)
  Definition mstep (st : state) (b : bay) (who : nat) (ev : event) : result (state * bay * list line) :=
    match core_step sx st who ev with
    | Err e => Err e
    | Ok (st1, dirty) =>
      match apply_writes b (handler_writes st st1 who ev dirty) with
      | Err e => Err e
      | Ok b1 =>
        match propagate b1 (prv_last st1) with
        | Err e => Err e
        | Ok (b2, last', ls) => Ok (set_last st1 last', b2, ls)
        end
      end
    end.

  Fixpoint mrun_from (st : state) (b : bay) (evs : list (Z * nat * event)) : result (state * bay * list (Z * line)) :=
    match evs with
    | [] => Ok (st, b, [])
    | (tm, who, ev) :: r =>
      match mstep st b who ev with
      | Err e => Err e
      | Ok (st1, b1, ls) =>
        match mrun_from st1 b1 r with
        | Err e => Err e
        | Ok (st2, b2, ls2) => Ok (st2, b2, map (fun l => (tm, l)) ls ++ ls2)
        end
      end
    end.
End Wiring.
