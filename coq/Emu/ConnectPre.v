(* Prelude of the generated file Gen/Connect_gen.v (translate/units/connect.py): the world of the connect-time code that
   builds the bay (src/emu/track.c, model_thread.c, model_cpu.c, model_pvt.c, cpu.c:cpu_get_th_chan, pv/pvt.c getters).

   The generated file renders those functions statement by statement in the reader + state + error monad below
   (`return -1` = fail E_FAIL, a NULL / wild dereference = E_TRAP).  The state is a BayDefs bay UNDER CONSTRUCTION plus
   the heap objects the C allocates (struct model_thread / model_cpu, the arrays of channels and tracks, the extend
   tables).  calloc returns FRESH addresses; a channel gets its bay id when bay_register is called (ids = registration
   order, as the bay is a hash table by name, the id is only a name); a mux gets its id when mux_init is called.
   Hand-written here (not translated), with the meaning coq/Emu/BayDefs.v gives them:
     - chan_init / chan_prop_set(CHAN_ALLOW_DUP): the pending channel object (stack?, ALLOW_DUP);
     - bay_register: appends BayDefs.mk_chan stack false allow false with empty callback lists;
     - mux_init(mux, bay, sel, out, fsel, n): sel and out must be registered and different, out gets DIRTY_WRITE and
       ALLOW_DUP, a mux record {init, sel, out, fun of fsel (NULL = default, thread_select_running / active), no default,
       n unset inputs (all disabled), selected = the memset value} is appended and its cb_select is appended ENABLED to
       the dirty callbacks of sel (bay_add_cb(.., 1));
     - mux_set_input(mux, i, inp): input i := the id of inp (registered, i in range, not set before); its cb_input is
       registered disabled (no entry in the callback list);
     - prv_register(prv, row, type, bay, chan, flags): the emit callback {cpu side?, row, type, flags} is appended to the
       emit callbacks of chan (the PRV side of prv_register is PvDefs.prv_register: C13);
     - struct model_*_spec / model_chan_spec / model_pvt_spec: read off the channel specs of the environment
       (EmuCoreDefs.chanspec, from Tables_gen): the channels of model m in index order; nch, ch_stack, ch_dup, track
       (thread side: cs_thtrack, cpu side: cs_cputrack), pvt->type, pvt->flags; names and sizes are not modelled;
     - the system: threads 0..T-1 and CPUs 0..C-1 in gindex order (gnext / next), their own channels
       (&t->chan[w], &cpu->chan[w]) are addresses ASysTh / ASysCpu, registered before the models connect;
     - recorder_find_pvt("thread" / "cpu"), init_pcf, vsnprintf: the PVT side is C13's; only which side is kept.
   Definitions only; proofs in Proofs/ConnectProofs.v. *)
From Coq Require Import ZArith List Bool String.
From OV Require Import Base.CInt Emu.EmuCoreDefs.
From OV Require Emu.BayDefs Gen.Pv_gen.
Import ListNotations.
Local Open Scope Z_scope.

Module B := BayDefs.

(* ---- addresses *)
Inductive caddr :=
| ASysTh (t w : nat) | ASysCpu (c w : nat)      (* &thread->chan[w], &cpu->chan[w] *)
| AArr (b : nat) (i : Z)                        (* element i of the b-th calloc'ed array of channels *)
| ATrk (b : nat) (i : Z)                        (* &track->ch of element i of the b-th array of tracks *)
| ABd (a w : nat)                               (* nosv_breakdown_cpu of the nosv_cpu object a: tr (0), tri (1) *)
| ASink (a : nat).                              (* where the sort callback of that CPU puts the value of tri *)
Definition caddr_eqb (x y : caddr) : bool :=
  match x, y with
  | ASysTh a b, ASysTh c d => Nat.eqb a c && Nat.eqb b d
  | ASysCpu a b, ASysCpu c d => Nat.eqb a c && Nat.eqb b d
  | AArr a i, AArr b j => Nat.eqb a b && Z.eqb i j
  | ATrk a i, ATrk b j => Nat.eqb a b && Z.eqb i j
  | ABd a i, ABd b j => Nat.eqb a b && Nat.eqb i j
  | ASink a, ASink b => Nat.eqb a b
  | _, _ => false
  end.

Inductive vobj := VMth (a : nat) | VMcpu (a : nat).

Definition ptr_emu := unit.
Definition ptr_system := option unit.
Definition ptr_bay := option unit.
Definition ptr_chan := option caddr.
Definition ptr_track := option (nat * Z).
Inductive muxref := MTrk (b : nat) (i : Z) | MBd (a w : nat).   (* &track->mux; &bcpu->mux0 / mux1 (w = 0 / 1), the sort callback (w = 2) *)
Definition ptr_mux := option muxref.
Definition ptr_sthread := option nat.
Definition ptr_scpu := option nat.
Definition ptr_mthread := option nat.
Definition ptr_mcpu := option nat.
Definition ptr_thspec := option Z.                   (* the thread spec of model m *)
Definition ptr_cpuspec := option Z.
Definition ptr_chspec := option (bool * Z).          (* (cpu side?, model) *)
Definition ptr_pvtspec := option (bool * Z).
Definition ptr_mspec := option Z.
Definition ptr_extend := option (bool * nat).        (* (of a cpu?, gindex) *)
Definition ptr_recorder := option unit.
Definition ptr_pvt := option bool.                   (* cpu? *)
Definition ptr_prv := option bool.
Definition ptr_pcf := option bool.
Inductive selfn := FRunning | FActive | FSelTr | FSelIdle.
Definition ptr_fn := option selfn.
Definition ptr_void := option vobj.
Definition ptr_str := option string.
Definition ptr_strs := option (list ptr_str).
Definition ptr_ints := option (list Z).
Definition va_list_t := unit.
Definition va_args : va_list_t := tt.

Definition fn_thread_select_running : ptr_fn := Some FRunning.
Definition fn_thread_select_active : ptr_fn := Some FActive.
Definition g_track_track_suffix : list ptr_strs := [Some [Some ".any"%string; Some ".run"%string; Some ".act"%string]].
Definition c_arraylen : Z := 512.
Definition sizeof_ (n : Z) : Z := n.

(* ---- heap objects *)
Record trackobj := { tk_type : Z; tk_mode : Z; tk_bay : ptr_bay; tk_out : ptr_chan; tk_mux : option nat }.
Definition track0 : trackobj := {| tk_type := 0; tk_mode := 0; tk_bay := None; tk_out := None; tk_mux := None |}.
Record mthobj := { mt_spec : ptr_thspec; mt_bay : ptr_bay; mt_ch : ptr_chan; mt_track : ptr_track }.
Definition mth0 : mthobj := {| mt_spec := None; mt_bay := None; mt_ch := None; mt_track := None |}.
Record mcpuobj := { mc_spec : ptr_cpuspec; mc_bay : ptr_bay; mc_track : ptr_track }.
Definition mcpu0 : mcpuobj := {| mc_spec := None; mc_bay := None; mc_track := None |}.

Record cstate := {
  cs_bay : B.bay;                              (* under construction *)
  cs_reg : list caddr;                         (* the channel registered under each bay id *)
  cs_pend : list (caddr * (bool * bool * bool)); (* chan_init'ed channel objects: stack?, ALLOW_DUP, IGNORE_DUP *)
  cs_narr : nat;                               (* arrays of channels allocated so far *)
  cs_tracks : list (list trackobj);            (* arrays of tracks *)
  cs_mths : list mthobj;
  cs_mcpus : list mcpuobj;
  cs_ext : list ((bool * nat * Z) * vobj);     (* extend tables: (cpu?, gindex, model id) -> object *)
  cs_inited : list (bool * nat);               (* is_init of the system threads (false, t) / CPUs (true, c) *)
  cs_mark : list ((bool * nat) * (ptr_chan * ptr_track));  (* ovni/mark.c: per ovni_thread (false, a) / ovni_cpu (true, a): mark.channels, mark.track *)
  cs_bd : list ((nat * nat) * nat)             (* nosv/breakdown.c: the bay mux id of mux0 / mux1 / the sort callback of the nosv_cpu object a *)
}.
Record cenv := {
  cn_chans : list chanspec;                    (* the channel specs of the enabled models *)
  cn_nth : nat;                                (* threads of the system *)
  cn_ncpu : nat;
  cn_alloc_ok : bool;                          (* calloc succeeds *)
  cn_body : Z; cn_prog : Z                     (* ST_TASK_BODY, ST_PROGRESSING of the breakdown select functions *)
}.

Definition E_FAIL := 20%nat.
Definition E_TRAP := 99%nat.

Definition M (A : Type) : Type := cenv -> cstate -> result (A * cstate).
Definition ret {A} (a : A) : M A := fun _ st => Ok (a, st).
Definition fail {A} (e : nat) : M A := fun _ _ => Err e.
Definition bind {A B} (m : M A) (f : A -> M B) : M B :=
  fun sx st => match m sx st with Ok (a, st') => f a sx st' | Err e => Err e end.
Definition bind_ {A B} (m : M A) (k : M B) : M B := bind m (fun _ => k).
Definition eval {A} (f : cenv -> cstate -> A) : M A := fun sx st => Ok (f sx st, st).
Definition ite {A} (c : cenv -> cstate -> bool) (a b : M A) : M A :=
  fun sx st => if c sx st then a sx st else b sx st.
Definition need {A} (safe : cenv -> cstate -> bool) (k : M A) : M A :=
  fun sx st => if safe sx st then k sx st else Err E_TRAP.

Fixpoint for_list {I A} (l : list I) (acc : A) (body : I -> A -> M A) : M A :=
  match l with
  | [] => ret acc
  | i :: r => bind (body i acc) (fun a => for_list r a body)
  end.
Definition zrange (lo hi : Z) : list Z := map (fun k => lo + Z.of_nat k) (seq 0 (Z.to_nat (hi - lo))).
Definition for_range {A} (lo hi : Z) (acc : A) (body : Z -> A -> M A) : M A := for_list (zrange lo hi) acc body.
(* for (t = start; t; t = t->gnext) / for (c = start; c; c = c->next): gindex order *)
Definition for_gnext_thread {A} (start : cenv -> cstate -> ptr_sthread) (acc : A) (body : ptr_sthread -> A -> M A) : M A :=
  fun sx st => match start sx st with
               | None => Ok (acc, st)
               | Some t => for_list (map (fun k => Some k) (seq t (cn_nth sx - t))) acc body sx st
               end.
Definition for_next_cpu {A} (start : cenv -> cstate -> ptr_scpu) (acc : A) (body : ptr_scpu -> A -> M A) : M A :=
  fun sx st => match start sx st with
               | None => Ok (acc, st)
               | Some c => for_list (map (fun k => Some k) (seq c (cn_ncpu sx - c))) acc body sx st
               end.

(* ---- state updates *)
Definition with_bay (st : cstate) (x : B.bay) : cstate :=
  {| cs_bay := x; cs_reg := cs_reg st; cs_pend := cs_pend st; cs_narr := cs_narr st; cs_tracks := cs_tracks st; cs_mths := cs_mths st; cs_mcpus := cs_mcpus st; cs_ext := cs_ext st; cs_inited := cs_inited st; cs_mark := cs_mark st; cs_bd := cs_bd st |}.
Definition with_reg (st : cstate) (x : list caddr) : cstate :=
  {| cs_bay := cs_bay st; cs_reg := x; cs_pend := cs_pend st; cs_narr := cs_narr st; cs_tracks := cs_tracks st; cs_mths := cs_mths st; cs_mcpus := cs_mcpus st; cs_ext := cs_ext st; cs_inited := cs_inited st; cs_mark := cs_mark st; cs_bd := cs_bd st |}.
Definition with_pend (st : cstate) (x : list (caddr * (bool * bool * bool))) : cstate :=
  {| cs_bay := cs_bay st; cs_reg := cs_reg st; cs_pend := x; cs_narr := cs_narr st; cs_tracks := cs_tracks st; cs_mths := cs_mths st; cs_mcpus := cs_mcpus st; cs_ext := cs_ext st; cs_inited := cs_inited st; cs_mark := cs_mark st; cs_bd := cs_bd st |}.
Definition with_narr (st : cstate) (x : nat) : cstate :=
  {| cs_bay := cs_bay st; cs_reg := cs_reg st; cs_pend := cs_pend st; cs_narr := x; cs_tracks := cs_tracks st; cs_mths := cs_mths st; cs_mcpus := cs_mcpus st; cs_ext := cs_ext st; cs_inited := cs_inited st; cs_mark := cs_mark st; cs_bd := cs_bd st |}.
Definition with_tracks (st : cstate) (x : list (list trackobj)) : cstate :=
  {| cs_bay := cs_bay st; cs_reg := cs_reg st; cs_pend := cs_pend st; cs_narr := cs_narr st; cs_tracks := x; cs_mths := cs_mths st; cs_mcpus := cs_mcpus st; cs_ext := cs_ext st; cs_inited := cs_inited st; cs_mark := cs_mark st; cs_bd := cs_bd st |}.
Definition with_mths (st : cstate) (x : list mthobj) : cstate :=
  {| cs_bay := cs_bay st; cs_reg := cs_reg st; cs_pend := cs_pend st; cs_narr := cs_narr st; cs_tracks := cs_tracks st; cs_mths := x; cs_mcpus := cs_mcpus st; cs_ext := cs_ext st; cs_inited := cs_inited st; cs_mark := cs_mark st; cs_bd := cs_bd st |}.
Definition with_mcpus (st : cstate) (x : list mcpuobj) : cstate :=
  {| cs_bay := cs_bay st; cs_reg := cs_reg st; cs_pend := cs_pend st; cs_narr := cs_narr st; cs_tracks := cs_tracks st; cs_mths := cs_mths st; cs_mcpus := x; cs_ext := cs_ext st; cs_inited := cs_inited st; cs_mark := cs_mark st; cs_bd := cs_bd st |}.
Definition with_ext (st : cstate) (x : list ((bool * nat * Z) * vobj)) : cstate :=
  {| cs_bay := cs_bay st; cs_reg := cs_reg st; cs_pend := cs_pend st; cs_narr := cs_narr st; cs_tracks := cs_tracks st; cs_mths := cs_mths st; cs_mcpus := cs_mcpus st; cs_ext := x; cs_inited := cs_inited st; cs_mark := cs_mark st; cs_bd := cs_bd st |}.
Definition with_inited (st : cstate) (x : list (bool * nat)) : cstate :=
  {| cs_bay := cs_bay st; cs_reg := cs_reg st; cs_pend := cs_pend st; cs_narr := cs_narr st; cs_tracks := cs_tracks st; cs_mths := cs_mths st; cs_mcpus := cs_mcpus st; cs_ext := cs_ext st; cs_inited := x; cs_mark := cs_mark st; cs_bd := cs_bd st |}.
Definition with_mark (st : cstate) (x : list ((bool * nat) * (ptr_chan * ptr_track))) : cstate :=
  {| cs_bay := cs_bay st; cs_reg := cs_reg st; cs_pend := cs_pend st; cs_narr := cs_narr st; cs_tracks := cs_tracks st; cs_mths := cs_mths st; cs_mcpus := cs_mcpus st; cs_ext := cs_ext st; cs_inited := cs_inited st; cs_mark := x; cs_bd := cs_bd st |}.
Definition with_bd (st : cstate) (x : list ((nat * nat) * nat)) : cstate :=
  {| cs_bay := cs_bay st; cs_reg := cs_reg st; cs_pend := cs_pend st; cs_narr := cs_narr st; cs_tracks := cs_tracks st; cs_mths := cs_mths st; cs_mcpus := cs_mcpus st; cs_ext := cs_ext st; cs_inited := cs_inited st; cs_mark := cs_mark st; cs_bd := x |}.

(* ---- the specs *)
Definition mchans (sx : cenv) (m : Z) : list chanspec := filter (fun sp => cs_model sp =? m) (cn_chans sx).
Definition spec_chans (sx : cenv) (s : option (bool * Z)) : list chanspec := match s with Some (_, m) => mchans sx m | None => [] end.
Definition get_model_thread_spec__chan (sx : cenv) (st : cstate) (s : ptr_thspec) : ptr_chspec := match s with Some m => Some (false, m) | None => None end.
Definition get_model_cpu_spec__chan (sx : cenv) (st : cstate) (s : ptr_cpuspec) : ptr_chspec := match s with Some m => Some (true, m) | None => None end.
Definition get_model_thread_spec__model (sx : cenv) (st : cstate) (s : ptr_thspec) : ptr_mspec := s.
Definition get_model_cpu_spec__model (sx : cenv) (st : cstate) (s : ptr_cpuspec) : ptr_mspec := s.
Definition get_model_thread_spec__model_model (sx : cenv) (st : cstate) (s : ptr_thspec) : Z := match s with Some m => m | None => 0 end.
Definition get_model_cpu_spec__model_model (sx : cenv) (st : cstate) (s : ptr_cpuspec) : Z := match s with Some m => m | None => 0 end.
Definition get_model_thread_spec__size (sx : cenv) (st : cstate) (s : ptr_thspec) : Z := 0.
Definition get_model_cpu_spec__size (sx : cenv) (st : cstate) (s : ptr_cpuspec) : Z := 0.
Definition get_model_chan_spec__nch (sx : cenv) (st : cstate) (s : ptr_chspec) : Z := Z.of_nat (length (spec_chans sx s)).
Definition get_model_chan_spec__prefix (sx : cenv) (st : cstate) (s : ptr_chspec) : ptr_str := Some ""%string.
Definition get_model_chan_spec__ch_names (sx : cenv) (st : cstate) (s : ptr_chspec) : ptr_strs := Some (map (fun _ => Some ""%string) (spec_chans sx s)).
Definition get_model_chan_spec__ch_stack (sx : cenv) (st : cstate) (s : ptr_chspec) : ptr_ints := Some (map (fun sp => b2z (cs_stack sp)) (spec_chans sx s)).
Definition get_model_chan_spec__ch_dup (sx : cenv) (st : cstate) (s : ptr_chspec) : ptr_ints := Some (map (fun sp => b2z (cs_dup sp)) (spec_chans sx s)).
Definition get_model_chan_spec__track (sx : cenv) (st : cstate) (s : ptr_chspec) : ptr_ints :=
  match s with
  | Some (cpu, _) => Some (map (fun sp => if cpu then cs_cputrack sp else cs_thtrack sp) (spec_chans sx s))
  | None => None
  end.
Definition get_model_chan_spec__pvt (sx : cenv) (st : cstate) (s : ptr_chspec) : ptr_pvtspec := s.
Definition get_model_chan_spec__pvt_type (sx : cenv) (st : cstate) (s : ptr_chspec) : ptr_ints := Some (map cs_type (spec_chans sx s)).
Definition get_model_chan_spec__pvt_flags (sx : cenv) (st : cstate) (s : ptr_chspec) : ptr_ints := Some (map cs_flags (spec_chans sx s)).
Definition ix_ptr_ints (a : ptr_ints) (i : Z) : Z := match a with Some l => nth (Z.to_nat i) l 0 | None => 0 end.
Definition ixp_ptr_str (a : ptr_strs) (i : Z) : ptr_str := match a with Some l => nth (Z.to_nat i) l None | None => None end.
Definition ixp_ptr_strs (a : list ptr_strs) (i : Z) : ptr_strs := nth (Z.to_nat i) a None.

(* ---- the system *)
Definition addr_emu_system (e : ptr_emu) : ptr_system := Some tt.
Definition addr_emu_bay (e : ptr_emu) : ptr_bay := Some tt.
Definition addr_emu_recorder (e : ptr_emu) : ptr_recorder := Some tt.
Definition first_of (n : nat) : option nat := match n with O => None | S _ => Some 0%nat end.
Definition get_system__threads (sx : cenv) (st : cstate) (s : ptr_system) : ptr_sthread := first_of (cn_nth sx).
Definition get_system__cpus (sx : cenv) (st : cstate) (s : ptr_system) : ptr_scpu := first_of (cn_ncpu sx).
Definition get_emu__system_threads (sx : cenv) (st : cstate) (e : ptr_emu) : ptr_sthread := first_of (cn_nth sx).
Definition get_emu__system_nthreads (sx : cenv) (st : cstate) (e : ptr_emu) : Z := Z.of_nat (cn_nth sx).
Definition get_thread__gindex (sx : cenv) (st : cstate) (t : ptr_sthread) : Z := match t with Some k => Z.of_nat k | None => 0 end.
Definition get_cpu__gindex (sx : cenv) (st : cstate) (c : ptr_scpu) : Z := match c with Some k => Z.of_nat k | None => 0 end.
Definition addr_thread_chan_at (t : ptr_sthread) (w : Z) : ptr_chan := match t with Some k => Some (ASysTh k (Z.to_nat w)) | None => None end.
Definition addr_cpu_chan_at (c : ptr_scpu) (w : Z) : ptr_chan := match c with Some k => Some (ASysCpu k (Z.to_nat w)) | None => None end.
Definition addr_thread_ext (t : ptr_sthread) : ptr_extend := match t with Some k => Some (false, k) | None => None end.
Definition addr_cpu_ext (c : ptr_scpu) : ptr_extend := match c with Some k => Some (true, k) | None => None end.

(* ---- thread.c / cpu.c: the system channels; PRV types and flags per channel are dumped from the source by unit pv *)
Definition ptr_loom := option unit.
Definition ptr_json := option unit.
Definition g_thread_chan_type : list Z := map (fun x => let '(ty, _, _, _) := x in ty) Pv_gen.th_sys.
Definition g_thread_prv_flags : list Z := map (fun x => let '(_, fl, _, _) := x in fl) Pv_gen.th_sys.
Definition g_cpu_chan_type : list Z := map (fun x => let '(ty, _, _) := x in ty) Pv_gen.cpu_sys.
Definition g_cpu_prv_flags : list Z := map (fun x => let '(_, fl, _) := x in fl) Pv_gen.cpu_sys.
Definition g_cpu_chan_name : ptr_strs := Some (map (fun _ => Some ""%string) Pv_gen.cpu_sys).
Definition g_cpu_chan_fmt : ptr_str := Some "cpu%li.%s"%string.
Definition get_thread__meta (sx : cenv) (st : cstate) (t : ptr_sthread) : ptr_json := Some tt.
Definition get_cpu__loom (sx : cenv) (st : cstate) (c : ptr_scpu) : ptr_loom := Some tt.
Definition inited (st : cstate) (k : bool * nat) : bool := existsb (fun x => Bool.eqb (fst x) (fst k) && Nat.eqb (snd x) (snd k)) (cs_inited st).
Definition get_thread__is_init (sx : cenv) (st : cstate) (t : ptr_sthread) : Z := match t with Some k => b2z (inited st (false, k)) | None => 0 end.
Definition get_cpu__is_init (sx : cenv) (st : cstate) (c : ptr_scpu) : Z := match c with Some k => b2z (inited st (true, k)) | None => 0 end.
Definition set_thread_is_init (t : ptr_sthread) (v : cenv -> cstate -> Z) : M unit :=
  fun sx st => match t with Some k => if v sx st =? 0 then Err E_TRAP else Ok (tt, with_inited st ((false, k) :: cs_inited st)) | None => Err E_TRAP end.
Definition set_cpu_is_init (c : ptr_scpu) (v : cenv -> cstate -> Z) : M unit :=
  fun sx st => match c with Some k => if v sx st =? 0 then Err E_TRAP else Ok (tt, with_inited st ((true, k) :: cs_inited st)) | None => Err E_TRAP end.
Definition set_name (c : ptr_scpu) : M unit := ret tt.

(* ---- extend.c *)
Definition void_of_ptr_mthread (p : ptr_mthread) : ptr_void := option_map VMth p.
Definition void_of_ptr_mcpu (p : ptr_mcpu) : ptr_void := option_map VMcpu p.
Definition ptr_mthread_of_void (p : ptr_void) : ptr_mthread := match p with Some (VMth a) => Some a | _ => None end.
Definition ptr_mcpu_of_void (p : ptr_void) : ptr_mcpu := match p with Some (VMcpu a) => Some a | _ => None end.
Definition key_eqb (x y : bool * nat * Z) : bool :=
  let '(a, b, c) := x in let '(d, e, f) := y in Bool.eqb a d && Nat.eqb b e && Z.eqb c f.
Definition extend_get (sx : cenv) (st : cstate) (e : ptr_extend) (id : Z) : ptr_void :=
  match e with
  | Some (cpu, g) => match find (fun x => key_eqb (fst x) (cpu, g, id)) (cs_ext st) with Some (_, o) => Some o | None => None end
  | None => None
  end.
Definition extend_set (e : ptr_extend) (id : Z) (ctx : ptr_void) : M unit :=
  fun sx st => match e, ctx with
               | Some (cpu, g), Some o => Ok (tt, with_ext st (((cpu, g, id), o) :: cs_ext st))
               | _, _ => Err E_TRAP
               end.

(* ---- calloc *)
Definition calloc_ptr_mthread (n size : Z) : M ptr_mthread :=
  fun sx st => if cn_alloc_ok sx then Ok (Some (length (cs_mths st)), with_mths st (cs_mths st ++ [mth0])) else Ok (None, st).
Definition calloc_ptr_mcpu (n size : Z) : M ptr_mcpu :=
  fun sx st => if cn_alloc_ok sx then Ok (Some (length (cs_mcpus st)), with_mcpus st (cs_mcpus st ++ [mcpu0])) else Ok (None, st).
Definition calloc_ptr_chan (n size : Z) : M ptr_chan :=
  fun sx st => if cn_alloc_ok sx then Ok (Some (AArr (cs_narr st) 0), with_narr st (S (cs_narr st))) else Ok (None, st).
Definition calloc_ptr_track (n size : Z) : M ptr_track :=
  fun sx st => if cn_alloc_ok sx
               then Ok (Some (length (cs_tracks st), 0), with_tracks st (cs_tracks st ++ [repeat track0 (Z.to_nat n)]))
               else Ok (None, st).
Definition at_ptr_chan (p : ptr_chan) (i : Z) : ptr_chan :=
  match p with Some (AArr b j) => Some (AArr b (j + i)) | _ => None end.
Definition at_ptr_track (p : ptr_track) (i : Z) : ptr_track := match p with Some (b, j) => Some (b, j + i) | None => None end.

(* ---- struct model_thread / model_cpu *)
Definition mth_at (st : cstate) (p : ptr_mthread) : option mthobj := match p with Some a => nth_error (cs_mths st) a | None => None end.
Definition mcpu_at (st : cstate) (p : ptr_mcpu) : option mcpuobj := match p with Some a => nth_error (cs_mcpus st) a | None => None end.
Definition get_model_thread__spec (sx : cenv) (st : cstate) (p : ptr_mthread) : ptr_thspec := match mth_at st p with Some o => mt_spec o | None => None end.
Definition get_model_thread__bay (sx : cenv) (st : cstate) (p : ptr_mthread) : ptr_bay := match mth_at st p with Some o => mt_bay o | None => None end.
Definition get_model_thread__ch (sx : cenv) (st : cstate) (p : ptr_mthread) : ptr_chan := match mth_at st p with Some o => mt_ch o | None => None end.
Definition get_model_thread__track (sx : cenv) (st : cstate) (p : ptr_mthread) : ptr_track := match mth_at st p with Some o => mt_track o | None => None end.
Definition get_model_thread__spec_chan (sx : cenv) (st : cstate) (p : ptr_mthread) : ptr_chspec :=
  get_model_thread_spec__chan sx st (get_model_thread__spec sx st p).
Definition get_model_thread__spec_chan_nch (sx : cenv) (st : cstate) (p : ptr_mthread) : Z :=
  get_model_chan_spec__nch sx st (get_model_thread__spec_chan sx st p).
Definition get_model_cpu__spec (sx : cenv) (st : cstate) (p : ptr_mcpu) : ptr_cpuspec := match mcpu_at st p with Some o => mc_spec o | None => None end.
Definition get_model_cpu__bay (sx : cenv) (st : cstate) (p : ptr_mcpu) : ptr_bay := match mcpu_at st p with Some o => mc_bay o | None => None end.
Definition get_model_cpu__track (sx : cenv) (st : cstate) (p : ptr_mcpu) : ptr_track := match mcpu_at st p with Some o => mc_track o | None => None end.
Definition get_model_cpu__spec_chan (sx : cenv) (st : cstate) (p : ptr_mcpu) : ptr_chspec :=
  get_model_cpu_spec__chan sx st (get_model_cpu__spec sx st p).
Definition get_model_cpu__spec_model (sx : cenv) (st : cstate) (p : ptr_mcpu) : ptr_mspec := get_model_cpu__spec sx st p.
Definition get_model_cpu__spec_model_name (sx : cenv) (st : cstate) (p : ptr_mcpu) : ptr_str := Some ""%string.

Definition upd_mth (st : cstate) (p : ptr_mthread) (f : mthobj -> mthobj) : result (unit * cstate) :=
  match p, mth_at st p with
  | Some a, Some o => Ok (tt, with_mths st (update (cs_mths st) a (f o)))
  | _, _ => Err E_TRAP
  end.
Definition upd_mcpu (st : cstate) (p : ptr_mcpu) (f : mcpuobj -> mcpuobj) : result (unit * cstate) :=
  match p, mcpu_at st p with
  | Some a, Some o => Ok (tt, with_mcpus st (update (cs_mcpus st) a (f o)))
  | _, _ => Err E_TRAP
  end.
Definition set_model_thread_spec (p : ptr_mthread) (v : cenv -> cstate -> ptr_thspec) : M unit :=
  fun sx st => upd_mth st p (fun o => {| mt_spec := v sx st; mt_bay := mt_bay o; mt_ch := mt_ch o; mt_track := mt_track o |}).
Definition set_model_thread_bay (p : ptr_mthread) (v : cenv -> cstate -> ptr_bay) : M unit :=
  fun sx st => upd_mth st p (fun o => {| mt_spec := mt_spec o; mt_bay := v sx st; mt_ch := mt_ch o; mt_track := mt_track o |}).
Definition set_model_thread_ch (p : ptr_mthread) (v : cenv -> cstate -> ptr_chan) : M unit :=
  fun sx st => upd_mth st p (fun o => {| mt_spec := mt_spec o; mt_bay := mt_bay o; mt_ch := v sx st; mt_track := mt_track o |}).
Definition set_model_thread_track (p : ptr_mthread) (v : cenv -> cstate -> ptr_track) : M unit :=
  fun sx st => upd_mth st p (fun o => {| mt_spec := mt_spec o; mt_bay := mt_bay o; mt_ch := mt_ch o; mt_track := v sx st |}).
Definition set_model_cpu_spec (p : ptr_mcpu) (v : cenv -> cstate -> ptr_cpuspec) : M unit :=
  fun sx st => upd_mcpu st p (fun o => {| mc_spec := v sx st; mc_bay := mc_bay o; mc_track := mc_track o |}).
Definition set_model_cpu_bay (p : ptr_mcpu) (v : cenv -> cstate -> ptr_bay) : M unit :=
  fun sx st => upd_mcpu st p (fun o => {| mc_spec := mc_spec o; mc_bay := v sx st; mc_track := mc_track o |}).
Definition set_model_cpu_track (p : ptr_mcpu) (v : cenv -> cstate -> ptr_track) : M unit :=
  fun sx st => upd_mcpu st p (fun o => {| mc_spec := mc_spec o; mc_bay := mc_bay o; mc_track := v sx st |}).

(* ---- struct track *)
Definition track_at (st : cstate) (p : option (nat * Z)) : option trackobj :=
  match p with
  | Some (b, i) => if i <? 0 then None else match nth_error (cs_tracks st) b with Some l => nth_error l (Z.to_nat i) | None => None end
  | None => None
  end.
Definition get_track__mode (sx : cenv) (st : cstate) (p : ptr_track) : Z := match track_at st p with Some o => tk_mode o | None => 0 end.
Definition get_track__bay (sx : cenv) (st : cstate) (p : ptr_track) : ptr_bay := match track_at st p with Some o => tk_bay o | None => None end.
Definition get_track__out (sx : cenv) (st : cstate) (p : ptr_track) : ptr_chan := match track_at st p with Some o => tk_out o | None => None end.
Definition get_track__name (sx : cenv) (st : cstate) (p : ptr_track) : ptr_str := Some ""%string.
Definition addr_track_ch (p : ptr_track) : ptr_chan := match p with Some (b, i) => Some (ATrk b i) | None => None end.
Definition addr_track_mux (p : ptr_track) : ptr_mux := match p with Some (b, i) => Some (MTrk b i) | None => None end.
Definition upd_track (st : cstate) (p : option (nat * Z)) (f : trackobj -> trackobj) : result (unit * cstate) :=
  match p, track_at st p with
  | Some (b, i), Some o =>
    Ok (tt, with_tracks st (update (cs_tracks st) b (update (nth b (cs_tracks st) []) (Z.to_nat i) (f o))))
  | _, _ => Err E_TRAP
  end.
Definition set_track_type (p : ptr_track) (v : cenv -> cstate -> Z) : M unit :=
  fun sx st => upd_track st p (fun o => {| tk_type := v sx st; tk_mode := tk_mode o; tk_bay := tk_bay o; tk_out := tk_out o; tk_mux := tk_mux o |}).
Definition set_track_mode (p : ptr_track) (v : cenv -> cstate -> Z) : M unit :=
  fun sx st => upd_track st p (fun o => {| tk_type := tk_type o; tk_mode := v sx st; tk_bay := tk_bay o; tk_out := tk_out o; tk_mux := tk_mux o |}).
Definition set_track_bay (p : ptr_track) (v : cenv -> cstate -> ptr_bay) : M unit :=
  fun sx st => upd_track st p (fun o => {| tk_type := tk_type o; tk_mode := tk_mode o; tk_bay := v sx st; tk_out := tk_out o; tk_mux := tk_mux o |}).
Definition set_track_out (p : ptr_track) (v : cenv -> cstate -> ptr_chan) : M unit :=
  fun sx st => upd_track st p (fun o => {| tk_type := tk_type o; tk_mode := tk_mode o; tk_bay := tk_bay o; tk_out := v sx st; tk_mux := tk_mux o |}).
(* vsnprintf(track->name, n, fmt, ap): only the length check (names shorter than MAX_CHAN_NAME) *)
Definition vsnprintf (dst : ptr_str) (n : Z) (fmt : ptr_str) (ap : va_list_t) : M Z := ret 0.

(* ---- chan.c / bay.c *)
Definition P_IGNORE_DUP : Z := 2.
Definition P_ALLOW_DUP : Z := 1.       (* enum chan_prop: checked against the generated constant in Proofs/ConnectProofs.v *)
Definition T_STACK : Z := 1.           (* enum chan_type CHAN_STACK *)
Fixpoint pend_set (l : list (caddr * (bool * bool * bool))) (c : caddr) (x : bool * bool * bool) : list (caddr * (bool * bool * bool)) :=
  match l with
  | [] => [(c, x)]
  | (d, y) :: r => if caddr_eqb d c then (c, x) :: r else (d, y) :: pend_set r c x
  end.
Definition pend_get (st : cstate) (c : caddr) : option (bool * bool * bool) :=
  match find (fun x => caddr_eqb (fst x) c) (cs_pend st) with Some (_, y) => Some y | None => None end.
Definition chan_init (c : ptr_chan) (type : Z) (fmt : ptr_str) : M unit :=
  fun sx st => match c with
               | Some a => Ok (tt, with_pend st (pend_set (cs_pend st) a (type =? T_STACK, false, false)))
               | None => Err E_TRAP
               end.
Definition chan_prop_set (c : ptr_chan) (prop : Z) (v : Z) : M unit :=
  fun sx st => match c with
               | Some a =>
                 match pend_get st a with
                 | Some (stk, al, ig) =>
                   if prop =? P_ALLOW_DUP then Ok (tt, with_pend st (pend_set (cs_pend st) a (stk, negb (v =? 0), ig)))
                   else if prop =? P_IGNORE_DUP then Ok (tt, with_pend st (pend_set (cs_pend st) a (stk, al, negb (v =? 0))))
                   else Err E_TRAP
                 | None => Err E_TRAP
                 end
               | None => Err E_TRAP
               end.
Fixpoint index_of (l : list caddr) (c : caddr) (k : nat) : option nat :=
  match l with [] => None | d :: r => if caddr_eqb d c then Some k else index_of r c (S k) end.
Definition id_of (st : cstate) (c : caddr) : option nat := index_of (cs_reg st) c 0.
Definition bay_register (b : ptr_bay) (c : ptr_chan) : M unit :=
  fun sx st => match b, c with
               | Some _, Some a =>
                 match pend_get st a, id_of st a with
                 | Some (stk, al, ig), None =>
                   let bb := cs_bay st in
                   Ok (tt, with_reg (with_bay st {| B.b_chans := B.b_chans bb ++ [B.mk_chan stk false al ig];
                                                    B.b_dcbs := B.b_dcbs bb ++ [[]]; B.b_ecbs := B.b_ecbs bb ++ [[]];
                                                    B.b_muxes := B.b_muxes bb; B.b_dirty := B.b_dirty bb |})
                                    (cs_reg st ++ [a]))
                 | Some _, Some _ => Err E_FAIL          (* already registered *)
                 | None, _ => Err E_TRAP                 (* not initialised *)
                 end
               | _, _ => Err E_TRAP
               end.

(* ---- mux.c *)
From OV Require Emu.BayBreakdownDefs.
Definition selfun_of (sx : cenv) (f : ptr_fn) : B.selfun :=
  match f with
  | None => B.SelDefault
  | Some FRunning => B.SelRunning
  | Some FActive => B.SelActive
  | Some FSelTr => B.SelCustom (BayBreakdownDefs.g_tr (cn_body sx))          (* nosv/breakdown.c select_tr *)
  | Some FSelIdle => B.SelCustom (BayBreakdownDefs.g_idle (cn_prog sx))      (* select_idle *)
  end.
Definition fn_select_tr : ptr_fn := Some FSelTr.
Definition fn_select_idle : ptr_fn := Some FSelIdle.
Definition UNSET : nat := 0%nat.
Definition bd_get (st : cstate) (k : nat * nat) : option nat :=
  match find (fun x => Nat.eqb (fst (fst x)) (fst k) && Nat.eqb (snd (fst x)) (snd k)) (cs_bd st) with Some (_, v) => Some v | None => None end.
Definition mux_id (st : cstate) (m : muxref) : option nat :=
  match m with
  | MTrk b i => match track_at st (Some (b, i)) with Some o => tk_mux o | None => None end
  | MBd a w => bd_get st (a, w)
  end.
Definition mux_exists (st : cstate) (m : muxref) : bool :=
  match m with MTrk b i => negb (is_null (track_at st (Some (b, i)))) | MBd _ _ => true end.
Definition mux_record (st : cstate) (m : muxref) (mid : nat) : result (unit * cstate) :=
  match m with
  | MTrk b i => upd_track st (Some (b, i)) (fun o => {| tk_type := tk_type o; tk_mode := tk_mode o; tk_bay := tk_bay o; tk_out := tk_out o; tk_mux := Some mid |})
  | MBd a w => Ok (tt, with_bd st (((a, w), mid) :: cs_bd st))
  end.
Definition mux_init (m : ptr_mux) (b : ptr_bay) (sel out : ptr_chan) (fsel : ptr_fn) (ninputs : Z) : M unit :=
  fun sx st =>
    match m, b, sel, out with
    | Some mr, Some _, Some s, Some u =>
      if negb (mux_exists st mr) then Err E_TRAP else
      match id_of st s, id_of st u with
      | Some si, Some ui =>
        if caddr_eqb s u then Err E_FAIL else
        match nth_error (B.b_chans (cs_bay st)) ui with
        | Some ch =>
          if B.c_stack ch then Err E_FAIL else
          let bb := cs_bay st in
          let mid := length (B.b_muxes bb) in
          let ch' := {| B.c_stack := B.c_stack ch; B.c_val := B.c_val ch; B.c_stk := B.c_stk ch; B.c_last := B.c_last ch;
                        B.c_dirty := B.c_dirty ch; B.c_dw := true; B.c_allow := true; B.c_ign := B.c_ign ch |} in
          let mx := {| B.mx_init := true; B.mx_sel := si; B.mx_out := ui; B.mx_fun := selfun_of sx fsel; B.mx_def := None;
                       B.mx_ins := repeat UNSET (Z.to_nat ninputs); B.mx_en := repeat false (Z.to_nat ninputs);
                       B.mx_selected := Some 0%nat |} in
          let bb' := {| B.b_chans := update (B.b_chans bb) ui ch';
                        B.b_dcbs := update (B.b_dcbs bb) si (nth si (B.b_dcbs bb) [] ++ [B.DSelect mid]);
                        B.b_ecbs := B.b_ecbs bb; B.b_muxes := B.b_muxes bb ++ [mx]; B.b_dirty := B.b_dirty bb |} in
          mux_record (with_bay st bb') mr mid
        | None => Err E_TRAP
        end
      | _, _ => Err E_FAIL                                 (* not registered *)
      end
    | _, _, _, _ => Err E_TRAP
    end.
Definition mux_set_input (m : ptr_mux) (index : Z) (inp : ptr_chan) : M unit :=
  fun sx st =>
    match m, inp with
    | Some mr, Some a =>
      match mux_id st mr, id_of st a with
      | Some mid, Some ii =>
        match nth_error (B.b_muxes (cs_bay st)) mid with
        | Some mx =>
          if (0 <=? index) && (index <? Z.of_nat (length (B.mx_ins mx))) then
            let mx' := {| B.mx_init := B.mx_init mx; B.mx_sel := B.mx_sel mx; B.mx_out := B.mx_out mx; B.mx_fun := B.mx_fun mx;
                          B.mx_def := B.mx_def mx; B.mx_ins := update (B.mx_ins mx) (Z.to_nat index) ii; B.mx_en := B.mx_en mx;
                          B.mx_selected := B.mx_selected mx |} in
            Ok (tt, with_bay st (B.set_mux (cs_bay st) mid mx'))
          else Err E_FAIL
        | None => Err E_TRAP
        end
      | None, _ => Err E_TRAP                              (* mux not initialised *)
      | _, None => Err E_FAIL                              (* input not registered *)
      end
    | _, _ => Err E_TRAP
    end.
(* mux_add_reselect: bay_add_cb(.., chan, cb_reselect, mux, 1): appended ENABLED to the dirty callbacks of chan *)
Definition mux_add_reselect (m : ptr_mux) (c : ptr_chan) : M unit :=
  fun sx st =>
    match m, c with
    | Some mr, Some a =>
      match mux_id st mr, id_of st a with
      | Some mid, Some ci =>
        let bb := cs_bay st in
        Ok (tt, with_bay st {| B.b_chans := B.b_chans bb; B.b_dcbs := update (B.b_dcbs bb) ci (nth ci (B.b_dcbs bb) [] ++ [B.DReselect mid]);
                               B.b_ecbs := B.b_ecbs bb; B.b_muxes := B.b_muxes bb; B.b_dirty := B.b_dirty bb |})
      | None, _ => Err E_TRAP
      | _, None => Err E_FAIL
      end
    | _, _ => Err E_TRAP
    end.
Definition cvalue := value.
Definition value_int64 (sx : cenv) (st : cstate) (z : Z) : cvalue := Some z.
Definition mux_set_default (m : ptr_mux) (v : cvalue) : M unit :=
  fun sx st =>
    match m with
    | Some mr =>
      match mux_id st mr with
      | Some mid =>
        match nth_error (B.b_muxes (cs_bay st)) mid with
        | Some mx => Ok (tt, with_bay st (B.set_mux (cs_bay st) mid
                       {| B.mx_init := B.mx_init mx; B.mx_sel := B.mx_sel mx; B.mx_out := B.mx_out mx; B.mx_fun := B.mx_fun mx;
                          B.mx_def := v; B.mx_ins := B.mx_ins mx; B.mx_en := B.mx_en mx; B.mx_selected := B.mx_selected mx |}))
        | None => Err E_TRAP
        end
      | None => Err E_TRAP
      end
    | None => Err E_TRAP
    end.

(* ---- nosv/breakdown.c: struct nosv_cpu = the model_cpu object of model 'V' + its breakdown part *)
Definition ptr_ncpu := option nat.
Definition ptr_bcpu := option nat.
Definition ptr_value := option unit.
Definition addr_nosv_cpu_breakdown (p : ptr_ncpu) : ptr_bcpu := p.
Definition addr_nosv_breakdown_cpu_tr (p : ptr_bcpu) : ptr_chan := option_map (fun a => ABd a 0) p.
Definition addr_nosv_breakdown_cpu_tri (p : ptr_bcpu) : ptr_chan := option_map (fun a => ABd a 1) p.
Definition addr_nosv_breakdown_cpu_mux0 (p : ptr_bcpu) : ptr_mux := option_map (fun a => MBd a 0) p.
Definition addr_nosv_breakdown_cpu_mux1 (p : ptr_bcpu) : ptr_mux := option_map (fun a => MBd a 1) p.
Definition get_nosv_cpu__m_track (sx : cenv) (st : cstate) (p : ptr_ncpu) : ptr_track :=
  match p with Some a => match nth_error (cs_mcpus st) a with Some o => mc_track o | None => None end | None => None end.
(* sort_set_input(&bemu->sort, i, &bcpu->tri) (sort.c, not in this unit): bay_add_cb(.., tri, sort_cb_input, input, 1).  Rendered as
   BayBreakdownDefs does: an always-enabled input callback of a pseudo mux that copies tri into a sink channel *)
Definition sort_set_input (a : nat) : M unit :=
  fun sx st =>
    match id_of st (ABd a 1), id_of st (ASink a) with
    | Some ti, None =>
      let bb := cs_bay st in
      let sk := length (B.b_chans bb) in
      let mid := length (B.b_muxes bb) in
      let mx := {| B.mx_init := true; B.mx_sel := sk; B.mx_out := sk; B.mx_fun := B.SelDefault; B.mx_def := None;
                   B.mx_ins := [ti]; B.mx_en := [true]; B.mx_selected := Some 0%nat |} in
      Ok (tt, with_bd (with_reg (with_bay st {| B.b_chans := B.b_chans bb ++ [B.mk_chan false true true false];
                                                B.b_dcbs := update (B.b_dcbs bb) ti (nth ti (B.b_dcbs bb) [] ++ [B.DInput mid 0]) ++ [[]];
                                                B.b_ecbs := B.b_ecbs bb ++ [[]]; B.b_muxes := B.b_muxes bb ++ [mx]; B.b_dirty := B.b_dirty bb |})
                                (cs_reg st ++ [ASink a])) (((a, 2%nat), mid) :: cs_bd st))
    | _, _ => Err E_FAIL
    end.

(* ---- the PVT side: only which file *)
Definition recorder_find_pvt (sx : cenv) (st : cstate) (r : ptr_recorder) (name : ptr_str) : ptr_pvt :=
  match name with
  | Some s => if String.eqb s "thread" then Some false else if String.eqb s "cpu" then Some true else None
  | None => None
  end.
Definition addr_pvt_prv (p : ptr_pvt) : ptr_prv := p.
Definition addr_pvt_pcf (p : ptr_pvt) : ptr_pcf := p.
Definition init_pcf (s : ptr_chspec) (p : ptr_pcf) : M unit := ret tt.
Definition prv_register (p : ptr_prv) (row type : Z) (b : ptr_bay) (c : ptr_chan) (flags : Z) : M unit :=
  fun sx st =>
    match p, b, c with
    | Some cpu, Some _, Some a =>
      match id_of st a with
      | Some ci =>
        let bb := cs_bay st in
        let e := {| B.e_cpu := cpu; B.e_row := Z.to_nat row; B.e_type := type; B.e_flags := flags |} in
        Ok (tt, with_bay st {| B.b_chans := B.b_chans bb; B.b_dcbs := B.b_dcbs bb;
                               B.b_ecbs := update (B.b_ecbs bb) ci (nth ci (B.b_ecbs bb) [] ++ [e]);
                               B.b_muxes := B.b_muxes bb; B.b_dirty := B.b_dirty bb |})
      | None => Err E_FAIL
      end
    | _, _, _ => Err E_TRAP
    end.

(* ---- ovni/mark.c: the mark channels (pseudo-model 1000 of the channel specs: one spec per mark type, in the order
   of the hash table memu->types = order of first appearance; index = position) *)
Definition M_MARK : Z := 1000.
Definition ptr_oemu := option unit.
Definition ptr_memu := option unit.
Definition ptr_othread := option nat.          (* the struct ovni_thread IS the model_thread object of model 'O' *)
Definition ptr_mkth := option nat.
Definition ptr_ocpu := option nat.
Definition ptr_mkcpu := option nat.
Definition ptr_mtype := option nat.
Definition addr_emu_ext (e : ptr_emu) : ptr_extend := None.
(* EXT(emu, 'O'): model_ovni_create stored the struct ovni_emu (not translated): it exists *)
Definition ptr_oemu_of_void (p : ptr_void) : ptr_oemu := Some tt.
Definition ptr_othread_of_void (p : ptr_void) : ptr_othread := match p with Some (VMth a) => Some a | _ => None end.
Definition ptr_ocpu_of_void (p : ptr_void) : ptr_ocpu := match p with Some (VMcpu a) => Some a | _ => None end.
Definition addr_ovni_emu_mark (p : ptr_oemu) : ptr_memu := p.
Definition addr_ovni_thread_mark (p : ptr_othread) : ptr_mkth := p.
Definition addr_ovni_cpu_mark (p : ptr_ocpu) : ptr_mkcpu := p.
Definition mark_specs (sx : cenv) : list chanspec := mchans sx M_MARK.
Definition get_ovni_mark_emu__ntypes (sx : cenv) (st : cstate) (m : ptr_memu) : Z := Z.of_nat (length (mark_specs sx)).
Definition get_ovni_mark_emu__types (sx : cenv) (st : cstate) (m : ptr_memu) : ptr_mtype := first_of (length (mark_specs sx)).
Definition for_hh_mark_type {A} (start : cenv -> cstate -> ptr_mtype) (acc : A) (body : ptr_mtype -> A -> M A) : M A :=
  fun sx st => match start sx st with
               | None => Ok (acc, st)
               | Some k => for_list (map (fun j => Some j) (seq k (length (mark_specs sx) - k))) acc body sx st
               end.
Definition mspec (sx : cenv) (t : ptr_mtype) : chanspec := match t with Some k => nth k (mark_specs sx) null_spec | None => null_spec end.
Definition get_mark_type__index (sx : cenv) (st : cstate) (t : ptr_mtype) : Z := match t with Some k => Z.of_nat k | None => 0 end.
Definition get_mark_type__ctype (sx : cenv) (st : cstate) (t : ptr_mtype) : Z := if cs_stack (mspec sx t) then T_STACK else 0.
Definition get_mark_type__prvtype (sx : cenv) (st : cstate) (t : ptr_mtype) : Z := cs_type (mspec sx t).
Definition mark_get (st : cstate) (k : bool * nat) : ptr_chan * ptr_track :=
  match find (fun x => Bool.eqb (fst (fst x)) (fst k) && Nat.eqb (snd (fst x)) (snd k)) (cs_mark st) with Some (_, v) => v | None => (None, None) end.
Definition mark_put (st : cstate) (k : bool * nat) (v : ptr_chan * ptr_track) : cstate := with_mark st ((k, v) :: cs_mark st).
Definition get_ovni_mark_thread__channels (sx : cenv) (st : cstate) (p : ptr_mkth) : ptr_chan := match p with Some a => fst (mark_get st (false, a)) | None => None end.
Definition get_ovni_mark_thread__track (sx : cenv) (st : cstate) (p : ptr_mkth) : ptr_track := match p with Some a => snd (mark_get st (false, a)) | None => None end.
Definition get_ovni_mark_cpu__track (sx : cenv) (st : cstate) (p : ptr_mkcpu) : ptr_track := match p with Some a => snd (mark_get st (true, a)) | None => None end.
Definition set_ovni_mark_thread_channels (p : ptr_mkth) (v : cenv -> cstate -> ptr_chan) : M unit :=
  fun sx st => match p with Some a => Ok (tt, mark_put st (false, a) (v sx st, snd (mark_get st (false, a)))) | None => Err E_TRAP end.
Definition set_ovni_mark_thread_track (p : ptr_mkth) (v : cenv -> cstate -> ptr_track) : M unit :=
  fun sx st => match p with Some a => Ok (tt, mark_put st (false, a) (fst (mark_get st (false, a)), v sx st)) | None => Err E_TRAP end.
Definition set_ovni_mark_thread_nchannels (p : ptr_mkth) (v : cenv -> cstate -> Z) : M unit :=
  fun sx st => match p with Some _ => Ok (tt, st) | None => Err E_TRAP end.
Definition set_ovni_mark_cpu_track (p : ptr_mkcpu) (v : cenv -> cstate -> ptr_track) : M unit :=
  fun sx st => match p with Some a => Ok (tt, mark_put st (true, a) (None, v sx st)) | None => Err E_TRAP end.
Definition mark_init_pcf (e : ptr_emu) (p : ptr_pcf) : M unit := ret tt.
Definition get_emu__system_cpus (sx : cenv) (st : cstate) (e : ptr_emu) : ptr_scpu := first_of (cn_ncpu sx).
