(* Independent statement of the stream file format (what "structurally valid"
   means for the bytes of a stream.obs).  It mentions neither the state machine
   of stream.c, nor the translated C, nor casts or read footprints: only the
   bytes.  Used as the specification the model is proved against
   (Proofs/StreamProofs.v) and, extracted, as a decider. *)
From OV Require Import Base.CInt.
Local Open Scope Z_scope.

Definition sbyte (bs : list Z) (i : Z) : Z := nth (Z.to_nat i) bs 0 mod 256.

(* little-endian number made of the n bytes at i *)
Fixpoint sle (bs : list Z) (i : Z) (n : nat) : Z :=
  match n with
  | O => 0
  | S k => sbyte bs i + 256 * sle bs (i + 1) k
  end.

Definition slen (bs : list Z) : Z := Z.of_nat (length bs).

(* header: "ovni" then the 32-bit version 1 *)
Definition spec_magic : list Z := [111; 118; 110; 105].
Definition spec_header_ok (bs : list Z) : bool :=
  (8 <=? slen bs) &&
  (sbyte bs 0 =? 111) && (sbyte bs 1 =? 118) && (sbyte bs 2 =? 110) && (sbyte bs 3 =? 105) &&
  (sle bs 4 4 =? 1).

(* An event at position off: 12-byte header (flags, M, C, V, 64-bit clock), then
   - jumbo (bit 4 of flags): 32-bit size n, then n bytes;
   - otherwise: low nibble k of flags: no payload if k = 0, else k+1 bytes.
   The event must lie inside the file and be at most 2^31-1 bytes long.
   Some s = it does, and it is s bytes long. *)
Definition spec_ev_size (bs : list Z) (off : Z) : option Z :=
  let left := slen bs - off in
  if left <? 12 then None
  else
    let flags := sbyte bs off in
    if Z.testbit flags 4 then
      if left <? 16 then None
      else let s := 16 + sle bs (off + 12) 4 in
           if (s <=? left) && (s <=? 2147483647) then Some s else None
    else
      let k := flags mod 16 in
      let s := 12 + (if k =? 0 then 0 else k + 1) in
      if s <=? left then Some s else None.

(* the clock of the event at off, as the emulator reads it (two's complement 64 bit) *)
Definition spec_clock (bs : list Z) (off : Z) : Z :=
  let c := sle bs (off + 4) 8 in if c <? 2 ^ 63 then c else c - 2 ^ 64.

(* [tiles_from bs sorted off last evs]: the bytes from off to the end of the file are exactly the
   events evs = [(offset, size, clock)], back to back; when [sorted], their clocks never decrease,
   starting from last. *)
Inductive tiles_from (bs : list Z) (sorted : bool) : Z -> Z -> list (Z * Z * Z) -> Prop :=
| tiles_end : forall last, tiles_from bs sorted (slen bs) last []
| tiles_ev : forall off last s evs,
    off < slen bs ->
    spec_ev_size bs off = Some s ->
    (sorted = true -> last <= spec_clock bs off) ->
    tiles_from bs sorted (off + s) (spec_clock bs off) evs ->
    tiles_from bs sorted off last ((off, s, spec_clock bs off) :: evs).

(* a structurally valid stream file *)
Definition valid_obs (bs : list Z) (sorted : bool) (evs : list (Z * Z * Z)) : Prop :=
  spec_header_ok bs = true /\ tiles_from bs sorted 8 0 evs.

(* decider (fuel = number of bytes is always enough: every event is at least 12 bytes) *)
Fixpoint tiles_dec (fuel : nat) (bs : list Z) (sorted : bool) (off last : Z) : option (list (Z * Z * Z)) :=
  if off =? slen bs then Some []
  else match fuel with
       | O => None
       | S f =>
         if slen bs <? off then None else
         match spec_ev_size bs off with
         | None => None
         | Some s =>
           let c := spec_clock bs off in
           if sorted && (c <? last) then None
           else match tiles_dec f bs sorted (off + s) c with
                | None => None
                | Some evs => Some ((off, s, c) :: evs)
                end
         end
       end.

Definition tiles (bs : list Z) (sorted : bool) : option (list (Z * Z * Z)) :=
  if spec_header_ok bs then tiles_dec (length bs) bs sorted 8 0 else None.
