(* Prelude of the generated file Gen/SortC_gen.v (translate/units/sortc.py): the world of src/emu/sort.c.

   The generated file renders sort_replace, sort_cb_input and sort_init statement by statement in the reader + state +
   error monad below (`return -1` = E_FAIL, a NULL dereference or an access outside an array = E_TRAP, die() = E_DIE,
   a conditional loop that does not stop within the bound = E_FUEL).
   Hand-written here (not translated):
     - the two int64_t arrays of struct sort (values, sorted) are lists; `int64_t *` is the name of one of them; reads and
       writes outside the list trap (the C has undefined behaviour there: SortDefs.SR_oob);
     - for_while: a BOUNDED iteration, bound = 2 + the lengths of both arrays (every loop of sort.c moves an index
       through one array, so a loop that has not trapped stops earlier: proved in Proofs/SortCProofs.v);
     - struct value = SortDefs.value; value_int64, value_is_equal (memcmp of the whole struct = SortDefs.value_eqb);
     - chan_read of the input channel gives the value the environment says the channel holds now; chan_read / chan_set
       of output channel i read / write the i-th output value (outputs are DIRTY_WRITE + ALLOW_DUP: chan_set never
       refuses) and chan_set is logged (row, value);
     - memcpy(sorted, values, 8 n) copies the whole array; qsort(sorted, n, 8, cmp_int64) = SortDefs.isort (cmp_int64 is
       tied to the source by unit cmp_sortmod: C20_first_sort_from_source);
     - sort_init: memset, calloc (fresh zeroed arrays), chan_init / chan_prop_set / bay_register of the outputs (logged).
   Definitions only; proofs in Proofs/SortCProofs.v. *)
From Coq Require Import ZArith List Bool String.
From OV Require Import Base.CInt Emu.EmuCoreDefs.
From OV Require Emu.SortDefs.
Import ListNotations.
Local Open Scope Z_scope.

Module SD := SortDefs.

Definition cvalue := SD.value.
Definition fld_cvalue_type (v : cvalue) : Z := match v with SD.VNull => 0 | SD.VInt _ => 1 | SD.VDouble _ => 2 end.
Definition fld_cvalue_i (v : cvalue) : Z := match v with SD.VNull => 0 | SD.VInt i => i | SD.VDouble b => b end.

Inductive arrn := AVal | ASorted | ATmp (n : Z).        (* ATmp: what calloc returned, before it is stored *)
Inductive cref := CIn | COut (i : Z).

Definition ptr_sort := option unit.
Definition ptr_sinput := option Z.                     (* &sort->inputs[i] *)
Definition ptr_bay := option unit.
Definition ptr_chan := option cref.
Definition ptr_value := option unit.
Definition ptr_i64 := option arrn.
Definition ptr_void := option (Z + arrn).
Definition ptr_str := option string.
Inductive cmpfn := CmpInt64.
Definition fn_cmp_int64 : option cmpfn := Some CmpInt64.

Record sstate := {
  ss_values : list Z; ss_sorted : list Z;
  ss_n : Z; ss_copied : Z;
  ss_has : bool * bool * bool * bool;     (* inputs, outputs, values, sorted allocated *)
  ss_outs : list SD.value;                (* current value of the output channels *)
  ss_writes : list (nat * Z);             (* chan_set on the outputs, in order *)
  ss_pend : list (Z * (bool * bool));     (* outputs chan_init'ed: DIRTY_WRITE, ALLOW_DUP *)
  ss_regs : list (Z * (bool * bool))      (* outputs registered in the bay, in order *)
}.
Record senv := { sn_in : SD.value; sn_alloc_ok : bool }.   (* what the input channel holds now; calloc succeeds *)

Definition E_FAIL := 20%nat.
Definition E_TRAP := 99%nat.
Definition E_DIE := 98%nat.
Definition E_FUEL := 97%nat.

Definition M (A : Type) : Type := senv -> sstate -> result (A * sstate).
Definition ret {A} (a : A) : M A := fun _ st => Ok (a, st).
Definition fail {A} (e : nat) : M A := fun _ _ => Err e.
Definition bind {A B} (m : M A) (f : A -> M B) : M B :=
  fun sx st => match m sx st with Ok (a, st') => f a sx st' | Err e => Err e end.
Definition bind_ {A B} (m : M A) (k : M B) : M B := bind m (fun _ => k).
Definition eval {A} (f : senv -> sstate -> A) : M A := fun sx st => Ok (f sx st, st).
Definition ite {A} (c : senv -> sstate -> bool) (a b : M A) : M A :=
  fun sx st => if c sx st then a sx st else b sx st.
Definition need {A} (safe : senv -> sstate -> bool) (k : M A) : M A :=
  fun sx st => if safe sx st then k sx st else Err E_TRAP.

Fixpoint for_list {I A} (l : list I) (acc : A) (body : I -> A -> M A) : M A :=
  match l with
  | [] => ret acc
  | i :: r => bind (body i acc) (fun a => for_list r a body)
  end.
Definition zrange (lo hi : Z) : list Z := map (fun k => lo + Z.of_nat k) (seq 0 (Z.to_nat (hi - lo))).
Definition for_range {A} (lo hi : Z) (acc : A) (body : Z -> A -> M A) : M A := for_list (zrange lo hi) acc body.

(* for (; cond; step) body *)
Fixpoint while_fuel {A} (fuel : nat) (acc : A) (cond : A -> M bool) (body : A -> M A) : M A :=
  match fuel with
  | O => fail E_FUEL
  | S f => bind (cond acc) (fun b => if b then bind (body acc) (fun a => while_fuel f a cond body) else ret acc)
  end.
Definition loop_bound (st : sstate) : nat := S (S (length (ss_values st) + length (ss_sorted st))).
Definition for_while {A} (acc : A) (cond : A -> M bool) (body : A -> M A) : M A :=
  fun sx st => while_fuel (loop_bound st) acc cond body sx st.

(* ---- updates *)
Definition mk (st : sstate) v s n c h o w p r : sstate :=
  {| ss_values := v; ss_sorted := s; ss_n := n; ss_copied := c; ss_has := h; ss_outs := o; ss_writes := w; ss_pend := p; ss_regs := r |}.
Definition with_values (st : sstate) x := mk st x (ss_sorted st) (ss_n st) (ss_copied st) (ss_has st) (ss_outs st) (ss_writes st) (ss_pend st) (ss_regs st).
Definition with_sorted (st : sstate) x := mk st (ss_values st) x (ss_n st) (ss_copied st) (ss_has st) (ss_outs st) (ss_writes st) (ss_pend st) (ss_regs st).
Definition with_n (st : sstate) x := mk st (ss_values st) (ss_sorted st) x (ss_copied st) (ss_has st) (ss_outs st) (ss_writes st) (ss_pend st) (ss_regs st).
Definition with_copied (st : sstate) x := mk st (ss_values st) (ss_sorted st) (ss_n st) x (ss_has st) (ss_outs st) (ss_writes st) (ss_pend st) (ss_regs st).
Definition with_has (st : sstate) x := mk st (ss_values st) (ss_sorted st) (ss_n st) (ss_copied st) x (ss_outs st) (ss_writes st) (ss_pend st) (ss_regs st).
Definition with_outs (st : sstate) x w := mk st (ss_values st) (ss_sorted st) (ss_n st) (ss_copied st) (ss_has st) x w (ss_pend st) (ss_regs st).
Definition with_pend (st : sstate) x := mk st (ss_values st) (ss_sorted st) (ss_n st) (ss_copied st) (ss_has st) (ss_outs st) (ss_writes st) x (ss_regs st).
Definition with_regs (st : sstate) x := mk st (ss_values st) (ss_sorted st) (ss_n st) (ss_copied st) (ss_has st) (ss_outs st) (ss_writes st) (ss_pend st) x.

(* ---- int64_t arrays *)
Definition arr_of (st : sstate) (p : ptr_i64) : list Z :=
  match p with Some AVal => ss_values st | Some ASorted => ss_sorted st | _ => [] end.
Definition inb_ptr_i64 (sx : senv) (st : sstate) (p : ptr_i64) (i : Z) : bool := (0 <=? i) && (i <? Z.of_nat (length (arr_of st p))).
Definition rd_ptr_i64 (sx : senv) (st : sstate) (p : ptr_i64) (i : Z) : Z := nth (Z.to_nat i) (arr_of st p) 0.
Definition wr_ptr_i64 (p : senv -> sstate -> ptr_i64) (i v : senv -> sstate -> Z) : M unit :=
  fun sx st =>
    if inb_ptr_i64 sx st (p sx st) (i sx st) then
      match p sx st with
      | Some AVal => Ok (tt, with_values st (update (ss_values st) (Z.to_nat (i sx st)) (v sx st)))
      | Some ASorted => Ok (tt, with_sorted st (update (ss_sorted st) (Z.to_nat (i sx st)) (v sx st)))
      | _ => Err E_TRAP
      end
    else Err E_TRAP.
Definition void_of_ptr_i64 (p : ptr_i64) : ptr_void := option_map inr p.
Definition ptr_sinput_of_void (p : ptr_void) : ptr_sinput := match p with Some (inl i) => Some i | _ => None end.

(* ---- struct sort / sort_input *)
Definition get_sort_input__sort (sx : senv) (st : sstate) (p : ptr_sinput) : ptr_sort := Some tt.
Definition get_sort_input__index (sx : senv) (st : sstate) (p : ptr_sinput) : Z := match p with Some i => i | None => 0 end.
Definition get_sort__n (sx : senv) (st : sstate) (s : ptr_sort) : Z := ss_n st.
Definition get_sort__copied (sx : senv) (st : sstate) (s : ptr_sort) : Z := ss_copied st.
Definition get_sort__inputs (sx : senv) (st : sstate) (s : ptr_sort) : ptr_sinput := let '(a, _, _, _) := ss_has st in if a then Some 0 else None.
Definition get_sort__outputs (sx : senv) (st : sstate) (s : ptr_sort) : ptr_chan := let '(_, b, _, _) := ss_has st in if b then Some (COut 0) else None.
Definition get_sort__values (sx : senv) (st : sstate) (s : ptr_sort) : ptr_i64 := let '(_, _, c, _) := ss_has st in if c then Some AVal else None.
Definition get_sort__sorted (sx : senv) (st : sstate) (s : ptr_sort) : ptr_i64 := let '(_, _, _, d) := ss_has st in if d then Some ASorted else None.
Definition at_ptr_chan (p : ptr_chan) (i : Z) : ptr_chan := match p with Some (COut j) => Some (COut (j + i)) | _ => None end.
Definition set_sort_copied (s : ptr_sort) (v : senv -> sstate -> Z) : M unit :=
  fun sx st => match s with Some _ => Ok (tt, with_copied st (v sx st)) | None => Err E_TRAP end.
Definition set_sort_n (s : ptr_sort) (v : senv -> sstate -> Z) : M unit :=
  fun sx st => match s with Some _ => Ok (tt, with_n st (v sx st)) | None => Err E_TRAP end.
Definition set_sort_bay (s : ptr_sort) (v : senv -> sstate -> ptr_bay) : M unit :=
  fun sx st => match s with Some _ => Ok (tt, st) | None => Err E_TRAP end.
Definition zero_sort (s : ptr_sort) : M unit :=
  fun sx st => match s with
               | Some _ => Ok (tt, mk st [] [] 0 0 (false, false, false, false) [] (ss_writes st) [] (ss_regs st))
               | None => Err E_TRAP
               end.
Definition sizeof_ (n : Z) : Z := n.
Definition calloc_ptr_sinput (n size : Z) : M ptr_sinput := fun sx st => Ok (if sn_alloc_ok sx then Some 0 else None, st).
Definition calloc_ptr_chan (n size : Z) : M ptr_chan := fun sx st => Ok (if sn_alloc_ok sx then Some (COut 0) else None, st).
Definition calloc_ptr_i64 (n size : Z) : M ptr_i64 := fun sx st => Ok (if sn_alloc_ok sx then Some (ATmp n) else None, st).
Definition set_sort_inputs (s : ptr_sort) (v : senv -> sstate -> ptr_sinput) : M unit :=
  fun sx st => match s with
               | Some _ => let '(_, b, c, d) := ss_has st in Ok (tt, with_has st (negb (is_null (v sx st)), b, c, d))
               | None => Err E_TRAP end.
Definition set_sort_outputs (s : ptr_sort) (v : senv -> sstate -> ptr_chan) : M unit :=
  fun sx st => match s with
               | Some _ => let '(a, _, c, d) := ss_has st in
                           Ok (tt, with_outs (with_has st (a, negb (is_null (v sx st)), c, d)) (repeat SD.VNull (Z.to_nat (ss_n st))) (ss_writes st))
               | None => Err E_TRAP end.
Definition set_sort_values (s : ptr_sort) (v : senv -> sstate -> ptr_i64) : M unit :=
  fun sx st => match s, v sx st with
               | Some _, Some (ATmp n) => let '(a, b, _, d) := ss_has st in Ok (tt, with_values (with_has st (a, b, true, d)) (repeat 0 (Z.to_nat n)))
               | Some _, None => let '(a, b, _, d) := ss_has st in Ok (tt, with_has st (a, b, false, d))
               | _, _ => Err E_TRAP end.
Definition set_sort_sorted (s : ptr_sort) (v : senv -> sstate -> ptr_i64) : M unit :=
  fun sx st => match s, v sx st with
               | Some _, Some (ATmp n) => let '(a, b, c, _) := ss_has st in Ok (tt, with_sorted (with_has st (a, b, c, true)) (repeat 0 (Z.to_nat n)))
               | Some _, None => let '(a, b, c, _) := ss_has st in Ok (tt, with_has st (a, b, c, false))
               | _, _ => Err E_TRAP end.

(* ---- value.h / chan.c *)
Definition value_int64 (sx : senv) (st : sstate) (z : Z) : cvalue := SD.VInt z.
Definition value_is_equal (sx : senv) (st : sstate) (a b : cvalue) : Z := b2z (SD.value_eqb a b).
Definition out_inb (st : sstate) (i : Z) : bool := (0 <=? i) && (i <? Z.of_nat (length (ss_outs st))).
Definition chan_read (c : ptr_chan) : M cvalue :=
  fun sx st => match c with
               | Some CIn => Ok (sn_in sx, st)
               | Some (COut i) => if out_inb st i then Ok (nth (Z.to_nat i) (ss_outs st) SD.VNull, st) else Err E_TRAP
               | None => Err E_TRAP
               end.
Definition chan_set (c : ptr_chan) (v : cvalue) : M unit :=
  fun sx st => match c, v with
               | Some (COut i), SD.VInt s =>
                 if out_inb st i then Ok (tt, with_outs st (update (ss_outs st) (Z.to_nat i) v) (ss_writes st ++ [(Z.to_nat i, s)]))
                 else Err E_TRAP
               | _, _ => Err E_TRAP
               end.

(* ---- libc *)
Definition memcpy (dst src : ptr_void) (bytes : Z) : M unit :=
  fun sx st => match dst, src with
               | Some (inr ASorted), Some (inr AVal) =>
                 if (bytes =? 8 * Z.of_nat (length (ss_values st))) && Nat.eqb (length (ss_sorted st)) (length (ss_values st))
                 then Ok (tt, with_sorted st (ss_values st)) else Err E_TRAP
               | _, _ => Err E_TRAP
               end.
Definition qsort (base : ptr_void) (n size : Z) (cmp : option cmpfn) : M unit :=
  fun sx st => match base, cmp with
               | Some (inr ASorted), Some CmpInt64 =>
                 if (n =? Z.of_nat (length (ss_sorted st))) && (size =? 8) then Ok (tt, with_sorted st (SD.isort (ss_sorted st))) else Err E_TRAP
               | _, _ => Err E_TRAP
               end.

(* ---- sort_init: the outputs *)
Definition P_DIRTY_WRITE : Z := 0.
Definition P_ALLOW_DUP : Z := 1.
Fixpoint aset {A} (l : list (Z * A)) (k : Z) (x : A) : list (Z * A) :=
  match l with [] => [(k, x)] | (j, y) :: r => if j =? k then (k, x) :: r else (j, y) :: aset r k x end.
Definition aget {A} (l : list (Z * A)) (k : Z) : option A := match find (fun x => fst x =? k) l with Some (_, y) => Some y | None => None end.
Definition chan_init (c : ptr_chan) (type : Z) (fmt : ptr_str) : M unit :=
  fun sx st => match c with
               | Some (COut i) => if type =? 0 then Ok (tt, with_pend st (aset (ss_pend st) i (false, false))) else Err E_TRAP
               | _ => Err E_TRAP end.
Definition chan_prop_set (c : ptr_chan) (prop v : Z) : M unit :=
  fun sx st => match c with
               | Some (COut i) =>
                 match aget (ss_pend st) i with
                 | Some (dw, al) =>
                   if prop =? P_DIRTY_WRITE then Ok (tt, with_pend st (aset (ss_pend st) i (negb (v =? 0), al)))
                   else if prop =? P_ALLOW_DUP then Ok (tt, with_pend st (aset (ss_pend st) i (dw, negb (v =? 0))))
                   else Err E_TRAP
                 | None => Err E_TRAP
                 end
               | _ => Err E_TRAP end.
Definition bay_register (b : ptr_bay) (c : ptr_chan) : M unit :=
  fun sx st => match b, c with
               | Some _, Some (COut i) =>
                 match aget (ss_pend st) i, aget (ss_regs st) i with
                 | Some p, None => Ok (tt, with_regs st (ss_regs st ++ [(i, p)]))
                 | Some _, Some _ => Err E_FAIL
                 | None, _ => Err E_TRAP
                 end
               | _, _ => Err E_TRAP end.
