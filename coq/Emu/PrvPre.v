(* Prelude of the generated file Gen/Prv_gen.v (translate/units/prv.py): the world of emit() in src/emu/pv/prv.c.

   The generated file renders is_value_dup, emit and check_flags statement by statement in the monad below (same
   conventions as Emu/GuardsPre.v).  The state is ONE registered channel (struct prv_chan: flags, last_value,
   last_value_set, row_base1, type), the value its channel currently shows (an INPUT: chan_read is chan.h's, see
   unit chan) and the lines written so far.
   Hand-written here (not translated): struct value and value_is_equal / value_is_null (value.h); chan_read as
   "returns the input value"; write_line as "append (row_base1, type, value)" (the fprintf format and prv->time are
   the Paraver writer's business, C13).  Definitions only; proofs in Proofs/PrvProofs.v. *)
From Coq Require Import ZArith List Bool.
From OV Require Import Base.CInt Emu.EmuCoreDefs.
From OV Require Emu.ChanPre.
Import ListNotations.
Local Open Scope Z_scope.

Definition cvalue := ChanPre.cvalue.
Definition fld_cvalue_type (v : cvalue) : Z := ChanPre.vt v.
Definition fld_cvalue_i (v : cvalue) : Z := ChanPre.vi v.

Record pstate := {
  rflags : Z;                 (* rchan->flags *)
  lset : Z;                   (* rchan->last_value_set *)
  lval : cvalue;              (* rchan->last_value *)
  rrow : Z;                   (* rchan->row_base1 *)
  rtyp : Z;                   (* rchan->type *)
  cur : cvalue;               (* what chan_read(rchan->chan, ..) returns *)
  plines : list (Z * Z * Z)   (* write_line calls so far: (row_base1, type, value) *)
}.
Definition penv := unit.

Definition E_FAIL := 20%nat.
Definition E_TRAP := 99%nat.

Definition M (A : Type) : Type := penv -> pstate -> result (A * pstate).
Definition ret {A} (a : A) : M A := fun _ st => Ok (a, st).
Definition fail {A} (e : nat) : M A := fun _ _ => Err e.
Definition bind {A B} (m : M A) (f : A -> M B) : M B :=
  fun sx st => match m sx st with Ok (a, st') => f a sx st' | Err e => Err e end.
Definition bind_ {A B} (m : M A) (k : M B) : M B := bind m (fun _ => k).
Definition eval {A} (f : penv -> pstate -> A) : M A := fun sx st => Ok (f sx st, st).
Definition ite {A} (c : penv -> pstate -> bool) (a b : M A) : M A :=
  fun sx st => if c sx st then a sx st else b sx st.
Definition need {A} (safe : penv -> pstate -> bool) (k : M A) : M A :=
  fun sx st => if safe sx st then k sx st else Err E_TRAP.
Definition exec (m : M unit) (sx : penv) (st : pstate) : result pstate :=
  match m sx st with Ok (_, st') => Ok st' | Err e => Err e end.

Definition ptr_prv := option unit.
Definition ptr_prv_chan := option unit.
Definition ptr_chan := option unit.
Definition ptr_value := option unit.

Definition get_prv_chan_chan (sx : penv) (st : pstate) (r : ptr_prv_chan) : ptr_chan := Some tt.
Definition get_prv_chan_flags (sx : penv) (st : pstate) (r : ptr_prv_chan) : Z := rflags st.
Definition get_prv_chan_last_value_set (sx : penv) (st : pstate) (r : ptr_prv_chan) : Z := lset st.
Definition get_prv_chan_last_value (sx : penv) (st : pstate) (r : ptr_prv_chan) : cvalue := lval st.
Definition get_prv_chan_row_base1 (sx : penv) (st : pstate) (r : ptr_prv_chan) : Z := rrow st.
Definition get_prv_chan_type (sx : penv) (st : pstate) (r : ptr_prv_chan) : Z := rtyp st.

Definition value_is_equal (sx : penv) (st : pstate) (a b : cvalue) : Z :=
  b2z ((ChanPre.vt a =? ChanPre.vt b) && (ChanPre.vi a =? ChanPre.vi b)).
Definition value_is_null (sx : penv) (st : pstate) (a : cvalue) : Z := b2z (ChanPre.vt a =? 0).

Definition set_prv_chan_last_value (r : ptr_prv_chan) (v : penv -> pstate -> cvalue) : M unit :=
  fun sx st => match r with
               | None => Err E_TRAP
               | Some _ => Ok (tt, {| rflags := rflags st; lset := lset st; lval := v sx st; rrow := rrow st; rtyp := rtyp st;
                                      cur := cur st; plines := plines st |})
               end.
Definition set_prv_chan_last_value_set (r : ptr_prv_chan) (v : penv -> pstate -> Z) : M unit :=
  fun sx st => match r with
               | None => Err E_TRAP
               | Some _ => Ok (tt, {| rflags := rflags st; lset := v sx st; lval := lval st; rrow := rrow st; rtyp := rtyp st;
                                      cur := cur st; plines := plines st |})
               end.

(* chan_read(chan, &value): never fails (chan.h) *)
Definition chan_read (c : ptr_chan) : M cvalue :=
  fun sx st => match c with None => Err E_TRAP | Some _ => Ok (cur st, st) end.

(* write_line(prv, row_base1, type, value) *)
Definition write_line (p : ptr_prv) (row type val : Z) : M unit :=
  fun sx st => match p with
               | None => Err E_TRAP
               | Some _ => Ok (tt, {| rflags := rflags st; lset := lset st; lval := lval st; rrow := rrow st; rtyp := rtyp st;
                                      cur := cur st; plines := plines st ++ [(row, type, val)] |})
               end.
