(* Primitives the generated comparators (coq/Gen/Cmp_gen.v, translator unit `comparators`) refer to.
   A C object that reaches the comparison part of a comparator through a pointer is represented by
   the byte string it is compared by (loom id, relative path of a stream); strcmp compares
   unsigned bytes, a proper prefix is smaller (C only fixes the sign of the result). *)
From Coq Require Import ZArith List.
Import ListNotations.
Local Open Scope Z_scope.

Definition get_id (x : list Z) : list Z := x.
Definition get_relpath (x : list Z) : list Z := x.

Fixpoint strcmp (a b : list Z) : Z :=
  match a, b with
  | [], [] => 0
  | [], _ :: _ => -1
  | _ :: _, [] => 1
  | x :: a', y :: b' => if x <? y then -1 else if y <? x then 1 else strcmp a' b'
  end.

(* the three-way comparison every by_* / cmp_* function implements *)
Definition cmp3 (a b : Z) : Z := if a <? b then -1 else if b <? a then 1 else 0.
