(* Prelude of the generated file Gen/TaskC_gen.v (translate/units/taskc.py): the world of the creation functions of
   src/emu/task.c (task_get_id, task_find, task_type_find, task_create, task_type_create) and src/emu/body.c (body_find,
   body_create).  Reader + state + error monad as in Emu/PvWPre.v (`return -1` = fail E_FAIL, `return NULL` = ret None,
   an invalid memory access = E_TRAP).  Definitions only; proofs in Proofs/TaskCProofs.v.

   State: ONE struct task_info (the C keeps one per process and model): its table of task types and its table of tasks,
   every task with the table of its bodies (struct body_info inside struct task).
   Hand-written here (not translated):
     - uthash: a table is the list of its entries in insertion order; HASH_FIND_INT = the first entry with the key,
       HASH_ADD_INT = append; the head pointer of a table (info->tasks, passed to task_find) is NULL for the empty table
       and the first entry otherwise.
     - pointers to entries are positions; calloc() returns the position the object will have once added and keeps it in a
       pending cell (w_knew, w_ynew) until HASH_ADD appends it; an object whose function fails before HASH_ADD is leaked
       in the C and unreachable here.  A pending struct body is the distinguished pointer BNew (calloc cannot know the
       task it will be added to): the pointer body_create returns designates the entry appended last (`BAt t (n-1)`).
     - snprintf(d, N, fmt, ..): the translator parses the literal format; PvWPre.render prints it; the label keeps the
       first N-1 characters, the full length is returned.
     - task_get_type_gid(label): uthash's HASH_VALUE loop over the label, then += 666, & 0x7FFFFFFF, += PCF_RESERVED when
       below it: a function of the label supplied by the environment (e_gid); the check compares the gids of the real
       emulator with the ones it supplies.
     - calloc succeeds or fails as the environment says. *)
From Coq Require Import ZArith List Bool.
From OV Require Import Base.CInt Emu.EmuCoreDefs Emu.MarkDefs Emu.PvDefs.
From OV Require Export Emu.PvWPre.
Import ListNotations.
Local Open Scope Z_scope.

Record cenv := { c_calloc_ok : bool; c_gid : str -> Z }.

Record ytype := { y_id : Z; y_gid : Z; y_label : str }.
Record cbody := { cb_id : Z; cb_state : Z; cb_iter : Z; cb_flags : Z; cb_task : option nat; cb_taskid : Z; cb_name : str }.
Record ctask := { k_id : Z; k_type : option nat; k_nbodies : Z; k_flags : Z; k_bodies : list cbody }.

Record cst := {
  s_types : list ytype; s_ynew : option ytype;
  s_tasks : list ctask; s_knew : option ctask;
  s_bnew : option cbody
}.

Definition M (A : Type) : Type := cenv -> cst -> result (A * cst).
Definition ret {A} (a : A) : M A := fun _ st => Ok (a, st).
Definition fail {A} (e : nat) : M A := fun _ _ => Err e.
Definition bind {A B} (m : M A) (f : A -> M B) : M B :=
  fun sx st => match m sx st with Ok (a, st') => f a sx st' | Err e => Err e end.
Definition bind_ {A B} (m : M A) (k : M B) : M B := bind m (fun _ => k).
Definition eval {A} (f : cenv -> cst -> A) : M A := fun sx st => Ok (f sx st, st).
Definition ite {A} (c : cenv -> cst -> bool) (a b : M A) : M A :=
  fun sx st => if c sx st then a sx st else b sx st.
Definition need {A} (safe : cenv -> cst -> bool) (k : M A) : M A :=
  fun sx st => if safe sx st then k sx st else Err E_TRAP.

Definition ptr_task_info := unit.
Definition ptr_task := option nat.
Definition ptr_task_type := option nat.
Definition ptr_body_info := option nat.          (* &task->body_info: the task *)
Inductive bref := BNew | BAt (t i : nat).
Definition ptr_body := option bref.
Inductive tlref := TL_type (h : nat) | TL_body (b : bref).
Definition tlptr := option tlref.

Definition mk (ys : list ytype) (yn : option ytype) (ks : list ctask) (kn : option ctask) (bn : option cbody) : cst :=
  {| s_types := ys; s_ynew := yn; s_tasks := ks; s_knew := kn; s_bnew := bn |}.

Definition zero_ytype : ytype := {| y_id := 0; y_gid := 0; y_label := [] |}.
Definition zero_ctask : ctask := {| k_id := 0; k_type := None; k_nbodies := 0; k_flags := 0; k_bodies := [] |}.
Definition zero_cbody : cbody := {| cb_id := 0; cb_state := 0; cb_iter := 0; cb_flags := 0; cb_task := None; cb_taskid := 0; cb_name := [] |}.

(* entry h of a table: an added entry, or the pending object at position `length` *)
Definition kget (st : cst) (h : nat) : option ctask :=
  if Nat.ltb h (length (s_tasks st)) then nth_error (s_tasks st) h
  else if Nat.eqb h (length (s_tasks st)) then s_knew st else None.
Definition yget (st : cst) (h : nat) : option ytype :=
  if Nat.ltb h (length (s_types st)) then nth_error (s_types st) h
  else if Nat.eqb h (length (s_types st)) then s_ynew st else None.
Definition kobj (st : cst) (p : ptr_task) : ctask :=
  match p with Some h => match kget st h with Some o => o | None => zero_ctask end | None => zero_ctask end.
Definition yobj (st : cst) (p : ptr_task_type) : ytype :=
  match p with Some h => match yget st h with Some o => o | None => zero_ytype end | None => zero_ytype end.
Definition bobj (st : cst) (p : ptr_body) : cbody :=
  match p with
  | Some BNew => match s_bnew st with Some b => b | None => zero_cbody end
  | Some (BAt t i) => nth i (k_bodies (kobj st (Some t))) zero_cbody
  | None => zero_cbody
  end.

Definition kset (p : ptr_task) (f : ctask -> ctask) : M unit :=
  fun sx st =>
    match p with
    | None => Err E_TRAP
    | Some h =>
      if Nat.ltb h (length (s_tasks st)) then
        match nth_error (s_tasks st) h with
        | Some o => Ok (tt, mk (s_types st) (s_ynew st) (update (s_tasks st) h (f o)) (s_knew st) (s_bnew st))
        | None => Err E_TRAP
        end
      else if Nat.eqb h (length (s_tasks st)) then
        match s_knew st with
        | Some o => Ok (tt, mk (s_types st) (s_ynew st) (s_tasks st) (Some (f o)) (s_bnew st))
        | None => Err E_TRAP
        end
      else Err E_TRAP
    end.
(* stores into a struct task_type / struct body: only the pending object is ever written by the translated functions *)
Definition yset (p : ptr_task_type) (f : ytype -> ytype) : M unit :=
  fun sx st =>
    match p, s_ynew st with
    | Some h, Some o => if Nat.eqb h (length (s_types st))
                        then Ok (tt, mk (s_types st) (Some (f o)) (s_tasks st) (s_knew st) (s_bnew st)) else Err E_TRAP
    | _, _ => Err E_TRAP
    end.
Definition bset (p : ptr_body) (f : cbody -> cbody) : M unit :=
  fun sx st =>
    match p, s_bnew st with
    | Some BNew, Some o => Ok (tt, mk (s_types st) (s_ynew st) (s_tasks st) (s_knew st) (Some (f o)))
    | _, _ => Err E_TRAP
    end.

(* getters *)
Definition get_task_info_tasks (sx : cenv) (st : cst) (i : ptr_task_info) : ptr_task :=
  match s_tasks st with [] => None | _ => Some O end.
Definition get_task_info_types (sx : cenv) (st : cst) (i : ptr_task_info) : ptr_task_type :=
  match s_types st with [] => None | _ => Some O end.
Definition get_task_id (sx : cenv) (st : cst) (p : ptr_task) : Z := k_id (kobj st p).
Definition get_task_type_id (sx : cenv) (st : cst) (p : ptr_task_type) : Z := y_id (yobj st p).
Definition get_task_type_label (sx : cenv) (st : cst) (p : ptr_task_type) : str := y_label (yobj st p).
Definition get_body_id (sx : cenv) (st : cst) (p : ptr_body) : Z := cb_id (bobj st p).
Definition get_body_taskid (sx : cenv) (st : cst) (p : ptr_body) : Z := cb_taskid (bobj st p).

(* setters *)
Definition set_task_id (p : ptr_task) (v : cenv -> cst -> Z) : M unit :=
  fun sx st => kset p (fun o => {| k_id := v sx st; k_type := k_type o; k_nbodies := k_nbodies o; k_flags := k_flags o; k_bodies := k_bodies o |}) sx st.
Definition set_task_type (p : ptr_task) (v : cenv -> cst -> ptr_task_type) : M unit :=
  fun sx st => kset p (fun o => {| k_id := k_id o; k_type := v sx st; k_nbodies := k_nbodies o; k_flags := k_flags o; k_bodies := k_bodies o |}) sx st.
Definition set_task_flags (p : ptr_task) (v : cenv -> cst -> Z) : M unit :=
  fun sx st => kset p (fun o => {| k_id := k_id o; k_type := k_type o; k_nbodies := k_nbodies o; k_flags := v sx st; k_bodies := k_bodies o |}) sx st.
Definition set_task_type_id (p : ptr_task_type) (v : cenv -> cst -> Z) : M unit :=
  fun sx st => yset p (fun o => {| y_id := v sx st; y_gid := y_gid o; y_label := y_label o |}) sx st.
Definition set_task_type_gid (p : ptr_task_type) (v : cenv -> cst -> Z) : M unit :=
  fun sx st => yset p (fun o => {| y_id := y_id o; y_gid := v sx st; y_label := y_label o |}) sx st.
Definition set_body_id (p : ptr_body) (v : cenv -> cst -> Z) : M unit :=
  fun sx st => bset p (fun o => {| cb_id := v sx st; cb_state := cb_state o; cb_iter := cb_iter o; cb_flags := cb_flags o; cb_task := cb_task o; cb_taskid := cb_taskid o; cb_name := cb_name o |}) sx st.
Definition set_body_state (p : ptr_body) (v : cenv -> cst -> Z) : M unit :=
  fun sx st => bset p (fun o => {| cb_id := cb_id o; cb_state := v sx st; cb_iter := cb_iter o; cb_flags := cb_flags o; cb_task := cb_task o; cb_taskid := cb_taskid o; cb_name := cb_name o |}) sx st.
Definition set_body_iteration (p : ptr_body) (v : cenv -> cst -> Z) : M unit :=
  fun sx st => bset p (fun o => {| cb_id := cb_id o; cb_state := cb_state o; cb_iter := v sx st; cb_flags := cb_flags o; cb_task := cb_task o; cb_taskid := cb_taskid o; cb_name := cb_name o |}) sx st.
Definition set_body_flags (p : ptr_body) (v : cenv -> cst -> Z) : M unit :=
  fun sx st => bset p (fun o => {| cb_id := cb_id o; cb_state := cb_state o; cb_iter := cb_iter o; cb_flags := v sx st; cb_task := cb_task o; cb_taskid := cb_taskid o; cb_name := cb_name o |}) sx st.
Definition set_body_task (p : ptr_body) (v : cenv -> cst -> ptr_task) : M unit :=
  fun sx st => bset p (fun o => {| cb_id := cb_id o; cb_state := cb_state o; cb_iter := cb_iter o; cb_flags := cb_flags o; cb_task := v sx st; cb_taskid := cb_taskid o; cb_name := cb_name o |}) sx st.
Definition set_body_taskid (p : ptr_body) (v : cenv -> cst -> Z) : M unit :=
  fun sx st => bset p (fun o => {| cb_id := cb_id o; cb_state := cb_state o; cb_iter := cb_iter o; cb_flags := cb_flags o; cb_task := cb_task o; cb_taskid := v sx st; cb_name := cb_name o |}) sx st.

(* calloc *)
Definition calloc_task : M ptr_task :=
  fun sx st => if c_calloc_ok sx then Ok (Some (length (s_tasks st)), mk (s_types st) (s_ynew st) (s_tasks st) (Some zero_ctask) (s_bnew st))
               else Ok (None, st).
Definition calloc_task_type : M ptr_task_type :=
  fun sx st => if c_calloc_ok sx then Ok (Some (length (s_types st)), mk (s_types st) (Some zero_ytype) (s_tasks st) (s_knew st) (s_bnew st))
               else Ok (None, st).
Definition calloc_body : M ptr_body :=
  fun sx st => if c_calloc_ok sx then Ok (Some BNew, mk (s_types st) (s_ynew st) (s_tasks st) (s_knew st) (Some zero_cbody))
               else Ok (None, st).

(* uthash *)
Definition hash_find_head_task (head : ptr_task) (key : Z) : M ptr_task :=
  fun sx st => match head with
               | None => Ok (None, st)
               | Some O => Ok (find_idx (fun o => k_id o =? key) (s_tasks st), st)
               | Some _ => Err E_TRAP          (* not the head of the table *)
               end.
Definition hash_find_head_task_type (head : ptr_task_type) (key : Z) : M ptr_task_type :=
  fun sx st => match head with
               | None => Ok (None, st)
               | Some O => Ok (find_idx (fun o => y_id o =? key) (s_types st), st)
               | Some _ => Err E_TRAP
               end.
Definition hash_find_task_info_types (i : ptr_task_info) (key : Z) : M ptr_task_type :=
  fun sx st => Ok (find_idx (fun o => y_id o =? key) (s_types st), st).
Definition hash_find_body_info_bodies (i : ptr_body_info) (key : Z) : M ptr_body :=
  fun sx st => match i with
               | None => Err E_TRAP
               | Some t => match kget st t with
                           | None => Err E_TRAP
                           | Some o => Ok (match find_idx (fun b => cb_id b =? key) (k_bodies o) with
                                           | Some j => Some (BAt t j) | None => None end, st)
                           end
               end.
Definition hash_add_task_info_tasks_by_id (i : ptr_task_info) (add : ptr_task) : M unit :=
  fun sx st => match add, s_knew st with
               | Some h, Some o => if Nat.eqb h (length (s_tasks st))
                                   then Ok (tt, mk (s_types st) (s_ynew st) (s_tasks st ++ [o]) None (s_bnew st)) else Err E_TRAP
               | _, _ => Err E_TRAP
               end.
Definition hash_add_task_info_types_by_id (i : ptr_task_info) (add : ptr_task_type) : M unit :=
  fun sx st => match add, s_ynew st with
               | Some h, Some o => if Nat.eqb h (length (s_types st))
                                   then Ok (tt, mk (s_types st ++ [o]) None (s_tasks st) (s_knew st) (s_bnew st)) else Err E_TRAP
               | _, _ => Err E_TRAP
               end.
Definition hash_add_body_info_bodies_by_id (i : ptr_body_info) (add : ptr_body) : M unit :=
  fun sx st => match add, s_bnew st with
               | Some BNew, Some b =>
                 match kset i (fun o => {| k_id := k_id o; k_type := k_type o; k_nbodies := k_nbodies o; k_flags := k_flags o;
                                           k_bodies := k_bodies o ++ [b] |}) sx st with
                 | Ok (_, st') => Ok (tt, mk (s_types st') (s_ynew st') (s_tasks st') (s_knew st') None)
                 | Err e => Err e
                 end
               | _, _ => Err E_TRAP
               end.

(* labels *)
Definition addr_task_type_label (p : ptr_task_type) : tlptr := match p with Some h => Some (TL_type h) | None => None end.
Definition addr_body_name (p : ptr_body) : tlptr := match p with Some b => Some (TL_body b) | None => None end.
Definition snprintf_f (d : tlptr) (n : Z) (items : cenv -> cst -> list fitem) : M Z :=
  fun sx st =>
    let text := render (items sx st) in
    let kept := firstn (Z.to_nat (n - 1)) text in
    match d with
    | None => Err E_TRAP
    | Some (TL_type h) =>
      match yset (Some h) (fun o => {| y_id := y_id o; y_gid := y_gid o; y_label := kept |}) sx st with
      | Ok (_, st') => Ok (slen text, st') | Err e => Err e end
    | Some (TL_body b) =>
      match bset (Some b) (fun o => {| cb_id := cb_id o; cb_state := cb_state o; cb_iter := cb_iter o; cb_flags := cb_flags o;
                                       cb_task := cb_task o; cb_taskid := cb_taskid o; cb_name := kept |}) sx st with
      | Ok (_, st') => Ok (slen text, st') | Err e => Err e end
    end.

(* task_get_type_gid(label) *)
Definition task_get_type_gid (sx : cenv) (st : cst) (label : str) : Z := c_gid sx label.
