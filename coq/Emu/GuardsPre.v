(* Prelude of the generated file Gen/Guards_gen.v (translate/units/guards.py).

   The generated file is a statement-by-statement Gallina rendering of the guard-sequence
   functions of src/emu/ovni/event.c, cpu.c (cpu_migrate_thread), body.c and task.c, in a
   reader + state + error monad over the semantic state of Emu/EmuCoreDefs.v.  This file gives
   the meaning of everything the generated code refers to and does NOT define itself:

     - the monad (ret, bind, bind_, fail, eval, ite, need, exec);
     - what C pointers are (handles into the semantic state, NULL = None);
     - the field getters/setters the translated member accesses become;
     - the PRIMITIVES: C functions that are called by the translated code but are outside the
       translator's subset (loops over utlist/uthash lists, channel writes).  Each primitive's
       meaning is the hand model of that C function; it is tied to the C only by the
       end-to-end correspondence runs of the checks.  They are listed in section "primitives".

   Conventions fixed by the translator:
     * a C function `int f(..)` that reports failure by `return -1` is an `M unit`; `return -1`
       is `fail E_FAIL`; the state after a failure is not represented (the emulator stops at
       the first failing handler);
     * a dereference of a NULL pointer is the error E_TRAP (a crash, not a rejection): getters
       are total, the translator guards every dereference of a nullable pointer by `need`,
       primitives and setters trap by themselves.  `outcome` keeps crash and rejection apart;
     * expressions are evaluated in the state current at their statement (`fun sx st => ...`),
       locals are bound to values.
   Definitions only; the proofs are in Proofs/GuardsProofs.v. *)
From Coq Require Import ZArith List Bool.
From OV Require Import Base.CInt Emu.EmuCoreDefs.
Import ListNotations.
Local Open Scope Z_scope.

(* ------------------------------------------------------------------ *)
(* the monad                                                           *)

Definition E_FAIL := 20%nat.   (* `return -1` of a translated function *)
Definition E_TRAP := 99%nat.   (* the C would dereference NULL / read an invalid object: a crash *)

Definition M (A : Type) : Type := static -> state -> result (A * state).

Definition ret {A} (a : A) : M A := fun _ st => Ok (a, st).
Definition fail {A} (e : nat) : M A := fun _ _ => Err e.
Definition bind {A B} (m : M A) (f : A -> M B) : M B :=
  fun sx st => match m sx st with Ok (a, st') => f a sx st' | Err e => Err e end.
Definition bind_ {A B} (m : M A) (k : M B) : M B := bind m (fun _ => k).
(* value of an expression in the current state *)
Definition eval {A} (f : static -> state -> A) : M A := fun sx st => Ok (f sx st, st).
(* if (c) a else b *)
Definition ite {A} (c : static -> state -> bool) (a b : M A) : M A :=
  fun sx st => if c sx st then a sx st else b sx st.
(* the statement k dereferences pointers; `safe` says they are all non-NULL *)
Definition need {A} (safe : static -> state -> bool) (k : M A) : M A :=
  fun sx st => if safe sx st then k sx st else Err E_TRAP.

Definition exec (m : M unit) (sx : static) (st : state) : result state :=
  match m sx st with Ok (_, st') => Ok st' | Err e => Err e end.

(* what is compared between the generated code and the hand model: the accepted state, or
   rejection, or a crash.  Error codes inside Reject only explain. *)
Inductive outcome := Accept (st : state) | Reject | Crash.
Definition outcome_of (r : result state) : outcome :=
  match r with
  | Ok st => Accept st
  | Err e => if Nat.eqb e E_TRAP then Crash else Reject
  end.

(* ------------------------------------------------------------------ *)
(* pointers                                                            *)

Definition ptr_thread := option nat.       (* struct thread * : gindex of the thread *)
Definition ptr_cpu := option nat.          (* struct cpu *    : gindex of the CPU *)
Definition ptr_loom := nat.                (* struct loom *   : never NULL in a handler *)
Definition ptr_proc := (nat * Z)%type.     (* struct proc *   : (loom, pid), never NULL in a handler *)

Definition opt_eqb_nat (a b : option nat) : bool :=
  match a, b with Some x, Some y => Nat.eqb x y | None, None => true | _, _ => false end.
Definition ptr_eqb_cpu (a b : ptr_cpu) : bool := opt_eqb_nat a b.
Definition ptr_eqb_thread (a b : ptr_thread) : bool := opt_eqb_nat a b.

(* struct emu * while a handler runs: the current thread and the current event
   (emu->ev, emu->thread, emu->loom, emu->proc are never NULL there) *)
Record emu := { e_who : nat; e_m : Z; e_c : Z; e_v : Z; e_payload : list Z (* payload bytes *) }.

Definition gthr (st : state) (t : nat) : thread := nth t (threads st) dummy_thread.

(* enum thread_state <-> tst.  The numeric values are those of EmuCoreDefs.tst_code; the generated
   file compares them with the compiler's TH_ST_* constants, so a renumbering breaks the proofs. *)
Definition tst_of_code (z : Z) : option tst :=
  if z =? 0 then Some Unknown else if z =? 1 then Some Running else if z =? 2 then Some Paused
  else if z =? 3 then Some Dead else if z =? 4 then Some Cooling else if z =? 5 then Some Warming else None.

(* ------------------------------------------------------------------ *)
(* getters: get_<struct>_<field chain>                                 *)

(* little-endian int32 at byte offset off of the payload (emu->ev->payload->i32[off/4]) *)
Definition pl_byte (p : list Z) (n : nat) : Z := nth n p 0.
Definition pl_i32 (p : list Z) (off : nat) : Z :=
  let u := pl_byte p off + 256 * pl_byte p (off + 1) + 65536 * pl_byte p (off + 2) + 16777216 * pl_byte p (off + 3) in
  if u <? 2147483648 then u else u - 4294967296.

Definition ptr_emu_ev := emu.              (* struct emu_ev * : the event of the emu it was read from *)
Definition get_emu_ev (sx : static) (st : state) (e : emu) : ptr_emu_ev := e.
Definition get_emu_ev_m (sx : static) (st : state) (e : emu) : Z := e_m e.
Definition get_emu_ev_c (sx : static) (st : state) (e : emu) : Z := e_c e.
Definition get_emu_ev_v (sx : static) (st : state) (e : emu) : Z := e_v e.
Definition get_emu_ev_payload_size (sx : static) (st : state) (e : emu) : Z := Z.of_nat (length (e_payload e)).
Definition get_emu_ev_payload_i32 (sx : static) (st : state) (e : emu) : list Z :=
  [pl_i32 (e_payload e) 0; pl_i32 (e_payload e) 4; pl_i32 (e_payload e) 8; pl_i32 (e_payload e) 12].
(* emu->ev->payload is NULL exactly when the event has no payload (emu_ev.c) *)
Definition ptr_payload := option unit.
Definition get_emu_ev_payload (sx : static) (st : state) (e : emu) : ptr_payload :=
  match e_payload e with [] => None | _ => Some tt end.
Definition get_emu_thread (sx : static) (st : state) (e : emu) : ptr_thread := Some (e_who e).
Definition get_emu_loom (sx : static) (st : state) (e : emu) : ptr_loom := thread_loom sx (e_who e).
Definition get_emu_proc (sx : static) (st : state) (e : emu) : ptr_proc :=
  match nth_opt (s_threads sx) (e_who e) with Some ti => (ti_loom ti, ti_pid ti) | None => (0%nat, 0) end.
Definition get_emu_thread_is_out_of_cpu (sx : static) (st : state) (e : emu) : Z := b2z (t_ooc (gthr st (e_who e))).

Definition get_thread_state (sx : static) (st : state) (th : ptr_thread) : Z :=
  match th with Some t => tst_code (t_state (gthr st t)) | None => 0 end.
Definition get_thread_cpu (sx : static) (st : state) (th : ptr_thread) : ptr_cpu :=
  match th with Some t => t_cpu (gthr st t) | None => None end.
(* th->is_running / th->is_active are written by thread_set_state together with th->state *)
Definition get_thread_is_running (sx : static) (st : state) (th : ptr_thread) : Z :=
  match th with Some t => b2z (is_running (t_state (gthr st t))) | None => 0 end.
Definition get_thread_is_active (sx : static) (st : state) (th : ptr_thread) : Z :=
  match th with Some t => b2z (is_active (t_state (gthr st t))) | None => 0 end.

(* ------------------------------------------------------------------ *)
(* primitives of the thread / CPU part (C code NOT translated)          *)

(* loom_get_cpu(loom, index): loom.c, a search in the loom's CPU table *)
Definition loom_get_cpu (sx : static) (st : state) (loom : ptr_loom) (index : Z) : ptr_cpu := find_cpu sx loom index.
(* proc_find_thread(proc, tid): uthash lookup in the process *)
Definition proc_find_thread (sx : static) (st : state) (p : ptr_proc) (tid : Z) : ptr_thread :=
  find_tid_from (s_threads sx) (fun ti => Nat.eqb (ti_loom ti) (fst p) && (ti_pid ti =? snd p)) tid 0.
(* loom_find_thread(loom, tid): loops over the processes of the loom *)
Definition loom_find_thread (sx : static) (st : state) (loom : ptr_loom) (tid : Z) : ptr_thread :=
  find_tid_from (s_threads sx) (fun ti => Nat.eqb (ti_loom ti) loom) tid 0.

Definition with_thread {A} (th : ptr_thread) (k : nat -> thread -> M A) : M A :=
  fun sx st =>
    match th with
    | None => Err E_TRAP
    | Some t => match nth_opt (threads st) t with None => Err E_TRAP | Some x => k t x sx st end
    end.

(* thread_set_state(th, state), thread.c: refuses a thread without CPU; writes state, is_running,
   is_active; chan_set on the state channel refuses the value it already shows (the state at the
   start of the event); the TID channel ignores duplicates. *)
Definition thread_set_state (th : ptr_thread) (s : Z) : M unit :=
  with_thread th (fun t x sx st =>
    match t_cpu x with
    | None => Err E_CPU
    | Some _ =>
      match tst_of_code s with
      | None => Err E_TRAP
      | Some s' => if tst_eqb (t_state x) s' then Err E_DUP else Ok (tt, set_thread st t (with_state x s'))
      end
    end).

(* thread_set_cpu(th, cpu): refuses NULL and a thread that has a CPU *)
Definition thread_set_cpu (th : ptr_thread) (cpu : ptr_cpu) : M unit :=
  with_thread th (fun t x sx st =>
    match cpu with
    | None => Err E_CPU
    | Some c => match t_cpu x with
                | Some _ => Err E_CPU
                | None => Ok (tt, set_thread st t (with_cpu x (Some c)))
                end
    end).

(* thread_unset_cpu(th): refuses a thread without CPU *)
Definition thread_unset_cpu (th : ptr_thread) : M unit :=
  with_thread th (fun t x sx st =>
    match t_cpu x with
    | None => Err E_CPU
    | Some _ => Ok (tt, set_thread st t (with_cpu x None))
    end).

(* thread_migrate_cpu(th, cpu): refuses a thread without CPU; reads cpu->gindex; chan_set on the
   affinity channel refuses the value it already shows (the CPU the thread is on) *)
Definition thread_migrate_cpu (th : ptr_thread) (cpu : ptr_cpu) : M unit :=
  with_thread th (fun t x sx st =>
    match t_cpu x with
    | None => Err E_CPU
    | Some old =>
      match cpu with
      | None => Err E_TRAP
      | Some c => if Nat.eqb old c then Err E_DUP else Ok (tt, set_thread st t (with_cpu x (Some c)))
      end
    end).

(* cpu_update(cpu), cpu.c: recount the running threads of the list (a loop), refuse a physical CPU
   with more than one, write the CPU channels (which ignore duplicates) *)
Definition cpu_update (cpu : ptr_cpu) : M unit :=
  fun sx st =>
    match cpu with
    | None => Err E_TRAP
    | Some c => let st' := touch st c in
                if oversubscribed sx st' c then Err E_OVERSUB else Ok (tt, st')
    end.

(* cpu_add_thread(cpu, thread): find_thread (a loop) must fail, DL_APPEND2, cpu_update *)
Definition cpu_add_thread (cpu : ptr_cpu) (th : ptr_thread) : M unit :=
  fun sx st =>
    match cpu, th with
    | Some c, Some t =>
      if mem_nat t (nth c (cpu_threads st) []) then Err E_CPU
      else cpu_update (Some c) sx (set_cpu_threads st c (nth c (cpu_threads st) [] ++ [t]))
    | _, _ => Err E_TRAP
    end.

(* cpu_remove_thread(cpu, thread): find_thread must succeed, DL_DELETE2, cpu_update *)
Definition cpu_remove_thread (cpu : ptr_cpu) (th : ptr_thread) : M unit :=
  fun sx st =>
    match cpu, th with
    | Some c, Some t =>
      if negb (mem_nat t (nth c (cpu_threads st) [])) then Err E_CPU
      else cpu_update (Some c) sx (set_cpu_threads st c (remove_nat t (nth c (cpu_threads st) [])))
    | _, _ => Err E_TRAP
    end.

(* the other categories of model_ovni_event: outside this translation unit.  The theorems are
   about categories 'H' and 'A' only and never reach them. *)
Definition E_OTHER := 21%nat.
Definition pre_burst (e : emu) : M unit := fail E_OTHER.
Definition pre_cpu (e : emu) : M unit := fail E_OTHER.
Definition pre_flush (e : emu) : M unit := fail E_OTHER.
Definition mark_event (e : emu) : M unit := fail E_OTHER.

(* ------------------------------------------------------------------ *)
(* tasks and bodies (body.c, task.c)                                   *)

Definition ptr_task := option nat.               (* struct task * : position in `tasks st` *)
Definition ptr_body := option (nat * nat).       (* struct body * : (position of its task, position in tk_bodies) *)
Definition ptr_body_stack := option (nat * Z).   (* struct body_stack * : (thread gindex, model): the stack of that model on that thread *)
Definition ptr_task_stack := option (nat * Z).   (* struct task_stack * : contains exactly a body_stack *)
Definition ptr_body_info := option nat.          (* &task->body_info : the task *)

Definition addr_task_body_info (t : ptr_task) : ptr_body_info := t.
Definition addr_task_stack_body_stack (s : ptr_task_stack) : ptr_body_stack := s.

Definition ptr_eqb_body (a b : ptr_body) : bool :=
  match a, b with
  | Some (x1, y1), Some (x2, y2) => Nat.eqb x1 x2 && Nat.eqb y1 y2
  | None, None => true
  | _, _ => false
  end.
Definition ptr_eqb_body_stack (a b : ptr_body_stack) : bool :=
  match a, b with
  | Some (x1, y1), Some (x2, y2) => Nat.eqb x1 x2 && (y1 =? y2)
  | None, None => true
  | _, _ => false
  end.

Definition dummy_task : task :=
  {| tk_loom := 0; tk_pid := 0; tk_model := 0; tk_id := 0; tk_gid := 0;
     tk_par := false; tk_res := false; tk_pause := false; tk_relax := false; tk_bodies := [] |}.
Definition dummy_body : body := {| b_id := 0; b_state := BDead; b_on := None |}.
Definition tsk (st : state) (i : nat) : task := nth i (tasks st) dummy_task.
Definition bdy (st : state) (i j : nat) : body := nth j (tk_bodies (tsk st i)) dummy_body.

(* enum body_state *)
Definition bstate_code (s : bstate) : Z := match s with BCreated => 1 | BRunning => 2 | BPaused => 3 | BDead => 4 end.
Definition bstate_of_code (z : Z) : option bstate :=
  if z =? 1 then Some BCreated else if z =? 2 then Some BRunning else if z =? 3 then Some BPaused
  else if z =? 4 then Some BDead else None.

(* task->flags (enum task_flags) and body->flags (enum body_flags); a body has the flags
   create_body derives from its task: body_create refuses (E_TRAP) anything else *)
Definition task_flags_of (tk : task) : Z :=
  b2z (tk_par tk) + 2 * b2z (tk_res tk) + 4 * b2z (tk_pause tk) + 8 * b2z (tk_relax tk).
Definition body_flags_of (tk : task) : Z :=
  b2z (tk_pause tk) + 2 * b2z (tk_res tk) + 4 * b2z (tk_relax tk).

Definition get_task_flags (sx : static) (st : state) (t : ptr_task) : Z :=
  match t with Some i => task_flags_of (tsk st i) | None => 0 end.
(* task->nbodies counts the bodies created for the task; its increment is not tracked separately *)
Definition get_task_nbodies (sx : static) (st : state) (t : ptr_task) : Z :=
  match t with Some i => Z.of_nat (length (tk_bodies (tsk st i))) | None => 0 end.
Definition get_body_state (sx : static) (st : state) (b : ptr_body) : Z :=
  match b with Some (i, j) => bstate_code (b_state (bdy st i j)) | None => 0 end.
Definition get_body_flags (sx : static) (st : state) (b : ptr_body) : Z :=
  match b with Some (i, _) => body_flags_of (tsk st i) | None => 0 end.
(* body->iteration is only printed *)
Definition get_body_iteration (sx : static) (st : state) (b : ptr_body) : Z := 0.
(* body->stack: the stack (thread, model of the task) that holds the body *)
Definition get_body_stack (sx : static) (st : state) (b : ptr_body) : ptr_body_stack :=
  match b with
  | Some (i, j) => match b_on (bdy st i j) with Some w => Some (w, tk_model (tsk st i)) | None => None end
  | None => None
  end.

(* the body an entry (model, task id, body id) of a thread's stack denotes: the task is looked up
   in the process of that thread *)
Definition resolve (sx : static) (st : state) (w : nat) (e : Z * Z * Z) : ptr_body :=
  let '(m, t, b) := e in
  match nth_opt (s_threads sx) w with
  | None => None
  | Some ti =>
    match find_task st (ti_loom ti) (ti_pid ti) m t with
    | Some (i, tk) => match find_body tk b with Some (j, _) => Some (i, j) | None => None end
    | None => None
    end
  end.
(* stack->top *)
Definition get_body_stack_top (sx : static) (st : state) (s : ptr_body_stack) : ptr_body :=
  match s with
  | Some (w, mdl) => match model_stack (gthr st w) mdl with e :: _ => resolve sx st w e | [] => None end
  | None => None
  end.

(* primitives *)

(* body_find(info, id): uthash lookup *)
Definition body_find (sx : static) (st : state) (info : ptr_body_info) (id : Z) : ptr_body :=
  match info with
  | Some i => match find_body (tsk st i) id with Some (j, _) => Some (i, j) | None => None end
  | None => None
  end.

Definition with_body {A} (b : ptr_body) (k : nat -> task -> nat -> body -> M A) : M A :=
  fun sx st =>
    match b with
    | None => Err E_TRAP
    | Some (i, j) =>
      match nth_opt (tasks st) i with
      | None => Err E_TRAP
      | Some tk => match nth_opt (tk_bodies tk) j with None => Err E_TRAP | Some bd => k i tk j bd sx st end
      end
    end.

(* body->state = v *)
Definition set_body_state (b : ptr_body) (v : static -> state -> Z) : M unit :=
  with_body b (fun i tk j bd sx st =>
    match bstate_of_code (v sx st) with
    | None => Err E_TRAP
    | Some s => Ok (tt, store_body st i tk (Some j) {| b_id := b_id bd; b_state := s; b_on := b_on bd |})
    end).
(* body->stack = v: the stack must be one of the model of the task *)
Definition set_body_stack (b : ptr_body) (v : static -> state -> ptr_body_stack) : M unit :=
  with_body b (fun i tk j bd sx st =>
    match v sx st with
    | None => Ok (tt, store_body st i tk (Some j) {| b_id := b_id bd; b_state := b_state bd; b_on := None |})
    | Some (w, m) =>
      if m =? tk_model tk then Ok (tt, store_body st i tk (Some j) {| b_id := b_id bd; b_state := b_state bd; b_on := Some w |})
      else Err E_TRAP
    end).
(* body->iteration = v, task->nbodies = v: not represented *)
Definition set_body_iteration (b : ptr_body) (v : static -> state -> Z) : M unit :=
  with_body b (fun _ _ _ _ sx st => Ok (tt, st)).
Definition set_task_nbodies (t : ptr_task) (v : static -> state -> Z) : M unit :=
  fun sx st => match t with
               | Some i => match nth_opt (tasks st) i with Some _ => Ok (tt, st) | None => Err E_TRAP end
               | None => Err E_TRAP
               end.

Definition with_stack_body {A} (s : ptr_body_stack) (b : ptr_body) (k : nat -> thread -> Z -> task -> body -> M A) : M A :=
  fun sx st =>
    match s with
    | None => Err E_TRAP
    | Some (w, mdl) =>
      match nth_opt (threads st) w with
      | None => Err E_TRAP
      | Some th => with_body b (fun _ tk _ bd => k w th mdl tk bd) sx st
      end
    end.

(* DL_PREPEND(stack->top, body) *)
Definition DL_PREPEND_body_stack_top (s : ptr_body_stack) (b : ptr_body) : M unit :=
  with_stack_body s b (fun w th mdl tk bd sx st =>
    Ok (tt, set_thread st w (with_bstack th ((mdl, tk_id tk, b_id bd) :: t_bstack th)))).
(* DL_DELETE(stack->top, body) *)
Definition DL_DELETE_body_stack_top (s : ptr_body_stack) (b : ptr_body) : M unit :=
  with_stack_body s b (fun w th mdl tk bd sx st =>
    Ok (tt, set_thread st w (with_bstack th (remove_entry (t_bstack th) mdl (tk_id tk) (b_id bd))))).

(* body_create(info, task, id, flags): refuses id 0, an existing id, a NULL task; calloc and the
   name buffer cannot fail in the model; the new body is Created, on no stack *)
Definition body_create (info : ptr_body_info) (t : ptr_task) (id : Z) (flags : Z) : M ptr_body :=
  fun sx st =>
    if id =? 0 then Ok (None, st) else
    match info with
    | None => Err E_TRAP
    | Some i =>
      match nth_opt (tasks st) i with
      | None => Err E_TRAP
      | Some tk =>
        match find_body tk id with
        | Some _ => Ok (None, st)
        | None =>
          match t with
          | None => Ok (None, st)
          | Some i' =>
            if negb (Nat.eqb i i') then Err E_TRAP
            else if negb (flags =? body_flags_of tk) then Err E_TRAP
            else Ok (Some (i, length (tk_bodies tk)),
                     store_body st i tk None {| b_id := id; b_state := BCreated; b_on := None |})
          end
        end
      end
    end.
