(* C11 - Concurrent tracing threads are isolated; process init/fini happen exactly once.
   Only statements here; proofs are in Proofs/RtConcProofs.v, the model in Rt/RtConcDefs.v.

   The model is the small-step interleaving semantics of N thread programs over the atomic
   rproc.st, the plain process fields of struct ovni_rproc and the namespace of thread directories.
   Every theorem quantifies over the number of threads, their programs (lists of API calls), the
   schedule (any list of thread indices) and mv (OVNI_TMPDIR set or not).
   `c_trace` is the ghost trace of the run, NEWEST EVENT FIRST: in  tr = after ++ e :: before
   the events of `before` happened before e.

   PARTIAL with respect to the C text: there is no C semantics here.  A data race between plain C
   accesses cannot be exhibited by the model; "no race" is proved as an explicit happens-before chain
   between the access events of the model (sequentially consistent st operations), and C-level races /
   weak-memory effects are sampled with ThreadSanitizer by lib/checks/c11.py. *)
From Coq Require Import List ZArith Bool Arith.
From OV Require Import Rt.RtConcDefs Proofs.RtConcProofs.
Import ListNotations.

(* ---- process initialisation takes effect exactly once ---- *)
(* at most one ovni_proc_init call passes its compare-exchange, in any run *)
Theorem C11_init_once : forall mv progs s,
  (count_ev is_init_ok (c_trace (run mv (init progs) s)) <= 1)%nat.
Proof. exact init_once. Qed.
Print Assumptions C11_init_once.

(* as soon as any call has executed its compare-exchange, exactly one has passed (the first) *)
Theorem C11_init_some : forall mv progs s,
  let tr := c_trace (run mv (init progs) s) in
  (1 <= count_ev is_init_ev tr)%nat -> count_ev is_init_ok tr = 1%nat.
Proof. exact init_some. Qed.
Print Assumptions C11_init_some.

Theorem C11_init_winner_unique : forall mv progs s i j,
  let tr := c_trace (run mv (init progs) s) in
  In (EvCasInit i true) tr -> In (EvCasInit j true) tr -> i = j.
Proof. exact init_winner_unique. Qed.
Print Assumptions C11_init_winner_unique.

(* every call that loses a compare-exchange (init or fini) or fails the READY check has died:
   the calling thread is stopped ... *)
Theorem C11_refused_dead : forall mv progs s j,
  let c := run mv (init progs) s in
  In (EvCasInit j false) (c_trace c) \/ In (EvCasFini j false) (c_trace c) \/ In (EvLoad j false) (c_trace c) ->
  exists t, nth_error (c_thr c) j = Some t /\ t_dead t = true.
Proof. exact refused_dead. Qed.
Print Assumptions C11_refused_dead.

(* ... its last call is logged as refused and it never moves again, whatever the shared state *)
Theorem C11_dead_logged : forall mv progs s j t,
  nth_error (c_thr (run mv (init progs) s)) j = Some t -> t_dead t = true ->
  (exists o, t_out t = false :: o) /\ forall st fl, tstep mv j t st fl = None.
Proof. exact dead_logged. Qed.
Print Assumptions C11_dead_logged.

(* ---- process finalisation takes effect exactly once ---- *)
Theorem C11_fini_once : forall mv progs s,
  (count_ev is_fini_ok (c_trace (run mv (init progs) s)) <= 1)%nat.
Proof. exact fini_once. Qed.
Print Assumptions C11_fini_once.

Theorem C11_fini_winner_unique : forall mv progs s i j,
  let tr := c_trace (run mv (init progs) s) in
  In (EvCasFini i true) tr -> In (EvCasFini j true) tr -> i = j.
Proof. exact fini_winner_unique. Qed.
Print Assumptions C11_fini_winner_unique.

(* a successful ovni_proc_fini needs a completed ovni_proc_init (one winner, READY published once) *)
Theorem C11_fini_needs_ready : forall mv progs s,
  let tr := c_trace (run mv (init progs) s) in
  (1 <= count_ev is_fini_ok tr)%nat -> count_ev is_init_ok tr = 1%nat /\ count_ev is_store tr = 1%nat.
Proof. exact fini_needs_ready. Qed.
Print Assumptions C11_fini_needs_ready.

(* if any ovni_proc_fini executes its compare-exchange after READY was published, exactly one wins.
   (A fini before READY is refused: "at least one succeeds" does not hold without this condition.) *)
Theorem C11_fini_some : forall mv progs s x w z,
  let tr := c_trace (run mv (init progs) s) in
  tr = x ++ EvStoreReady w :: z -> (1 <= count_ev is_fini_ev x)%nat -> count_ev is_fini_ok tr = 1%nat.
Proof. exact fini_some. Qed.
Print Assumptions C11_fini_some.

(* ---- no race on the process fields ---- *)
(* conformant: no ovni_clock_now()/emit before the thread's first other call (guardedb false p).
   For every read of a process field by thread j and every write of a process field by another
   thread i there is the chain   write --po--> atomic_store(READY) by i --sw--> load/CAS by j that
   returned READY --po--> read ; and no write at all happens after that store. *)
Theorem C11_no_race : forall mv progs s, conformant progs ->
  let tr := c_trace (run mv (init progs) s) in
  forall after before j g, tr = after ++ EvR j g :: before ->
  forall i f, In (EvW i f) tr -> i <> j ->
  exists d e c b a,
    before = d ++ e :: c ++ EvStoreReady i :: b ++ EvW i f :: a /\
    (e = EvLoad j true \/ e = EvCasFini j true) /\
    count_ev is_write (after ++ EvR j g :: d ++ e :: c) = 0%nat.
Proof. exact no_race. Qed.
Print Assumptions C11_no_race.

(* all writes are by the one thread that won the compare-exchange (so writes never conflict) *)
Theorem C11_writes_by_winner : forall mv progs s i f, conformant progs ->
  let tr := c_trace (run mv (init progs) s) in
  In (EvW i f) tr -> In (EvCasInit i true) tr.
Proof. exact writes_by_winner. Qed.
Print Assumptions C11_writes_by_winner.

Theorem C11_no_write_after_ready : forall mv progs s x w z, conformant progs ->
  c_trace (run mv (init progs) s) = x ++ EvStoreReady w :: z -> count_ev is_write x = 0%nat.
Proof. exact no_write_after_ready. Qed.
Print Assumptions C11_no_write_after_ready.

(* ---- isolation (non-interference) ---- *)
(* distinct TIDs.  Whatever the other threads do and however the run is interleaved, a thread that
   gets to the end of its program without being refused ends with exactly the state, the call
   outcomes, the stream.obs and the stream.json of the sequential reference run of its own program
   (seq_result: the thread alone, every st operation succeeding). *)
Theorem C11_isolation : forall mv progs s i p t,
  tids_disjoint progs ->
  let c := run mv (init progs) s in
  nth_error progs i = Some p -> nth_error (c_thr c) i = Some t -> thr_done t = true ->
  (t, fs_get (t_tid t) (c_fs c)) = seq_result mv p.
Proof. exact isolation. Qed.
Print Assumptions C11_isolation.

(* at every moment of the run, a thread that has not been refused is in a state of its own
   sequential run (k own steps), directory included *)
Theorem C11_isolation_prefix : forall mv progs s i p t,
  tids_disjoint progs ->
  let c := run mv (init progs) s in
  nth_error progs i = Some p -> nth_error (c_thr c) i = Some t -> t_dead t = false ->
  exists k, asteps mv k (thr0 p, None) = Some (t, fs_get (t_tid t) (c_fs c)).
Proof. exact isolation_prefix. Qed.
Print Assumptions C11_isolation_prefix.

(* ... and that is what the same program gives when it really runs alone, after a successful
   ovni_proc_init by somebody (ready_cfg), for as many steps as it has actions.  For thread programs
   that trace (no ovni_proc_init/fini of their own): *)
Theorem C11_isolation_alone : forall mv progs s i p t w,
  tids_disjoint progs ->
  let c := run mv (init progs) s in
  nth_error progs i = Some p -> nth_error (c_thr c) i = Some t -> thr_done t = true ->
  forallb (fun c => negb (is_proc_call c)) p = true ->
  let c1 := run mv (ready_cfg w [p]) (repeat 0%nat (nactions mv p)) in
  exists t1, c_thr c1 = [t1] /\ (t, fs_get (t_tid t) (c_fs c)) = (t1, fs_get (t_tid t1) (c_fs c1)).
Proof. exact isolation_alone_full. Qed.
Print Assumptions C11_isolation_alone.

(* the alone run is exactly the sequential reference, refusals included *)
Theorem C11_alone_is_seq : forall mv w p,
  forallb (fun c => negb (is_proc_call c)) p = true ->
  let c1 := run mv (ready_cfg w [p]) (repeat 0%nat (nactions mv p)) in
  exists t1, c_thr c1 = [t1] /\ (t1, fs_get (t_tid t1) (c_fs c1)) = seq_result mv p.
Proof. exact alone_is_seq. Qed.
Print Assumptions C11_alone_is_seq.

(* for programs that also call ovni_proc_init/fini themselves the comparison with an alone run is
   only conditional (_partial: that the alone run finishes unrefused is a hypothesis; such a
   program alone in an already initialised process is refused at its own ovni_proc_init) *)
Theorem C11_isolation_alone_partial : forall mv progs s i p t w s1 t1,
  tids_disjoint progs ->
  let c := run mv (init progs) s in
  let c1 := run mv (ready_cfg w [p]) s1 in
  nth_error progs i = Some p -> nth_error (c_thr c) i = Some t -> thr_done t = true ->
  nth_error (c_thr c1) 0 = Some t1 -> thr_done t1 = true ->
  (t, fs_get (t_tid t) (c_fs c)) = (t1, fs_get (t_tid t1) (c_fs c1)).
Proof. exact isolation_alone. Qed.
Print Assumptions C11_isolation_alone_partial.

(* ---- non-vacuity and the limits of the hypotheses ---- *)
Definition ex_tracer (tid e : Z) : list call :=
  [ThreadInit tid; AddCpu 0 0; Emit e; Flush; Emit (e + 1); AttrSet 5 e; Flush; ThreadFree].

(* three threads race ovni_proc_init: one wins (here thread 2), the two others are refused and dead,
   the winner goes on tracing *)
Example C11_ex_init_race :
  let c := run_complete false [ProcInit :: ex_tracer 7 10; [ProcInit]; ProcInit :: ex_tracer 9 30] [2; 0; 1; 2; 2] in
  (count_ev is_init_ev (c_trace c), count_ev is_init_ok (c_trace c),
   map t_dead (c_thr c), map thr_done (c_thr c), c_st c)
  = (3%nat, 1%nat, [true; true; false], [false; false; true], READY).
Proof. vm_compute. reflexivity. Qed.

(* two threads race ovni_proc_fini on a READY process: exactly one wins *)
Example C11_ex_fini_race :
  let c := run_complete true [[ProcInit; ThreadInit 3; ThreadFree; ProcFini]; [ThreadInit 4; ThreadFree; ProcFini]] (repeat 0%nat 12) in
  (count_ev is_fini_ev (c_trace c), count_ev is_fini_ok (c_trace c), c_st c) = (2%nat, 1%nat, GONE).
Proof. vm_compute. reflexivity. Qed.

(* the hypotheses of C11_isolation hold together: two tracers finish under an interleaving and
   each ends with its own sequential result *)
Example C11_ex_isolation :
  let progs := [[ProcInit]; ex_tracer 7 10; ex_tracer 8 20] in
  let c := run_complete false progs (repeat 0%nat 12 ++ [1; 2; 2; 1; 1; 1; 2; 2; 2; 1; 2; 1; 1; 2; 2; 2; 2; 1]) in
  map thr_done (c_thr c) = [true; true; true] /\
  (forall t, nth_error (c_thr c) 1 = Some t -> (t, fs_get (t_tid t) (c_fs c)) = seq_result false (ex_tracer 7 10)) /\
  fs_get 8 (c_fs c) = Some (mkFile [IHeader; IEv 20; IFlushB; IFlushE; IEv 21]
                                   (Some [MReq 0 0; MAttr 5 20; MCpu 0 0; MFinished])).
Proof. vm_compute. repeat split. intros t H. inversion H. reflexivity. Qed.

Example C11_ex_tids_disjoint : tids_disjoint [[ProcInit]; ex_tracer 7 10; ex_tracer 8 20].
Proof.
  intros i j pi pj z Hij Ni Nj Hi Hj.
  destruct i as [|[|[|i]]]; destruct j as [|[|[|j]]]; simpl in *;
    try discriminate; try congruence;
    try (destruct i; discriminate); try (destruct j; discriminate);
    inversion Ni; inversion Nj; subst; unfold ex_tracer in *; simpl in *;
    repeat match goal with H : _ \/ _ |- _ => destruct H end; try contradiction; subst; try discriminate; try (apply Hij; reflexivity).
Qed.

(* the same program alone in an initialised process gives the sequential result *)
Example C11_ex_alone :
  let c1 := run false (ready_cfg 0 [ex_tracer 7 10]) (repeat 0%nat 60) in
  forall t1, nth_error (c_thr c1) 0 = Some t1 ->
    thr_done t1 = true /\ (t1, fs_get (t_tid t1) (c_fs c1)) = seq_result false (ex_tracer 7 10).
Proof. vm_compute. intros t1 H. inversion H. split; reflexivity. Qed.

(* distinct TIDs are needed: two threads that share a TID share the directory, and the second
   one's events end in "the first one's" stream *)
Example C11_ex_same_tid_interferes :
  let progs := [[ProcInit]; ex_tracer 7 10; ex_tracer 7 20] in
  let c := run_complete false progs (repeat 0%nat 12 ++ repeat 1%nat 40) in
  exists t, nth_error (c_thr c) 1 = Some t /\ thr_done t = true /\
            (t, fs_get (t_tid t) (c_fs c)) <> seq_result false (ex_tracer 7 10).
Proof. vm_compute. eexists. split; [reflexivity|]. split; [reflexivity|]. intros H. inversion H. Qed.

(* conformance is needed for C11_no_race: ovni_clock_now() by a thread that never observed READY,
   while another thread is inside ovni_proc_init, reads rproc.clockid after its write with nothing in
   between that orders them (ThreadSanitizer shows the same on the real library; outside the
   property's quantifier, recorded in the evidence as unguarded_clock_probe) *)
Example C11_unguarded_clock_is_unordered :
  let progs := [[ProcInit]; [ClockNow]] in
  guardedb false [ClockNow] = false /\
  exists after before, c_trace (run false (init progs) [0; 0; 0; 0; 0; 1]) = after ++ EvR 1 Fclockid :: before /\
    In (EvW 0 Fclockid) before /\ count_ev is_store before = 0%nat.
Proof. split; [reflexivity|]. exists [], [EvW 0 Fclockid; EvW 0 Fapp; EvW 0 Fpid; EvW 0 Floom; EvCasInit 0 true].
  vm_compute. auto. Qed.

Example C11_ex_conformant : conformant [ProcInit :: ex_tracer 7 10; [ProcInit]; ex_tracer 8 20].
Proof. intros p [<-|[<-|[<-|[]]]]; reflexivity. Qed.

(* ==== call expansions from source (unit rtconc) ==== *)
(* The process-state skeleton of the API functions of src/rt/ovni.c is regenerated on every run into Gen/RtConc_gen.v
   (translate/units/rtconc.py, from the clang AST) over the trace monad of Rt/RtConcPre.v: a generated function denotes,
   for a `world` (what every operation on rproc.st observes, whether OVNI_TMPDIR is set, the outcome of every opaque
   condition and opaque statement), the list of shared actions it performs in program order - SCas e d / SLoad /
   SStore v on rproc.st, SW f / SR f on the plain fields - and how it ends (Next, Died, Returned).  ovni_proc_init,
   ovni_proc_fini, ovni_thread_init, ovni_thread_free, ovni_thread_isready and the functions they reach that touch
   rproc are rendered whole; of every other exported function the process-state preamble is rendered and the rest is
   checked, on the AST, never to mention rproc.st.  `model_run w 0 [] l` reads the model's expansion l the same way
   (RtConcDefs.tstep: a CAS / load that does not observe the value it wants is where the thread dies).
   Proofs: Proofs/RtConcGenProofs.v. *)
From OV Require Rt.RtConcPre Gen.RtConc_gen Proofs.RtConcGenProofs.
Module CP := RtConcPre.
Module CG := RtConc_gen.
Module CGP := RtConcGenProofs.

(* for every call kind: in every world where the opaque code neither dies nor takes a guarded exit, the generated
   function performs exactly the shared actions of `expand` - same st operations in the same order, same field
   reads / writes between them - and dies exactly where the model's thread dies *)
Theorem C11_call_expansions_from_source : forall w, CP.straight w ->
  CP.run CG.ovni_proc_init w = CP.model_run w 0 [] (expand (CP.w_mv w) ProcInit) /\
  CP.run CG.ovni_proc_fini w = CP.model_run w 0 [] (expand (CP.w_mv w) ProcFini) /\
  (forall tid, CP.run CG.ovni_thread_init w = CP.model_run w 0 [] (expand (CP.w_mv w) (ThreadInit tid))) /\
  CP.run CG.ovni_thread_free w = CP.model_run w 0 [] (expand (CP.w_mv w) ThreadFree) /\
  (* the other exported functions, in the order of CG.preambles, with their call kinds: the operations on rproc.st *)
  Forall (fun gk => CP.run (fst gk) w = CP.model_run w 0 [] (CGP.st_ops (CP.w_mv w) (snd gk)))
         (combine CG.preambles CGP.kinds).
Proof.
  intros w S. split; [exact (CGP.proc_init_expansion w S)|]. split; [exact (CGP.proc_fini_expansion w S)|].
  split; [exact (fun tid => CGP.thread_init_expansion w tid S)|]. split; [exact (CGP.thread_free_expansion w S)|].
  exact (CGP.preamble_expansions w S).
Qed.
Print Assumptions C11_call_expansions_from_source.

(* in EVERY world (the opaque code may die, return early, take either side of any condition): the shared actions the
   generated function performs are a prefix, in order, of the model's expansion *)
Theorem C11_call_prefixes_from_source : forall w,
  CP.is_prefix (fst (CP.run CG.ovni_proc_init w)) (CGP.shared (expand (CP.w_mv w) ProcInit)) = true /\
  CP.is_prefix (fst (CP.run CG.ovni_proc_fini w)) (CGP.shared (expand (CP.w_mv w) ProcFini)) = true /\
  (forall tid, CP.is_prefix (fst (CP.run CG.ovni_thread_init w)) (CGP.shared (expand (CP.w_mv w) (ThreadInit tid))) = true) /\
  CP.is_prefix (fst (CP.run CG.ovni_thread_free w)) (CGP.shared (expand (CP.w_mv w) ThreadFree)) = true.
Proof.
  intros w. split; [exact (CGP.proc_init_prefix w)|]. split; [exact (CGP.proc_fini_prefix w)|].
  split; [exact (fun tid => CGP.thread_init_prefix w tid) | exact (CGP.thread_free_prefix w)].
Qed.
Print Assumptions C11_call_prefixes_from_source.

Theorem C11_generated_init_dies_at_cas : forall w, CP.straight w -> CP.w_obs w 0 <> UNINIT ->
  CP.run CG.ovni_proc_init w = ([CP.SCas UNINIT INIT], CP.Died).
Proof. exact CGP.proc_init_dies_at_cas. Qed.
Print Assumptions C11_generated_init_dies_at_cas.

Theorem C11_generated_thread_init_dies_at_load : forall w, CP.straight w -> CP.w_obs w 0 <> READY ->
  CP.run CG.ovni_thread_init w = ([CP.SLoad], CP.Died).
Proof. exact CGP.thread_init_dies_at_load. Qed.
Print Assumptions C11_generated_thread_init_dies_at_load.

Theorem C11_isready_touches_no_process_state : forall w, CP.run CG.ovni_thread_isready w = ([], CP.Returned).
Proof. exact CGP.thread_isready_no_state. Qed.
Print Assumptions C11_isready_touches_no_process_state.

(* non-vacuity, by computation on the generated code *)
Definition rc_world (o0 : pst) (mv : bool) : CP.world :=
  {| CP.w_obs := fun k => match k with O => o0 | _ => READY end; CP.w_mv := mv;
     CP.w_cond := fun _ => false; CP.w_die := fun _ => false |}.

Example C11_ex_generated_expansions :
  CP.run CG.ovni_proc_init (rc_world UNINIT true) =
    ([CP.SCas UNINIT INIT; CP.SW Floom; CP.SW Fpid; CP.SW Fapp; CP.SW Fclockid; CP.SW Floomdir; CP.SW Ftmpdir; CP.SW Fmove;
      CP.SW Fprocdir; CP.SW Fprocdir_final; CP.SStore READY], CP.Next) /\
  CP.run CG.ovni_proc_init (rc_world READY false) = ([CP.SCas UNINIT INIT], CP.Died) /\
  CP.run CG.ovni_proc_fini (rc_world READY false) = ([CP.SCas READY GONE; CP.SR Fmove], CP.Next) /\
  CP.run CG.ovni_proc_fini (rc_world GONE true) = ([CP.SCas READY GONE], CP.Died) /\
  CP.run CG.ovni_thread_init (rc_world READY false) =
    ([CP.SLoad; CP.SR Fprocdir; CP.SR Fmove; CP.SR Fprocdir; CP.SR Fpid; CP.SR Floom; CP.SR Fapp; CP.SR Fprocdir], CP.Next) /\
  CP.run CG.ovni_thread_init (rc_world INIT false) = ([CP.SLoad], CP.Died) /\
  CP.run CG.ovni_thread_free (rc_world READY true) = ([CP.SR Fprocdir; CP.SR Fmove], CP.Next) /\
  CP.straight (rc_world UNINIT true).
Proof. vm_compute. repeat split. Qed.
(* ==== end of block (unit rtconc) ==== *)
