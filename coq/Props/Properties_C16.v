(* C16 - ovnisort yields a stable sorted permutation and touches only what it must.
   Only statements here; proofs are in Proofs/WinsortProofs.v; model and spec in Tools/WinsortDefs.v.

   winsort n evs      = `ovnisort -n n` on one stream (None = exit status <> 0)
   check_mode evs     = `ovnisort -c`
   loader_accepts evs = the emulator's stream loader (monotone int64 clocks)
   pre n evs          = spec scanner over the ORIGINAL stream: clocks never decrease outside region
                        bodies, a body event is never later than its OU], the stream does not end
                        inside a region, and for every non-empty region
                          |body| + #{earlier events (OU[ included) with clock >= min body clock} + 2 <= n
                        (the ring keeps n-1 events; the destination must be STRICTLY older).
                        All clocks are compared as uint64 (cmp_ev too since /repo f327c17); pre only
                        records that a clock IS a uint64 (0 <= clock < 2^64), true of every decoded file.
                        Only the emulator's loader needs clocks < 2^63 (clk_ok).

   One clause of the property is false for the faithful model and for the real tool
   (C16_idempotent_refuted); the check replays it.  (A second one, failure on a stream without
   events, was repaired in /repo commit 4875105; corpus/C16/02 is its regression case.) *)
From Coq Require Import ZArith List Permutation.
From OV Require Import Tools.WinsortDefs Proofs.WinsortProofs.
Import ListNotations.
Local Open Scope Z_scope.

(* Under the precondition the tool succeeds and its output IS the stable sort by clock. *)
Theorem C16_sorts : forall n evs,
  pre n evs -> winsort n evs = Some (ssort evs).
Proof. exact winsort_is_ssort. Qed.
Print Assumptions C16_sorts.

Theorem C16_succeeds : forall n evs,
  pre n evs -> exists out, winsort n evs = Some out.
Proof. exact winsort_succeeds. Qed.
Print Assumptions C16_succeeds.

(* The postconditions, without reference to ssort: same events (bytes are carried by the events),
   non-decreasing clocks, equal-clock order preserved, everything before the earliest out-of-order
   position untouched, same number of events and same total byte size, check mode passes, and the
   emulator's loader accepts provided the clocks fit int64 (stream_step reads them as int64). *)
Theorem C16_postconditions : forall n evs out,
  pre n evs -> winsort n evs = Some out ->
  Permutation evs out /\ sorted out /\ stable evs out /\ prefix_untouched evs out /\
  length out = length evs /\ total_size out = total_size evs /\
  check_mode out = true /\
  (Forall (fun e => clk_ok e = true) evs -> loader_accepts out = true).
Proof. exact winsort_post. Qed.
Print Assumptions C16_postconditions.

(* "within the look-back window": a larger window never hurts.  The precondition is monotone in n and the
   result does not depend on n: every window at least as large gives the same bytes. *)
Theorem C16_window_monotone : forall n m evs, (n <= m)%nat -> pre n evs -> pre m evs.
Proof. exact pre_mono. Qed.
Print Assumptions C16_window_monotone.

Theorem C16_larger_window_same_output : forall n m evs,
  (n <= m)%nat -> pre n evs -> winsort m evs = winsort n evs /\ winsort m evs = Some (ssort evs).
Proof. exact winsort_larger_window. Qed.
Print Assumptions C16_larger_window_same_output.

(* sorted + stable leave no freedom: the specification fixes the output completely *)
Theorem C16_spec_determines_output : forall evs o1 o2,
  sorted o1 -> stable evs o1 -> sorted o2 -> stable evs o2 -> o1 = o2.
Proof. exact post_determines_output. Qed.
Print Assumptions C16_spec_determines_output.

(* Second run.  _partial: it never changes a byte, and it succeeds whenever the sorted stream still
   meets the precondition; but it may FAIL (C16_idempotent_refuted). *)
Theorem C16_idempotent_partial : forall n evs out,
  pre n evs -> winsort n evs = Some out ->
  (winsort n out = Some out \/ winsort n out = None) /\ (pre n out -> winsort n out = Some out).
Proof. exact winsort_idempotent_partial. Qed.
Print Assumptions C16_idempotent_partial.

(* FULL: forall n evs out, pre n evs -> winsort n evs = Some out -> winsort n out = Some out. *)
Theorem C16_idempotent_refuted :
  exists n evs out, pre n evs /\ evs <> [] /\ winsort n evs = Some out /\
                    check_mode out = true /\ sorted out /\ winsort n out = None.
Proof. exact winsort_idempotent_refuted. Qed.
Print Assumptions C16_idempotent_refuted.

(* any sorted stream (markers or not): a successful run leaves it as it is *)
Theorem C16_sorted_input_unchanged : forall n l out,
  sorted l -> winsort n l = Some out -> out = l.
Proof. exact winsort_sorted_input. Qed.
Print Assumptions C16_sorted_input_unchanged.

(* Failure side: the stream is inside the precondition up to the body of a region (scanner state
   PR s rb), the region is closed by t, and its proper position is outside the look-back window:
   the tool fails (whatever follows). *)
Theorem C16_fails_beyond_lookback : forall n l1 t rest p s rb,
  prun n pinit l1 = Some p -> p_mode p = PR s rb -> rb <> [] ->
  ends_unsorted_region t = true ->
  lookback_ok n (p_before p ++ [s]) (rev rb) = false ->
  winsort n (l1 ++ t :: rest) = None.
Proof. exact winsort_fails_beyond_lookback. Qed.
Print Assumptions C16_fails_beyond_lookback.

(* Unconditional (no precondition at all): a successful run only permutes events; size is kept *)
Theorem C16_never_loses_events : forall n evs out,
  winsort n evs = Some out -> Permutation evs out /\ total_size out = total_size evs.
Proof. exact winsort_permutation_always. Qed.
Print Assumptions C16_never_loses_events.

(* a stream without OU[ is left exactly as it is *)
Theorem C16_no_region_untouched : forall n evs,
  Forall (fun e => starts_unsorted_region e = false) evs -> winsort n evs = Some evs.
Proof. exact winsort_no_region. Qed.
Print Assumptions C16_no_region_untouched.

(* check mode passes exactly on sorted streams (the stream without events included) *)
Theorem C16_check_mode_iff : forall l, check_mode l = true <-> sorted l.
Proof. exact check_mode_iff. Qed.
Print Assumptions C16_check_mode_iff.

(* min_clock is the minimum (the spec's look-back condition uses it) *)
Theorem C16_min_clock_spec : forall l, l <> [] ->
  Forall (fun e => min_clock l <= clock e) l /\ exists e, In e l /\ clock e = min_clock l.
Proof. exact min_clock_spec. Qed.
Print Assumptions C16_min_clock_spec.

(* ---- non-vacuity: three regions (one empty; one internally unordered with equal clocks and a
   70016-byte jumbo event; one reaching the first event through equal clocks); -n exactly enough *)
Example C16_ex_pre : pre 18 ex1 /\ ex1 <> [].
Proof. split; [exact ex1_pre | discriminate]. Qed.
Example C16_ex_sorts : winsort 18 ex1 = Some ex1_out /\ ex1_out <> ex1 /\ total_size ex1_out = 70232.
Proof. split; [exact ex1_sorts | split; [exact ex1_changes | exact (proj1 ex1_size)]]. Qed.
Example C16_ex_again : winsort 18 ex1_out = Some ex1_out /\ check_mode ex1_out = true.
Proof. exact ex1_again. Qed.
Example C16_ex_too_small : preb 17 ex1 = false /\ winsort 17 ex1 = None.
Proof. exact ex1_too_small. Qed.

(* clocks on both sides of 2^63 are ordered as uint64 (the loader would refuse such a stream anyway) *)
Example C16_ex_uint64 : pre 6 ex2 /\
  winsort 6 ex2 = Some [Pl (B63 - 2) 0; Pl (B63 - 1) 3; Pl (B63 + 1) 4; Pl (B63 + 3) 1; Rs (B63 + 4) 2; Re (B63 + 4) 5]
  /\ loader_accepts ex2 = false.
Proof. exact ex2_sorts. Qed.

(* ---- outside the precondition (not demanded by the property, recorded as behaviour of the model):
   exit 0 with an unsorted stream when a body event is later than its OU], when an event outside any
   region is out of order, or when a region is never closed *)
Example C16_ex_silent_body_after_marker :
  winsort 9 [Pl 1 0; Rs 5 1; Pl 3 2; Pl 9 3; Re 6 4; Pl 7 5] = Some [Pl 1 0; Pl 3 2; Rs 5 1; Pl 9 3; Re 6 4; Pl 7 5]
  /\ check_mode [Pl 1 0; Pl 3 2; Rs 5 1; Pl 9 3; Re 6 4; Pl 7 5] = false.
Proof. exact silent_body_after_marker. Qed.
Example C16_ex_silent_outside_region : winsort 9 [Pl 5 0; Pl 3 1; Pl 7 2] = Some [Pl 5 0; Pl 3 1; Pl 7 2].
Proof. exact silent_outside_region. Qed.
Example C16_ex_silent_unterminated : winsort 9 [Pl 5 0; Rs 6 1; Pl 3 2; Pl 4 3] = Some [Pl 5 0; Rs 6 1; Pl 3 2; Pl 4 3].
Proof. exact silent_unterminated. Qed.

(* ---- the sort order is ovnisort.c:cmp_ev as translated from the C source.
   Translator unit cmp_winsort regenerates coq/Gen/Cmp_winsort_gen.v on every run: the comparison is
   Gallina translated from the C AST; the statements that read the two clocks (as uint64_t: the
   defect repaired by /repo f327c17 read them as int64_t) are pinned as text. *)
From OV Require Gen.Cmp_winsort_gen Proofs.CmpWinsortProofs.

Theorem C16_sort_order_from_source : forall l, isort_by clock l = CmpWinsortProofs.isort_by_src l.
Proof. exact CmpWinsortProofs.isort_by_clock_from_source. Qed.
Print Assumptions C16_sort_order_from_source.

(* equal clocks compare equal, so a stable qsort keeps their relative order; otherwise the sign follows the clocks *)
Theorem C16_cmp_ev_three_way : forall a b,
  Cmp_winsort_gen.cmp_ev_core a b = CmpPre.cmp3 a b /\ (Cmp_winsort_gen.cmp_ev_core a b = 0 <-> a = b).
Proof. exact (fun a b => conj (CmpWinsortProofs.cmp_ev_core_cmp3 a b) (CmpWinsortProofs.cmp_ev_core_eq a b)). Qed.
Print Assumptions C16_cmp_ev_three_way.


(* ==== window sort from source (unit winsort) ==== *)
(* starts_unsorted_region, ends_unsorted_region, ring_reset, ring_add, ring_check, find_destination,
   execute_sort_plan, the per-event body of stream_winsort AND stream_check are regenerated from src/emu/ovnisort.c statement by
   statement (translate/units/winsort.py -> Gen/Winsort_gen.v over Tools/WinsortPre.v).  The two circular loops are
   the primitive bounded iteration for_loop around the TRANSLATED condition, step and body; `struct sortplan sp` is
   the one plan of the state, the char state an integer; the loop `while ((ret = stream_step(stream)) == 0)` (header
   checked by the translator) is the fold of the translated body over the delivered events (WinsortPre.run_winsort);
   find_min_clock / sort_buf / write_stream / rebuild_ring / malloc / free are primitives with the meaning
   WinsortDefs gives them; an event pointer is the index of the event in the file.
   Hypotheses of the whole-stream theorems: n >= 2 (-n 0 is not modelled, -n 1 remembers nothing), every event has a
   positive encoded size and the file is smaller than 2^63 bytes (both hold of any decoded stream: C19). *)
From OV Require Tools.WinsortPre Gen.Winsort_gen Proofs.WinsortGenProofs.

(* (1) the circular buffer ev[] / head / tail / size = n holds exactly the last min(len, n-1) events: after len events
   the event with index k sits in slot k mod n (Rep); ring_reset / ring_add as generated establish / preserve it *)
Theorem C16_ring_from_source :
  (forall sx st n, (1 <= n)%nat -> WinsortPre.r_size (WinsortPre.ring st) = Z.of_nat n ->
     length (WinsortPre.r_ev (WinsortPre.ring st)) = n ->
     exists g, Winsort_gen.ring_reset (Some tt) sx st = WinsortPre.Done tt (WinsortPre.with_ring st g) /\
               WinsortGenProofs.Rep n 0 g) /\
  (forall sx st n len, WinsortGenProofs.Rep n len (WinsortPre.ring st) ->
     exists g, Winsort_gen.ring_add (Some tt) (Some len) sx st = WinsortPre.Done tt (WinsortPre.with_ring st g) /\
               WinsortGenProofs.Rep n (S len) g).
Proof. exact WinsortGenProofs.ring_from_source. Qed.
Print Assumptions C16_ring_from_source.

(* (2) the generated find_destination is the model's: a slot holding the first event of the window (newest entry with
   a strictly lower clock; the ring start when the ring is not yet full), -1 exactly when the model finds none *)
Theorem C16_find_destination_from_source : forall n len sx st rd m,
  (2 <= n)%nat -> WinsortGenProofs.Rep n len (WinsortPre.ring st) -> (1 <= len)%nat -> length rd = len ->
  (forall j, (j < len)%nat -> nth j rd WinsortPre.ev0 = nth (len - 1 - j) (WinsortPre.file st) WinsortPre.ev0) ->
  exists i0, Winsort_gen.find_destination (Some tt) m sx st = WinsortPre.Done i0 st /\
    match find_destination n rd m with
    | Some w => 0 <= i0 /\ WinsortPre.ix_ptr_ev (WinsortPre.r_ev (WinsortPre.ring st)) i0 = Some (len - w)%nat /\
                (1 <= w <= len)%nat /\ i0 = Z.of_nat (len - w) mod Z.of_nat n /\
                (w <= WinsortGenProofs.remembered n len)%nat
    | None => i0 = -1
    end.
Proof. exact WinsortGenProofs.find_destination_gen. Qed.
Print Assumptions C16_find_destination_from_source.

(* (3) execute_sort_plan, refusal AND success: with the region body = the k newest processed events, the generated
   function is the model's exec_plan_r: -1 before anything is written (PlanNoDest); otherwise the window
   [first, next) is overwritten in place by its stable sort by clock, the ring is unchanged (so still Rep: pointers
   are event indices), and ring_check dies exactly when the model's does (PlanDie) *)
Theorem C16_sort_plan_from_source : forall n len k sx st rd,
  (2 <= n)%nat -> WinsortGenProofs.Rep n len (WinsortPre.ring st) -> WinsortGenProofs.Abs st len rd -> (1 <= k <= len)%nat ->
  WinsortPre.sp_bad0 (WinsortPre.plan st) = Some (len - k)%nat -> WinsortPre.sp_next (WinsortPre.plan st) = Some len ->
  WinsortGenProofs.sizes_ok (WinsortPre.file st) -> total_size (WinsortPre.file st) < 2 ^ 63 ->
  match exec_plan_r n k rd with
  | PlanNoDest => Winsort_gen.execute_sort_plan (Some tt) sx st = WinsortPre.Fail WinsortPre.E_FAIL
  | PlanDie _ => Winsort_gen.execute_sort_plan (Some tt) sx st = WinsortPre.Fail WinsortPre.E_DIE
  | PlanOk rd' =>
      exists st', Winsort_gen.execute_sort_plan (Some tt) sx st = WinsortPre.Done tt st' /\
        WinsortPre.ring st' = WinsortPre.ring st /\ WinsortPre.plan st' = WinsortPre.plan st /\
        WinsortGenProofs.Abs st' len rd' /\
        skipn len (WinsortPre.file st') = skipn len (WinsortPre.file st) /\
        length (WinsortPre.file st') = length (WinsortPre.file st) /\
        WinsortGenProofs.sizes_ok (WinsortPre.file st') /\ total_size (WinsortPre.file st') = total_size (WinsortPre.file st)
  end.
Proof. exact WinsortGenProofs.execute_sort_plan_gen. Qed.
Print Assumptions C16_sort_plan_from_source.

(* (4) one iteration of the loop of stream_winsort = one step of the region machine: in state S an OU[ opens (U);
   in U an OU] closes an empty region, anything else becomes bad0 (X); in X an OU] runs the plan on the events
   since bad0 and fails with it, anything else extends the region; every delivered event is then added to the ring.
   Inv: ring representation, processed prefix, char state / bad0 against WS / WU / WX k *)
Theorem C16_winsort_step_from_source : forall n st len w c,
  (2 <= n)%nat -> WinsortGenProofs.Inv n st len w c -> (len < length (WinsortPre.file st))%nat ->
  match wstep n w (nth len (WinsortPre.file st) WinsortPre.ev0),
        Winsort_gen.stream_winsort_body (Some tt) (Some tt) c (Some len) st with
  | Some w', WinsortPre.Done (WinsortPre.LCont c') st' =>
      WinsortGenProofs.Inv n st' (S len) w' c' /\
      skipn (S len) (WinsortPre.file st') = skipn (S len) (WinsortPre.file st) /\
      length (WinsortPre.file st') = length (WinsortPre.file st)
  | None, WinsortPre.Fail _ => True
  | _, _ => False
  end.
Proof. exact WinsortGenProofs.body_step. Qed.
Print Assumptions C16_winsort_step_from_source.

(* whole streams: ring_reset, then the fold of the generated body over the events = WinsortDefs.winsort: same
   success / failure, same resulting file (end of stream inside a region: nothing more is sorted, exit 0, in both) *)
Theorem C16_winsort_from_source : forall n evs,
  (2 <= n)%nat -> WinsortGenProofs.sizes_ok evs -> total_size evs < 2 ^ 63 ->
  WinsortGenProofs.gen_winsort n evs = winsort n evs.
Proof. exact WinsortGenProofs.winsort_from_source. Qed.
Print Assumptions C16_winsort_from_source.

(* hence C16_sorts, C16_postconditions and C16_never_loses_events hold of the generated code *)
Theorem C16_generated_code_sorts : forall n evs,
  (2 <= n)%nat -> WinsortGenProofs.sizes_ok evs -> total_size evs < 2 ^ 63 ->
  pre n evs -> WinsortGenProofs.gen_winsort n evs = Some (ssort evs).
Proof. exact WinsortGenProofs.gen_sorts. Qed.
Print Assumptions C16_generated_code_sorts.

Theorem C16_generated_code_postconditions : forall n evs out,
  (2 <= n)%nat -> WinsortGenProofs.sizes_ok evs -> total_size evs < 2 ^ 63 ->
  pre n evs -> WinsortGenProofs.gen_winsort n evs = Some out ->
  Permutation evs out /\ sorted out /\ stable evs out /\ prefix_untouched evs out /\
  length out = length evs /\ total_size out = total_size evs /\
  check_mode out = true /\
  (Forall (fun e => clk_ok e = true) evs -> loader_accepts out = true).
Proof. exact WinsortGenProofs.gen_postconditions. Qed.
Print Assumptions C16_generated_code_postconditions.

Theorem C16_generated_code_never_loses_events : forall n evs out,
  (2 <= n)%nat -> WinsortGenProofs.sizes_ok evs -> total_size evs < 2 ^ 63 ->
  WinsortGenProofs.gen_winsort n evs = Some out -> Permutation evs out /\ total_size out = total_size evs.
Proof. exact WinsortGenProofs.gen_never_loses. Qed.
Print Assumptions C16_generated_code_never_loses_events.

(* -c: stream_check regenerated the same way (the statements before the loop, the loop body, the statements after it;
   the loop a fold over the delivered events) is check_mode; so it passes exactly on sorted streams *)
Theorem C16_check_mode_from_source : forall evs,
  WinsortGenProofs.gen_check evs = check_mode evs /\ (WinsortGenProofs.gen_check evs = true <-> sorted evs).
Proof.
  intros evs. split; [apply WinsortGenProofs.check_from_source|].
  rewrite WinsortGenProofs.check_from_source. apply check_mode_iff.
Qed.
Print Assumptions C16_check_mode_from_source.

(* executed: the non-vacuity stream with -n 18 / -n 17, and the stream of C16_idempotent_refuted with -n 5 - the first
   run sorts, the second run on the sorted file fails, for the generated code too *)
Example C16_ex_generated_runs :
  WinsortGenProofs.gen_winsort 18 ex1 = Some ex1_out /\ WinsortGenProofs.gen_winsort 17 ex1 = None /\
  WinsortGenProofs.gen_winsort 5 WinsortProofs.idem_witness = Some WinsortProofs.idem_sorted /\
  WinsortGenProofs.gen_winsort 5 WinsortProofs.idem_sorted = None /\
  Forall (fun e => 0 <? esize e = true) ex1 /\ total_size ex1 < 2 ^ 63 /\
  WinsortGenProofs.gen_check ex1 = false /\ WinsortGenProofs.gen_check ex1_out = true.
Proof. vm_compute. repeat split; try reflexivity; repeat constructor. Qed.
(* ==== end of block (unit winsort) ==== *)
