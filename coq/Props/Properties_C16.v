From Coq Require Import ZArith List.
From OV Require Import Tools.WinsortDefs Proofs.WinsortProofs.
Import ListNotations.

Theorem C16_empty : forall n, winsort n [] = None.
Proof. exact winsort_empty. Qed.
Print Assumptions C16_empty.
