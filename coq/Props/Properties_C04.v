(* C04 - Thread life-cycle: accepted traces follow the documented thread state machine.
   Model: Emu/EmuCoreDefs.v (oh_step = src/emu/ovni/event.c pre_thread_*, thread.c, cpu.c),
   spec: Emu/ThreadSpecDefs.v (fsm, spec_step).  Proofs: Proofs/ThreadCpuProofs.v, Proofs/EmuCoreWf.v. *)
From Coq Require Import ZArith List Bool.
From OV Require Import Emu.GuardsPre.
From OV Require Import Emu.EmuCoreDefs Emu.ThreadSpecDefs Proofs.EmitProofs Proofs.EmuCoreProofs
  Proofs.ThreadCpuProofs Proofs.EmuCoreWf Proofs.TotalProofs.
From OV Require Gen.Guards_gen Proofs.GuardsProofs Emu.DecodeDefs.
Import ListNotations.
Local Open Scope Z_scope.

(* for every history h over execute/pause/resume/cool/warm/end (and the affinity events) on any number of threads
   and CPUs, with any subset of models enabled, the emulator - handlers, channel propagation and PRV writer - accepts h
   <->  every event is a legal transition of the documented machine, every thread is dead at the end and no
   physical CPU is ever oversubscribed.  OhStatic: thread and process ids are non-zero (the loader demands it) and
   the PRV flags of the model channels let a repeated value through (C04_side_conditions_hold: true of the specs
   of the current source for all 256 subsets of models). *)
Theorem C04_accepted_iff_documented_machine : forall sx lint h,
  types_ok sx -> any_init_ok sx -> OhStatic sx ->
  is_ok (run sx lint (oh_events h)) = spec_accepts sx (untimed h).
Proof. exact run_accepts_iff_spec. Qed.
Print Assumptions C04_accepted_iff_documented_machine.

(* the same at the level of the event handlers with their per-CPU thread lists *)
Theorem C04_handlers_iff_documented_machine : forall sx h,
  emu_accepts sx h = spec_accepts sx h.
Proof. exact emu_accepts_iff_spec. Qed.
Print Assumptions C04_handlers_iff_documented_machine.

(* the PRV layer never refuses what the handlers accept (from any reachable state of such a history) *)
Theorem C04_prv_never_refuses : forall sx st ls who e st1,
  wf_keys sx -> OhStatic sx -> Inv sx st ls -> RawInit sx st ->
  oh_step sx st who e = Ok st1 ->
  exists res, emit_all (prv_last st1) (all_reqs sx st st1 []) = Ok res.
Proof. exact oh_emit_total. Qed.
Print Assumptions C04_prv_never_refuses.

(* one step: same verdict and same (state, CPU) of every thread, and the bookkeeping stays consistent *)
Theorem C04_step_simulation : forall sx st who e,
  Bind sx st ->
  match oh_step sx st who e with
  | Ok st' => spec_step sx (proj st) who e = Some (proj st') /\ Bind sx st'
  | Err _ => spec_step sx (proj st) who e = None
  end.
Proof. exact sim_step. Qed.
Print Assumptions C04_step_simulation.

(* timeline: after every prefix of an accepted run of the complete model (handlers + propagation + PRV),
   the state row shows the state of the machine, the TID row the TID exactly while running, cooling or
   warming, the affinity row the bound CPU *)
Theorem C04_timeline : forall sx evs1 evs2 st tl,
  types_ok sx -> any_init_ok sx ->
  run_from sx (init sx) (evs1 ++ evs2) = Ok (st, tl) ->
  exists st1 tl1, run_from sx (init sx) evs1 = Ok (st1, tl1) /\
    forall t, (t < length (s_threads sx))%nat ->
      let th := nth t (threads st1) dummy_thread in
      let ls := lines_of tl1 in
      shown ls (false, t, PRV_THREAD_STATE) = tst_code (t_state th) /\
      shown ls (false, t, PRV_THREAD_TID) = (if is_active (t_state th) then ti_tid (nth t (s_threads sx) dummy_info) else 0) /\
      shown ls (false, t, PRV_THREAD_CPU) = (match t_cpu th with Some c => Z.of_nat c + 1 | None => 0 end).
Proof. exact thread_rows. Qed.
Print Assumptions C04_timeline.

(* the side conditions hold for the channel specs of every subset of the models in the source *)
Theorem C04_side_conditions_hold :
  forallb (fun en => types_okb (DecodeDefs.mk_chans en) && any_init_okb (DecodeDefs.mk_chans en)) (sublists all_models) = true /\
  forallb (fun en => forallb spec_safeb (DecodeDefs.mk_chans en)) (sublists all_models) = true.
Proof. exact (conj dumped_specs_ok dumped_specs_safe). Qed.
Print Assumptions C04_side_conditions_hold.

(* non-vacuity: a two-thread history that is accepted, one that oversubscribes, one with an illegal transition *)
Definition sx2 : static :=
  {| s_threads := [{| ti_tid := 7; ti_pid := 1; ti_loom := 0; ti_appid := 1; ti_rank := -1 |}; {| ti_tid := 8; ti_pid := 1; ti_loom := 0; ti_appid := 1; ti_rank := -1 |}];
     s_cpus := [{| ci_virtual := false; ci_loom := 0; ci_index := 0 |}; {| ci_virtual := true; ci_loom := 0; ci_index := -1 |}];
     s_chans := []; s_lint := false |}.
Example C04_ex_accept :
  emu_accepts sx2 [(0%nat, Execute 0); (1%nat, Execute (-1)); (0%nat, Cool); (0%nat, Pause); (1%nat, AffSet 0);
                   (0%nat, Warm); (1%nat, End_); (0%nat, Resume); (0%nat, End_)] = true.
Proof. vm_compute. reflexivity. Qed.
Example C04_ex_oversub : emu_accepts sx2 [(0%nat, Execute 0); (1%nat, Execute 0)] = false.
Proof. vm_compute. reflexivity. Qed.
Example C04_ex_illegal : spec_accepts sx2 [(0%nat, Execute 0); (0%nat, Warm)] = false.
Proof. vm_compute. reflexivity. Qed.

(* the hypotheses of the main theorem are satisfiable: two threads, the base model and nOS-V enabled *)
Definition sx3 : static :=
  {| s_threads := s_threads sx2; s_cpus := s_cpus sx2; s_chans := DecodeDefs.mk_chans [DecodeDefs.M_OVNI; DecodeDefs.M_NOSV]; s_lint := true |}.
Example C04_ex_hyps : types_okb (s_chans sx3) = true /\ any_init_okb (s_chans sx3) = true /\ forallb spec_safeb (s_chans sx3) = true /\
  is_ok (run sx3 [] (oh_events [(1, 0%nat, Execute 0); (2, 1%nat, Execute (-1)); (3, 0%nat, Cool); (4, 0%nat, End_); (5, 1%nat, End_)])) = true.
Proof. vm_compute. repeat split. Qed.

(* ---------------------------------------------------------------------------------------------
   The tie to the source.  Gen/Guards_gen.v is regenerated on every run by translate/units/guards.py
   from src/emu/ovni/event.c: one Gallina definition per C function, statement by statement, in the
   monad of Emu/GuardsPre.v (thread_set_state, thread_set_cpu, cpu_add_thread, cpu_remove_thread,
   cpu_update, ... are primitives with a hand-written meaning).  The theorems below say that these
   generated functions compute what the hand model oh_step computes: same accepted state, or both
   reject, and the generated code never dereferences NULL.  A changed guard, a changed order of the
   calls or a changed constant in the C changes Guards_gen.v and breaks them.
   GInv: a bound thread is in the list of its CPU and no CPU is oversubscribed (part of the invariant
   Bind, which C04_step_simulation shows is kept by every accepted event). *)

(* the six thread handlers pre_thread_execute/end/pause/resume/cool/warm generated from the source = oh_step *)
Theorem C04_handlers_from_source : forall sx st who th,
  nth_error (threads st) who = Some th -> GuardsProofs.GInv sx st -> t_ooc th = false ->
  (forall e, e_who e = who ->
     outcome_of (exec (Guards_gen.pre_thread_execute e (Some who)) sx st) =
     outcome_of (if Nat.ltb (length (e_payload e)) 4 then Err E_PAYLOAD
                 else oh_step sx st who (Execute (pl_i32 (e_payload e) 0)))) /\
  outcome_of (exec (Guards_gen.pre_thread_end (Some who)) sx st) = outcome_of (oh_step sx st who End_) /\
  outcome_of (exec (Guards_gen.pre_thread_pause (Some who)) sx st) = outcome_of (oh_step sx st who Pause) /\
  outcome_of (exec (Guards_gen.pre_thread_resume (Some who)) sx st) = outcome_of (oh_step sx st who Resume) /\
  outcome_of (exec (Guards_gen.pre_thread_cool (Some who)) sx st) = outcome_of (oh_step sx st who Cool) /\
  outcome_of (exec (Guards_gen.pre_thread_warm (Some who)) sx st) = outcome_of (oh_step sx st who Warm).
Proof. exact GuardsProofs.six_handlers_eq. Qed.
Print Assumptions C04_handlers_from_source.

(* the dispatcher model_ovni_event -> pre_thread generated from the source (out-of-CPU guard, switch on the
   event value, payload size of OHx, OHC accepted and ignored, unknown values refused) = the decoder
   followed by the handler of the hand model, for every value byte and every payload *)
Theorem C04_dispatch_from_source : forall sx st who th me cs v p,
  nth_error (threads st) who = Some th -> nth_error (s_threads sx) who = Some me -> GuardsProofs.GInv sx st ->
  outcome_of (exec (Guards_gen.model_ovni_event (GuardsProofs.mk_emu who 72 v p)) sx st) =
  outcome_of (GuardsProofs.fst_res (core_step sx st who (DecodeDefs.decode_ovni cs 72 v p))).
Proof. exact (fun sx st who th me cs v p Hth Hme HI => GuardsProofs.dispatch_eq sx st who th me cs 72 v p Hth Hme HI (or_introl eq_refl)). Qed.
Print Assumptions C04_dispatch_from_source.

(* whole histories, no hypothesis on the state: from the initial state, the generated dispatcher and the hand
   model accept the same sequences of raw OH*/OA* events (any value bytes, any payloads, threads of the trace)
   and end in the same state *)
Theorem C04_histories_from_source : forall sx cs evs,
  Forall (GuardsProofs.raw_ok sx) evs ->
  outcome_of (GuardsProofs.gen_run sx (init sx) evs) = outcome_of (GuardsProofs.model_run sx cs (init sx) evs).
Proof. exact GuardsProofs.gen_run_init_eq. Qed.
Print Assumptions C04_histories_from_source.

(* the generated handlers evaluated: x on the physical CPU, c, p, w, r, e is accepted and leaves thread 0 dead and
   unbound; a second execute while running is refused; GInv holds initially *)
Example C04_ex_generated_accepts :
  match GuardsProofs.gen_run GuardsProofs.gx (init GuardsProofs.gx)
          [(0%nat, 72, 120, GuardsProofs.i32le 0); (0%nat, 72, 99, []); (0%nat, 72, 112, []); (0%nat, 72, 119, []);
           (0%nat, 72, 114, []); (0%nat, 72, 101, [])] with
  | Ok st => (tst_eqb (t_state (nth 0 (threads st) dummy_thread)) Dead, t_cpu (nth 0 (threads st) dummy_thread), cpu_threads st)
  | Err _ => (false, None, [])
  end = (true, None, [[]; []]).
Proof. vm_compute. reflexivity. Qed.
Example C04_ex_generated_refuses :
  outcome_of (GuardsProofs.gen_run GuardsProofs.gx (init GuardsProofs.gx)
                [(0%nat, 72, 120, GuardsProofs.i32le 0); (0%nat, 72, 120, GuardsProofs.i32le (-1))]) = Reject /\
  outcome_of (GuardsProofs.gen_run GuardsProofs.gx (init GuardsProofs.gx)
                [(0%nat, 72, 120, GuardsProofs.i32le 0); (0%nat, 72, 119, [])]) = Reject /\
  outcome_of (GuardsProofs.gen_run GuardsProofs.gx (init GuardsProofs.gx)
                [(0%nat, 72, 120, GuardsProofs.i32le 0); (1%nat, 72, 120, GuardsProofs.i32le 0)]) = Reject.
Proof. vm_compute. repeat split. Qed.

(* ==== thread.c / cpu.c from source (unit sys) ==== *)
(* Gen/Sys_gen.v (translate/units/sys.py) renders thread_set_state, thread_set_cpu, thread_unset_cpu,
   thread_migrate_cpu (thread.c), cpu_update - its DL_FOREACH2 traversal as a fold_left -, cpu_add_thread,
   cpu_remove_thread, cpu_migrate_thread (cpu.c) and once more the handlers of ovni/event.c, now calling these
   generated functions, over the C world of Emu/SysPre.v: threads and CPUs with their C fields and their system
   channels; chan_set on such a channel is the chan_set generated from chan.c (Gen/Chan_gen.v) run on it.
   SysProofs.Rel0 sx st w: w is the C world at the start of an event in semantic state st (fields = the model's,
   every system channel flushed and showing the model's view).  SysProofs.Rel sx st st' syn w': the world during /
   after the event: fields = those of st'; a thread channel untouched or dirty with the view in st'; the CPUs in
   syn were updated and their five channels hold v_nrun, v_cpupid, v_cputid, th_running and the unique active
   thread of st'.  So the primitives thread_set_state ... cpu_update of Emu/GuardsPre.v, that
   C04_handlers_from_source is stated over, are no longer postulated: the generated C refines them
   (SysProofs.sys_thread_set_state, sys_thread_set_cpu, sys_thread_unset_cpu, sys_thread_migrate_cpu,
   sys_cpu_update, sys_cpu_add_thread, sys_cpu_remove_thread), their refusals "same state again" / "same CPU again"
   being chan.c's refusal of a repeated value. *)
From OV Require Emu.ChanPre Emu.SysPre Gen.Sys_gen Proofs.SysProofs.
Theorem C04_event_in_c_world_from_source : forall (E : SysPre.senv) st w t cs v p,
  let sx := SysPre.se_sx E in
  SysProofs.Rel0 sx st w -> Bind sx st ->
  length (cpu_touched st) = length (cpu_threads st) ->
  (forall k, Z.of_nat (length (SysProofs.clst st k)) + 1 < 2 ^ 31) ->
  (t < length (threads st))%nat ->
  match GuardsProofs.fst_res (core_step sx st t (DecodeDefs.decode_ovni cs 72 v p)) with
  | Ok st' => exists w' syn, SysPre.exec (Sys_gen.model_ovni_event (GuardsProofs.mk_emu t 72 v p)) E w = Ok w' /\ SysProofs.Rel sx st st' syn w' /\
              SysProofs.Quiet sx st st' syn
  | Err _ => exists e', SysPre.exec (Sys_gen.model_ovni_event (GuardsProofs.mk_emu t 72 v p)) E w = Err e' /\ e' <> SysPre.E_TRAP
  end.
Proof. exact SysProofs.sys_thread_event_eq. Qed.
Print Assumptions C04_event_in_c_world_from_source.

(* whole histories: the generated dispatcher for every event, then the flush of the dirty channels
   (SysProofs.flush_world: what chan_flush generated from chan.c does to each of them, SysProofs.flush_generated),
   started in the initial C world, against the model's run.  run_ok: the events are thread / affinity events of
   threads of the trace, and no OAr targets the CPU its remote thread is already on. *)
Theorem C04_histories_in_c_world_from_source : forall (E : SysPre.senv) cs evs,
  let sx := SysPre.se_sx E in
  Z.of_nat (length (s_threads sx)) + 1 < 2 ^ 31 -> SysProofs.run_ok sx cs (init sx) evs ->
  match GuardsProofs.model_run sx cs (init sx) evs with
  | Ok st' => exists w', SysProofs.sys_run E (SysProofs.w_init sx) evs = Ok w' /\ SysProofs.Rel0 sx st' w'
  | Err _ => exists e', SysProofs.sys_run E (SysProofs.w_init sx) evs = Err e' /\ e' <> SysPre.E_TRAP
  end.
Proof. exact SysProofs.sys_run_init_eq. Qed.
Print Assumptions C04_histories_in_c_world_from_source.

(* the end-of-event flush keeps the relation: after it every system channel is clean and shows the view in the new
   state (Quiet: the channels the event did not write already showed it) *)
Theorem C04_flush_in_c_world : forall sx st0 st' syn w',
  SysProofs.Rel sx st0 st' syn w' -> SysProofs.Quiet sx st0 st' syn -> SysProofs.Rel0 sx st' (SysProofs.flush_world w').
Proof. exact SysProofs.flush_Rel0. Qed.
Print Assumptions C04_flush_in_c_world.

(* the initial C world (threads Unknown and unbound, channels never written) is such a start *)
Theorem C04_initial_c_world : forall sx, SysProofs.Rel0 sx (init sx) (SysProofs.w_init sx).
Proof. exact SysProofs.init_Rel0. Qed.
Print Assumptions C04_initial_c_world.

(* thread_set_state generated from thread.c refines the primitive, for every target state a handler uses: same
   refusals (no CPU; the state the thread already has - from chan.c), same fields, the state and TID channels
   written as the model's views *)
Theorem C04_thread_set_state_from_source : forall (E : SysPre.senv) st0 st w t s c0 c1 c2,
  SysProofs.Rel (SysPre.se_sx E) st0 st [] w -> (t < length (threads st))%nat -> s <> Unknown ->
  SysPre.s_chans (SysPre.sth w t) = [c0; c1; c2] -> ChanPre.is_dirty c1 = 0 -> ChanPre.is_dirty c2 = 0 ->
  match GuardsPre.thread_set_state (Some t) (tst_code s) (SysPre.se_sx E) st with
  | Ok (_, st') => exists w', Sys_gen.thread_set_state (Some t) (tst_code s) E w = Ok (tt, w') /\
                              st' = set_thread st t (with_state (SysProofs.thrst st t) s) /\
                              SysProofs.Rel (SysPre.se_sx E) st0 st' [] w' /\ SysProofs.frame_thread w w' t /\
                              nth 0 (SysPre.s_chans (SysPre.sth w' t)) c0 = c0
  | Err e => exists e', Sys_gen.thread_set_state (Some t) (tst_code s) E w = Err e' /\ e' <> SysPre.E_TRAP
  end.
Proof. exact (fun E st0 st w t s c0 c1 c2 HR Ht => SysProofs.sys_thread_set_state E st0 st w t HR Ht s c0 c1 c2). Qed.
Print Assumptions C04_thread_set_state_from_source.
(* ==== end of block (unit sys) ==== *)

(* ==== thread life-cycle in the whole emulator (EmuAllStage) ==== *)
(* C04 through the composition of all models (EmuAllDefs.ovniemu_model = EmuAllStage.stage; emulate, see Properties_C12.v).
   For a whole trace whose delivered events decode to thread / affinity events only (decode_revs .. = oh_events h):
   C04_all_accept_only_if (full): ovniemu_model answers Files => every stage passed (stage inp = inr ..: loader gates, every
     stream structurally valid, merge, probe, marks, clock table, player without backward jump) AND the merged history h
     satisfies the right-hand side of C04_accepted_iff_documented_machine: every event a legal transition of the documented
     machine, every thread dead at the end, no physical CPU oversubscribed.
   C04_all_accept_iff_partial: the iff.  The "if" direction takes ONE unproved link as a hypothesis,
     EmuAllStage.writer_follows: the Paraver writer accepts what the emulator core accepts (rec_advance on the player's
     non-decreasing times, rec_write on every line the core emits - C13_registration_total gives the connect part, the
     "every emitted (row,type) was registered" part is not proved).  C04_all_stage_refusal: if stage refuses, so does the emulator.
   Side conditions, all about the static description of the built system (stage_sx): types_ok, any_init_ok, OhStatic - the
   hypotheses of C04_accepted_iff_documented_machine (C04_side_conditions_hold discharges the first two and the flag part of the
   third for the specs of the current source; thread and process ids are non-zero by the loader's gates). *)
From OV Require Emu.EmuAllDefs Proofs.EmuAllStage.
Theorem C04_all_accept_only_if : forall inp out, EmuAllDefs.ovniemu_model inp = EmuAllDefs.Files out ->
  exists sys en ms revs, EmuAllStage.stage inp = inr (sys, en, ms, revs) /\ EmuAllStage.stage_emulate inp sys en ms revs = Ok out /\
    forall h, EmuAllProofs.decode_revs en (EmuAllStage.stage_sx inp sys en ms) revs = oh_events h ->
      types_ok (EmuAllStage.stage_sx inp sys en ms) -> any_init_ok (EmuAllStage.stage_sx inp sys en ms) -> OhStatic (EmuAllStage.stage_sx inp sys en ms) ->
      spec_accepts (EmuAllStage.stage_sx inp sys en ms) (untimed h) = true.
Proof. exact EmuAllStage.all_accept_only_if. Qed.
Print Assumptions C04_all_accept_only_if.

Theorem C04_all_accept_iff_partial : forall inp sys en ms revs h, EmuAllStage.stage inp = inr (sys, en, ms, revs) ->
  EmuAllProofs.decode_revs en (EmuAllStage.stage_sx inp sys en ms) revs = oh_events h ->
  types_ok (EmuAllStage.stage_sx inp sys en ms) -> any_init_ok (EmuAllStage.stage_sx inp sys en ms) -> OhStatic (EmuAllStage.stage_sx inp sys en ms) ->
  ((exists out, EmuAllDefs.ovniemu_model inp = EmuAllDefs.Files out) -> spec_accepts (EmuAllStage.stage_sx inp sys en ms) (untimed h) = true) /\
  (EmuAllStage.writer_follows inp sys en ms revs -> spec_accepts (EmuAllStage.stage_sx inp sys en ms) (untimed h) = true ->
     exists out, EmuAllDefs.ovniemu_model inp = EmuAllDefs.Files out).
Proof. exact EmuAllStage.all_accept_iff_partial. Qed.
Print Assumptions C04_all_accept_iff_partial.

Theorem C04_all_stage_refusal : forall inp w, EmuAllStage.stage inp = inl w -> EmuAllDefs.ovniemu_model inp = EmuAllDefs.Refused w.
Proof. exact EmuAllStage.stage_refusal_refuses. Qed.
Print Assumptions C04_all_stage_refusal.

(* C04_all_accept_iff (FULL): the unproved link of C04_all_accept_iff_partial is discharged by PvWriterTotal.emulate_total
   (C13_writer_follows_core: after connect every (row, type) the core can emit has a registered PRV channel, recorder_advance
   accepts non-decreasing times, finish without task types and close cannot fail).  For a trace whose delivered events are
   thread / affinity events: ovniemu_model answers Files  <->  [the stage passed: every stream.json through the gates, every
   stream.obs valid, merge, probe, marks, clock table, player]  AND  the merged history is legal for the documented machine,
   every thread dead at the end, no physical CPU oversubscribed.  Side conditions, all listed: types_ok / any_init_ok / OhStatic
   of the static description (as in C04_accepted_iff_documented_machine); marks_ok + marks_fine of the merged mark types (ids
   0..99, distinct, titles / labels short and without newline, distinct label values); sys_small (fewer than 2^31 CPUs, ids that
   fit the C types); the delivered times are non-decreasing (what the player guarantees: C03). *)
From OV Require Proofs.EmuAllC04 Proofs.PvTotalProofs Proofs.PvProofs.
Theorem C04_all_accept_iff : forall inp sys en ms revs h, EmuAllStage.stage inp = inr (sys, en, ms, revs) ->
  let sx := EmuAllStage.stage_sx inp sys en ms in
  EmuAllProofs.decode_revs en sx revs = oh_events h ->
  types_ok sx -> any_init_ok sx -> OhStatic sx ->
  PvProofs.marks_ok ms -> PvTotalProofs.marks_fine ms -> PvTotalProofs.sys_small sys ->
  Sorted.StronglySorted Z.le (map PrvProofs.ev_time (oh_events h)) ->
  ((exists out, EmuAllDefs.ovniemu_model inp = EmuAllDefs.Files out) <-> spec_accepts sx (untimed h) = true).
Proof. exact EmuAllC04.all_accept_iff. Qed.
Print Assumptions C04_all_accept_iff.
(* ==== end of block (EmuAllStage) ==== *)
