(* C04 - Thread life-cycle: accepted traces follow the documented thread state machine.
   Model: Emu/EmuCoreDefs.v (oh_step = src/emu/ovni/event.c pre_thread_*, thread.c, cpu.c),
   spec: Emu/ThreadSpecDefs.v (fsm, spec_step).  Proofs: Proofs/ThreadCpuProofs.v, Proofs/EmuCoreWf.v. *)
From Coq Require Import ZArith List Bool.
From OV Require Import Emu.EmuCoreDefs Emu.ThreadSpecDefs Proofs.EmitProofs Proofs.EmuCoreProofs
  Proofs.ThreadCpuProofs Proofs.EmuCoreWf Proofs.TotalProofs.
Import ListNotations.
Local Open Scope Z_scope.

(* for every history h over execute/pause/resume/cool/warm/end (and the affinity events) on any number of threads
   and CPUs, with any subset of models enabled, the emulator - handlers, channel propagation and PRV writer - accepts h
   <->  every event is a legal transition of the documented machine, every thread is dead at the end and no
   physical CPU is ever oversubscribed.  OhStatic: thread and process ids are non-zero (the loader demands it) and
   the PRV flags of the model channels let a repeated value through (C04_side_conditions_hold: true of the specs
   of the current source for all 256 subsets of models). *)
Theorem C04_accepted_iff_documented_machine : forall sx lint h,
  types_ok sx -> any_init_ok sx -> OhStatic sx ->
  is_ok (run sx lint (oh_events h)) = spec_accepts sx (untimed h).
Proof. exact run_accepts_iff_spec. Qed.
Print Assumptions C04_accepted_iff_documented_machine.

(* the same at the level of the event handlers with their per-CPU thread lists *)
Theorem C04_handlers_iff_documented_machine : forall sx h,
  emu_accepts sx h = spec_accepts sx h.
Proof. exact emu_accepts_iff_spec. Qed.
Print Assumptions C04_handlers_iff_documented_machine.

(* the PRV layer never refuses what the handlers accept (from any reachable state of such a history) *)
Theorem C04_prv_never_refuses : forall sx st ls who e st1,
  wf_keys sx -> OhStatic sx -> Inv sx st ls -> RawInit sx st ->
  oh_step sx st who e = Ok st1 ->
  exists res, emit_all (prv_last st1) (all_reqs sx st st1 []) = Ok res.
Proof. exact oh_emit_total. Qed.
Print Assumptions C04_prv_never_refuses.

(* one step: same verdict and same (state, CPU) of every thread, and the bookkeeping stays consistent *)
Theorem C04_step_simulation : forall sx st who e,
  Bind sx st ->
  match oh_step sx st who e with
  | Ok st' => spec_step sx (proj st) who e = Some (proj st') /\ Bind sx st'
  | Err _ => spec_step sx (proj st) who e = None
  end.
Proof. exact sim_step. Qed.
Print Assumptions C04_step_simulation.

(* timeline: after every prefix of an accepted run of the complete model (handlers + propagation + PRV),
   the state row shows the state of the machine, the TID row the TID exactly while running, cooling or
   warming, the affinity row the bound CPU *)
Theorem C04_timeline : forall sx evs1 evs2 st tl,
  types_ok sx -> any_init_ok sx ->
  run_from sx (init sx) (evs1 ++ evs2) = Ok (st, tl) ->
  exists st1 tl1, run_from sx (init sx) evs1 = Ok (st1, tl1) /\
    forall t, (t < length (s_threads sx))%nat ->
      let th := nth t (threads st1) dummy_thread in
      let ls := lines_of tl1 in
      shown ls (false, t, PRV_THREAD_STATE) = tst_code (t_state th) /\
      shown ls (false, t, PRV_THREAD_TID) = (if is_active (t_state th) then ti_tid (nth t (s_threads sx) dummy_info) else 0) /\
      shown ls (false, t, PRV_THREAD_CPU) = (match t_cpu th with Some c => Z.of_nat c + 1 | None => 0 end).
Proof. exact thread_rows. Qed.
Print Assumptions C04_timeline.

(* the side conditions hold for the channel specs of every subset of the models in the source *)
Theorem C04_side_conditions_hold :
  forallb (fun en => types_okb (DecodeDefs.mk_chans en) && any_init_okb (DecodeDefs.mk_chans en)) (sublists all_models) = true /\
  forallb (fun en => forallb spec_safeb (DecodeDefs.mk_chans en)) (sublists all_models) = true.
Proof. exact (conj dumped_specs_ok dumped_specs_safe). Qed.
Print Assumptions C04_side_conditions_hold.

(* non-vacuity: a two-thread history that is accepted, one that oversubscribes, one with an illegal transition *)
Definition sx2 : static :=
  {| s_threads := [{| ti_tid := 7; ti_pid := 1; ti_loom := 0; ti_appid := 1; ti_rank := -1 |}; {| ti_tid := 8; ti_pid := 1; ti_loom := 0; ti_appid := 1; ti_rank := -1 |}];
     s_cpus := [{| ci_virtual := false; ci_loom := 0; ci_index := 0 |}; {| ci_virtual := true; ci_loom := 0; ci_index := -1 |}];
     s_chans := []; s_lint := false |}.
Example C04_ex_accept :
  emu_accepts sx2 [(0%nat, Execute 0); (1%nat, Execute (-1)); (0%nat, Cool); (0%nat, Pause); (1%nat, AffSet 0);
                   (0%nat, Warm); (1%nat, End_); (0%nat, Resume); (0%nat, End_)] = true.
Proof. vm_compute. reflexivity. Qed.
Example C04_ex_oversub : emu_accepts sx2 [(0%nat, Execute 0); (1%nat, Execute 0)] = false.
Proof. vm_compute. reflexivity. Qed.
Example C04_ex_illegal : spec_accepts sx2 [(0%nat, Execute 0); (0%nat, Warm)] = false.
Proof. vm_compute. reflexivity. Qed.

(* the hypotheses of the main theorem are satisfiable: two threads, the base model and nOS-V enabled *)
Definition sx3 : static :=
  {| s_threads := s_threads sx2; s_cpus := s_cpus sx2; s_chans := DecodeDefs.mk_chans [DecodeDefs.M_OVNI; DecodeDefs.M_NOSV]; s_lint := true |}.
Example C04_ex_hyps : types_okb (s_chans sx3) = true /\ any_init_okb (s_chans sx3) = true /\ forallb spec_safeb (s_chans sx3) = true /\
  is_ok (run sx3 [] (oh_events [(1, 0%nat, Execute 0); (2, 1%nat, Execute (-1)); (3, 0%nat, Cool); (4, 0%nat, End_); (5, 1%nat, End_)])) = true.
Proof. vm_compute. repeat split. Qed.
