(* C15 - Metadata merge is distribution-independent; conflicts are refused cleanly.
   Only statements here; proofs are in Proofs/MetaProofs.v; the model and the Spec
   (same_union, contradictory, rank_names_proc) are in Emu/MetaDefs.v. *)
From Coq Require Import ZArith List.
From OV Require Import Emu.MetaDefs Proofs.MetaProofs.
Import ListNotations.
Local Open Scope Z_scope.

(* The code as it is without patches/fix-c15-load-cpus.diff (model MetaDefs.Unfixed):
   a contradiction crashes instead of being refused ... *)
Theorem C15_conflicts_refuted : exists m, contradictory m /\ Unfixed.build m = Crash.
Proof. exact unfixed_conflict_crashes. Qed.
Print Assumptions C15_conflicts_refuted.

(* ... and two distributions of the same valid union give a crash and a system. *)
Theorem C15_union_refuted :
  exists m1 m2 sys, same_union m1 m2 /\ rank_names_proc m1 /\ Unfixed.build m1 = Crash /\ Unfixed.build m2 = Ok sys.
Proof. exact unfixed_union_crashes. Qed.
Print Assumptions C15_union_refuted.
